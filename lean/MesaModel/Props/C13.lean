import MesaModel.Proofs.Batch
/-!
# C13 — batch_run covers the whole design once and reports consistent rows

Property theorems only (helper lemmas: `Proofs/Batch.lean`, `Proofs/Collect.lean`; models:
`Model/Batch.lean` on top of `Model/Collect.lean`).

`κ` is the (opaque) type of parameter values.  A model class `cls : Kwargs κ → Prog` maps the
constructor's keyword arguments to reporter dictionaries, tables, a constructor body and a step body
(arbitrary histories of DataCollector ops: collect at construction and/or inside step, agents created
and removed, early stop).  "By hand" is `Collect.run` on `histOf p k` = constructor body followed by `k`
times (`steps += 1`, step body); `storedSnaps` are the model snapshots at its storing collects.
-/
namespace Mesa.Batch
open Mesa.Collect

/-- `_make_model_kwargs`: a string or a non-iterable is a single value, everything else is iterated; an
    empty list / tuple / set is rejected; otherwise the result is the cartesian product — as many dicts as
    the product of the numbers of values, a dict is in it iff it picks for every parameter, in order, one
    of that parameter's values, and no dict occurs twice when no parameter lists a value twice. -/
theorem C13_kwargs_product (params : List (Nat × PVal κ)) :
    ((∃ p ∈ params, p.2 = .sized []) → makeKwargs params = .error .value) ∧
    ((∀ p ∈ params, p.2 ≠ .sized []) →
      ∃ kws, makeKwargs params = .ok kws ∧
        kws.length = prodLen (params.map fun p => (p.1, p.2.valuesT)) ∧
        (∀ kw, kw ∈ kws ↔ Chooses kw (params.map fun p => (p.1, p.2.valuesT))) ∧
        ((∀ p ∈ params, p.2.valuesT.Nodup) → kws.Nodup)) := by
  refine ⟨fun h => by simp [makeKwargs, paramLists_err params h], fun h => ?_⟩
  refine ⟨_, by simp only [makeKwargs, paramLists_ok params h], product_length _, mem_product _, ?_⟩
  intro hn
  apply product_nodup
  intro p hp
  obtain ⟨q, hq, rfl⟩ := List.mem_map.mp hp
  exact hn q hq

/-- Strings and non-iterables are single values: a parameter dict of such values yields exactly one run
    configuration, the dict itself. -/
theorem C13_single_values (params : List (Nat × PVal κ))
    (h : ∀ p ∈ params, (∃ v, p.2 = .str v) ∨ (∃ v, p.2 = .scalar v)) :
    ∃ kw, makeKwargs params = .ok [kw] ∧ kw.map (·.1) = params.map (·.1) ∧
      ∀ e ∈ kw, ∃ p ∈ params, p.1 = e.1 ∧ (p.2 = .str e.2 ∨ p.2 = .scalar e.2) := by
  induction params with
  | nil => exact ⟨[], rfl, rfl, by simp⟩
  | cons x xs ih =>
    obtain ⟨n, pv⟩ := x
    obtain ⟨kw, hk, hn, hv⟩ := ih (fun p hp => h p (by simp [hp]))
    have hk' : paramLists xs = .ok (xs.map fun p => (p.1, p.2.valuesT)) ∧
        product (xs.map fun p => (p.1, p.2.valuesT)) = [kw] := by
      have hne : ∀ p ∈ xs, p.2 ≠ .sized [] := by
        intro p hp e
        rcases h p (by simp [hp]) with ⟨v, hv⟩ | ⟨v, hv⟩ <;> rw [hv] at e <;> cases e
      have := paramLists_ok xs hne
      refine ⟨this, ?_⟩
      simp only [makeKwargs, this, Except.ok.injEq] at hk
      exact hk
    rcases h (n, pv) (by simp) with ⟨v, rfl⟩ | ⟨v, rfl⟩
    · refine ⟨(n, v) :: kw, ?_, by simp [hn], ?_⟩
      · simp [makeKwargs, paramLists, PVal.values, hk'.1, product, hk'.2]
      · intro e he
        rcases List.mem_cons.mp he with rfl | he
        · exact ⟨(n, .str v), by simp, rfl, Or.inl rfl⟩
        · obtain ⟨p, hp, h1, h2⟩ := hv e he
          exact ⟨p, by simp [hp], h1, h2⟩
    · refine ⟨(n, v) :: kw, ?_, by simp [hn], ?_⟩
      · simp [makeKwargs, paramLists, PVal.values, hk'.1, product, hk'.2]
      · intro e he
        rcases List.mem_cons.mp he with rfl | he
        · exact ⟨(n, .scalar v), by simp, rfl, Or.inr rfl⟩
        · obtain ⟨p, hp, h1, h2⟩ := hv e he
          exact ⟨p, by simp [hp], h1, h2⟩

/-- The work list: every kwargs dict once per iteration (iterations outermost), labelled with the distinct
    RunIds `0, 1, …, iterations * |kwargs| - 1` in that order. -/
theorem C13_run_list (kws : List (Kwargs κ)) (iterations : Nat) :
    (runList kws iterations).map (·.runId) = List.range (iterations * kws.length) ∧
    (runList kws iterations).map (fun r => (r.iteration, r.kwargs)) =
      (List.range iterations).flatMap (fun it => kws.map fun kw => (it, kw)) ∧
    ((runList kws iterations).map (·.runId)).Nodup := by
  have hlen : ((List.range iterations).flatMap fun it => kws.map fun kw => (it, kw)).length =
      iterations * kws.length := by
    rw [length_flatMap_const _ _ kws.length (by simp)]; simp
  have h1 : (runList kws iterations).map (·.runId) = List.range (iterations * kws.length) := by
    rw [runList, number_runIds, hlen]; simp
  exact ⟨h1, number_pairs _ _, h1 ▸ List.nodup_range⟩

/-- Parallel execution hands the runs' row lists back in an arbitrary order (any `number_processes`, any
    worker completion order): for every permutation of the work list the result is a permutation of the
    serial result — the same multiset of rows — and `batch_run` never fails for a period ≠ 0. -/
theorem C13_parallel_perm_serial (cls : Kwargs κ → Prog) (maxSteps : Nat) (period : Int) (hp : period ≠ 0)
    (runs order : List (Run κ)) (h : order.Perm runs) :
    ∃ r₁ r₂, batchOrder cls maxSteps period order = .ok r₁ ∧ batchOrder cls maxSteps period runs = .ok r₂ ∧
      r₁.Perm r₂ :=
  ⟨_, _, batchOrder_total cls maxSteps period hp order, batchOrder_total cls maxSteps period hp runs,
    List.Perm.flatMap_right _ h⟩

/-- Each model is stepped until it stops or has taken `max_steps` steps, and what `batch_run` then reads is
    the state of the same model constructed and stepped by hand (`hand p k` = the history `init ++ k × (step :: body)`
    run on a fresh model) exactly `k = stepsTaken p max_steps ≤ max_steps` times — and `k` is pinned: at every
    `j < k` the hand-stepped model was still running and below `max_steps` (no step is skipped, the loop does not
    run on after a stop), at `k` it has stopped or reached `max_steps`, and `k` is the only number with these two
    properties.  (`step ∉ body`: the user's step does not call the wrapped `step` again.) -/
theorem C13_steps_taken (p : Prog) (maxSteps : Nat) :
    ((runModel p maxSteps).running = false ∨ maxSteps ≤ (runModel p maxSteps).steps) ∧
    (Op.step ∉ p.body → (runModel p maxSteps).steps ≤ max maxSteps (construct p).steps) ∧
    (Op.step ∉ p.body → Op.step ∉ p.init → (runModel p maxSteps).steps ≤ maxSteps) ∧
    ∃ k ≤ maxSteps, k = stepsTaken p maxSteps ∧
      runModel p maxSteps = run p.cfg (Collect.init p.cfg p.tables) (histOf p k) ∧
      (∀ j < k, (hand p j).running = true ∧ (hand p j).steps < maxSteps) ∧
      ((hand p k).running = false ∨ maxSteps ≤ (hand p k).steps) ∧
      ∀ k', (∀ j < k', (hand p j).running = true ∧ (hand p j).steps < maxSteps) →
        ((hand p k').running = false ∨ maxSteps ≤ (hand p k').steps) → k' = k := by
  refine ⟨loop_done p maxSteps maxSteps _ (by omega), fun h => loop_steps_le p maxSteps h _ _, ?_, ?_⟩
  · intro hb hi
    have h0 : (construct p).steps = 0 := by
      rw [construct, run_steps_eq _ _ _ hi]; rfl
    have := loop_steps_le p maxSteps hb maxSteps (construct p)
    rw [h0] at this
    simpa [runModel] using this
  · obtain ⟨k, hk, he, hmin, hstop⟩ := runModel_eq_run_min p maxSteps
    have hgo : ∀ s : State, goOn maxSteps s = true ↔ (s.running = true ∧ s.steps < maxSteps) := by
      intro s; simp [goOn]
    have hst : ∀ s : State, goOn maxSteps s = false ↔ (s.running = false ∨ maxSteps ≤ s.steps) := by
      intro s
      unfold goOn
      cases s.running <;> simp
    have hk' : stepsTaken p maxSteps = k := by
      have h1 := (runModel_eq_hand p maxSteps)
      -- both are the first hand-stepped state at which the loop condition fails
      unfold stepsTaken
      rw [find?_range_first _ _ k (by omega) (by simp [hstop]) (fun j hj => by simp [hmin j hj])]
      rfl
    refine ⟨k, hk, hk'.symm, he, fun j hj => (hgo _).mp (hmin j hj), (hst _).mp hstop, ?_⟩
    intro k' hmin' hstop'
    rcases Nat.lt_trichotomy k' k with h | h | h
    · have := (hgo _).mp (hmin k' h)
      rcases hstop' with h1 | h1
      · rw [h1] at this; exact absurd this.1 (by simp)
      · omega
    · exact h
    · have := hmin' k h
      rcases (hst _).mp hstop with h1 | h1
      · rw [h1] at this; exact absurd this.1 (by simp)
      · omega

/-- **Exactly these rows.**  For a run whose reporters never raise (`Total`) and a period ≠ 0, `_model_run_func`
    returns — no row more, no row less, in this order — for each position `i` that `picks` selects among the stored
    collections `snaps` of the model stepped by hand `stepsTaken` times (`C13_steps_taken`; the positions are
    characterised by `C13_reported_collections`): one row per agent row recorded under that collection's step
    (`rowsOfSnap`: RunId, iteration, Step = the collection's step, the kwargs, the model reporters evaluated on the
    collection's snapshot, AgentID and agent values), or a single row without agent part when nothing is recorded.
    (`rowsSpec`, which `C13_batch_run_exact` concatenates, is by definition this list.) -/
theorem C13_run_rows_exact (cls : Kwargs κ → Prog) (maxSteps : Nat) (period : Int) (hp : period ≠ 0) (r : Run κ)
    (hT : Total (cls r.kwargs).cfg) :
    let p := cls r.kwargs
    let snaps := storedSnaps p.cfg (Collect.init p.cfg p.tables) (histOf p (stepsTaken p maxSteps))
    ∃ ps, picks snaps.length period = .ok ps ∧
      runRows cls maxSteps period r = .ok (ps.flatMap fun i => match snaps[i]? with
        | some sn => rowsOfSnap p.cfg snaps r sn
        | none => []) ∧
      (∀ i ∈ ps, ∃ sn, snaps[i]? = some sn ∧ rowsOfSnap p.cfg snaps r sn ≠ []) := by
  intro p snaps
  obtain ⟨ps, hps, hmem, _⟩ := picks_spec snaps.length period hp
  have hr := runRows_eq_rowsSpec cls maxSteps period hp r hT
  refine ⟨ps, hps, ?_, ?_⟩
  · rw [hr]; simp only [rowsSpec]
    show Except.ok (match picks snaps.length period with
      | .ok ps => ps.flatMap fun i => match snaps[i]? with
        | some sn => rowsOfSnap p.cfg snaps r sn
        | none => []
      | .error _ => []) = _
    rw [hps]
  · intro i hi
    have hlt := ((hmem i).mp hi).1
    refine ⟨snaps[i], List.getElem?_eq_getElem hlt, ?_⟩
    obtain ⟨row, hrow, _⟩ := rowsOfColl_has_row r snaps[i].steps (p.cfg.mreps.map fun m => m.eval snaps[i])
      (if p.cfg.areps.isEmpty then []
       else ((lastWith (fun x => x.steps == snaps[i].steps) snaps).map (agentRows p.cfg)).getD [])
    intro e
    unfold rowsOfSnap at e
    rw [e] at hrow
    simp at hrow

/-- Every row of a run repeats the run's id, iteration and parameters, and its Step label, model-level
    values and agent-level values all come from one collection `sn` of the model stepped by hand: the label
    is the step at which `sn` was taken, the model values are the model reporters evaluated on `sn`, and the
    agent part — for a model that collects at most once per step value (C13's quantifier: at construction
    and/or inside step) — is the id and the reporter values of an agent registered in `sn`.  `Total`: the
    reporters never raise (C13's quantifier); the last example of this file shows what a collect that raised
    and was swallowed by the model does to the rows. -/
theorem C13_rows_from_one_collection (cls : Kwargs κ → Prog) (maxSteps : Nat) (period : Int) (r : Run κ)
    (hT : Total (cls r.kwargs).cfg) (rows : List (BRow κ)) (h : runRows cls maxSteps period r = .ok rows) :
    ∃ k ≤ maxSteps,
      let p := cls r.kwargs
      let snaps := storedSnaps p.cfg (Collect.init p.cfg p.tables) (histOf p k)
      runModel p maxSteps = run p.cfg (Collect.init p.cfg p.tables) (histOf p k) ∧
      ∀ row ∈ rows, row.runId = r.runId ∧ row.iteration = r.iteration ∧ row.kwargs = r.kwargs ∧
        ∃ sn ∈ snaps, row.step = sn.steps ∧ row.model = p.cfg.mreps.map (fun m => m.eval sn) ∧
          ((snaps.map (·.steps)).Nodup → ∀ id vals, row.agent = some (id, vals) →
            ∃ ag ∈ sn.agents, id = ag.id ∧ vals = p.cfg.areps.map fun a => a.eval sn ag) := by
  have hp : period ≠ 0 := by
    intro e
    subst e
    simp [runRows, picks] at h
  obtain ⟨k, hk, he, hh⟩ := holds_runModel (cls r.kwargs) hT maxSteps
  refine ⟨k, hk, he, ?_⟩
  obtain ⟨ps, hps, hr⟩ := runRows_of_holds cls maxSteps period hp r _ hh
  rw [hr] at h
  cases h
  intro row hrow
  obtain ⟨i, _, hrow⟩ := List.mem_flatMap.mp hrow
  cases hsn : (storedSnaps (cls r.kwargs).cfg (Collect.init (cls r.kwargs).cfg (cls r.kwargs).tables)
      (histOf (cls r.kwargs) k))[i]? with
  | none => simp [hsn] at hrow
  | some sn =>
    simp only [hsn] at hrow
    have hmem : sn ∈ storedSnaps (cls r.kwargs).cfg (Collect.init (cls r.kwargs).cfg (cls r.kwargs).tables)
        (histOf (cls r.kwargs) k) := List.mem_of_getElem? hsn
    unfold rowsOfSnap at hrow
    obtain ⟨h1, h2, h3, h4, h5, h6⟩ := mem_rowsOfColl hrow
    refine ⟨h1, h2, h3, sn, hmem, h4, h5, ?_⟩
    intro hnd id vals e
    rcases h6 with h6 | ⟨arow, harow, h6⟩
    · rw [h6] at e; cases e
    · rw [h6] at e
      simp only [Option.some.injEq, Prod.mk.injEq] at e
      obtain ⟨rfl, rfl⟩ := e
      split at harow
      · simp at harow
      · rw [lastWith_of_nodup_keys (·.steps) _ hnd sn hmem] at harow
        simp only [Option.map_some, Option.getD_some, agentRows] at harow
        obtain ⟨ag, hag, rfl⟩ := List.mem_map.mp harow
        exact ⟨ag, hag, rfl, rfl⟩

/-- The run's last collected state is reported: if the model stepped by hand collected at all, some row
    carries the step label and the model values of its last collection (for every period ≠ 0). -/
theorem C13_last_state_reported (cls : Kwargs κ → Prog) (maxSteps : Nat) (period : Int) (r : Run κ)
    (hT : Total (cls r.kwargs).cfg) (rows : List (BRow κ)) (h : runRows cls maxSteps period r = .ok rows) :
    ∃ k ≤ maxSteps,
      let p := cls r.kwargs
      let snaps := storedSnaps p.cfg (Collect.init p.cfg p.tables) (histOf p k)
      runModel p maxSteps = run p.cfg (Collect.init p.cfg p.tables) (histOf p k) ∧
      ∀ sn, snaps.getLast? = some sn →
        ∃ row ∈ rows, row.step = sn.steps ∧ row.model = p.cfg.mreps.map fun m => m.eval sn := by
  have hp : period ≠ 0 := by
    intro e
    subst e
    simp [runRows, picks] at h
  obtain ⟨k, hk, he, hh⟩ := holds_runModel (cls r.kwargs) hT maxSteps
  refine ⟨k, hk, he, ?_⟩
  intro sn hlast
  generalize hs : storedSnaps (cls r.kwargs).cfg (Collect.init (cls r.kwargs).cfg (cls r.kwargs).tables)
      (histOf (cls r.kwargs) k) = snaps at hh hlast
  obtain ⟨ps, hps, hr⟩ := runRows_of_holds cls maxSteps period hp r _ hh
  rw [hr] at h
  cases h
  obtain ⟨ps', hps', hmem, _⟩ := picks_spec snaps.length period hp
  rw [hps] at hps'
  cases hps'
  have hne : snaps ≠ [] := by intro e; subst e; simp at hlast
  have hlen : 0 < snaps.length := List.length_pos_iff.mpr hne
  have hin : snaps.length - 1 ∈ ps := (hmem _).mpr ⟨by omega, Or.inr rfl⟩
  have hget : snaps[snaps.length - 1]? = some sn := by
    rw [List.getLast?_eq_getElem?] at hlast; exact hlast
  obtain ⟨row, hrow, h1, h2⟩ := rowsOfColl_has_row r sn.steps ((cls r.kwargs).cfg.mreps.map fun m => m.eval sn)
    (if (cls r.kwargs).cfg.areps.isEmpty then []
     else ((lastWith (fun x => x.steps == sn.steps) snaps).map (agentRows (cls r.kwargs).cfg)).getD [])
  refine ⟨row, List.mem_flatMap.mpr ⟨_, hin, ?_⟩, h1, h2⟩
  simp only [hget]
  exact hrow

/-- Which collections are reported: every `period`-th one (by position) and always the last; each once. -/
theorem C13_reported_collections (n : Nat) (period : Int) (hp : period ≠ 0) :
    ∃ ps, picks n period = .ok ps ∧ ps.Pairwise (· < ·) ∧
      ∀ i, i ∈ ps ↔ i < n ∧ ((0 < period ∧ i % period.toNat = 0) ∨ i = n - 1) := by
  obtain ⟨ps, h1, h2, h3⟩ := picks_spec n period hp
  exact ⟨ps, h1, h3, h2⟩

/-- `batch_run` calls `_make_model_kwargs` once per iteration.  For re-iterable parameter values (everything C13
    quantifies over: scalars, strings, lists, tuples, ranges, dicts) every call yields the same configurations, so
    the work list is `runList kws iterations` — the one `C13_run_list` describes; an empty list / tuple / set is
    rejected before any model is built (iterations ≥ 1); `iterations = 0` runs nothing (`runList kws 0 = []`, by
    definition of the loop: not a claim of this theorem). -/
theorem C13_iterations_reiterable (cls : Kwargs κ → Prog) (params : List (Nat × PVal κ)) (n maxSteps : Nat)
    (period : Int) (hre : ∀ p ∈ params, ∀ vs, p.2 ≠ .once vs) :
    (∀ kws, makeKwargs params = .ok kws →
      batchRun cls params n maxSteps period = batchOrder cls maxSteps period (runList kws n)) ∧
    (∀ e, makeKwargs params = .error e → batchRun cls params (n + 1) maxSteps period = .error e) := by
  have hre' : ∀ p ∈ params, p.2.spent = p.2 := by
    intro p hp
    have := hre p hp
    cases h2 : p.2 <;> simp_all [PVal.spent]
  refine ⟨?_, ?_⟩
  · intro kws hk
    simp only [batchRun, iterLoop_reiterable params kws hre' hk n 0, runList, Nat.zero_add]
  · intro e he
    simp only [batchRun, iterLoop, he]

/-- Outside the quantifier — what happens with a one-shot iterator (generator, `iter(...)`, `map`) among the parameter
    values: the first call of `_make_model_kwargs` consumes it, every later call finds it empty and yields no
    configuration.  Whatever `iterations ≥ 1` is asked for, the design is run exactly once (iteration 0, RunIds
    `0 … |kws|-1`); the replications are silently missing. -/
theorem C13_oneshot_parameters (cls : Kwargs κ → Prog) (params : List (Nat × PVal κ)) (n maxSteps : Nat)
    (period : Int) (kws : List (Kwargs κ)) (hone : ∃ p ∈ params, ∃ vs, p.2 = .once vs)
    (hk : makeKwargs params = .ok kws) :
    batchRun cls params (n + 1) maxSteps period = batchOrder cls maxSteps period (runList kws 1) := by
  simp only [batchRun, iterLoop_oneshot params kws hk hone n 0, runList]
  simp

/-- With `number_processes > 1` the result is the concatenation of the runs' row lists in completion order
    (`results.extend(data)`; nothing is sorted): for every permutation `order` of a work list with distinct RunIds,
    the rows of each run stay together and in the run's own order, and selecting the rows of RunId `i` out of the
    parallel result gives exactly what the serial run gives — ordering the chunks by RunId restores the serial result. -/
theorem C13_parallel_rows_by_run (cls : Kwargs κ → Prog) (maxSteps : Nat) (period : Int) (hp : period ≠ 0)
    (runs order : List (Run κ)) (h : order.Perm runs) (hnd : (runs.map (·.runId)).Nodup) :
    ∃ rows serial, batchOrder cls maxSteps period order = .ok rows ∧
      batchOrder cls maxSteps period runs = .ok serial ∧
      rows = order.flatMap (runRowsT cls maxSteps period) ∧
      ∀ r ∈ runs, rows.filter (fun b => b.runId == r.runId) = runRowsT cls maxSteps period r ∧
        serial.filter (fun b => b.runId == r.runId) = runRowsT cls maxSteps period r := by
  refine ⟨_, _, batchOrder_total cls maxSteps period hp order, batchOrder_total cls maxSteps period hp runs, rfl, ?_⟩
  intro r hr
  have hnd' : (order.map (·.runId)).Nodup := (List.Perm.map _ h).nodup_iff.mpr hnd
  exact ⟨filter_flatMap_key Run.runId BRow.runId _ (runRowsT_runId cls maxSteps period) order hnd' r (h.mem_iff.mpr hr),
    filter_flatMap_key Run.runId BRow.runId _ (runRowsT_runId cls maxSteps period) runs hnd r hr⟩

/-- A completion order other than the submission order (`runp … late=j`, what the harness provokes with a slow design
    point): `lateOrder j` hands back the runs of one design point after all the others — it is a permutation of the
    work list, every run with other kwargs precedes every run of the late design point — and the observation made of it
    (`batchRunLate`: the chunks ordered by RunId) is exactly the serial `batchRun`: the rows repeat the parameters of
    their own run whatever the order in which the workers finish. -/
theorem C13_late_completion [DecidableEq κ] (cls : Kwargs κ → Prog) (params : List (Nat × PVal κ))
    (iterations maxSteps : Nat) (period : Int) (hp : period ≠ 0) (j : Nat) :
    (∀ runs : List (Run κ), (lateOrder j runs).Perm runs ∧
      ∀ r, runs[j]? = some r → ∃ a b, lateOrder j runs = a ++ b ∧ (∀ x ∈ a, x.kwargs ≠ r.kwargs) ∧
        (∀ x ∈ b, x.kwargs = r.kwargs) ∧ r ∈ b) ∧
    batchRunLate cls params iterations maxSteps period j = batchRun cls params iterations maxSteps period := by
  have hperm : ∀ runs : List (Run κ), (lateOrder j runs).Perm runs := by
    intro runs
    unfold lateOrder
    cases hj : runs[j]? with
    | none => exact List.Perm.refl _
    | some r =>
      simp only
      exact (List.perm_append_comm).trans (List.filter_append_perm (fun x => decide (x.kwargs = r.kwargs)) runs)
  refine ⟨fun runs => ⟨hperm runs, ?_⟩, ?_⟩
  · intro r hj
    refine ⟨runs.filter (fun x => !(decide (x.kwargs = r.kwargs))), runs.filter (fun x => decide (x.kwargs = r.kwargs)),
      by simp only [lateOrder, hj], ?_, ?_, ?_⟩
    · intro x hx; simpa using (List.mem_filter.mp hx).2
    · intro x hx; simpa using (List.mem_filter.mp hx).2
    · exact List.mem_filter.mpr ⟨List.mem_of_getElem? hj, by simp⟩
  · unfold batchRunLate batchRun
    cases hw : iterLoop iterations 0 params with
    | error e => rfl
    | ok work =>
      simp only [batchOrder_total cls maxSteps period hp]
      congr 1
      have hnd : ((number 0 work).map (·.runId)).Nodup := by
        rw [number_runIds]; simpa using List.nodup_range
      have hnd' : ((lateOrder j (number 0 work)).map (·.runId)).Nodup :=
        (List.Perm.map _ (hperm _)).nodup_iff.mpr hnd
      have hids : List.range work.length = (number 0 work).map (·.runId) := by
        rw [number_runIds]; simp
      unfold byRunId
      rw [hids, List.flatMap_map]
      have hc : ∀ (l : List (Run κ)) (f g : Run κ → List (BRow κ)), (∀ r ∈ l, f r = g r) → l.flatMap f = l.flatMap g := by
        intro l f g h
        induction l with
        | nil => rfl
        | cons x xs ih =>
          simp only [List.flatMap_cons]
          rw [h x (by simp), ih (fun r hr => h r (by simp [hr]))]
      apply hc
      intro r hr
      exact filter_flatMap_key Run.runId BRow.runId _ (runRowsT_runId cls maxSteps period) _ hnd' r
        ((hperm _).mem_iff.mpr hr)

/-- Degenerate limits (`max_steps = 0`: `runModel p 0` is `construct p` by definition — no step is taken, what is
    reported is what the constructor collected; not a claim of this theorem).  A `data_collection_period` at least as large as the number `n` of collections the run made: exactly the first
    and the last collection are reported (once, if they are the same).  A run that never collected: no row. -/
theorem C13_degenerate_limits (n : Nat) (period : Int) :
    (0 < n → (n : Int) ≤ period → picks n period = .ok (if n = 1 then [0] else [0, n - 1])) ∧
    (period ≠ 0 → picks 0 period = .ok []) := by
  refine ⟨?_, ?_⟩
  · intro hn hle
    have hp0 : period ≠ 0 := by omega
    have hneg : ¬ period < 0 := by omega
    have hpn : n ≤ period.toNat := by omega
    unfold picks
    simp only [hp0, if_false, hneg, filter_mod_range n period.toNat hn hpn]
    by_cases h1 : n = 1
    · subst h1; simp
    · have : ¬ (0 = n - 1) := by omega
      simp [h1, this]; omega
  · intro hp0
    unfold picks
    by_cases hneg : period < 0 <;> simp [hp0, hneg]

/-- **`batch_run` itself.**  For a class whose reporters never raise, re-iterable parameter values and a period ≠ 0,
    `batch_run(number_processes=1)` returns exactly the concatenation, over the work list `runList kws iterations`
    (`C13_run_list`: every kwargs dict once per iteration, RunIds `0 … N-1`), of each run's rows `rowsSpec` — the rows
    `C13_run_rows_exact` writes out.  Nothing is dropped, duplicated or reordered. -/
theorem C13_batch_run_exact (cls : Kwargs κ → Prog) (params : List (Nat × PVal κ)) (n maxSteps : Nat) (period : Int)
    (hp : period ≠ 0) (hT : ∀ kw, Total (cls kw).cfg) (hre : ∀ p ∈ params, ∀ vs, p.2 ≠ .once vs)
    (kws : List (Kwargs κ)) (hk : makeKwargs params = .ok kws) :
    batchRun cls params n maxSteps period = .ok ((runList kws n).flatMap (rowsSpec cls maxSteps period)) := by
  rw [(C13_iterations_reiterable cls params n maxSteps period hre).1 kws hk, batchOrder_total cls maxSteps period hp]
  have : ∀ r : Run κ, runRowsT cls maxSteps period r = rowsSpec cls maxSteps period r := by
    intro r
    simp only [runRowsT, runRows_eq_rowsSpec cls maxSteps period hp r (hT r.kwargs)]
  rw [funext this]

/-! non-vacuity: a class that collects at construction and in step and stops early for one parameter value -/
section Example
def exCls (kw : Kwargs Nat) : Prog :=
  let n := (kw.lookup 0).getD 0
  { cfg := { mreps := [.fn fun sn => .ok (.int sn.steps)], areps := [.attr 0], treps := [],
             isAgentClass := fun _ => true, isSub := fun a b => a == b },
    tables := [], init := [.create 0 [(0, .int n)], .collect],
    body := [.aset 1 0 (.int 9), .collect, .stopAt n] }
example : makeKwargs [(0, PVal.sized [1, 5]), (1, PVal.str 7)] = .ok [[(0, 1), (1, 7)], [(0, 5), (1, 7)]] := rfl
example : makeKwargs [(0, PVal.sized ([] : List Nat))] = .error .value := rfl
example : (runList [[(0, 1)], [(0, 5)]] 2).map (fun r => (r.runId, r.iteration, r.kwargs)) =
    [(0, 0, [(0, 1)]), (1, 0, [(0, 5)]), (2, 1, [(0, 1)]), (3, 1, [(0, 5)])] := rfl
example : (batchRun exCls [(0, PVal.sized [1, 5])] 1 3 (-1)).toOption.map (·.map fun b => (b.runId, b.step, b.model, b.agent)) =
    some [(0, 1, [.int 1], some (1, [.int 9])), (1, 3, [.int 3], some (1, [.int 9]))] := by rfl
example : (batchRun exCls [(0, PVal.scalar 5)] 1 3 2).toOption.map (·.map fun b => (b.step, b.agent)) =
    some [(0, some (1, [.int 5])), (2, some (1, [.int 9])), (3, some (1, [.int 9]))] := by rfl
example : (batchRun exCls [(0, PVal.once [1, 5])] 3 3 (-1)).toOption.map (·.map fun b => (b.runId, b.iteration, b.step)) =
    some [(0, 0, 1), (1, 0, 3)] := by rfl
example : (batchRun exCls [(0, PVal.iter [1, 5])] 2 3 (-1)).toOption.map (·.map fun b => (b.runId, b.iteration, b.step)) =
    some [(0, 0, 1), (1, 0, 3), (2, 1, 1), (3, 1, 3)] := by rfl
example : (batchRun exCls [(0, PVal.scalar 5)] 1 0 7).toOption.map (·.map fun b => (b.step, b.agent)) =
    some [(0, some (1, [.int 5]))] := by rfl
example : picks 5 9 = .ok [0, 4] := by rfl
/-! the pinned step count and the written-out rows: the class stops at step `n` (n = 1: one step; n = 5 with
    max_steps 3: three steps); `rowsSpec` of the second run, period 2: collections 0, 2 and the last (3) -/
example : (stepsTaken (exCls [(0, 1)]) 3, stepsTaken (exCls [(0, 5)]) 3, stepsTaken (exCls [(0, 5)]) 0) = (1, 3, 0) := by decide
example : (rowsSpec exCls 3 2 ⟨1, 0, [(0, 5)]⟩).map (fun b => (b.runId, b.step, b.model, b.agent)) =
    [(1, 0, [.int 0], some (1, [.int 5])), (1, 2, [.int 2], some (1, [.int 9])), (1, 3, [.int 3], some (1, [.int 9]))] := by rfl
example : Total (exCls [(0, 5)]).cfg :=
  ⟨by intro r hr sn; simp [exCls] at hr; subst hr; rfl, by intro r hr sn ag; simp [exCls] at hr; subst hr; rfl,
   by intro x hx; simp [exCls] at hx⟩
/-! outside the quantifier: a `functools.partial` reporter that raises while attribute 0 is missing, in a model
    whose step swallows the exception of its collect.  The first collect (step 1) leaves `m0 = [1]` and nothing
    else; from then on position `i` of `m0` belongs to collection `i - 1` of `m1`: rows pair the model values of
    two different collections, and the Step label is that of the later one. -/
def exRaise (_ : Kwargs Nat) : Prog :=
  { cfg := { mreps := [.fn fun sn => .ok (.int sn.steps),
                       .part fun sn => match sn.attrs.lookup 0 with | some v => .ok v | none => .error .attr],
             areps := [], treps := [], isAgentClass := fun _ => true, isSub := fun a b => a == b },
    tables := [], init := [], body := [.collect, .mset 0 (.int 7)] }
example : (runModel (exRaise []) 3).modelVars = [[.int 1, .int 2, .int 3], [.int 7, .int 7]] := by decide
example : (runModel (exRaise []) 3).collSteps = [2, 3] := by decide
example : (batchRun exRaise ([] : List (Nat × PVal Nat)) 1 3 1).toOption.map (·.map fun b => (b.step, b.model)) =
    some [(2, [.int 1, .int 7]), (3, [.int 2, .int 7])] := by rfl
end Example

end Mesa.Batch
