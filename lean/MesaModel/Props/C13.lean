import MesaModel.Model.Batch
