import MesaModel.Proofs.Collect
/-!
# C12 — DataCollector records exactly what the model showed at each collect

Property theorems only (helper lemmas: `Proofs/Collect.lean`, model: `Model/Collect.lean`).

A *history* is any list of `Op`s (create / remove agents, `step`, set / mutate in place / delete model
and agent attributes, `collect`, `add_table_row`) applied to a fresh `DataCollector` for arbitrary
reporter dictionaries `cfg` (the four reporter forms at model, agent and agent-type level, each an
arbitrary function of the snapshot) and arbitrary tables.  `storedSnaps cfg s₀ ops` is the list of
model snapshots at those `collect` calls of the history that stored something (all of them except a
first one whose string reporter names a missing attribute: that call raises before storing anything).
-/
namespace Mesa.Collect

/-- Each collect appends exactly one value per model reporter — the reporter evaluated on the model as
    it was at that moment — and one entry to `_collection_steps`.  The history after the collect is
    arbitrary (attributes rebound, lists mutated in place, agents removed): what was stored is a function
    of the snapshots alone, so later mutation cannot reach it. -/
theorem C12_model_vars_are_snapshots (cfg : Cfg) (tables : List (Nat × List Nat)) (ops : List Op) :
    (run cfg (init cfg tables) ops).modelVars =
      cfg.mreps.map (fun r => (storedSnaps cfg (init cfg tables) ops).map r.eval) ∧
    (run cfg (init cfg tables) ops).collSteps = (storedSnaps cfg (init cfg tables) ops).map (·.steps) := by
  have h := holds_run (holds_init cfg tables) ops
  simp only [List.nil_append] at h
  exact ⟨h.modelVars, h.collSteps⟩

/-- Values stored by a prefix of a history are never touched by its continuation: every column after
    `ops₁ ++ ops₂` is the column after `ops₁` followed by what the collects of `ops₂` add. -/
theorem C12_stored_values_immune (cfg : Cfg) (tables : List (Nat × List Nat)) (ops₁ ops₂ : List Op) :
    (run cfg (init cfg tables) (ops₁ ++ ops₂)).modelVars =
      List.zipWith (· ++ ·) (run cfg (init cfg tables) ops₁).modelVars
        (cfg.mreps.map fun r => (storedSnaps cfg (run cfg (init cfg tables) ops₁) ops₂).map r.eval) := by
  rw [(C12_model_vars_are_snapshots cfg tables (ops₁ ++ ops₂)).1, (C12_model_vars_are_snapshots cfg tables ops₁).1,
    storedSnaps_append]
  generalize cfg.mreps = l
  induction l with
  | nil => rfl
  | cons r rs ih => simp

/-- A collect that stores records, under the current step, exactly one row per agent registered at that
    moment, in registry order: `(steps, unique_id, the values the agent reporters return for that agent)`. -/
theorem C12_collect_records_registered_agents (cfg : Cfg) (s : State) (hs : stores cfg s = true)
    (hne : cfg.areps ≠ []) :
    (collect cfg s).1.records.lookup s.steps = some (agentRows cfg s.snap) ∧
    (agentRows cfg s.snap).map (·.id) = s.agents.map (·.id) ∧
    ∀ row ∈ agentRows cfg s.snap, row.step = s.steps ∧
      ∃ ag ∈ s.agents, row.id = ag.id ∧ row.vals = cfg.areps.map fun r => r.eval s.snap ag := by
  have hne' : cfg.areps.isEmpty = false := by simpa using hne
  refine ⟨?_, ?_, ?_⟩
  · rw [(collect_fields hs).2.2.1]
    simp only [hne', Bool.false_eq_true, if_false, lookup_setKey_self]; rfl
  · simp [agentRows, mkRow, State.snap]
  · intro row hrow
    obtain ⟨ag, hag, rfl⟩ := List.mem_map.mp hrow
    exact ⟨rfl, ag, hag, rfl, rfl⟩

/-- Over a whole history `_agent_records` is a dict with strictly increasing step keys whose entry for
    step `k` is the rows of the last storing collect made at step `k` (several collects in one step
    overwrite each other); there is an entry exactly for the steps at which a collect stored. -/
theorem C12_agent_records_by_step (cfg : Cfg) (tables : List (Nat × List Nat)) (ops : List Op)
    (hne : cfg.areps ≠ []) :
    ((run cfg (init cfg tables) ops).records.map (·.1)).Pairwise (· < ·) ∧
    ∀ k, (run cfg (init cfg tables) ops).records.lookup k =
      (lastWith (fun sn => sn.steps == k) (storedSnaps cfg (init cfg tables) ops)).map (agentRows cfg) := by
  have h := holds_run (holds_init cfg tables) ops
  simp only [List.nil_append] at h
  have hne' : cfg.areps.isEmpty = false := by simpa using hne
  have hr := h.records
  simp only [hne', Bool.false_eq_true, if_false] at hr
  rw [hr]
  exact ⟨keys_assign_sorted _ _ _ h.sorted, fun k => lookup_assign _ _ _ k⟩

/-- The agent frame is a lossless re-indexing of those records: the rows of `_agent_records` concatenated
    in key order (= increasing step, rows of one step in registry order), one value per agent reporter. -/
theorem C12_agent_frame_is_records (cfg : Cfg) (tables : List (Nat × List Nat)) (ops : List Op)
    (hne : cfg.areps ≠ []) :
    agentFrame cfg (run cfg (init cfg tables) ops) =
      .ok ((run cfg (init cfg tables) ops).records.flatMap (·.2)) ∧
    ∀ row ∈ (run cfg (init cfg tables) ops).records.flatMap (·.2), row.vals.length = cfg.areps.length := by
  have hne' : cfg.areps.isEmpty = false := by simpa using hne
  refine ⟨by simp [agentFrame, hne'], ?_⟩
  intro row hrow
  obtain ⟨⟨k, rows⟩, hm, hr⟩ := List.mem_flatMap.mp hrow
  have hl := (C12_agent_records_by_step cfg tables ops hne).2
  have h := holds_run (holds_init cfg tables) ops
  simp only [List.nil_append] at h
  have hrec := h.records
  simp only [hne', Bool.false_eq_true, if_false] at hrec
  -- every entry of the dict was written by some collect
  have : ∀ e ∈ assign (·.steps) (agentRows cfg) (storedSnaps cfg (init cfg tables) ops),
      ∀ row ∈ e.2, row.vals.length = cfg.areps.length := by
    generalize storedSnaps cfg (init cfg tables) ops = snaps
    induction snaps using snoc_induction with
    | nil => simp [assign]
    | snoc l x ih =>
      rw [assign_snoc]
      intro e he
      rcases mem_setKey he with rfl | he
      · intro row hrow
        obtain ⟨ag, _, rfl⟩ := List.mem_map.mp hrow
        simp [mkRow]
      · exact ih e he
  exact this (k, rows) (hrec ▸ hm) row hr

/-- The model frame is rectangular — one row per storing collect, one column per model reporter holding
    that reporter's value at each of those collects — so `pd.DataFrame(model_vars)` never sees ragged input. -/
theorem C12_model_frame_is_model_vars (cfg : Cfg) (tables : List (Nat × List Nat)) (ops : List Op)
    (hne : cfg.mreps ≠ []) :
    modelFrame cfg (run cfg (init cfg tables) ops) =
      .ok ((storedSnaps cfg (init cfg tables) ops).length,
           cfg.mreps.map fun r => (storedSnaps cfg (init cfg tables) ops).map r.eval) := by
  have h := holds_run (holds_init cfg tables) ops
  simp only [List.nil_append] at h
  exact modelFrame_of_holds h hne

/-- `_agenttype_records` is, like the agent records, a dict over the steps of the storing collects whose
    entry for step `k` is what the last collect at step `k` wrote: one list of rows per agent-type key. -/
theorem C12_agenttype_records_by_step (cfg : Cfg) (tables : List (Nat × List Nat)) (ops : List Op)
    (hne : cfg.treps ≠ []) :
    ((run cfg (init cfg tables) ops).typeRecords.map (·.1)).Pairwise (· < ·) ∧
    ∀ k, (run cfg (init cfg tables) ops).typeRecords.lookup k =
      (lastWith (fun sn => sn.steps == k) (storedSnaps cfg (init cfg tables) ops)).map (typeDict cfg) := by
  have h := holds_run (holds_init cfg tables) ops
  simp only [List.nil_append] at h
  have hne' : cfg.treps.isEmpty = false := by simpa using hne
  have hr := h.typeRecords
  simp only [hne', Bool.false_eq_true, if_false] at hr
  rw [hr]
  exact ⟨keys_assign_sorted _ _ _ h.sorted, fun k => lookup_assign _ _ _ k⟩

/-- What one collect writes for an agent-type key `T` (all keys being Agent classes, keys distinct as in a
    dict): one row per agent of class `T` — `T` a concrete class without subclassed instances, or a base
    class without direct instances (C12's quantifier) — with `T`'s reporters evaluated on that agent. -/
theorem C12_agenttype_rows_are_class_members (cfg : Cfg) (sn : Snap) (T : Nat) (reps : List ARep)
    (hT : cfg.treps.lookup T = some reps) (hnd : (cfg.treps.map (·.1)).Nodup)
    (hcls : ∀ x ∈ cfg.treps, cfg.isAgentClass x.1 = true) (hrefl : ∀ c, cfg.isSub c c = true)
    (hq : (∀ a ∈ sn.agents, cfg.isSub a.ty T = true → a.ty = T) ∨ (∀ a ∈ sn.agents, a.ty ≠ T)) :
    (typeDict cfg sn).lookup T =
      some ((sn.agents.filter fun a => cfg.isSub a.ty T).map (mkRow reps sn)) := by
  have hk : ∀ x ∈ cfg.treps, classAgents cfg sn x.1 ≠ none := by
    intro x hx
    unfold classAgents
    split
    · simp
    · simp [hcls x hx]
  have hA : cfg.isAgentClass T = true := hcls (T, reps) (mem_of_lookup hT)
  rw [typeDict, typeLoopS_lookup cfg sn cfg.treps [] hk hnd T reps hT, classAgents_members cfg sn T hA hrefl hq]
  rfl

/-- Table rows are appended column-aligned: over every history every column of every table holds exactly
    the cells of the rows `add_table_row` accepted for that table, in order (`None` for a key missing
    under `ignore_missing`); in particular all columns have the same length and `get_table_dataframe`
    never sees ragged input. -/
theorem C12_table_rows_aligned (cfg : Cfg) (tables : List (Nat × List Nat)) (ops : List Op) (t : Nat) :
    tableFrame (run cfg (init cfg tables) ops) t = .error .unknown ∨
    ∃ tab, (run cfg (init cfg tables) ops).tables.lookup t = some tab ∧
      tableFrame (run cfg (init cfg tables) ops) t =
        .ok ((if tab = [] then 0 else (acceptedRows cfg t (init cfg tables) ops).length), tab) ∧
      ∀ cv ∈ tab, cv.2 = (acceptedRows cfg t (init cfg tables) ops).map (cell cv.1) := by
  have h := tabHolds_run (cfg := cfg) (tabHolds_init cfg tables) ops
  simp only [List.nil_append] at h
  rcases tableFrame_of_tabHolds h t with hu | ⟨tab, hl, hf⟩
  · exact Or.inl hu
  · exact Or.inr ⟨tab, hl, hf, h t tab hl⟩

/-! non-vacuity: a history with a list attribute mutated in place, an agent removed between collects,
    two collects in one step, a rejected table row -/
section Example
def exCfg : Cfg :=
  { mreps := [.attr 0, .fn fun sn => .int sn.agents.length, .fnArgs (fun a sn => .int (a.sum + sn.steps)) [2, 3]],
    areps := [.attr 1, .meth fun sn ag => .int (ag.id + sn.steps)],
    treps := [(0, [.attr 1])],
    isAgentClass := fun T => T < 2, isSub := fun c T => c == T || (c == 1 && T == 0) }
def exOps : List Op :=
  [.mset 0 (.list [1]), .create 1 [(1, .int 5)], .create 1 [], .collect, .mapp 0 2, .remove 1, .step,
   .collect, .aset 2 1 (.int 7), .collect, .row 0 [(0, .int 1)] false, .row 0 [(0, .int 1), (1, .int 2)] false]
def exEnd : State := run exCfg (init exCfg [(0, [0, 1])]) exOps
example : exEnd.modelVars = [[.list [1], .list [1, 2], .list [1, 2]], [.int 2, .int 1, .int 1], [.int 5, .int 6, .int 6]] := by decide
example : exEnd.records = [(0, [⟨0, 1, [.int 5, .int 1]⟩, ⟨0, 2, [.none, .int 2]⟩]), (1, [⟨1, 2, [.int 7, .int 3]⟩])] := by decide
example : exEnd.typeRecords = [(0, [(0, [⟨0, 1, [.int 5]⟩, ⟨0, 2, [.none]⟩])]), (1, [(0, [⟨1, 2, [.int 7]⟩])])] := by decide
example : (storedSnaps exCfg (init exCfg [(0, [0, 1])]) exOps).map (·.steps) = [0, 1, 1] := by decide
example : tableFrame exEnd 0 = .ok (1, [(0, [.int 1]), (1, [.int 2])]) := by rfl
example : stores exCfg (init exCfg []) = false := by decide
end Example

end Mesa.Collect
