import MesaModel.Proofs.Collect
import MesaModel.Proofs.CollectHeap
/-!
# C12 — DataCollector records exactly what the model showed at each collect

Property theorems only (helper lemmas: `Proofs/Collect.lean`, model: `Model/Collect.lean`).

A *history* is any list of `Op`s (create / remove agents, `step`, set / mutate in place / delete model
and agent attributes, `collect`, `add_table_row`) applied to a fresh `DataCollector` for arbitrary
reporter dictionaries `cfg` (the four reporter forms at model, agent and agent-type level, each an
arbitrary function of the snapshot) and arbitrary tables.  `storedSnaps cfg s₀ ops` is the list of
model snapshots at those `collect` calls of the history that got past the validation of the model
reporters (all of them except a first one whose string reporter names a missing attribute or whose plain
function raises at the trial call: that call raises before storing anything).

A reporter function returns a value or raises (`Except Err Val`).  `Total cfg` = no reporter ever raises:
the domain of C12's quantifier; the theorems that carry it are the property's clauses.  The theorems without
it say what the code does when a reporter raises (C12 is silent there; C18 does not list `collect`): the call
ends where the reporter stands and what was appended before stays — a *partial collect is visible*.
-/
namespace Mesa.Collect

/-- Each collect appends exactly one value per model reporter — the reporter evaluated on the model as
    it was at that moment — and one entry to `_collection_steps`.  The history after the collect is
    arbitrary (attributes rebound, lists mutated in place, agents removed): what was stored is a function
    of the snapshots alone, so later mutation cannot reach it. -/
theorem C12_model_vars_are_snapshots (cfg : Cfg) (hT : Total cfg) (tables : List (Nat × List Nat)) (ops : List Op) :
    (run cfg (init cfg tables) ops).modelVars =
      cfg.mreps.map (fun r => (storedSnaps cfg (init cfg tables) ops).map r.eval) ∧
    (run cfg (init cfg tables) ops).collSteps = (storedSnaps cfg (init cfg tables) ops).map (·.steps) := by
  have h := holds_history hT tables ops
  exact ⟨h.modelVars, h.collSteps⟩

/-- Values stored by a prefix of a history are never touched by its continuation: every column after
    `ops₁ ++ ops₂` is the column after `ops₁` followed by what the collects of `ops₂` add. -/
theorem C12_stored_values_immune (cfg : Cfg) (hT : Total cfg) (tables : List (Nat × List Nat)) (ops₁ ops₂ : List Op) :
    (run cfg (init cfg tables) (ops₁ ++ ops₂)).modelVars =
      List.zipWith (· ++ ·) (run cfg (init cfg tables) ops₁).modelVars
        (cfg.mreps.map fun r => (storedSnaps cfg (run cfg (init cfg tables) ops₁) ops₂).map r.eval) := by
  rw [(C12_model_vars_are_snapshots cfg hT tables (ops₁ ++ ops₂)).1, (C12_model_vars_are_snapshots cfg hT tables ops₁).1,
    storedSnaps_append]
  generalize cfg.mreps = l
  induction l with
  | nil => rfl
  | cons r rs ih => simp

/-- **Immune to later mutation, with references, to any depth** (review 3, M7).  In the heap model
    (`Model/CollectHeap.lean`: a mutable list is an object with an identity whose items are `None`, ints or REFERENCES to
    other objects — `[[1], [2]]` is three objects, an object may contain itself —; attributes hold references;
    `model.a = model.b[p…]` gives an object one more name; `model.a[p…].append(x)`, `.append(model.b[q…])`, `.pop()` mutate
    the addressed object in place, at any nesting level and through whichever name; `collect` stores
    `deepcopy(getattr(model, a, None))` = fresh identities for everything reachable, same shape): after EVERY history —
    whatever is rebound, aliased or mutated after a collect — reading the stored column at the end shows, entry by
    entry and down to EVERY depth `d` (so: the whole tree the entry denotes; `read d` cuts below depth `d` only because an
    object containing itself denotes an infinite tree), exactly what the reporter showed at the moment of its collect.
    This is what justifies treating collected model-level values as plain immutable values in `Model/Collect.lean` and in
    the driver.  It depends on the copy being deep: for `Copy.shallow` (`list(v)` / `copy.copy(v)`) and `Copy.alias`
    (the reference is stored) the statement is false — `C12_shallow_copy_not_immune`, `C12_stored_reference_not_immune`.
    One string reporter; the other three reporter forms hand their value to the same `deepcopy`. -/
theorem C12_deepcopy_makes_stored_values_immune (ops : List CollectHeap.HOp) (d : Nat) :
    CollectHeap.stored .deep d ops = CollectHeap.seen .deep d CollectHeap.empty ops := by
  simpa [CollectHeap.stored, CollectHeap.empty] using
    CollectHeap.run_deep (fun _ => False) CollectHeap.empty ops CollectHeap.inv_empty d

/-- the depth-2 history used below: `model.x2 = [model.x0, model.x1] = [[1], [2]]; collect; model.x2[0].append(5)` -/
def heapInnerOps : List CollectHeap.HOp :=
  [.setNew 0 [1], .setNew 1 [2], .setNew 2 [], .appRef 2 [] 0 [], .appRef 2 [] 1 [], .collect 2, .app 2 [0] 5]

/-- **A shallow copy is not enough**: a collector storing `list(v)` shows the inner append made after the collect —
    the stored entry reads `[[1, 5], [2]]` where the reporter showed `[[1], [2]]`.  (At depth 1 — the outer list —
    the shallow copy is immune; the flat heap of the earlier statement could not see the difference.) -/
theorem C12_shallow_copy_not_immune :
    ∃ ops d, CollectHeap.stored .shallow d ops ≠ CollectHeap.seen .shallow d CollectHeap.empty ops := by
  refine ⟨heapInnerOps, 2, ?_⟩
  have h1 : CollectHeap.stored .shallow 2 heapInnerOps = [.node [.node [.int 1, .int 5], .node [.int 2]]] := by rfl
  have h2 : CollectHeap.seen .shallow 2 CollectHeap.empty heapInnerOps = [.node [.node [.int 1], .node [.int 2]]] := by rfl
  rw [h1, h2]; simp

/-- **Storing the reference is not enough** either (already for a flat value: `model.x0 = [1]; collect; model.x0.append(5)`) -/
theorem C12_stored_reference_not_immune :
    ∃ ops d, CollectHeap.stored .alias d ops ≠ CollectHeap.seen .alias d CollectHeap.empty ops := by
  refine ⟨[.setNew 0 [1], .collect 0, .app 0 [] 5], 1, ?_⟩
  have h1 : CollectHeap.stored .alias 1 [.setNew 0 [1], .collect 0, .app 0 [] 5] = [.node [.int 1, .int 5]] := by rfl
  have h2 : CollectHeap.seen .alias 1 CollectHeap.empty [.setNew 0 [1], .collect 0, .app 0 [] 5] = [.node [.int 1]] := by rfl
  rw [h1, h2]; simp

/-- A collect at which no model reporter and no agent reporter raises records, under the current step, exactly
    one row per agent registered at that moment, in registry order: `(steps, unique_id, the values the agent
    reporters return for that agent)`. -/
theorem C12_collect_records_registered_agents (cfg : Cfg) (s : State) (hs : stores cfg s = true)
    (hm : ∀ r ∈ cfg.mreps, r.exc s.snap = none) (ha : aOk cfg s.snap = true) (hne : cfg.areps ≠ []) :
    (collect cfg s).1.records.lookup s.steps = some (agentRows cfg s.snap) ∧
    (agentRows cfg s.snap).map (·.id) = s.agents.map (·.id) ∧
    ∀ row ∈ agentRows cfg s.snap, row.step = s.steps ∧
      ∃ ag ∈ s.agents, row.id = ag.id ∧ row.vals = cfg.areps.map fun r => r.eval s.snap ag := by
  have hne' : cfg.areps.isEmpty = false := by simpa using hne
  refine ⟨?_, ?_, ?_⟩
  · have hg : guardErr cfg s = none := by simpa [stores] using hs
    have ha' : rowsExc cfg.areps s.snap s.agents = none := by simpa [aOk] using ha
    unfold collect
    simp only [hg, mLoop_snd_none _ _ _ hm, ha', hne', Bool.false_eq_true, if_false]
    split <;> simp only [lookup_setKey_self] <;> rfl
  · simp [agentRows, mkRow]
  · intro row hrow
    obtain ⟨ag, hag, rfl⟩ := List.mem_map.mp hrow
    exact ⟨rfl, ag, hag, rfl, rfl⟩

/-- Over a whole history `_agent_records` is a dict with strictly increasing step keys whose entry for
    step `k` is the rows of the last storing collect made at step `k` (several collects in one step
    overwrite each other); there is an entry exactly for the steps at which a collect stored. -/
theorem C12_agent_records_by_step (cfg : Cfg) (hT : Total cfg) (tables : List (Nat × List Nat)) (ops : List Op)
    (hne : cfg.areps ≠ []) :
    ((run cfg (init cfg tables) ops).records.map (·.1)).Pairwise (· < ·) ∧
    ∀ k, (run cfg (init cfg tables) ops).records.lookup k =
      (lastWith (fun sn => sn.steps == k) (storedSnaps cfg (init cfg tables) ops)).map (agentRows cfg) := by
  have h := holds_history hT tables ops
  have hne' : cfg.areps.isEmpty = false := by simpa using hne
  have hr := h.records
  simp only [hne', Bool.false_eq_true, if_false] at hr
  rw [hr]
  exact ⟨keys_assign_sorted _ _ _ h.sorted, fun k => lookup_assign _ _ _ k⟩

/-- The agent frame is a lossless re-indexing of those records, stated as a function of the history: for each step at
    which a collect stored, in increasing step order (`assign` = the dict written by the storing collects in turn), the
    rows `agentRows` of the *last* storing collect at that step (`C12_agent_records_by_step`), rows of one step in the
    order of `model.agents` at that collect; it is the rows of `_agent_records` concatenated in key order; one value per
    agent reporter in every row. -/
theorem C12_agent_frame_is_records (cfg : Cfg) (hT : Total cfg) (tables : List (Nat × List Nat)) (ops : List Op)
    (hne : cfg.areps ≠ []) :
    agentFrame cfg (run cfg (init cfg tables) ops) =
      .ok ((assign (·.steps) (agentRows cfg) (storedSnaps cfg (init cfg tables) ops)).flatMap (·.2)) ∧
    agentFrame cfg (run cfg (init cfg tables) ops) =
      .ok ((run cfg (init cfg tables) ops).records.flatMap (·.2)) ∧
    ∀ row ∈ (run cfg (init cfg tables) ops).records.flatMap (·.2), row.vals.length = cfg.areps.length := by
  have hne' : cfg.areps.isEmpty = false := by simpa using hne
  refine ⟨?_, by simp [agentFrame, hne'], ?_⟩
  · have h := (holds_history hT tables ops).records
    simp only [hne', Bool.false_eq_true, if_false] at h
    simp [agentFrame, hne', h]
  intro row hrow
  obtain ⟨⟨k, rows⟩, hm, hr⟩ := List.mem_flatMap.mp hrow
  have h := holds_history hT tables ops
  have hrec := h.records
  simp only [hne', Bool.false_eq_true, if_false] at hrec
  -- every entry of the dict was written by some collect
  have : ∀ e ∈ assign (·.steps) (agentRows cfg) (storedSnaps cfg (init cfg tables) ops),
      ∀ row ∈ e.2, row.vals.length = cfg.areps.length := by
    generalize storedSnaps cfg (init cfg tables) ops = snaps
    induction snaps using snoc_induction with
    | nil => simp [assign]
    | snoc l x ih =>
      rw [assign_snoc]
      intro e he
      rcases mem_setKey he with rfl | he
      · intro row hrow
        obtain ⟨ag, _, rfl⟩ := List.mem_map.mp hrow
        simp [mkRow]
      · exact ih e he
  exact this (k, rows) (hrec ▸ hm) row hr

/-- The model frame is rectangular — one row per storing collect, one column per model reporter holding
    that reporter's value at each of those collects — so `pd.DataFrame(model_vars)` never sees ragged input. -/
theorem C12_model_frame_is_model_vars (cfg : Cfg) (hT : Total cfg) (tables : List (Nat × List Nat)) (ops : List Op)
    (hne : cfg.mreps ≠ []) :
    modelFrame cfg (run cfg (init cfg tables) ops) =
      .ok ((storedSnaps cfg (init cfg tables) ops).length,
           cfg.mreps.map fun r => (storedSnaps cfg (init cfg tables) ops).map r.eval) := by
  have h := holds_history hT tables ops
  exact modelFrame_of_holds h hne

/-- `_agenttype_records` is, like the agent records, a dict over the steps of the storing collects whose
    entry for step `k` is what the last collect at step `k` wrote: one list of rows per agent-type key. -/
theorem C12_agenttype_records_by_step (cfg : Cfg) (hT : Total cfg) (tables : List (Nat × List Nat)) (ops : List Op)
    (hne : cfg.treps ≠ []) :
    ((run cfg (init cfg tables) ops).typeRecords.map (·.1)).Pairwise (· < ·) ∧
    ∀ k, (run cfg (init cfg tables) ops).typeRecords.lookup k =
      (lastWith (fun sn => sn.steps == k) (storedSnaps cfg (init cfg tables) ops)).map (typeDict cfg) := by
  have h := holds_history hT tables ops
  have hne' : cfg.treps.isEmpty = false := by simpa using hne
  have hr := h.typeRecords
  simp only [hne', Bool.false_eq_true, if_false] at hr
  rw [hr]
  exact ⟨keys_assign_sorted _ _ _ h.sorted, fun k => lookup_assign _ _ _ k⟩

/-- What one collect writes for an agent-type key `T` (all keys being Agent classes, keys distinct as in a
    dict, no agent-type reporter raising on the agents it is applied to): one row per agent of class `T` — `T` a
    concrete class without subclassed instances, or a base class without direct instances (C12's quantifier) —
    with `T`'s reporters evaluated on that agent.  Row order: a class with direct instances is read from
    `agents_by_type[T]`, whose order no reordering of `model.agents` touches — its rows come in creation order
    (ascending `unique_id`); a base class without direct instances is filtered out of `model.agents` — its rows
    follow the current order of `model.agents`.  While `model.agents` is in creation order (`IdSorted`: always,
    unless it was reordered in place, see `C12_creation_order_without_reorder`) the two coincide. -/
theorem C12_agenttype_rows_are_class_members (cfg : Cfg) (sn : Snap) (T : Nat) (reps : List ARep)
    (hT : cfg.treps.lookup T = some reps) (hnd : (cfg.treps.map (·.1)).Nodup)
    (hcls : ∀ x ∈ cfg.treps, cfg.isAgentClass x.1 = true) (hrefl : ∀ c, cfg.isSub c c = true)
    (hnr : ∀ x ∈ cfg.treps, ∀ r ∈ x.2, ∀ ag ∈ sn.agents, r.exc sn ag = none)
    (hq : (∀ a ∈ sn.agents, cfg.isSub a.ty T = true → a.ty = T) ∨ (∀ a ∈ sn.agents, a.ty ≠ T)) :
    let members := sn.agents.filter fun a => cfg.isSub a.ty T
    let direct := sn.agents.any fun a => a.ty == T
    (typeDict cfg sn).lookup T =
      some ((if direct then byCreation members else members).map (mkRow reps sn)) ∧
    (byCreation members).Perm members ∧ (byCreation members).Pairwise (fun a b => a.id ≤ b.id) ∧
    (IdSorted sn.agents → (typeDict cfg sn).lookup T = some (members.map (mkRow reps sn))) := by
  intro members direct
  have hk : ∀ x ∈ cfg.treps, KeyOk cfg sn x := by
    intro x hx
    have hsub : ∀ ags, classAgents cfg sn x.1 = some ags → rowsExc x.2 sn ags = none := by
      intro ags hags
      simp only [rowsExc, rowExc, List.findSome?_eq_none_iff]
      intro ag hag r hr
      refine hnr x hx r hr ag ?_
      unfold classAgents at hags
      split at hags
      · cases hags; exact (List.mem_filter.mp ((byCreation_perm _).mem_iff.mp hag)).1
      · split at hags
        · cases hags; exact (List.mem_filter.mp hag).1
        · cases hags
    unfold KeyOk
    cases hc : classAgents cfg sn x.1 with
    | none =>
      unfold classAgents at hc
      split at hc
      · cases hc
      · simp [hcls x hx] at hc
    | some ags => exact ⟨ags, rfl, hsub ags hc⟩
  have hA : cfg.isAgentClass T = true := hcls (T, reps) (mem_of_lookup hT)
  have hmain : (typeDict cfg sn).lookup T =
      some ((if direct then byCreation members else members).map (mkRow reps sn)) := by
    rw [typeDict, typeLoopS_lookup cfg sn cfg.treps [] hk hnd T reps hT, classAgents_members cfg sn T hA hrefl hq]
    rfl
  refine ⟨hmain, byCreation_perm _, byCreation_sorted _, ?_⟩
  intro hs
  rw [hmain, byCreation_of_idSorted (hs.filter _)]
  cases direct <;> rfl

/-- An in-place reordering of `model.agents` — `sort(…, inplace=True)` by id or by a key, or `shuffle(inplace=True)`
    drawing *any* permutation of the positions (`ReKind.perm p`, so the histories of every theorem of this file contain
    shuffles with every possible outcome, not only reversals and rotations) — touches no other field of the state: what
    the DataCollector holds, the step counter, the attributes are as before; it never raises; and the registered
    agents are the same agents, each as often as before. -/
theorem C12_reorder_only_permutes_agents (cfg : Cfg) (s : State) (k : ReKind) :
    (apply cfg s (.reorder k)).1 = { s with agents := (apply cfg s (.reorder k)).1.agents } ∧
    (apply cfg s (.reorder k)).2 = none ∧ (apply cfg s (.reorder k)).1.agents.Perm s.agents :=
  ⟨rfl, rfl, reorderList_perm k s.agents⟩

/-- **`shuffle(inplace=True)`, whatever it draws**: for every permutation `p` of the positions the agent that was at
    position `p[j]` is afterwards at position `j` — so the rows of the next collect (`C12_collect_records_registered_agents`:
    one per agent, in the order of `model.agents` at that moment) come in that order, whichever it is. -/
theorem C12_shuffle_any_order (cfg : Cfg) (s : State) (p : List Nat) (hp : p.Perm (List.range s.agents.length)) :
    (apply cfg s (.reorder (.perm p))).1.agents.length = s.agents.length ∧
    ∀ j : Nat, (apply cfg s (.reorder (.perm p))).1.agents[j]? = (p[j]?).bind (fun i => s.agents[i]?) := by
  have hperm : isPermOfRange p s.agents.length = true := List.isPerm_iff.mpr hp
  have hlt : ∀ i ∈ p, i < s.agents.length := fun i hi => List.mem_range.mp (hp.mem_iff.mp hi)
  have h := filterMap_getElem?_pick s.agents p hlt
  simp only [apply, reorderList, hperm, if_true]
  exact ⟨by rw [h.1, hp.length_eq, List.length_range], h.2⟩

/-- `model.agents` is in creation order (strictly ascending `unique_id`) after every history that does not
    reorder it in place; after any history at all the ids are distinct and below the next id to be handed out.
    With `C12_collect_records_registered_agents` (rows in the order of `model.agents` at the collect, whatever that
    order is) this is the row-order clause: creation order unless the user reordered the registry, then that order. -/
theorem C12_creation_order_without_reorder (cfg : Cfg) (tables : List (Nat × List Nat)) (ops : List Op) :
    ((run cfg (init cfg tables) ops).agents.map (·.id)).Nodup ∧
    (∀ a ∈ (run cfg (init cfg tables) ops).agents, a.id < (run cfg (init cfg tables) ops).nextId) ∧
    ((∀ op ∈ ops, noReorder op = true) → IdSorted (run cfg (init cfg tables) ops).agents) := by
  have h0 : IdsInv (init cfg tables) := ⟨by simp [init], by simp [init]⟩
  have h := run_idsInv cfg _ ops h0
  refine ⟨h.1, h.2, fun hops => run_idSorted cfg _ ops hops ⟨?_, ?_⟩⟩
  · simp [init, IdSorted]
  · simp [init]

/-- `get_agenttype_vars_dataframe(T)` for a key `T` of the reporter dict (all keys Agent classes, keys distinct): every
    per-step dict written by a storing collect has an entry for `T` (the `if agent_type in records` filter never drops a
    step, no default is taken), that entry is the rows of `T`'s agents at the last storing collect `sn` of the step
    (`classAgents`, characterised by `C12_agenttype_rows_are_class_members`) with `T`'s reporters, and the frame is those
    entries concatenated in increasing step order. -/
theorem C12_agenttype_frame_is_records (cfg : Cfg) (hT : Total cfg) (tables : List (Nat × List Nat)) (ops : List Op)
    (T : Nat) (reps : List ARep) (hl : cfg.treps.lookup T = some reps) (hnd : (cfg.treps.map (·.1)).Nodup)
    (hcls : ∀ x ∈ cfg.treps, cfg.isAgentClass x.1 = true) :
    let dicts := assign (·.steps) (typeDict cfg) (storedSnaps cfg (init cfg tables) ops)
    typeFrame cfg (run cfg (init cfg tables) ops) T = some (dicts.flatMap fun e => (e.2.lookup T).getD []) ∧
    (dicts.map (·.1)).Pairwise (· < ·) ∧
    ∀ e ∈ dicts, ∃ sn ∈ storedSnaps cfg (init cfg tables) ops, e.1 = sn.steps ∧
      ∃ ags, classAgents cfg sn T = some ags ∧ e.2.lookup T = some (ags.map (mkRow reps sn)) := by
  intro dicts
  have h := holds_history hT tables ops
  have hne : cfg.treps.isEmpty = false := by
    cases hc : cfg.treps with
    | nil => simp [hc] at hl
    | cons x xs => rfl
  have hr := h.typeRecords
  simp only [hne, Bool.false_eq_true, if_false] at hr
  refine ⟨?_, keys_assign_sorted _ _ _ h.sorted, ?_⟩
  · simp only [typeFrame, hl, Option.isNone_some, Bool.false_eq_true, if_false, hr]
    rfl
  · intro e he
    obtain ⟨sn, hsn, rfl⟩ := mem_assign _ _ _ e he
    refine ⟨sn, hsn, rfl, ?_⟩
    have hk : ∀ x ∈ cfg.treps, KeyOk cfg sn x := by
      intro x hx
      unfold KeyOk
      cases hc : classAgents cfg sn x.1 with
      | none =>
        unfold classAgents at hc
        split at hc
        · cases hc
        · simp [hcls x hx] at hc
      | some ags => exact ⟨ags, rfl, rowsExc_none_of_total x.2 (fun r hr sn ag => hT.t x hx r hr sn ag) sn ags⟩
    have := typeLoopS_lookup cfg sn cfg.treps [] hk hnd T reps hl
    obtain ⟨ags, hags, _⟩ := hk (T, reps) (mem_of_lookup hl)
    refine ⟨ags, hags, ?_⟩
    simp only [typeDict, this, hags, Option.map_some]

/-- Table rows are appended column-aligned: over every history every column of every table holds exactly
    the cells of the rows `add_table_row` accepted for that table, in order (`None` for a key missing
    under `ignore_missing`); in particular all columns have the same length and `get_table_dataframe`
    never sees ragged input.  The table is unknown exactly if it was not declared: a declared table is never lost. -/
theorem C12_table_rows_aligned (cfg : Cfg) (tables : List (Nat × List Nat)) (ops : List Op) (t : Nat) :
    (tableFrame (run cfg (init cfg tables) ops) t = .error .unknown ↔ t ∉ tables.map (·.1)) ∧
    (tableFrame (run cfg (init cfg tables) ops) t = .error .unknown ∨
    ∃ tab, (run cfg (init cfg tables) ops).tables.lookup t = some tab ∧
      tableFrame (run cfg (init cfg tables) ops) t =
        .ok ((if tab = [] then 0 else (acceptedRows cfg t (init cfg tables) ops).length), tab) ∧
      ∀ cv ∈ tab, cv.2 = (acceptedRows cfg t (init cfg tables) ops).map (cell cv.1)) := by
  have h := tabHolds_run (cfg := cfg) (tabHolds_init cfg tables) ops
  simp only [List.nil_append] at h
  refine ⟨?_, ?_⟩
  · rw [tableFrame_unknown_iff, ← Option.not_isSome_iff_eq_none, run_tables_known]
    have := initTables_lookup tables [] t
    simp only [init] at this ⊢
    rw [this]
    simp
  rcases tableFrame_of_tabHolds h t with hu | ⟨tab, hl, hf⟩
  · exact Or.inl hu
  · exact Or.inr ⟨tab, hl, hf, h t tab hl⟩

/-! ### reporters that raise (outside C12's quantifier: what the code does, stated exactly) -/

/-- Over every history, for reporters that may raise: the column of the `k`-th model reporter holds its value at
    exactly those collects (past validation) at which reporters `0..k` all returned — so a collect whose `k`-th
    reporter raises leaves columns `0..k-1` one entry longer than the others (the partial collect is visible in
    `model_vars`) — and `_collection_steps` has one entry per collect at which *every* model reporter returned. -/
theorem C12_partial_collect_visible (cfg : Cfg) (tables : List (Nat × List Nat)) (ops : List Op) :
    (∀ k r, cfg.mreps[k]? = some r →
      (run cfg (init cfg tables) ops).modelVars[k]? =
        some (((storedSnaps cfg (init cfg tables) ops).filter fun sn =>
                (cfg.mreps.take (k + 1)).all (·.passes sn)).map r.eval)) ∧
    (run cfg (init cfg tables) ops).collSteps =
      ((storedSnaps cfg (init cfg tables) ops).filter (mOk cfg)).map (·.steps) := by
  have h := holdsG_history cfg tables ops
  refine ⟨?_, h.collSteps⟩
  intro k r hk
  rw [h.modelVars, colsOf_getElem, hk]; rfl

/-- What one collect whose first raising model reporter is the `k`-th leaves behind, on any state with one column
    per reporter: the call raises that reporter's exception; columns `0..k-1` have the value of their reporter
    appended, columns `k..` are untouched; `_collection_steps`, the agent and agent-type records and everything
    else are exactly as before. -/
theorem C12_raising_model_reporter_leaves (cfg : Cfg) (s : State) (hl : s.modelVars.length = cfg.mreps.length)
    (hs : stores cfg s = true) (e : Err) (he : firstExc cfg.mreps s.snap = some e) :
    collect cfg s =
      ({ s with
          validated := true
          modelVars :=
            List.zipWith (fun col r => col ++ [r.eval s.snap]) (s.modelVars.take (passCount cfg.mreps s.snap))
                (cfg.mreps.take (passCount cfg.mreps s.snap)) ++
              s.modelVars.drop (passCount cfg.mreps s.snap) }, some e) := by
  have hg : guardErr cfg s = none := by simpa [stores] using hs
  obtain ⟨m1, m2⟩ := mLoop_spec s.snap cfg.mreps s.modelVars hl
  have hne : cfg.mreps.isEmpty = false := by
    cases hm : cfg.mreps with
    | nil => simp [hm, firstExc] at he
    | cons r rs => rfl
  unfold collect
  simp only [hg, m2, he, m1, hne, Bool.not_false, Bool.true_or]

/-- What a collect leaves behind when every model reporter returns but an agent reporter raises on some registered
    agent: the call raises that exception; the model values and the `_collection_steps` entry of this collect are
    stored, the agent records and the agent-type records are exactly as before (rows of an earlier collect of the
    same step stay filed under it). -/
theorem C12_raising_agent_reporter_leaves (cfg : Cfg) (s : State) (hs : stores cfg s = true)
    (hm : ∀ r ∈ cfg.mreps, r.exc s.snap = none) (e : Err) (he : rowsExc cfg.areps s.snap s.agents = some e) :
    (collect cfg s).2 = some e ∧
    (collect cfg s).1.collSteps = s.collSteps ++ [s.steps] ∧
    (collect cfg s).1.records = s.records ∧ (collect cfg s).1.typeRecords = s.typeRecords ∧
    (collect cfg s).1.modelVars = (mLoop s.snap cfg.mreps s.modelVars).1 := by
  have hg : guardErr cfg s = none := by simpa [stores] using hs
  unfold collect
  simp only [hg, mLoop_snd_none _ _ _ hm, he, and_self]

/-- Over every history, for reporters that may raise: `_agent_records` / `_agenttype_records` hold, under step `k`,
    what the last collect at step `k` wrote *among the collects that got through the model and agent reporters*;
    a collect that raised earlier leaves the entry of its step as it was. -/
theorem C12_records_with_raising_reporters (cfg : Cfg) (tables : List (Nat × List Nat)) (ops : List Op) :
    (cfg.areps ≠ [] → ∀ k, (run cfg (init cfg tables) ops).records.lookup k =
      (lastWith (fun sn => sn.steps == k) ((storedSnaps cfg (init cfg tables) ops).filter (complete cfg))).map
        (agentRows cfg)) ∧
    (cfg.treps ≠ [] → ∀ k, (run cfg (init cfg tables) ops).typeRecords.lookup k =
      (lastWith (fun sn => sn.steps == k) ((storedSnaps cfg (init cfg tables) ops).filter (complete cfg))).map
        (typeDict cfg)) := by
  have h := holdsG_history cfg tables ops
  constructor
  · intro hne k
    have hne' : cfg.areps.isEmpty = false := by simpa using hne
    have hr := h.records
    simp only [hne', Bool.false_eq_true, if_false] at hr
    rw [hr]; exact lookup_assign _ _ _ k
  · intro hne k
    have hne' : cfg.treps.isEmpty = false := by simpa using hne
    have hr := h.typeRecords
    simp only [hne', Bool.false_eq_true, if_false] at hr
    rw [hr]; exact lookup_assign _ _ _ k

/-- `get_model_vars_dataframe` for every shape `model_vars` can take.  With `r₀` the first model reporter: if at every
    collect at which `r₀` returned all reporters returned, the frame is rectangular — one row per completed model
    phase, each column its reporter's values there.  If at some collect `r₀` returned and a later reporter raised,
    `model_vars` is ragged and the method raises ValueError — in every continuation of the history, for ever. -/
theorem C12_model_frame_every_shape (cfg : Cfg) (tables : List (Nat × List Nat)) (ops : List Op)
    (r₀ : MRep) (rs : List MRep) (hm : cfg.mreps = r₀ :: rs) :
    ((∀ sn ∈ storedSnaps cfg (init cfg tables) ops, r₀.passes sn = true → mOk cfg sn = true) →
      modelFrame cfg (run cfg (init cfg tables) ops) =
        .ok (((storedSnaps cfg (init cfg tables) ops).filter (mOk cfg)).length,
             cfg.mreps.map fun r => ((storedSnaps cfg (init cfg tables) ops).filter (mOk cfg)).map r.eval)) ∧
    ((∃ sn ∈ storedSnaps cfg (init cfg tables) ops, r₀.passes sn = true ∧ mOk cfg sn = false) →
      ∀ more, modelFrame cfg (run cfg (init cfg tables) (ops ++ more)) = .error .value) := by
  have hne : cfg.mreps.isEmpty = false := by simp [hm]
  constructor
  · intro hall
    have h := holdsG_history cfg tables ops
    generalize storedSnaps cfg (init cfg tables) ops = snaps at h hall
    have hf : snaps.filter r₀.passes = snaps.filter (mOk cfg) := by
      apply List.filter_congr
      intro sn hsn
      by_cases hp : r₀.passes sn = true
      · rw [hp, hall sn hsn hp]
      · have : mOk cfg sn = false := by
          cases hmo : mOk cfg sn with
          | false => rfl
          | true => exact absurd ((mOk_iff cfg sn).mp hmo r₀ (by simp [hm])) hp
        simp [hp, this]
    have hcols : colsOf cfg.mreps snaps = cfg.mreps.map fun r => (snaps.filter (mOk cfg)).map r.eval := by
      rw [hm]
      simp only [colsOf, List.map_cons, hf]
      congr 1
      apply colsOf_all_pass
      intro sn hsn r hr
      exact (mOk_iff cfg sn).mp (List.mem_filter.mp hsn).2 r (by simp [hm, hr])
    unfold modelFrame
    simp only [hne, Bool.false_eq_true, if_false, h.modelVars, hcols]
    rw [rect_of_lengths _ (snaps.filter (mOk cfg)).length]
    · intro c hc
      obtain ⟨r, _, rfl⟩ := List.mem_map.mp hc
      simp
    · simp [hm]
  · rintro ⟨sn, hsn, hp, hmo⟩ more
    have h := holdsG_history cfg tables (ops ++ more)
    rw [storedSnaps_append] at h
    generalize storedSnaps cfg (run cfg (init cfg tables) ops) more = later at h
    generalize storedSnaps cfg (init cfg tables) ops = snaps at h hsn
    have hbad : ∃ r ∈ rs, r.passes sn = false := by
      cases hall : rs.all (·.passes sn) with
      | false =>
        obtain ⟨r, hr, hnp⟩ := List.all_eq_false.mp hall
        exact ⟨r, hr, by simpa using hnp⟩
      | true =>
        have : mOk cfg sn = true := by
          rw [mOk_iff, hm]
          intro r hr
          rcases List.mem_cons.mp hr with rfl | hr
          · exact hp
          · exact List.all_eq_true.mp hall r hr
        rw [this] at hmo; cases hmo
    obtain ⟨r, hr, hrp⟩ := hbad
    have hshort := colsOf_short rs ((snaps ++ later).filter r₀.passes)
      ⟨sn, List.mem_filter.mpr ⟨by simp [hsn], hp⟩, r, hr, hrp⟩
    obtain ⟨col, hc, hlt⟩ := hshort
    have hrag := rect_ragged (((snaps ++ later).filter r₀.passes).map r₀.eval)
      (colsOf rs ((snaps ++ later).filter r₀.passes)) ⟨col, hc, by simpa using hlt⟩
    unfold modelFrame
    rw [h.modelVars, hm]
    simp only [colsOf, hrag, List.isEmpty_cons, Bool.false_eq_true, if_false]

/-! non-vacuity: a history with a list attribute mutated in place, an agent removed between collects,
    two collects in one step, a rejected table row -/
section Example
def exCfg : Cfg :=
  { mreps := [.attr 0, .fn fun sn => .ok (.int sn.agents.length), .fnArgs (fun a sn => .ok (.int (a.sum + sn.steps))) [2, 3]],
    areps := [.attr 1, .meth fun sn ag => .ok (.int (ag.id + sn.steps))],
    treps := [(0, [.attr 1])],
    isAgentClass := fun T => T < 2, isSub := fun c T => c == T || (c == 1 && T == 0) }
def exOps : List Op :=
  [.mset 0 (.list [1]), .create 1 [(1, .int 5)], .create 1 [], .collect, .mapp 0 2, .remove 1, .step,
   .collect, .aset 2 1 (.int 7), .collect, .row 0 [(0, .int 1)] false, .row 0 [(0, .int 1), (1, .int 2)] false]
def exEnd : State := run exCfg (init exCfg [(0, [0, 1])]) exOps
example : exEnd.modelVars = [[.list [1], .list [1, 2], .list [1, 2]], [.int 2, .int 1, .int 1], [.int 5, .int 6, .int 6]] := by decide
example : exEnd.records = [(0, [⟨0, 1, [.int 5, .int 1]⟩, ⟨0, 2, [.none, .int 2]⟩]), (1, [⟨1, 2, [.int 7, .int 3]⟩])] := by decide
example : exEnd.typeRecords = [(0, [(0, [⟨0, 1, [.int 5]⟩, ⟨0, 2, [.none]⟩])]), (1, [(0, [⟨1, 2, [.int 7]⟩])])] := by decide
example : (storedSnaps exCfg (init exCfg [(0, [0, 1])]) exOps).map (·.steps) = [0, 1, 1] := by decide
example : tableFrame exEnd 0 = .ok (1, [(0, [.int 1]), (1, [.int 2])]) := by rfl
example : stores exCfg (init exCfg []) = false := by decide
example : Total exCfg :=
  ⟨by intro r hr sn; simp [exCfg] at hr; rcases hr with rfl | rfl | rfl <;> rfl,
   by intro r hr sn ag; simp [exCfg] at hr; rcases hr with rfl | rfl <;> rfl,
   by intro x hx r hr sn ag; simp [exCfg] at hx; subst hx; simp at hr; subst hr; rfl⟩

/-! a partial (`functools.partial`) reporter that needs attribute 0 between a string reporter and a lambda; an agent
    reporter that needs attribute 1: the first collect raises in the model phase after `m0` was appended, the
    second in the agent phase (agent 2 lacks attribute 1), the third completes -/
def needM (a : Nat) (sn : Snap) : Except Err Val := match sn.attrs.lookup a with | some v => .ok v | none => .error .attr
def needA (a : Nat) (_ : Snap) (ag : AgentS) : Except Err Val :=
  match ag.attrs.lookup a with | some v => .ok v | none => .error .attr
def rxCfg : Cfg :=
  { mreps := [.attr 5, .part (needM 0), .fn fun sn => .ok (.int sn.steps)], areps := [.fn (needA 1)], treps := [],
    isAgentClass := fun _ => true, isSub := fun c T => c == T }
def rxOps : List Op :=
  [.create 0 [(1, .int 4)], .create 0 [], .mset 5 (.int 9), .collect, .mset 0 (.int 3), .step, .collect,
   .aset 2 1 (.int 6), .collect]
def rxEnd : State := run rxCfg (init rxCfg []) rxOps
example : (apply rxCfg (run rxCfg (init rxCfg []) (rxOps.take 3)) .collect).2 = some .attr := by decide
example : rxEnd.modelVars = [[.int 9, .int 9, .int 9], [.int 3, .int 3], [.int 1, .int 1]] := by decide
example : rxEnd.collSteps = [1, 1] := by decide
example : rxEnd.records = [(1, [⟨1, 1, [.int 4]⟩, ⟨1, 2, [.int 6]⟩])] := by decide
example : modelFrame rxCfg rxEnd = .error .value := by rfl
example : (storedSnaps rxCfg (init rxCfg []) rxOps).map (fun sn => (mOk rxCfg sn, complete rxCfg sn)) =
    [(false, false), (true, false), (true, true)] := by decide
/-! a plain function that raises at the trial call of the first collect: RuntimeError, nothing stored -/
example : (collect { rxCfg with mreps := [.fn (needM 0), .attr 5] } (init rxCfg [])).2 = some .runtime := by decide
/-! references, depth 2: `x0 = [1]; x1 = [2]; x2 = [x0, x1]; collect; x2[0].append(5); x0.append(7)` (the same inner
    object through its other name) `; collect; x2.append(9); x2[1].pop(); x0 = x1; x2 = 3; collect`.  With deepcopy every
    stored entry reads what the reporter showed at its collect (`[[1], [2]]`, then `[[1, 5, 7], [2]]`, then `3`); the
    shallow copy keeps the outer list (no `9`) but shows every inner change; the stored reference shows everything -/
open CollectHeap in
def hpOps : List HOp :=
  [.setNew 0 [1], .setNew 1 [2], .setNew 2 [], .appRef 2 [] 0 [], .appRef 2 [] 1 [], .collect 2, .app 2 [0] 5, .app 0 [] 7,
   .collect 2, .app 2 [] 9, .pop 2 [1], .bind 0 1 [], .setInt 2 3, .collect 2]
open CollectHeap in
example : stored .deep 2 hpOps =
    [.node [.node [.int 1], .node [.int 2]], .node [.node [.int 1, .int 5, .int 7], .node [.int 2]], .int 3] := by rfl
open CollectHeap in
example : seen .deep 2 empty hpOps =
    [.node [.node [.int 1], .node [.int 2]], .node [.node [.int 1, .int 5, .int 7], .node [.int 2]], .int 3] := by rfl
open CollectHeap in
example : stored .shallow 2 hpOps =
    [.node [.node [.int 1, .int 5, .int 7], .node []], .node [.node [.int 1, .int 5, .int 7], .node []], .int 3] := by rfl
open CollectHeap in
example : stored .alias 2 hpOps =
    [.node [.node [.int 1, .int 5, .int 7], .node [], .int 9], .node [.node [.int 1, .int 5, .int 7], .node [], .int 9], .int 3] := by rfl
/-! the live objects after the history are the original ones: the copy did not disturb them (`x0` is `x1` now) -/
open CollectHeap in
example : (read 1 (runH .deep empty hpOps).heap (getH (runH .deep empty hpOps).attrs 0),
    read 1 (runH .deep empty hpOps).heap (getH (runH .deep empty hpOps).attrs 1)) = (.node [], .node []) := by rfl
/-! sharing and cycles survive the copy (deepcopy's memo): `x0 = [1]; x0.append(x0); collect; x0[1][1].append(4)` — the stored
    entry keeps reading `[1, [1, [1, …]]]` to every depth, the live object reads `[1, <itself>, 4]` -/
open CollectHeap in
def cyOps : List HOp := [.setNew 0 [1], .appRef 0 [] 0 [], .collect 0, .app 0 [1, 1] 4]
open CollectHeap in
example : stored .deep 3 cyOps = [.node [.int 1, .node [.int 1, .node [.int 1, .cut]]]] := by rfl
open CollectHeap in
example : read 2 (runH .deep empty cyOps).heap (getH (runH .deep empty cyOps).attrs 0) =
    .node [.int 1, .node [.int 1, .cut, .int 4], .int 4] := by rfl
/-! `model.agents` reversed in place between creation and collect (classes 1 and 2 derive from 0; keys: class 1 with
    direct instances, base class 0 without): the agent rows and the rows of the base-class key follow the new order
    of `model.agents`, the rows of class 1 stay in creation order (`agents_by_type[1]`) -/
def roCfg : Cfg :=
  { mreps := [], areps := [.attr 0], treps := [(1, [.attr 0]), (0, [.attr 0])],
    isAgentClass := fun T => T < 3, isSub := fun c T => c == T || T == 0 }
def roOps : List Op :=
  [.create 1 [(0, .int 7)], .create 2 [(0, .int 5)], .create 1 [(0, .int 6)], .reorder .rev, .collect, .step,
   .reorder (.byAttr 0 true), .create 2 [], .collect]
def roEnd : State := run roCfg (init roCfg []) roOps
example : roEnd.agents.map (·.id) = [2, 3, 1, 4] := by decide
example : roEnd.records.map (fun x => (x.1, x.2.map (·.id))) = [(0, [3, 2, 1]), (1, [2, 3, 1, 4])] := by decide
example : roEnd.typeRecords.map (fun x => (x.1, x.2.map fun y => (y.1, y.2.map (·.id)))) =
    [(0, [(1, [1, 3]), (0, [3, 2, 1])]), (1, [(1, [1, 3]), (0, [2, 3, 1, 4])])] := by decide
example : ¬ IdSorted roEnd.agents := by unfold IdSorted; decide
/-! multiple inheritance (`isSub` is any relation): class 2 derives from the unrelated classes 0 and 1.  Second example:
    neither base has a direct instance — the agents of class 2 are reported under both keys, in the order of
    `model.agents`.  First example: class 1 has a direct instance, so key 1 is read from `agents_by_type[1]` and does not
    list the class-2 agent (a key with direct and subclassed instances: outside C12's quantifier) -/
def miCfg : Cfg :=
  { mreps := [], areps := [], treps := [(0, [.attr 0]), (1, [.attr 0])],
    isAgentClass := fun T => T < 3, isSub := fun c T => c == T || (c == 2 && T < 2) }
example : (run miCfg (init miCfg []) [.create 2 [(0, .int 4)], .create 1 [(0, .int 8)], .collect]).typeRecords.map
    (fun x => x.2.map fun y => (y.1, y.2.map (·.id))) = [[(0, [1]), (1, [2])]] := by decide
example : (run miCfg (init miCfg []) [.create 2 [(0, .int 4)], .create 2 [], .reorder .rot, .collect]).typeRecords.map
    (fun x => x.2.map fun y => (y.1, y.2.map (·.id))) = [[(0, [2, 1]), (1, [2, 1])]] := by decide
end Example

/-- non-vacuity: three agents, the shuffle draws `[2, 0, 1]`; a list that is not a permutation of the positions is not
    a draw (nothing moves) -/
example : ((run miCfg (init miCfg []) [.create 1 [], .create 2 [], .create 1 [], .reorder (.perm [2, 0, 1])]).agents.map (·.id),
    (run miCfg (init miCfg []) [.create 1 [], .create 2 [], .create 1 [], .reorder (.perm [2, 0, 0])]).agents.map (·.id)) =
    ([3, 1, 2], [1, 2, 3]) := by decide

end Mesa.Collect
