import MesaModel.Model.Collect
