import MesaModel.Model.Cont
