import MesaModel.Proofs.ContMetric
/-!
# C10 — both continuous spaces keep every position and answer range / k-nearest / distance queries exactly

Property theorems only (model: `Model/Cont.lean`; helper lemmas: `Proofs/ContArith.lean`,
`Proofs/ContLegacy.lean`, `Proofs/ContExp.lean`).  Coordinates are exact (`Int`, units of 1/64),
distances are compared squared.

A *history* is any list of calls, accepted or rejected:
legacy `LOp` = place / move / remove / get_neighbors (which builds the cache),
experimental `EOp` = new agent / position assignment / `position += v` / `agent.remove()` / a user write through the public
`space.agent_positions` view (`raw`, not validated by anything) — so every `∀ ops` below includes histories with such writes.
`lrun c ops` / `erun c cap ops` is the model state after the history on a fresh space with bounds `c`
(and initial capacity `cap`); `lspec c ops` / `espec c ops` is the property's own bookkeeping of the
same history: the agents placed and not removed, in order, the value last assigned to each, and (experimental)
which agent objects were removed (`lspecStep`, `especStep`: no cache, no array, no index maps).
The experimental agent-level API is `agentGet / agentSet / agentIadd / agentRemove / agentNir / agentNn`
(an `AttributeError` on a removed agent object, otherwise `getPos / setPos / … `: `C10_exp_agent_api`).
-/
namespace Mesa.Cont

/-! ## the assignment rule (in bounds / wrapped on a torus / rejected) -/

/-- Legacy: a position inside `[min, max)` is stored as it is; outside, a bounded space rejects it and
    a torus stores a point inside the space that differs from it by whole multiples of the size. -/
theorem C10_legacy_assignment_rule (c : LCfg) (hw : c.WF) (p : P2) :
    (oob c p = false → torusAdj c p = .ok p) ∧
    (oob c p = true → c.torus = false → torusAdj c p = .error .oob) ∧
    (oob c p = true → c.torus = true → ∃ p', torusAdj c p = .ok p' ∧ oob c p' = false ∧
      ∃ kx ky : Int, p' = (p.1 + kx * c.width, p.2 + ky * c.height)) :=
  ⟨torusAdj_inside c p, torusAdj_reject c p, torusAdj_wrap c hw p⟩

/-- Experimental: a position inside `[min, max]` is stored as it is; outside, a bounded space rejects
    the assignment (and the setter then raises) and a torus stores `torus_correct(p)`, a point inside the space.
    (What `torus_correct` returns, coordinate by coordinate: `C10_exp_wrap_is_periodic_image`.) -/
theorem C10_exp_assignment_rule (c : ECfg) (hw : c.WF) (p : Pos) :
    (inBounds c.dims p = true → eassign c p = some p) ∧
    (inBounds c.dims p = false → c.torus = false → eassign c p = none) ∧
    (inBounds c.dims p = false → c.torus = true →
      eassign c p = some (torusCorrect c.dims p) ∧ inBounds c.dims (torusCorrect c.dims p) = true) := by
  refine ⟨fun h => by simp [eassign, h], fun h ht => by simp [eassign, h, ht], fun h ht => ?_⟩
  exact ⟨by simp [eassign, h, ht], torusCorrect_inBounds _ _ hw⟩

/-- every coordinate the torus correction produces is a periodic image of the given one -/
theorem C10_wrap_is_periodic_image (lo w x : Int) (hw : 0 < w) :
    lo ≤ lo + (x - lo) % w ∧ lo + (x - lo) % w < lo + w ∧ ∃ k : Int, lo + (x - lo) % w = x + k * w :=
  ⟨(wrap_bounds lo w x hw).1, (wrap_bounds lo w x hw).2, wrap_congr lo w x⟩

/-- Experimental torus, the stored value itself (not the bare expression): for a point `p` with one coordinate per axis,
    what an out-of-bounds assignment stores has again one coordinate per axis, and its `i`-th coordinate is `p[i]` moved
    by a whole number of sizes of axis `i` into `[min_i, max_i)` — so a `torus_correct` that returned, say, the lower
    corner would not do.  Legacy: the third clause of `C10_legacy_assignment_rule`. -/
theorem C10_exp_wrap_is_periodic_image (c : ECfg) (hw : c.WF) (p : Pos) (hl : p.length = c.dims.length)
    (hout : inBounds c.dims p = false) (ht : c.torus = true) :
    ∃ p', eassign c p = some p' ∧ p'.length = c.dims.length ∧
      ∀ i (h1 : i < c.dims.length) (h2 : i < p.length) (h3 : i < p'.length),
        c.dims[i].1 ≤ p'[i] ∧ p'[i] < c.dims[i].2 ∧ ∃ k : Int, p'[i] = p[i] + k * (c.dims[i].2 - c.dims[i].1) :=
  ⟨torusCorrect c.dims p, by simp [eassign, hout, ht], torusCorrect_length _ _ hl,
    fun i h1 h2 h3 => torusCorrect_getElem c.dims hw p hl i h1 h2 h3⟩

/-! ## positions and membership over all histories -/

/-- Legacy, every history: `space.agents` is exactly the agents placed and not removed (in order of
    first placement) and every agent's `pos` is the value last assigned to it — whatever was done to
    other agents, and whether or not the position cache was built, patched or invalidated in between. -/
theorem C10_legacy_positions_all_histories (c : LCfg) (ops : List LOp) :
    (lrun c ops).agents = (lspec c ops).1 ∧ (lrun c ops).pos = (lspec c ops).2 :=
  ⟨(lrun_refines c ops).keys, (lrun_refines c ops).pos⟩

/-- Legacy frame: a call that does not assign to / remove agent `a` leaves `a.pos` alone. -/
theorem C10_legacy_frame (c : LCfg) (ops : List LOp) (op : LOp) (a : Aid)
    (h : ∀ b p, (op = .place b p ∨ op = .move b p ∨ op = .remove b) → b ≠ a) :
    (lrun c (ops ++ [op])).pos a = (lrun c ops).pos a := by
  rw [(lrun_refines c (ops ++ [op])).pos, (lrun_refines c ops).pos]
  simp only [lspec, List.foldl_append, List.foldl_cons, List.foldl_nil]
  cases op with
  | place b p =>
    have := h b p (Or.inl rfl)
    simp only [lspecStep]; split <;> simp [upd, Ne.symm this]
  | move b p =>
    have := h b p (Or.inr (Or.inl rfl))
    simp only [lspecStep]; split <;> simp [upd, Ne.symm this]
  | remove b =>
    have := h b (0, 0) (Or.inr (Or.inr rfl))
    simp only [lspecStep]; split <;> simp [upd, Ne.symm this]
  | nbrs p r incl => rfl

/-- Legacy: every agent in the space has a position, and it lies inside the bounds. -/
theorem C10_legacy_positions_inside (c : LCfg) (hw : c.WF) (ops : List LOp) :
    ∀ a ∈ (lrun c ops).agents, ∃ p, (lrun c ops).pos a = some p ∧ oob c p = false := by
  rw [(C10_legacy_positions_all_histories c ops).1, (C10_legacy_positions_all_histories c ops).2]
  exact lspec_inside c hw ops

/-- Legacy, every history: whenever the position cache exists it is coherent — `_index_to_agent` lists
    the agents in dict order, `_agent_to_index` is its inverse (never `None`), and row `i` of
    `_agent_points` is the position of agent `i`. -/
theorem C10_legacy_cache_coherent (c : LCfg) (ops : List LOp) : LInv (lrun c ops) :=
  (lrun_refines c ops).inv

/-- Experimental, every history and every initial capacity: `space.agents` is exactly the agents created
    and not removed (in order), every agent reads back the value last assigned to it — unaffected by
    growth of the array, by compaction on removal and by assignments to other agents — and an agent
    that is not in the space has no row. -/
theorem C10_exp_positions_all_histories (c : ECfg) (cap : Nat) (ops : List EOp) :
    (erun c cap ops).active = (espec c ops).members ∧
    (∀ a p, (espec c ops).pos a = some p →
      agentGet (erun c cap ops) a = .ok p ∧ getPos (erun c cap ops) a = .ok p) ∧
    (∀ a, a ∉ (espec c ops).members →
      agentGet (erun c cap ops) a = .error (if (espec c ops).removed a then .attr else .key) ∧
      getPos (erun c cap ops) a = .error .key) := by
  have h := erun_refines c cap ops
  refine ⟨h.active, fun a p hp => ?_, fun a ha => ?_⟩
  · have hm : a ∈ (erun c cap ops).active := by
      rw [h.active]; exact Classical.byContradiction fun hn => by rw [h.out a hn] at hp; cases hp
    exact ⟨by rw [agentGet_of_mem h.inv hm]; exact h.pos a p hp, h.pos a p hp⟩
  · have hn : a ∉ (erun c cap ops).active := by rw [h.active]; exact ha
    exact ⟨by rw [agentGet_of_not_mem h.inv hn, h.gone], getPos_of_not_mem h.inv hn⟩

/-- Experimental frame: a call about another agent (creation — with or without growth of the array —,
    assignment, removal with compaction, a write through the `agent_positions` view into another agent's row or beyond
    the view) does not change what agent `a` reads back. -/
theorem C10_exp_frame (c : ECfg) (cap : Nat) (ops : List EOp) (op : EOp) (a : Aid)
    (ha : a ∈ (erun c cap ops).active) (hne : op.target (erun c cap ops) ≠ some a) :
    getPos (erun c cap (ops ++ [op])) a = getPos (erun c cap ops) a := by
  have h := (erun_refines c cap ops).inv
  simp only [erun, List.foldl_append, List.foldl_cons, List.foldl_nil]
  exact getPos_estep_frame h op ha hne

/-- Experimental, every history: the array bookkeeping is consistent — `_n_agents` is the number of agents
    and does not exceed the capacity (so every agent has a row), and `_agent_to_index` maps `active[i]`
    to `i` and nothing else to `i`. -/
theorem C10_exp_index_maps_consistent (c : ECfg) (cap : Nat) (ops : List EOp) :
    let s := erun c cap ops
    s.n = s.active.length ∧ s.n ≤ s.cap ∧ s.active.Nodup ∧ ∀ a i, s.a2i a = some i ↔ s.active[i]? = some a :=
  let h := (erun_refines c cap ops).inv
  ⟨h.len, h.cap, h.nodup, h.idx⟩

/-- Experimental: every position assigned through the agent API (by the setter or by `+=`) lies inside the bounds — in
    every history whose writes through the `agent_positions` view, if any, wrote points of the space (the view does not
    validate: `C10_exp_raw_view_write`, and the example below it, show an agent put outside a bounded space that way). -/
theorem C10_exp_positions_inside (c : ECfg) (hw : c.WF) (ops : List EOp)
    (hraw : ∀ i p, EOp.raw i p ∈ ops → inBounds c.dims p = true) :
    ∀ a p, (espec c ops).pos a = some p → inBounds c.dims p = true :=
  espec_pos_invariant c (fun p => inBounds c.dims p = true) ops
    (fun _ _ _ _ hp => eassign_inBounds c hw hp) (fun _ _ _ _ _ _ hp => eassign_inBounds c hw hp) hraw

/-- … and "inside the bounds" means what it says.  `inBounds`, `torusCorrect`, `vadd` and the distance functions pair
    coordinates with axes and stop at the shorter list, so for vectors of the wrong length the conclusion above would be met
    by `[]`.  In every history whose vectors have one coordinate per axis (`WfOps`; what numpy does to other vectors is
    `C10_exp_vector_lengths` and `C10_exp_history_vectors_normalise`), every position the space holds has exactly one
    coordinate per axis, and coordinate `i` lies in `[min_i, max_i]`. -/
theorem C10_exp_positions_wellformed (c : ECfg) (hw : c.WF) (ops : List EOp) (hwf : WfOps c ops)
    (hraw : ∀ i p, EOp.raw i p ∈ ops → inBounds c.dims p = true) :
    ∀ a p, (espec c ops).pos a = some p →
      p.length = c.dims.length ∧
      ∀ i (h1 : i < c.dims.length) (h2 : i < p.length), c.dims[i].1 ≤ p[i] ∧ p[i] ≤ c.dims[i].2 := by
  intro a p hp
  have hlen : p.length = c.dims.length :=
    espec_pos_invariant c (fun p => p.length = c.dims.length) ops
      (fun a q hm p' he => eassign_length c he (hwf _ hm q rfl))
      (fun a v q hm hq p' he => eassign_length c he (by rw [vadd_length q v (by rw [hwf _ hm v rfl, hq]), hq]))
      (fun i q hm => hwf _ hm q rfl) a p hp
  exact ⟨hlen, fun i h1 h2 => inBounds_getElem c.dims p (C10_exp_positions_inside c hw ops hraw a p hp) i h1 h2⟩

/-- Without the assumption on the writes through the view: every recorded position still has one coordinate per axis. -/
theorem C10_exp_positions_have_dimension (c : ECfg) (ops : List EOp) (hwf : WfOps c ops) :
    ∀ a p, (espec c ops).pos a = some p → p.length = c.dims.length :=
  espec_pos_invariant c (fun p => p.length = c.dims.length) ops
    (fun a q hm p' he => eassign_length c he (hwf _ hm q rfl))
    (fun a v q hm hq p' he => eassign_length c he (by rw [vadd_length q v (by rw [hwf _ hm v rfl, hq]), hq]))
    (fun i q hm => hwf _ hm q rfl)

/-! ## calls the property allows never raise -/

/-- Legacy, every history: a call the property allows never raises — a placement or a move of an agent of
    the space is accepted whenever the assignment rule accepts the position (and only then), and an agent
    of the space can be removed.  (`get_neighbors` never raises: `C10_legacy_neighbors_exact`.) -/
theorem C10_legacy_valid_calls_succeed (c : LCfg) (ops : List LOp) (a : Aid) (p : P2) :
    let s := lrun c ops
    (∀ p', torusAdj c p = .ok p' → ∃ s', place s a p = .ok s') ∧
    (∀ e, torusAdj c p = .error e → place s a p = .error e ∧ move s a p = (s, .error e)) ∧
    (a ∈ s.agents → ∀ p', torusAdj c p = .ok p' → (move s a p).2 = .ok ()) ∧
    (a ∈ s.agents → ∃ s', remove s a = .ok s') := by
  dsimp only
  have h := lrun_refines c ops
  refine ⟨fun p' hp => ?_, fun e he => ?_, fun ha p' hp => ?_, fun ha => ?_⟩
  · exact ⟨_, by simp only [place, h.cfg, hp]; rfl⟩
  · exact ⟨by simp only [place, h.cfg, he], by simp only [move, h.cfg, he]⟩
  · rcases move_spec h.inv a p with ⟨e, h1, _⟩ | ⟨q, _, _, _, _, _, h6⟩
    · rw [h.cfg, hp] at h1; cases h1
    · rcases h6 with h6 | ⟨_, h7⟩
      · exact h6
      · exact absurd ha h7
  · have : (lrun c ops).a2i.keys.contains a = true := by simpa [LSpace.agents] using ha
    exact ⟨_, by simp only [remove, this]; rfl⟩

/-- Experimental, every history and every initial capacity: a call the property allows never raises —
    an agent of the space can be assigned (`agent.position = p`) every position the assignment rule accepts
    (whatever the capacity was: the array has grown) and reads it back, is rejected with `ValueError` otherwise,
    and can be removed. -/
theorem C10_exp_valid_calls_succeed (c : ECfg) (cap : Nat) (ops : List EOp) (a : Aid) (p : Pos) :
    let s := erun c cap ops
    a ∈ s.active →
    (∀ p', eassign c p = some p' → ∃ s', agentSet s a p = .ok s' ∧ agentGet s' a = .ok p') ∧
    (eassign c p = none → agentSet s a p = .error .oob) ∧
    (∃ s', agentRemove s a = .ok s') := by
  dsimp only
  intro ha
  have h := erun_refines c cap ops
  rw [agentSet_of_mem h.inv ha]
  refine ⟨fun p' hp => ?_, fun hp => ?_, ?_⟩
  · rcases setPos_spec h.inv a p with ⟨hn, _⟩ | ⟨_, hr, _⟩ | ⟨q, i, _, hr, hidx, he⟩
    · exact absurd ha hn
    · rw [h.cfg, hp] at hr; cases hr
    · rw [h.cfg, hp] at hr; cases hr
      refine ⟨_, he, ?_⟩
      rw [agentGet_of_mem (einv_set h.inv i p') (by exact ha), getPos_set h.inv hidx]; simp
  · rcases setPos_spec h.inv a p with ⟨hn, _⟩ | ⟨_, _, he⟩ | ⟨q, i, _, hr, _, _⟩
    · exact absurd ha hn
    · exact he
    · rw [h.cfg, hp] at hr; cases hr
  · obtain ⟨i, hi⟩ := (h.inv.mem_iff a).mp ha
    obtain ⟨s', h1, _⟩ := agentRemove_spec h.inv hi
    exact ⟨s', h1⟩

/-- Experimental, every history: `agent.position += v` is the assignment of (current position) + v — the sum is
    validated / wrapped by the assignment rule before anything is written (after repair CS2: the getter hands
    out a copy, so `+=` cannot write into the array behind the setter's back).  A rejected `+=` leaves the
    space as it was. -/
theorem C10_exp_iadd_is_assignment (c : ECfg) (cap : Nat) (ops : List EOp) (a : Aid) (q v : Pos) :
    let s := erun c cap ops
    a ∈ s.active → agentGet s a = .ok q →
    agentIadd s a v = agentSet s a (vadd q v) ∧
    (∀ p', eassign c (vadd q v) = some p' → ∃ s', agentIadd s a v = .ok s' ∧ agentGet s' a = .ok p') ∧
    (eassign c (vadd q v) = none → agentIadd s a v = .error .oob ∧ estep s (.iadd a v) = s) := by
  dsimp only
  intro ha hq
  have hv := C10_exp_valid_calls_succeed c cap ops a (vadd q v) ha
  have e : agentIadd (erun c cap ops) a v = agentSet (erun c cap ops) a (vadd q v) := by
    simp only [agentIadd, hq]
  refine ⟨e, fun p' hp => ?_, fun hp => ?_⟩
  · rw [e]; exact hv.1 p' hp
  · have := hv.2.1 hp
    exact ⟨by rw [e]; exact this, by simp only [estep, e, this]⟩

/-! ## "last assigned", in closed form (no bookkeeping function in the statement) -/

/-- Experimental, every pair of histories and every initial capacity: if agent `a` of the space is assigned `p`, the
    assignment rule stores `p'` for `p`, and none of the calls that follow is about `a` (no assignment, `+=`, removal of `a`,
    no write through the view into the row `a` has at that moment) — whatever they do to other agents: creations with
    re-allocation, removals with compaction of `a`'s row, writes — then `a` is still in the space and reports `p'`. -/
theorem C10_exp_last_assignment (c : ECfg) (cap : Nat) (pre post : List EOp) (a : Aid) (p p' : Pos) :
    a ∈ (erun c cap pre).active → eassign c p = some p' →
    (∀ k (hk : k < post.length), (post[k]).target (erun c cap (pre ++ [EOp.set a p] ++ post.take k)) ≠ some a) →
    a ∈ (erun c cap (pre ++ [EOp.set a p] ++ post)).active ∧
    agentGet (erun c cap (pre ++ [EOp.set a p] ++ post)) a = .ok p' := by
  intro ha hp hpost
  obtain ⟨s', h1, h2⟩ := (C10_exp_valid_calls_succeed c cap pre a p ha).1 p' hp
  have hstep : erun c cap (pre ++ [EOp.set a p]) = s' := by
    simp only [erun, List.foldl_append, List.foldl_cons, List.foldl_nil, estep]
    show (match agentSet (erun c cap pre) a p with | .ok s' => s' | .error _ => erun c cap pre) = s'
    rw [h1]
  have hmem : a ∈ (erun c cap (pre ++ [EOp.set a p])).active := by
    rw [(erun_refines c cap (pre ++ [EOp.set a p])).active]
    have : espec c (pre ++ [EOp.set a p]) = especStep c (espec c pre) (EOp.set a p) := by simp [espec, List.foldl_append]
    rw [this]
    exact especStep_members_frame c _ _ a (by rw [← (erun_refines c cap pre).active]; exact ha) (by simp)
  obtain ⟨f1, f2⟩ := erun_frame_fold c cap a post (pre ++ [EOp.set a p]) hmem hpost
  refine ⟨f1, ?_⟩
  rw [agentGet_of_mem (erun_refines c cap _).inv f1, f2, ← agentGet_of_mem (erun_refines c cap _).inv hmem, hstep]
  exact h2

/-- Experimental: a freshly created agent has no assigned position, and the code gives it none (`_add_agent` only reserves the
    next row; the constructor's `self.position[:] = np.nan` is commented out).  It is appended to `space.agents`, and until its
    first assignment it reports whatever that row holds — uninitialised memory, or the stale copy compaction left there of an
    agent removed earlier (example below: the new agent reads the removed agent's last position) — and every query computes
    with that row.  The property speaks about assigned positions only, so this is outside its quantifier (harness assumption
    "assigned before read"); the bookkeeping `espec` says `none` for it, which leaves the agent unconstrained in
    `C10_exp_positions_all_histories` until it is assigned (`C10_exp_last_assignment`). -/
theorem C10_exp_fresh_agent (c : ECfg) (cap : Nat) (ops : List EOp) (a : Aid) :
    let s := erun c cap ops
    a ∉ s.active → (espec c ops).removed a = false →
    (erun c cap (ops ++ [.new a])).active = s.active ++ [a] ∧
    (espec c (ops ++ [.new a])).pos a = none ∧
    getPos (erun c cap (ops ++ [.new a])) a = .ok (s.buf s.active.length) := by
  dsimp only
  intro ha hr
  have h := erun_refines c cap ops
  have h' := erun_refines c cap (ops ++ [.new a])
  have hf : (erun c cap ops).a2i a = none := (h.inv.not_mem_iff a).mp ha
  have hg : (erun c cap ops).gone a = false := by rw [h.gone]; exact hr
  have hstep : erun c cap (ops ++ [.new a]) = addAgent (erun c cap ops) a := by
    simp only [erun, List.foldl_append, List.foldl_cons, List.foldl_nil, estep]
    have hf' : (List.foldl estep (einit c cap) ops).a2i a = none := hf
    have hg' : (List.foldl estep (einit c cap) ops).gone a = false := hg
    simp [hf', hg']
  have hidx : (erun c cap (ops ++ [.new a])).a2i a = some (erun c cap ops).n := by
    rw [hstep]; simp [addAgent, upd]
  refine ⟨by rw [hstep]; rfl, ?_, ?_⟩
  · have hm : a ∉ (espec c ops).members := by rw [← h.active]; exact ha
    have hm' : a ∉ (List.foldl (especStep c) ⟨[], fun _ => none, fun _ => false⟩ ops).members := hm
    have hr' : (List.foldl (especStep c) ⟨[], fun _ => none, fun _ => false⟩ ops).removed a = false := hr
    simp [espec, List.foldl_append, especStep, hm', hr', upd]
  · rw [getPos_of_idx h'.inv hidx, hstep, h.inv.len]; rfl

/-- Experimental, every history: every agent of the space has a row of the view — it is the `i`-th agent of `space.agents`
    for the `i < _n_agents` that `_agent_to_index` gives, and reading its position never raises and returns that row, whether
    or not it has been assigned one (the bookkeeping of `C10_exp_positions_all_histories` says what it reads only once it was
    assigned). -/
theorem C10_exp_every_agent_has_a_row (c : ECfg) (cap : Nat) (ops : List EOp) (a : Aid) :
    let s := erun c cap ops
    a ∈ s.active → ∃ i, i < s.n ∧ s.n ≤ s.cap ∧ s.a2i a = some i ∧ s.active[i]? = some a ∧
      agentGet s a = .ok (s.buf i) ∧ getPos s a = .ok (s.buf i) := by
  intro s ha
  have h := (erun_refines c cap ops).inv
  obtain ⟨i, hi⟩ := (h.mem_iff a).mp ha
  exact ⟨i, h.lt hi, h.cap, hi, (h.idx a i).mp hi, by rw [agentGet_of_mem h ha]; exact getPos_of_idx h hi, getPos_of_idx h hi⟩

/-- Legacy, every pair of histories: if `a` is placed at (or, being in the space, moved to) `p`, the assignment rule stores
    `p'` for `p`, and no later call places, moves or removes `a` — whatever is done to other agents and whenever the cache is
    built, patched or dropped — then `a` is in the space and its `pos` is `p'`. -/
theorem C10_legacy_last_assignment (c : LCfg) (pre post : List LOp) (a : Aid) (p p' : P2) (byMove : Bool) :
    (byMove = true → a ∈ (lrun c pre).agents) → torusAdj c p = .ok p' →
    (∀ op ∈ post, ∀ b q, (op = .place b q ∨ op = .move b q ∨ op = .remove b) → b ≠ a) →
    a ∈ (lrun c (pre ++ [if byMove then .move a p else .place a p] ++ post)).agents ∧
    (lrun c (pre ++ [if byMove then .move a p else .place a p] ++ post)).pos a = some p' := by
  intro hm hp hpost
  rw [(C10_legacy_positions_all_histories c _).1, (C10_legacy_positions_all_histories c _).2]
  simp only [lspec, List.foldl_append, List.foldl_cons, List.foldl_nil]
  apply lspec_fold_frame c a p' post hpost
  · cases byMove with
    | true =>
      have := hm rfl
      rw [(C10_legacy_positions_all_histories c pre).1] at this
      simpa [lspecStep, hp, lspec] using this
    | false =>
      simp only [Bool.false_eq_true, if_false, lspecStep, hp]
      split <;> simp [*]
  · cases byMove <;> simp [lspecStep, hp, upd]

/-- Experimental life cycle, every history: an agent object whose `remove()` was executed is out of the space
    for good — it is not in `space.agents`, no query returns it (`C10_exp_radius_exact`, … range over
    `space.agents`), and every method of the agent object (`position`, `position = …`, `position += …`,
    `remove()` again, both neighbour queries) raises `AttributeError` and changes nothing; through the space-level
    API (`agents=[a]`) it is a `KeyError`. -/
theorem C10_exp_removed_agent_is_dead (argpart : List Int → Nat → List Nat) (c : ECfg) (cap : Nat)
    (ops : List EOp) (a : Aid) :
    let s := erun c cap ops
    (espec c ops).removed a = true →
    a ∉ s.active ∧
    agentGet s a = .error .attr ∧ (∀ p, agentSet s a p = .error .attr) ∧ (∀ v, agentIadd s a v = .error .attr) ∧
    agentRemove s a = .error .attr ∧ (∀ r, agentNir s a r = .error .attr) ∧
    (∀ k, agentNn argpart s a k = .error .attr) ∧ (∀ j, agentPoke s a j = .error .attr) ∧
    (∀ pt, distancesOf s pt (some [a]) = .error .key) ∧
    (∀ op : EOp, op.target s = some a → estep s op = s) := by
  dsimp only
  intro hr
  have h := erun_refines c cap ops
  have hg : (erun c cap ops).gone a = true := by rw [h.gone]; exact hr
  have hn : (erun c cap ops).a2i a = none := h.inv.gone a hg
  have hget : agentGet (erun c cap ops) a = .error .attr := by simp [agentGet, hg]
  refine ⟨(h.inv.not_mem_iff a).mpr hn, hget, fun p => by simp [agentSet, hg],
    fun v => by simp [agentIadd, hget], by simp [agentRemove, hg], fun r => by simp [agentNir, hg],
    fun k => by simp [agentNn, hg], fun j => by simp [agentPoke, hget],
    fun pt => by simp [distancesOf, rowsOf, collect, hn, Except.map], ?_⟩
  intro op ht
  cases op with
  | new b => simp only [EOp.target, Option.some.injEq] at ht; subst ht; simp [estep, hg]
  | set b p => simp only [EOp.target, Option.some.injEq] at ht; subst ht; simp [estep, agentSet, hg]
  | remove b => simp only [EOp.target, Option.some.injEq] at ht; subst ht; simp [estep, agentRemove, hg]
  | iadd b v => simp only [EOp.target, Option.some.injEq] at ht; subst ht; simp [estep, agentIadd, hget]
  | raw i p =>
    -- no row of the view belongs to a removed agent: a write through the view cannot reach it
    exact absurd (List.mem_of_getElem? ht) ((h.inv.not_mem_iff a).mpr hn)

/-- … and removal is what kills it: on an agent of the space `remove()` succeeds, takes exactly that agent out of
    `space.agents`, marks the object removed, and no other agent's position changes. -/
theorem C10_exp_remove_lifecycle (c : ECfg) (cap : Nat) (ops : List EOp) (a : Aid) :
    let s := erun c cap ops
    a ∈ s.active →
    (espec c ops).removed a = false ∧
    ∃ s', agentRemove s a = .ok s' ∧ s' = erun c cap (ops ++ [.remove a]) ∧
      s'.active = s.active.filter (fun b => b ≠ a) ∧ (espec c (ops ++ [.remove a])).removed a = true ∧
      ∀ b, b ≠ a → agentGet s' b = agentGet s b := by
  dsimp only
  intro ha
  have h := erun_refines c cap ops
  have h' := erun_refines c cap (ops ++ [.remove a])
  obtain ⟨i, hi⟩ := (h.inv.mem_iff a).mp ha
  obtain ⟨s', h1, _, _, _, _, _, h6, _, h8⟩ := agentRemove_spec h.inv hi
  have hrun : erun c cap (ops ++ [.remove a]) = s' := by
    simp only [erun, List.foldl_append, List.foldl_cons, List.foldl_nil, estep]
    show (match agentRemove (erun c cap ops) a with | .ok s' => s' | .error _ => erun c cap ops) = s'
    rw [h1]
  have hmem : a ∈ (espec c ops).members := by rw [← h.active]; exact ha
  have hspec : espec c (ops ++ [.remove a]) = especStep c (espec c ops) (.remove a) := by
    simp only [espec, List.foldl_append, List.foldl_cons, List.foldl_nil]
  refine ⟨by rw [← h.gone]; exact h.inv.not_gone hi, s', h1, hrun.symm, ?_, ?_, ?_⟩
  · rw [← hrun, h'.active, hspec, h.active]; simp [especStep, hmem]
  · rw [hspec]; simp [especStep, hmem, upd]
  · intro b hba
    simp only [agentGet, h6, upd, hba, if_false]
    rw [h8 b hba]

/-- The agent-level API on an agent of the space is the space-level function the other theorems talk about. -/
theorem C10_exp_agent_api (argpart : List Int → Nat → List Nat) (c : ECfg) (cap : Nat) (ops : List EOp) (a : Aid) :
    let s := erun c cap ops
    a ∈ s.active →
    agentGet s a = getPos s a ∧ (∀ p, agentSet s a p = setPos s a p) ∧
    (∀ r, agentNir s a r = neighborsInRadius s a r) ∧ (∀ k, agentNn argpart s a k = nearestNeighbors argpart s a k) := by
  dsimp only
  intro ha
  have h := erun_refines c cap ops
  obtain ⟨i, hi⟩ := (h.inv.mem_iff a).mp ha
  have hg := h.inv.not_gone hi
  exact ⟨by simp [agentGet, hg], fun p => by simp [agentSet, hg], fun r => by simp [agentNir, hg],
    fun k => by simp [agentNn, hg]⟩

/-- `space.agent_positions` is a *view* of the filled rows, and a user write through it, `space.agent_positions[i] = p`
    (or a vectorised update of all rows), at any state any history can reach: it lands in the row of the `i`-th agent of
    `space.agents` with no validation — that agent then reports `p` even if `p` is outside the bounds of a bounded space
    or un-wrapped on a torus — and touches nothing else: membership, order, index maps, counts, capacity and every other
    agent's position are as before.  For a value the assignment rule stores as it is (in bounds) the write is
    indistinguishable from `agent.position = p`.  Beyond the view it is an `IndexError`.  The write is a call of the
    histories (`EOp.raw`): the bookkeeping `espec` records `p` as the agent's position, and every history theorem of this
    file (positions, index maps, exact radius / k-nearest / distance answers) holds after any number of such writes —
    they can misplace an agent, they cannot corrupt the space. -/
theorem C10_exp_raw_view_write (c : ECfg) (cap : Nat) (ops : List EOp) (i : Nat) (p : Pos) :
    let s := erun c cap ops
    (∀ a, s.active[i]? = some a →
      ∃ s', rawWrite s i p = .ok s' ∧ s'.active = s.active ∧ s'.a2i = s.a2i ∧ s'.n = s.n ∧ s'.cap = s.cap ∧
        s'.gone = s.gone ∧ agentGet s' a = .ok p ∧ (∀ b, b ≠ a → agentGet s' b = agentGet s b) ∧
        s' = erun c cap (ops ++ [.raw i p]) ∧ (espec c (ops ++ [.raw i p])).pos a = some p ∧
        (inBounds c.dims p = true → s' = erun c cap (ops ++ [.set a p]))) ∧
    (s.active.length ≤ i → rawWrite s i p = .error .index ∧ erun c cap (ops ++ [.raw i p]) = s) := by
  dsimp only
  have h := erun_refines c cap ops
  refine ⟨fun a ha => ?_, fun hi => ?_⟩
  · have hidx : (erun c cap ops).a2i a = some i := (h.inv.idx a i).mpr ha
    have hlt : i < (erun c cap ops).view := by rw [h.inv.view]; exact h.inv.lt hidx
    have hmem : a ∈ (erun c cap ops).active := List.mem_of_getElem? ha
    refine ⟨{ erun c cap ops with buf := upd (erun c cap ops).buf i p }, by simp [rawWrite, hlt], rfl, rfl, rfl, rfl, rfl,
      ?_, fun b hb => ?_, ?_, ?_, fun hin => ?_⟩
    · rw [agentGet_of_mem (einv_set h.inv i p) (by exact hmem), getPos_set h.inv hidx]; simp
    · simp only [agentGet]
      rw [getPos_set h.inv hidx]; simp [hb]
    · simp only [erun, List.foldl_append, List.foldl_cons, List.foldl_nil, estep, rawWrite]
      have hlt' : i < (List.foldl estep (einit c cap) ops).view := hlt
      simp [hlt']
    · have hm : (espec c ops).members[i]? = some a := by rw [← h.active]; exact ha
      simp only [espec, List.foldl_append, List.foldl_cons, List.foldl_nil, especStep] at hm ⊢
      simp [hm, upd]
    · have hstep : erun c cap (ops ++ [EOp.set a p]) = estep (erun c cap ops) (EOp.set a p) := by
        simp only [erun, List.foldl_append, List.foldl_cons, List.foldl_nil]
      rw [hstep]
      show _ = (match agentSet (erun c cap ops) a p with | .ok s' => s' | .error _ => erun c cap ops)
      rw [agentSet_of_mem h.inv hmem]
      rcases setPos_spec h.inv a p with ⟨hn, _⟩ | ⟨_, hr, _⟩ | ⟨q, j, _, hr, hj, he⟩
      · exact absurd hmem hn
      · rw [h.cfg] at hr; simp [eassign, hin] at hr
      · rw [h.cfg] at hr
        have hq : q = p := by simp [eassign, hin] at hr; exact hr.symm
        have hji : j = i := by rw [hidx] at hj; cases hj; rfl
        rw [he, hq, hji]
  · have : ¬ i < (erun c cap ops).view := by rw [h.inv.view, h.inv.len]; omega
    refine ⟨by simp [rawWrite, this], ?_⟩
    have this' : ¬ i < (List.foldl estep (einit c cap) ops).view := this
    simp [erun, List.foldl_append, estep, rawWrite, this']

/-! ### vectors with the wrong number of coordinates -/

/-- The code never checks the length of a point; this is what happens instead, at every reachable state of a space with
    `nd ≥ 2` axes (`…V` = the call with a vector of any length).  With the right length the call is the one the other
    theorems talk about.  A one-element vector `[x]` is silently taken for `(x, …, x)` by assignment, `+=`, writes through the
    view, difference vectors, `in_bounds` — and by the distance-based queries of a torus, while on a bounded space the same
    queries raise `ValueError` (`scipy.cdist` counts columns).  Every other length raises `ValueError` everywhere, and
    nothing is written. -/
theorem C10_exp_vector_lengths (argpart : List Int → Nat → List Nat) (c : ECfg) (cap : Nat) (ops : List EOp) (a : Aid)
    (p : Pos) :
    let s := erun c cap ops
    a ∈ s.active →
    (p.length = c.dims.length →
      agentSetV s a p = agentSet s a p ∧ agentIaddV s a p = agentIadd s a p ∧ (∀ i, rawWriteV s i p = rawWrite s i p) ∧
      (∀ sub, distancesOfV s p sub = distancesOf s p sub) ∧ (∀ sub, diffsOfV s p sub = diffsOf s p sub) ∧
      (∀ r, agentsInRadiusV s p r = .ok (agentsInRadius s p r)) ∧ (∀ k, kNearestV argpart s p k = kNearest argpart s p k)) ∧
    (∀ x, p = [x] → c.dims.length ≠ 1 →
      agentSetV s a p = agentSet s a (List.replicate c.dims.length x) ∧
      agentIaddV s a p = agentIadd s a (List.replicate c.dims.length x) ∧
      (∀ i, rawWriteV s i p = rawWrite s i (List.replicate c.dims.length x)) ∧
      (∀ sub, diffsOfV s p sub = diffsOf s (List.replicate c.dims.length x) sub) ∧
      inBoundsV s p = .ok (inBounds c.dims (List.replicate c.dims.length x)) ∧
      (c.torus = true → (∀ sub, distancesOfV s p sub = distancesOf s (List.replicate c.dims.length x) sub) ∧
        ∀ r, agentsInRadiusV s p r = .ok (agentsInRadius s (List.replicate c.dims.length x) r)) ∧
      (c.torus = false → distancesOfV s p none = .error .value ∧ (∀ r, agentsInRadiusV s p r = .error .value) ∧
        ∀ k, kNearestV argpart s p k = .error .value)) ∧
    (p.length ≠ c.dims.length → p.length ≠ 1 →
      agentSetV s a p = .error .value ∧ agentIaddV s a p = .error .value ∧
      (∀ i, i < s.active.length → rawWriteV s i p = .error .value) ∧
      distancesOfV s p none = .error .value ∧ diffsOfV s p none = .error .value ∧
      (∀ r, agentsInRadiusV s p r = .error .value) ∧ (∀ k, kNearestV argpart s p k = .error .value) ∧
      inBoundsV s p = .error .value ∧ torusCorrectV s p = .error .value) := by
  dsimp only
  intro ha
  have h := erun_refines c cap ops
  have hnd : (erun c cap ops).nd = c.dims.length := by simp [ESpace.nd, h.cfg]
  have ht : (erun c cap ops).cfg.torus = c.torus := by rw [h.cfg]
  obtain ⟨i0, hi0⟩ := (h.inv.mem_iff a).mp ha
  have hg := h.inv.not_gone hi0
  have hget : agentGet (erun c cap ops) a = .ok ((erun c cap ops).buf i0) := by
    rw [agentGet_of_mem h.inv ha, getPos_of_idx h.inv hi0]
  have hsub : ∀ {α : Type} (q : Pos) (sub : Option (List Aid)) (f : Pos → Except Err α)
      (hf : ∀ l e, sub = some l → rowsOf (erun c cap ops) l = .error e → f q = .error e) (vc : Bool),
      queryPoint (erun c cap ops) vc p = .ok q → withPoint (erun c cap ops) vc p sub f = f q := by
    intro α q sub f hf vc hq
    cases sub with
    | none => simp only [withPoint, hq]
    | some l =>
      cases hr : rowsOf (erun c cap ops) l with
      | error e => simp only [withPoint, hr]; exact (hf l e rfl hr).symm
      | ok _ => simp only [withPoint, hr, hq]
  have hdist : ∀ q l e, rowsOf (erun c cap ops) l = .error e → distancesOf (erun c cap ops) q (some l) = .error e := by
    intro q l e hr; simp [distancesOf, hr, Except.map]
  have hdiff : ∀ q l e, rowsOf (erun c cap ops) l = .error e → diffsOf (erun c cap ops) q (some l) = .error e := by
    intro q l e hr; simp [diffsOf, hr, Except.map]
  refine ⟨fun hl => ?_, fun x hx hn1 => ?_, fun hl h1 => ?_⟩
  · have hb0 : bcast c.dims.length p = .ok p := by simp [bcast, hl]
    have hb : bcast (erun c cap ops).nd p = .ok p := by rw [hnd]; exact hb0
    have hq : ∀ vc, queryPoint (erun c cap ops) vc p = .ok p := by
      intro vc; simp only [queryPoint, hnd, hb0, hl]; split <;> simp
    refine ⟨by simp [agentSetV, agentSet, hg, hb], by simp [agentIaddV, agentIadd, hget, hb],
      fun i => by simp only [rawWriteV, rawWrite, hb], fun sub => ?_, fun sub => ?_, fun r => ?_, fun k => ?_⟩
    · exact hsub p sub _ (fun l e hs hr => by subst hs; exact hdist p l e hr) true (hq true)
    · exact hsub p sub _ (fun l e hs hr => by subst hs; exact hdiff p l e hr) false (hq false)
    · exact hsub p none _ (fun l e hs _ => by cases hs) true (hq true)
    · exact hsub p none _ (fun l e hs _ => by cases hs) true (hq true)
  · subst hx
    have hb : bcast (erun c cap ops).nd [x] = .ok (List.replicate c.dims.length x) := by
      simp only [bcast, hnd, List.length_singleton]
      rw [if_neg (Ne.symm hn1)]
    refine ⟨by simp [agentSetV, agentSet, hg, hb], by simp [agentIaddV, agentIadd, hget, hb],
      fun i => by simp only [rawWriteV, rawWrite, hb], fun sub => ?_, by simp [inBoundsV, hb, h.cfg, Except.map],
      fun htor => ⟨fun sub => ?_, fun r => ?_⟩, fun htor => ?_⟩
    · exact hsub _ sub _ (fun l e hs hr => by subst hs; exact hdiff _ l e hr) false (by simp [queryPoint, hb])
    · exact hsub _ sub _ (fun l e hs hr => by subst hs; exact hdist _ l e hr) true (by simp [queryPoint, hb, ht, htor])
    · exact hsub _ none _ (fun l e hs _ => by cases hs) true (by simp [queryPoint, hb, ht, htor])
    · have hq : queryPoint (erun c cap ops) true [x] = .error .value := by
        simp only [queryPoint, ht, htor, hnd, List.length_singleton]
        simp [Ne.symm hn1]
      exact ⟨by simp [distancesOfV, withPoint, hq], fun r => by simp [agentsInRadiusV, withPoint, hq],
        fun k => by simp [kNearestV, withPoint, hq]⟩
  · have hb0 : bcast c.dims.length p = .error .value := by
      simp only [bcast, hl, if_false]
      match p, h1 with
      | [], _ => rfl
      | [_], h1 => simp at h1
      | _ :: _ :: _, _ => rfl
    have hb : bcast (erun c cap ops).nd p = .error .value := by rw [hnd]; exact hb0
    have hq : ∀ vc, queryPoint (erun c cap ops) vc p = .error .value := by
      intro vc; simp only [queryPoint, hnd, hb0, hl, if_false]; split <;> rfl
    refine ⟨by simp [agentSetV, hg, hb], by simp [agentIaddV, hget, hb], fun i hi => ?_,
      by simp [distancesOfV, withPoint, hq], by simp [diffsOfV, withPoint, hq], fun r => by simp [agentsInRadiusV, withPoint, hq],
      fun k => by simp [kNearestV, withPoint, hq], by simp [inBoundsV, hb, Except.map], by simp [torusCorrectV, hb, Except.map]⟩
    have hlt : i < (erun c cap ops).view := by rw [h.inv.view, h.inv.len]; exact hi
    simp [rawWriteV, hlt, hb]

/-! ### references to `agent_positions` kept by the user -/

/-- Every history: the array `_agent_positions` is never shrunk, and it is replaced (by a strictly larger one) only by
    `_add_agent`, only when it is full.  So the number of rows names the array: a reference to `agent_positions` taken
    after `pre` still is a view of the space's array after `pre ++ post` iff the capacity is what it was — and then it was
    the same at every moment in between. -/
theorem C10_exp_capacity_names_the_array (c : ECfg) (cap : Nat) (pre post : List EOp) :
    (erun c cap pre).cap ≤ (erun c cap (pre ++ post)).cap ∧
    (∀ op, (erun c cap (pre ++ [op])).cap = (erun c cap pre).cap ∨
      ((erun c cap pre).cap < (erun c cap (pre ++ [op])).cap ∧ (∃ a, op = .new a) ∧ (erun c cap pre).n = (erun c cap pre).cap)) ∧
    ((erun c cap (pre ++ post)).cap = (erun c cap pre).cap →
      ∀ k, (erun c cap (pre ++ post.take k)).cap = (erun c cap pre).cap) := by
  have hmono : ∀ (a b : List EOp), (erun c cap a).cap ≤ (erun c cap (a ++ b)).cap := by
    intro a b; simp only [erun, List.foldl_append]; exact efold_cap_mono b _
  refine ⟨hmono pre post, fun op => ?_, fun he k => ?_⟩
  · simp only [erun, List.foldl_append, List.foldl_cons, List.foldl_nil]
    rcases estep_cap (List.foldl estep (einit c cap) pre) op with h | ⟨h1, h2, h3⟩
    · exact Or.inl h
    · have := (erun_refines c cap pre).inv.cap
      exact Or.inr ⟨h1, h2, by simp only [erun] at this; omega⟩
  · have h1 := hmono pre (post.take k)
    have h2 := hmono (pre ++ post.take k) (post.drop k)
    rw [List.append_assoc, List.take_append_drop] at h2
    omega

/-- A write `v[i] = p` through a reference `v = space.agent_positions` the user took after `pre` and still holds after
    `pre ++ post`, for every pair of histories: beyond the length `v` had it is an `IndexError`; if the array has been
    re-allocated since, the write is lost — the space is exactly as it was; if not and row `i` is in use, it is a write
    through the current view (`C10_exp_raw_view_write`: it moves the agent that has row `i` *now*, which after removals
    need not be the agent `v[i]` showed when `v` was taken); if the row is no longer in use (agents were removed)
    nothing observable changes: membership, index maps and every agent's position are as before. -/
theorem C10_exp_kept_view_write (c : ECfg) (cap : Nat) (pre post : List EOp) (i : Nat) (p : Pos) :
    let v := holdView (erun c cap pre)
    let s := erun c cap (pre ++ post)
    v.len = (erun c cap pre).active.length ∧
    (v.len ≤ i → heldWrite s v i p = .error .index) ∧
    (i < v.len → s.cap ≠ (erun c cap pre).cap → heldWrite s v i p = .ok s) ∧
    (i < v.len → s.cap = (erun c cap pre).cap → i < s.active.length →
      heldWrite s v i p = rawWrite s i p ∧ heldWrite s v i p = .ok (erun c cap (pre ++ post ++ [.raw i p]))) ∧
    (i < v.len → s.cap = (erun c cap pre).cap → s.active.length ≤ i →
      ∃ s', heldWrite s v i p = .ok s' ∧ s'.active = s.active ∧ s'.a2i = s.a2i ∧ s'.n = s.n ∧ s'.cap = s.cap ∧
        s'.gone = s.gone ∧ rows s' = rows s ∧ ∀ a, agentGet s' a = agentGet s a) := by
  dsimp only
  have h0 := (erun_refines c cap pre).inv
  have h := (erun_refines c cap (pre ++ post)).inv
  have hlen : (holdView (erun c cap pre)).len = (erun c cap pre).active.length := by
    simp only [holdView]; rw [h0.view, h0.len]
  have hcapv : (holdView (erun c cap pre)).cap = (erun c cap pre).cap := rfl
  refine ⟨hlen, fun hi => ?_, fun hi hc => ?_, fun hi hc hu => ?_, fun hi hc hu => ?_⟩
  · simp [heldWrite, Nat.not_lt.mpr hi]
  · simp [heldWrite, hi, hcapv, Ne.symm hc]
  · have hlt : i < (erun c cap (pre ++ post)).view := by rw [h.view, h.len]; exact hu
    have e : heldWrite (erun c cap (pre ++ post)) (holdView (erun c cap pre)) i p = rawWrite (erun c cap (pre ++ post)) i p := by
      simp [heldWrite, rawWrite, hi, hcapv, hc, hlt]
    refine ⟨e, ?_⟩
    rw [e]
    obtain ⟨a, ha⟩ : ∃ a, (erun c cap (pre ++ post)).active[i]? = some a := ⟨_, List.getElem?_eq_getElem hu⟩
    obtain ⟨s', h1, _, _, _, _, _, _, _, h8, _⟩ := (C10_exp_raw_view_write c cap (pre ++ post) i p).1 a ha
    rw [h1, h8]
  · refine ⟨{ erun c cap (pre ++ post) with buf := upd (erun c cap (pre ++ post)).buf i p },
      by simp [heldWrite, hi, hcapv, hc], rfl, rfl, rfl, rfl, rfl, ?_, fun a => ?_⟩
    · simp only [rows, ESpace.view]
      apply List.map_congr_left
      intro j hj
      have : j < (erun c cap (pre ++ post)).n := by
        have := List.mem_range.mp hj; omega
      have hji : j ≠ i := by rw [h.len] at this; omega
      simp [upd, hji]
    · simp only [agentGet, getPos, ESpace.view]
      cases ha : (erun c cap (pre ++ post)).a2i a with
      | none => rfl
      | some j =>
        have hj := h.lt ha
        have hji : j ≠ i := by rw [h.len] at hj; omega
        simp only [upd, hji, if_false]
        first | rfl | (split <;> first | rfl | (split <;> rfl))

/-- What a kept reference shows.  While the array has not been re-allocated, row `j` of `v` is the position of the agent
    that is `j`-th in `space.agents` *now* (rows beyond the current number of agents are stale copies); once the array has been
    re-allocated, `v` shows for ever what the array held at that moment — nothing that happens in the space reaches it. -/
theorem C10_exp_kept_view_read (c : ECfg) (cap : Nat) (pre post : List EOp) (v : Held) :
    let h := hrun c cap (pre ++ post)
    h.sp = erun c cap (pre ++ post) ∧
    (v.cap = h.sp.cap → ∀ j a, j < v.len → h.sp.active[j]? = some a →
      ∃ q, (h.read v)[j]? = some q ∧ agentGet h.sp a = .ok q) ∧
    (v.cap = (erun c cap pre).cap → ∀ op rest, post = op :: rest → (erun c cap (pre ++ [op])).cap ≠ (erun c cap pre).cap →
      h.read v = (hrun c cap pre).read v) := by
  dsimp only
  have hsp : ∀ ops, (hrun c cap ops).sp = erun c cap ops := fun ops => by
    simp only [hrun, erun]; rw [hfold_sp]; rfl
  refine ⟨hsp _, fun hc j a hj ha => ?_, fun hc op rest hpost hgrow => ?_⟩
  · rw [hsp] at ha hc ⊢
    have hi := (erun_refines c cap (pre ++ post)).inv
    have hidx := (hi.idx a j).mpr ha
    refine ⟨(erun c cap (pre ++ post)).buf j, ?_, ?_⟩
    · simp [HSpace.read, hsp, hc, hj]
    · rw [agentGet_of_mem hi (List.mem_of_getElem? ha), getPos_of_idx hi hidx]
  · subst hpost
    have hsplit : hrun c cap (pre ++ op :: rest) = rest.foldl hstep (hstep (hrun c cap pre) op) := by
      simp only [hrun, List.foldl_append, List.foldl_cons]
    have hstepcap : (hstep (hrun c cap pre) op).sp.cap = (erun c cap (pre ++ [op])).cap := by
      simp only [hstep, HSpace.advance, hsp, erun, List.foldl_append, List.foldl_cons, List.foldl_nil]
    have hlt : (erun c cap pre).cap < (erun c cap (pre ++ [op])).cap := by
      rcases (C10_exp_capacity_names_the_array c cap pre []).2.1 op with h | h
      · exact absurd h hgrow
      · exact h.1
    have hfin : v.cap < (rest.foldl hstep (hstep (hrun c cap pre) op)).sp.cap := by
      rw [hfold_sp]
      have := efold_cap_mono rest (hstep (hrun c cap pre) op).sp
      omega
    have horph : (rest.foldl hstep (hstep (hrun c cap pre) op)).orph v.cap = (erun c cap pre).buf := by
      rw [hfold_orph_frozen rest _ v.cap (by omega)]
      simp only [hstep, HSpace.advance, hsp]
      have hne : ¬ (estep (erun c cap pre) op).cap = (erun c cap pre).cap := by
        have : estep (erun c cap pre) op = erun c cap (pre ++ [op]) := by
          simp only [erun, List.foldl_append, List.foldl_cons, List.foldl_nil]
        rw [this]; exact hgrow
      simp [hne, upd, hc]
    rw [hsplit]
    simp only [HSpace.read]
    rw [if_neg (by omega), horph, hsp, if_pos hc]

/-- Legacy, every history: `get_neighbors(p, r, include_center)` returns exactly the agents in the space
    whose squared distance to `p` is at most `r²` (those at distance 0 only if `include_center`), computed
    from their true positions — no matter whether the cache was built before, patched by moves, or is built
    by this call — and the call changes neither `space.agents` nor any position. -/
theorem C10_legacy_neighbors_exact (c : LCfg) (ops : List LOp) (p : P2) (r : Int) (incl : Bool) :
    (getNeighbors (lrun c ops) p r incl).2 = .ok (nbrSpec c (lspec c ops).1 (lspec c ops).2 p r incl) ∧
    (lrun c (ops ++ [.nbrs p r incl])).agents = (lrun c ops).agents ∧
    (lrun c (ops ++ [.nbrs p r incl])).pos = (lrun c ops).pos := by
  have h := lrun_refines c ops
  obtain ⟨s1, h1, _, _, h4, h5⟩ := getNeighbors_spec h.inv p r incl
  refine ⟨by rw [h1, h.cfg, h.keys, h.pos], ?_, ?_⟩
  · simp only [lrun, List.foldl_append, List.foldl_cons, List.foldl_nil, lstep]
    show (getNeighbors (lrun c ops) p r incl).1.a2i.keys = _
    rw [h1]; exact h5
  · simp only [lrun, List.foldl_append, List.foldl_cons, List.foldl_nil, lstep]
    show (getNeighbors (lrun c ops) p r incl).1.pos = _
    rw [h1]; exact h4

/-- Legacy: `agent.pos` is a plain attribute, and a user who assigns it directly (instead of calling `move_agent`) can
    make the space incoherent — for a while.  At every reachable state, for an agent of the space: membership and the other
    agents' `pos` are untouched and the agent reports `p`.  If no position cache exists, then for a point of the space the
    write is indistinguishable from `move_agent(a, p)`.  If the cache exists, `get_neighbors` goes on answering from it, that
    is for the position the agent *had* (the same answer as before the write) — until the next accepted `place_agent` or
    `remove_agent` of any agent throws the cache away: from then on the state is the one `move_agent(a, p)` followed by that
    call would have produced. -/
theorem C10_legacy_direct_pos_write (c : LCfg) (ops : List LOp) (a : Aid) (p : P2) :
    let s := lrun c ops
    let s' := lpoke s a p
    s'.agents = s.agents ∧ s'.pos a = some p ∧ (∀ b, b ≠ a → s'.pos b = s.pos b) ∧
    (s.pts = none → torusAdj c p = .ok p → s' = lrun c (ops ++ [.move a p])) ∧
    (∀ pts, s.pts = some pts → ∀ q r incl,
      (getNeighbors s' q r incl).2 = (getNeighbors s q r incl).2 ∧
      (getNeighbors s' q r incl).2 = .ok (nbrSpec c (lspec c ops).1 (lspec c ops).2 q r incl)) ∧
    (torusAdj c p = .ok p →
      (∀ b q s'', place s' b q = .ok s'' → s'' = lrun c (ops ++ [.move a p, .place b q])) ∧
      (∀ b s'', remove s' b = .ok s'' → s'' = lrun c (ops ++ [.move a p, .remove b]))) := by
  dsimp only
  have h := lrun_refines c ops
  have hmove : torusAdj c p = .ok p →
      (move (lrun c ops) a p).1.cfg = (lrun c ops).cfg ∧ (move (lrun c ops) a p).1.a2i = (lrun c ops).a2i ∧
      (move (lrun c ops) a p).1.pos = upd (lrun c ops).pos a (some p) := by
    intro hp
    simp only [move, h.cfg, hp]
    repeat' split
    all_goals exact ⟨rfl, rfl, rfl⟩
  refine ⟨rfl, by simp [lpoke, upd], fun b hb => by simp [lpoke, upd, hb], fun hn hp => ?_, fun pts hpts q r incl => ?_,
    fun hp => ⟨fun b q s'' hs => ?_, fun b s'' hs => ?_⟩⟩
  · simp only [lrun, List.foldl_append, List.foldl_cons, List.foldl_nil, lstep]
    show lpoke (lrun c ops) a p = (move (lrun c ops) a p).1
    simp only [move, h.cfg, hp, lpoke]
    have hn' : (lrun c ops).pts = none := hn
    simp [hn']
  · have e : (getNeighbors (lpoke (lrun c ops) a p) q r incl).2 = (getNeighbors (lrun c ops) q r incl).2 := by
      have hpts' : (lrun c ops).pts = some pts := hpts
      simp only [getNeighbors, ensureCache, lpoke, hpts']
      split <;> rfl
    exact ⟨e, by rw [e]; exact (C10_legacy_neighbors_exact c ops q r incl).1⟩
  · obtain ⟨m1, m2, m3⟩ := hmove hp
    simp only [lrun, List.foldl_append, List.foldl_cons, List.foldl_nil, lstep]
    show s'' = (match place (move (lrun c ops) a p).1 b q with | .ok t => t | .error _ => (move (lrun c ops) a p).1)
    simp only [place, lpoke, invalidate] at hs ⊢
    rw [m1]
    split at hs
    · cases hs
    · cases hs
      simp only [m2, m3]
  · obtain ⟨m1, m2, m3⟩ := hmove hp
    simp only [lrun, List.foldl_append, List.foldl_cons, List.foldl_nil, lstep]
    show s'' = (match remove (move (lrun c ops) a p).1 b with | .ok t => t | .error _ => (move (lrun c ops) a p).1)
    have hk' : (lpoke (lrun c ops) a p).a2i.keys.contains b = (lrun c ops).a2i.keys.contains b := rfl
    cases hk : (lrun c ops).a2i.keys.contains b with
    | false =>
      have : remove (lpoke (lrun c ops) a p) b = .error .notIn := by
        simp only [remove]; rw [hk', hk]; rfl
      rw [this] at hs; cases hs
    | true =>
      have e1 : remove (lpoke (lrun c ops) a p) b =
          .ok { cfg := (lrun c ops).cfg, a2i := (lrun c ops).a2i.del b, i2a := [], pts := none,
                pos := upd (upd (lrun c ops).pos a (some p)) b none } := by
        simp only [remove]; rw [hk', hk]; rfl
      have hk2 : (move (lrun c ops) a p).1.a2i.keys.contains b = true := by rw [m2]; exact hk
      have e2 : remove (move (lrun c ops) a p).1 b =
          .ok { cfg := (move (lrun c ops) a p).1.cfg, a2i := (move (lrun c ops) a p).1.a2i.del b, i2a := [], pts := none,
                pos := upd (move (lrun c ops) a p).1.pos b none } := by
        simp only [remove]; rw [hk2]; rfl
      rw [e1] at hs; cases hs
      rw [e2, m1, m2, m3]

/-- … read as a set: an agent is returned iff it is in the space and within the radius. -/
theorem C10_legacy_neighbors_mem (c : LCfg) (ops : List LOp) (p : P2) (r : Int) (incl : Bool) (a : Aid) :
    a ∈ nbrSpec c (lspec c ops).1 (lspec c ops).2 p r incl ↔
      a ∈ (lrun c ops).agents ∧ ∃ q, (lrun c ops).pos a = some q ∧ ldist2 c q p ≤ r * r ∧
        (incl = true ∨ 0 < ldist2 c q p) := by
  rw [(C10_legacy_positions_all_histories c ops).1, (C10_legacy_positions_all_histories c ops).2]
  unfold nbrSpec
  rw [List.mem_filter]
  constructor
  · rintro ⟨h1, h2⟩
    refine ⟨h1, ?_⟩
    cases hq : (lspec c ops).2 a with
    | none => simp [hq] at h2
    | some q => simp only [hq] at h2; exact ⟨q, rfl, by simpa using h2⟩
  · rintro ⟨h1, q, hq, h2, h3⟩
    exact ⟨h1, by simp only [hq]; simpa using ⟨h2, h3⟩⟩

/-- Legacy, `include_center = False`, every history, query point inside the space: the agents returned are exactly
    those within the radius whose position is *not* the query point — every agent sitting exactly on the point is
    left out, however many coincide there (and nobody else: distance 0 means same point). -/
theorem C10_legacy_exclude_center (c : LCfg) (hw : c.WF) (ops : List LOp) (p : P2) (hp : oob c p = false)
    (r : Int) (a : Aid) :
    a ∈ nbrSpec c (lspec c ops).1 (lspec c ops).2 p r false ↔
      a ∈ (lrun c ops).agents ∧ ∃ q, (lrun c ops).pos a = some q ∧ q ≠ p ∧ ldist2 c q p ≤ r * r := by
  rw [C10_legacy_neighbors_mem]
  constructor
  · rintro ⟨h1, q, hq, h2, h3⟩
    refine ⟨h1, q, hq, ?_, h2⟩
    rintro rfl
    obtain ⟨q', hq', hin⟩ := C10_legacy_positions_inside c hw ops a h1
    rw [hq] at hq'; cases hq'
    have := (ldist2_eq_zero_iff c hw q q hin hin).mpr rfl
    rcases h3 with h3 | h3
    · cases h3
    · omega
  · rintro ⟨h1, q, hq, hne, h2⟩
    refine ⟨h1, q, hq, h2, Or.inr ?_⟩
    obtain ⟨q', hq', hin⟩ := C10_legacy_positions_inside c hw ops a h1
    rw [hq] at hq'; cases hq'
    have hnn : 0 ≤ ldist2 c q p := by
      unfold ldist2
      have := sq_nonneg (axisDist c.torus c.width q.1 p.1)
      have := sq_nonneg (axisDist c.torus c.height q.2 p.2)
      omega
    have hz : ldist2 c q p ≠ 0 := fun h0 => hne ((ldist2_eq_zero_iff c hw q p hin hp).mp h0)
    omega

/-- Legacy: two points of the space are at distance 0 iff they are the same point (bounded or torus: the upper
    edge is not part of the space, so no point has a second image inside it). -/
theorem C10_legacy_zero_distance_iff_same_point (c : LCfg) (hw : c.WF) (p q : P2)
    (hp : oob c p = false) (hq : oob c q = false) : ldist2 c p q = 0 ↔ p = q :=
  ldist2_eq_zero_iff c hw p q hp hq

/-- Legacy: the radius only enters squared — a negative radius selects the same agents as its absolute value.
    (The experimental space differs: `C10_exp_negative_radius`.) -/
theorem C10_legacy_negative_radius (c : LCfg) (ops : List LOp) (p : P2) (r : Int) (incl : Bool) :
    (getNeighbors (lrun c ops) p (-r) incl).2 = (getNeighbors (lrun c ops) p r incl).2 := by
  rw [(C10_legacy_neighbors_exact c ops p (-r) incl).1, (C10_legacy_neighbors_exact c ops p r incl).1]
  unfold nbrSpec; rw [Int.neg_mul_neg]

/-- Legacy `move_agent` of an agent that is *not in the space* (never placed, or removed), every history: a point
    the assignment rule rejects is rejected as usual; otherwise the space itself is not touched at all — members,
    index maps, cache, every member's position, hence every query answer — only the foreign agent object's own
    `pos` attribute is written, and the call raises `KeyError` exactly when the position cache happens to exist
    (after a `get_neighbors` with no placement / removal since), else returns normally.  The agent does not
    become a member either way.  (Not one of the rejections C18 lists; the write to the outsider's attribute is
    the only effect and is the same whether or not the call raises.) -/
theorem C10_legacy_move_foreign_agent (c : LCfg) (ops : List LOp) (a : Aid) (p : P2) :
    let s := lrun c ops
    a ∉ s.agents →
    (∀ e, torusAdj c p = .error e → move s a p = (s, .error e)) ∧
    (∀ p', torusAdj c p = .ok p' →
      move s a p = ({ s with pos := upd s.pos a (some p') }, if s.pts.isSome then .error .key else .ok ()) ∧
      (lrun c (ops ++ [.move a p])).agents = s.agents ∧
      (∀ b, b ≠ a → (lrun c (ops ++ [.move a p])).pos b = s.pos b) ∧
      ∀ q r incl, (getNeighbors (lrun c (ops ++ [.move a p])) q r incl).2 = (getNeighbors s q r incl).2) := by
  dsimp only
  intro ha
  have h := lrun_refines c ops
  obtain ⟨h1, h2⟩ := move_foreign h.inv a p ha
  refine ⟨fun e he => h1 e (by rw [h.cfg]; exact he), fun p' hp => ?_⟩
  have hm := h2 p' (by rw [h.cfg]; exact hp)
  have hstep : lrun c (ops ++ [LOp.move a p]) = lstep (lrun c ops) (LOp.move a p) := by
    simp only [lrun, List.foldl_append, List.foldl_cons, List.foldl_nil]
  have hrun : lrun c (ops ++ [LOp.move a p]) = { lrun c ops with pos := upd (lrun c ops).pos a (some p') } := by
    rw [hstep]
    show (move (lrun c ops) a p).1 = _
    rw [hm]
  refine ⟨hm, by rw [hrun]; rfl, fun b hb => by rw [hrun]; simp [upd, hb], fun q r incl => ?_⟩
  rw [(C10_legacy_neighbors_exact c (ops ++ [LOp.move a p]) q r incl).1, (C10_legacy_neighbors_exact c ops q r incl).1]
  have hk : (lspec c (ops ++ [LOp.move a p])).1 = (lspec c ops).1 := by
    rw [← (C10_legacy_positions_all_histories c _).1, ← (C10_legacy_positions_all_histories c ops).1, hrun]; rfl
  have hpo : (lspec c (ops ++ [LOp.move a p])).2 = upd (lspec c ops).2 a (some p') := by
    rw [← (C10_legacy_positions_all_histories c _).2, ← (C10_legacy_positions_all_histories c ops).2, hrun]
  rw [hk, hpo]
  unfold nbrSpec
  congr 1
  apply List.filter_congr
  intro b hb
  have hba : b ≠ a := by
    rintro rfl; exact ha (by rw [(C10_legacy_positions_all_histories c ops).1]; exact hb)
  simp [upd, hba]

/-- Experimental, every history: `get_agents_in_radius(pt, r)` returns exactly the pairs (agent, squared
    distance) of the agents in the space whose distance from `pt` to their true position is at most `r`,
    each agent once. -/
theorem C10_exp_radius_exact (c : ECfg) (cap : Nat) (ops : List EOp) (pt : Pos) (r : Int) :
    let s := erun c cap ops
    (∀ a d, (a, d) ∈ agentsInRadius s pt r ↔
      a ∈ s.active ∧ ∃ q, getPos s a = .ok q ∧ d = edist2 c pt q ∧ 0 ≤ r ∧ d ≤ r * r) ∧
    ((agentsInRadius s pt r).map (·.1)).Nodup := by
  have h := erun_refines c cap ops
  refine ⟨fun a d => ?_, ?_⟩
  · unfold agentsInRadius
    rw [List.mem_filter, mem_zip_calcD2 h.inv, h.cfg]
    constructor
    · rintro ⟨⟨q, h1, h2, h3⟩, h4⟩
      exact ⟨h1, q, h2, h3, by simpa using h4⟩
    · rintro ⟨h1, q, h2, h3, h4⟩
      exact ⟨⟨q, h1, h2, h3⟩, by simpa using h4⟩
  · have : ((agentsInRadius (erun c cap ops) pt r).map (·.1)).Sublist (erun c cap ops).active := by
      rw [← zip_calcD2_fst h.inv pt]
      exact (List.filter_sublist).map _
    exact h.inv.nodup.sublist this

/-- Experimental: `calculate_distances(pt)` lists the agents of the space in the order of `space.agents`, each once, paired
    with the distance to its true position. -/
theorem C10_exp_distances_exact (c : ECfg) (cap : Nat) (ops : List EOp) (pt : Pos) (a : Aid) (d : Int) :
    let s := erun c cap ops
    (∃ l, distancesOf s pt none = .ok l ∧ l.map (·.1) = s.active ∧ ((a, d) ∈ l ↔
      a ∈ s.active ∧ ∃ q, getPos s a = .ok q ∧ d = edist2 c pt q)) := by
  have h := erun_refines c cap ops
  refine ⟨_, rfl, zip_calcD2_fst h.inv pt, ?_⟩
  rw [mem_zip_calcD2 h.inv, h.cfg]
  constructor
  · rintro ⟨q, h1, h2, h3⟩; exact ⟨h1, q, h2, h3⟩
  · rintro ⟨h1, q, h2, h3⟩; exact ⟨q, h1, h2, h3⟩

/-- Experimental: `calculate_distances(pt, agents=sub)` and `calculate_difference_vector(pt, agents=sub)`
    for any list `sub` of agents of the space (repetitions allowed) answer for exactly those agents, in
    that order, from their true positions. -/
theorem C10_exp_subset_queries_exact (c : ECfg) (cap : Nat) (ops : List EOp) (pt : Pos) (sub : List Aid) :
    let s := erun c cap ops
    (∀ a ∈ sub, a ∈ s.active) →
    (∃ l, distancesOf s pt (some sub) = .ok l ∧ l.map (·.1) = sub ∧
      ∀ ad ∈ l, ∃ q, getPos s ad.1 = .ok q ∧ ad.2 = edist2 c pt q) ∧
    (∃ l, diffsOf s pt (some sub) = .ok l ∧ l.map (·.1) = sub ∧
      ∀ av ∈ l, ∃ q, getPos s av.1 = .ok q ∧ av.2 = ediff c pt q) := by
  dsimp only
  intro hsub
  have h := erun_refines c cap ops
  obtain ⟨l, h1, h2, h3⟩ := rowsOf_spec h.inv sub hsub
  refine ⟨⟨l.map fun aq => (aq.1, edist2 (erun c cap ops).cfg pt aq.2), by simp [distancesOf, h1, Except.map], ?_, ?_⟩,
          ⟨l.map fun aq => (aq.1, ediff (erun c cap ops).cfg pt aq.2), by simp [diffsOf, h1, Except.map], ?_, ?_⟩⟩
  · rw [List.map_map]; exact h2
  · intro ad had
    obtain ⟨aq, haq, rfl⟩ := List.mem_map.mp had
    exact ⟨aq.2, h3 aq haq, by simp only [h.cfg]⟩
  · rw [List.map_map]; exact h2
  · intro av hav
    obtain ⟨aq, haq, rfl⟩ := List.mem_map.mp hav
    exact ⟨aq.2, h3 aq haq, by simp only [h.cfg]⟩

/-- Experimental: `agent.get_neighbors_in_radius(r)` (`r ≥ 0`) returns exactly the *other* agents within
    `r` of the agent's own position, with their squared distances. -/
theorem C10_exp_neighbors_in_radius (c : ECfg) (hw : c.WF) (cap : Nat) (ops : List EOp) (a : Aid) (p : Pos)
    (r : Int) :
    let s := erun c cap ops
    a ∈ s.active → getPos s a = .ok p → 0 ≤ r →
    ∃ res, neighborsInRadius s a r = .ok res ∧
      ∀ b d, (b, d) ∈ res ↔
        b ≠ a ∧ b ∈ s.active ∧ ∃ q, getPos s b = .ok q ∧ d = edist2 c p q ∧ d ≤ r * r := by
  intro s ha hp hr
  have h := erun_refines c cap ops
  have hrad := (C10_exp_radius_exact c cap ops p r).1
  have hself : (a, edist2 c p p) ∈ agentsInRadius s p r := by
    rw [hrad]
    refine ⟨ha, p, hp, rfl, hr, ?_⟩
    have h0 : edist2 c p p = 0 := dist2Aux_self _ _ _ (fun d hd => by have := hw d hd; omega)
    rw [h0]; exact Int.mul_nonneg hr hr
  have hne : (agentsInRadius s p r).isEmpty = false := by
    cases hl : agentsInRadius s p r with
    | nil => rw [hl] at hself; cases hself
    | cons x xs => rfl
  refine ⟨_, by simp only [neighborsInRadius, hp, hne]; rfl, ?_⟩
  intro b d
  rw [List.mem_filter, hrad]
  constructor
  · rintro ⟨⟨h1, q, h2, h3, _, h5⟩, h6⟩
    exact ⟨by simpa using h6, h1, q, h2, h3, h5⟩
  · rintro ⟨h1, h2, q, h3, h4, h5⟩
    exact ⟨⟨h2, q, h3, h4, hr, h5⟩, by simpa using h1⟩

/-! ## k nearest -/

/-- Experimental, every history, every `argpartition` meeting numpy's documented post-condition, every
    `1 ≤ k ≤ n`: `get_k_nearest_agents(pt, k)` returns `k` pairwise distinct agents of the space, each with
    the squared distance to its true position, and no agent left out is nearer than a returned one. -/
theorem C10_exp_k_nearest (argpart : List Int → Nat → List Nat) (hap : ArgPartSpec argpart)
    (c : ECfg) (cap : Nat) (ops : List EOp) (pt : Pos) (k : Nat) :
    let s := erun c cap ops
    1 ≤ k → k ≤ s.active.length →
    ∃ res, kNearest argpart s pt k = .ok res ∧ res.length = k ∧ (res.map (·.1)).Nodup ∧
      (∀ ad ∈ res, ad.1 ∈ s.active ∧ ∃ q, getPos s ad.1 = .ok q ∧ ad.2 = edist2 c pt q) ∧
      (∀ ad ∈ res, ∀ b ∈ s.active, b ∉ res.map (·.1) →
        ∀ q, getPos s b = .ok q → ad.2 ≤ edist2 c pt q) := by
  intro s hk hkn
  have h := erun_refines c cap ops
  obtain ⟨res, h1, h2, h3, h4, h5⟩ := kNearest_spec hap h.inv pt hk (by rw [h.inv.len]; exact hkn)
  refine ⟨res, h1, h2, h3, ?_, ?_⟩
  · intro ad had
    obtain ⟨q, hq1, hq2, hq3⟩ := (mem_zip_calcD2 h.inv pt ad.1 ad.2).mp (h4 ad had)
    exact ⟨hq1, q, hq2, by rw [← h.cfg]; exact hq3⟩
  · intro ad had b hb hout q hq
    have := h5 ad had (b, edist2 s.cfg pt q) ((mem_zip_calcD2 h.inv pt b _).mpr ⟨q, hb, hq, rfl⟩) hout
    rw [← h.cfg]; exact this

/-- Experimental: `agent.get_nearest_neighbors(k)` for `k + 1 ≤ n`, when no other agent sits exactly on
    the agent's own position: returns `k` pairwise distinct *other* agents, each with the squared distance
    from the agent to its true position, and no other agent left out is nearer than a returned one. -/
theorem C10_exp_nearest_neighbors (argpart : List Int → Nat → List Nat) (hap : ArgPartSpec argpart)
    (c : ECfg) (hw : c.WF) (cap : Nat) (ops : List EOp) (a : Aid) (p : Pos) (k : Nat) :
    let s := erun c cap ops
    a ∈ s.active → getPos s a = .ok p → k + 1 ≤ s.active.length →
    (∀ b ∈ s.active, b ≠ a → ∀ q, getPos s b = .ok q → 0 < edist2 c p q) →
    ∃ res, nearestNeighbors argpart s a k = .ok res ∧ res.length = k ∧ (res.map (·.1)).Nodup ∧
      a ∉ res.map (·.1) ∧
      (∀ ad ∈ res, ad.1 ∈ s.active ∧ ∃ q, getPos s ad.1 = .ok q ∧ ad.2 = edist2 c p q) ∧
      (∀ ad ∈ res, ∀ b ∈ s.active, b ≠ a → b ∉ res.map (·.1) →
        ∀ q, getPos s b = .ok q → ad.2 ≤ edist2 c p q) := by
  dsimp only
  intro ha hp hk hdist
  obtain ⟨full, h1, h2, h3, h4, h5⟩ := C10_exp_k_nearest argpart hap c cap ops p (k + 1) (by omega) hk
  have h0 : edist2 c p p = 0 := dist2Aux_self _ _ _ (fun d hd => by have := hw d hd; omega)
  have hain : a ∈ full.map (·.1) := by
    apply Classical.byContradiction
    intro hout
    cases hf : full with
    | nil => rw [hf] at h2; simp at h2
    | cons ad rest =>
      have had : ad ∈ full := by rw [hf]; simp
      have hle := h5 ad had a ha hout p hp
      obtain ⟨hm, q, hq, hd⟩ := h4 ad had
      have hne : ad.1 ≠ a := by
        rintro e; exact hout (List.mem_map.mpr ⟨ad, had, e⟩)
      have := hdist ad.1 hm hne q hq
      rw [h0] at hle; omega
  have hmemf : ∀ ad, ad ∈ full.filter (fun ad => ad.1 ≠ a) ↔ ad ∈ full ∧ ad.1 ≠ a := by
    intro ad; rw [List.mem_filter]; simp
  refine ⟨full.filter (fun ad => ad.1 ≠ a), by simp only [nearestNeighbors, hp, h1], ?_, ?_, ?_, ?_, ?_⟩
  · have := length_filter_ne_of_nodup full a h3 hain; omega
  · exact h3.sublist ((List.filter_sublist).map _)
  · intro hm
    obtain ⟨ad, had, e⟩ := List.mem_map.mp hm
    exact ((hmemf ad).mp had).2 e
  · intro ad had; exact h4 ad ((hmemf ad).mp had).1
  · intro ad had b hb hba hout q hq
    apply h5 ad ((hmemf ad).mp had).1 b hb _ q hq
    intro hm
    obtain ⟨be, hbe, e⟩ := List.mem_map.mp hm
    exact hout (List.mem_map.mpr ⟨be, (hmemf be).mpr ⟨hbe, by rw [e]; exact hba⟩, e⟩)

/-- Experimental `agent.get_nearest_neighbors(k)` with *no assumption about coincident agents*, every history, every
    admissible `argpartition`, `k + 1 ≤ n`: the answer consists of pairwise distinct *other* agents with their
    correct distances, none farther than an other agent left out — and it has `k` entries, except in one case:
    when the agent itself was not among the `k + 1` nearest that numpy picked (possible only if at least `k + 1`
    other agents sit exactly on the agent's position) the answer has `k + 1` entries, all at distance 0. -/
theorem C10_exp_nearest_neighbors_ties (argpart : List Int → Nat → List Nat) (hap : ArgPartSpec argpart)
    (c : ECfg) (hw : c.WF) (cap : Nat) (ops : List EOp) (a : Aid) (p : Pos) (k : Nat) :
    let s := erun c cap ops
    a ∈ s.active → getPos s a = .ok p → k + 1 ≤ s.active.length →
    ∃ res, nearestNeighbors argpart s a k = .ok res ∧ (res.map (·.1)).Nodup ∧ a ∉ res.map (·.1) ∧
      (∀ ad ∈ res, ad.1 ∈ s.active ∧ ∃ q, getPos s ad.1 = .ok q ∧ ad.2 = edist2 c p q) ∧
      (∀ ad ∈ res, ∀ b ∈ s.active, b ≠ a → b ∉ res.map (·.1) →
        ∀ q, getPos s b = .ok q → ad.2 ≤ edist2 c p q) ∧
      (res.length = k ∨ (res.length = k + 1 ∧ ∀ ad ∈ res, ad.2 = 0)) := by
  dsimp only
  intro ha hp hk
  obtain ⟨full, h1, h2, h3, h4, h5⟩ := C10_exp_k_nearest argpart hap c cap ops p (k + 1) (by omega) hk
  have h0 : edist2 c p p = 0 := dist2Aux_self _ _ _ (fun d hd => by have := hw d hd; omega)
  have hmemf : ∀ ad, ad ∈ full.filter (fun ad => ad.1 ≠ a) ↔ ad ∈ full ∧ ad.1 ≠ a := by
    intro ad; rw [List.mem_filter]; simp
  refine ⟨full.filter (fun ad => ad.1 ≠ a), by simp only [nearestNeighbors, hp, h1], ?_, ?_, ?_, ?_, ?_⟩
  · exact h3.sublist ((List.filter_sublist).map _)
  · intro hm
    obtain ⟨ad, had, e⟩ := List.mem_map.mp hm
    exact ((hmemf ad).mp had).2 e
  · intro ad had; exact h4 ad ((hmemf ad).mp had).1
  · intro ad had b hb hba hout q hq
    apply h5 ad ((hmemf ad).mp had).1 b hb _ q hq
    intro hm
    obtain ⟨be, hbe, e⟩ := List.mem_map.mp hm
    exact hout (List.mem_map.mpr ⟨be, (hmemf be).mpr ⟨hbe, by rw [e]; exact hba⟩, e⟩)
  · by_cases hain : a ∈ full.map (·.1)
    · left
      have := length_filter_ne_of_nodup full a h3 hain; omega
    · right
      have hall : full.filter (fun ad => ad.1 ≠ a) = full := by
        rw [List.filter_eq_self]
        intro ad had
        have : ad.1 ≠ a := by rintro e; exact hain (List.mem_map.mpr ⟨ad, had, e⟩)
        simpa using this
      rw [hall]
      refine ⟨h2, fun ad had => ?_⟩
      have hle := h5 ad had a ha hain p hp
      obtain ⟨_, q, _, hd⟩ := h4 ad had
      have hnn : 0 ≤ ad.2 := by rw [hd]; exact dist2Aux_nonneg _ _ _ _
      rw [h0] at hle; omega

/-- Experimental, negative radius, every history: `get_agents_in_radius` returns nothing (no distance is below a
    negative number), and `agent.get_neighbors_in_radius` raises `IndexError` (its mask over the empty answer is a
    float array) — the only way the latter can raise for an agent of the space (`C10_exp_neighbors_in_radius`). -/
theorem C10_exp_negative_radius (c : ECfg) (cap : Nat) (ops : List EOp) (pt : Pos) (a : Aid) (r : Int) (hr : r < 0) :
    let s := erun c cap ops
    agentsInRadius s pt r = [] ∧ (a ∈ s.active → agentNir s a r = .error .index) := by
  intro s
  have hnil : ∀ pt, agentsInRadius s pt r = [] := by
    intro pt
    unfold agentsInRadius
    rw [List.filter_eq_nil_iff]
    intro ad _
    have : ¬ (0 ≤ r) := by omega
    simp [this]
  refine ⟨hnil pt, fun ha => ?_⟩
  have h := erun_refines c cap ops
  obtain ⟨i, hi⟩ := (h.inv.mem_iff a).mp ha
  have hg : getPos s a = .ok (s.buf i) := getPos_of_idx h.inv hi
  have hng : s.gone a = false := h.inv.not_gone hi
  simp [agentNir, hng, neighborsInRadius, hg, hnil]

/-- `k = 0` returns nothing; `k` larger than the number of agents is rejected (`ValueError`). -/
theorem C10_exp_k_nearest_range (argpart : List Int → Nat → List Nat) (c : ECfg) (cap : Nat)
    (ops : List EOp) (pt : Pos) (k : Nat) :
    let s := erun c cap ops
    (k = 0 → kNearest argpart s pt k = .ok []) ∧
    (s.active.length < k → kNearest argpart s pt k = .error .value) := by
  intro s
  have h := (erun_refines c cap ops).inv
  refine ⟨fun hk => by simp [kNearest, hk], fun hk => ?_⟩
  have : (calcD2 s pt).length < k := by rw [calcD2_length h, h.len]; exact hk
  have hk0 : k ≠ 0 := by omega
  simp [kNearest, hk0, this]

/-- The assumption on `argpartition` is satisfiable: the complete stable sort that the driver executes
    in the correspondence check meets it. -/
theorem C10_argsortPart_spec : ArgPartSpec argsortPart := argsortPart_spec

/-! ## distances and headings -/

/-- On a torus of circumference `s` the per-axis separation every distance computation uses is, for ANY two coordinates
    (inside the bounds or not: after repair CS3 the separation is reduced modulo `s` first), the distance to the nearest
    periodic image: it is below `|a - b + k·s|` for every integer `k` and equals it for some `k`. -/
theorem C10_torus_axis_is_nearest_image (s a b : Int) (hs : 0 < s) :
    (∀ k : Int, axisDist true s a b ≤ iabs (a - b + k * s)) ∧ ∃ k : Int, axisDist true s a b = iabs (a - b + k * s) :=
  ⟨axisDist_torus_le_image s a b hs, axisDist_torus_attained s a b hs⟩

/-- without a torus the per-axis separation is `|a - b|`: the distance is Euclidean -/
theorem C10_flat_axis_is_abs (s a b : Int) : axisDist false s a b = iabs (a - b) := axisDist_flat s a b

/-- Heading / difference vector along one axis of a torus of circumference `s` (legacy `get_heading` and
    experimental `calculate_difference_vector` compute every component this way), for coordinates at most `s` apart:
    it is the direct difference `b - a` while that is shorter than half the circumference and the image through the
    edge `b - a ∓ s` when it is longer.  On the tie — `b` exactly half-way round, `|b - a| = s/2`, both images
    equally long — the code takes the image through the edge, which is `a - b`: the heading then points *away* from
    `b`'s direct position (`heading = -(b - a)`), and swapping the two points flips it. -/
theorem C10_torus_heading_cases (s a b : Int) (hs : 0 < s) (hd : iabs (b - a) ≤ s) :
    (2 * iabs (b - a) < s → axisHeading true s a b = b - a) ∧
    (2 * iabs (b - a) = s → axisHeading true s a b = a - b ∧ axisHeading true s b a = b - a) ∧
    (s < 2 * iabs (b - a) → axisHeading true s a b = b - a - sgn (b - a) * s) := by
  have h1 := axisHeading_torus_cases s a b hs hd
  have h2 := axisHeading_torus_cases s b a hs (by rw [iabs_sub_comm]; exact hd)
  refine ⟨h1.1, fun h => ⟨h1.2.1 h, h2.2.1 (by rw [iabs_sub_comm]; exact h)⟩, h1.2.2⟩

/-- … for ANY two coordinates (tie included, inside the bounds or not) following the heading from `a` arrives at a periodic
    image of `b`, and no periodic image of `b` is nearer than the heading is long. -/
theorem C10_torus_heading_reaches_target (s a b : Int) (hs : 0 < s) :
    (∃ k : Int, a + axisHeading true s a b = b + k * s) ∧
    ∀ k : Int, iabs (axisHeading true s a b) ≤ iabs (a - b + k * s) := by
  refine ⟨axisHeading_reaches s a b, fun k => ?_⟩
  have h1 := axisDist_torus_le_image s a b hs k
  have h0 := axisDist_nonneg true s a b hs
  rcases axisHeading_eq_or_neg true s a b hs with h | h <;> rw [h] <;> unfold iabs at * <;> split <;> omega

/-- without a torus the heading is the plain difference -/
theorem C10_flat_heading_is_difference (s a b : Int) : axisHeading false s a b = b - a := axisHeading_flat s a b

/-- The per-axis separation is 0 for equal coordinates and, on a torus, for coordinates a whole number of sizes apart,
    nothing else.  The experimental space keeps the upper edge inside its bounds, so on an experimental torus the points `min`
    and `max` of an axis are distinct stored positions at distance 0 (example below); the legacy space excludes the upper
    edge (`C10_legacy_zero_distance_iff_same_point`). -/
theorem C10_axis_zero_distance_iff (t : Bool) (s a b : Int) (hs : 0 < s) :
    axisDist t s a b = 0 ↔ a = b ∨ (t = true ∧ ∃ k : Int, a - b = k * s) := by
  rw [axisDist_eq_zero_iff t s a b hs, iabs_emod_eq_zero_iff]

/-- Legacy `get_distance` is symmetric. -/
theorem C10_legacy_distance_symmetric (c : LCfg) (p q : P2) : ldist2 c p q = ldist2 c q p := by
  simp [ldist2, axisDist_comm c.torus _ p.1 q.1, axisDist_comm c.torus _ p.2 q.2]

/-- Legacy `get_heading(p, q)` has the length of `get_distance(p, q)` (torus or not). -/
theorem C10_legacy_heading_length (c : LCfg) (hw : c.WF) (p q : P2) :
    sq (lheading c p q).1 + sq (lheading c p q).2 = ldist2 c p q := by
  unfold lheading ldist2
  rw [axisHeading_sq c.torus _ p.1 q.1 (by have := hw.1; unfold LCfg.width; omega),
    axisHeading_sq c.torus _ p.2 q.2 (by have := hw.2; unfold LCfg.height; omega)]

/-- Experimental `calculate_distances` is symmetric in its two points. -/
theorem C10_exp_distance_symmetric (c : ECfg) (p q : Pos) : edist2 c p q = edist2 c q p :=
  dist2Aux_comm _ _ _ _

/-- Experimental `calculate_difference_vector` has the length of `calculate_distances` (any number of
    dimensions, torus or not). -/
theorem C10_exp_difference_length (c : ECfg) (hw : c.WF) (p q : Pos) :
    norm2 (ediff c p q) = edist2 c p q :=
  diffAux_norm2 _ _ _ _ (fun d hd => by have := hw d hd; omega)

/-- … and so every row of `calculate_difference_vector(pt)` has the squared length of the corresponding
    entry of `calculate_distances(pt)`. -/
theorem C10_exp_difference_rows_length (c : ECfg) (hw : c.WF) (cap : Nat) (ops : List EOp) (pt : Pos) :
    let s := erun c cap ops
    ∃ lv ld, diffsOf s pt none = .ok lv ∧ distancesOf s pt none = .ok ld ∧
      lv.map (·.1) = ld.map (·.1) ∧ lv.map (fun av => norm2 av.2) = ld.map (·.2) := by
  intro s
  have h := erun_refines c cap ops
  refine ⟨_, _, rfl, rfl, ?_, ?_⟩
  · simp only [calcD2, List.zip_map_right, List.map_map]
    apply List.map_congr_left; intro x _; rfl
  · simp only [calcD2, List.zip_map_right, List.map_map]
    apply List.map_congr_left
    intro x _
    simp only [Function.comp, Prod.map, id]
    rw [h.cfg]; exact C10_exp_difference_length c hw pt x.2

/-! ## the distances of the queries are the (toroidal) Euclidean distances of the property

`MetricDist2 dims torus p q d` (Proofs/ContMetric.lean) says, without any function of the model: `d` is the squared Euclidean
distance of `p` and `q` (bounded space), or the least squared Euclidean distance from `p` to a periodic image of `q`
(torus: no image `q + (k_1 size_1, …, k_n size_n)` is nearer, one is exactly that far). -/

/-- Experimental, ALL points `p`, `q` with one coordinate per axis (inside the bounds or not — after repair CS3): the number
    `calculate_distances` computes is the distance of the property, and no other number is. -/
theorem C10_exp_distance_is_metric (c : ECfg) (hw : c.WF) (p q : Pos) (hp : p.length = c.dims.length)
    (hq : q.length = c.dims.length) (d : Int) : MetricDist2 c.dims c.torus p q d ↔ d = edist2 c p q :=
  dist2Aux_metric c.dims hw c.torus p q hp hq d

/-- Legacy, ALL points (after repair CS3): `get_distance` and the row computation of `get_neighbors` (the same formula at two
    places of the code; the model has one function for both, the correspondence check compares each with it) give the
    distance of the property. -/
theorem C10_legacy_distance_is_metric (c : LCfg) (hw : c.WF) (p q : P2) (d : Int) :
    MetricDist2 c.dims c.torus [p.1, p.2] [q.1, q.2] d ↔ d = ldist2 c p q := by
  rw [ldist2_eq_dist2Aux]
  refine dist2Aux_metric c.dims ?_ c.torus _ _ rfl rfl d
  intro x hx
  simp only [LCfg.dims, List.mem_cons, List.not_mem_nil, or_false] at hx
  rcases hx with rfl | rfl
  · exact hw.1
  · exact hw.2

/-- Legacy, every history, EVERY query point and radius: `get_neighbors(p, r, include_center)` does not raise and returns
    exactly the agents of the space whose (toroidal) Euclidean distance to `p` — in the sense of `MetricDist2`, not of the
    model's own distance function — is at most `|r|` (those at distance 0 only with `include_center`). -/
theorem C10_legacy_neighbors_metric (c : LCfg) (hw : c.WF) (ops : List LOp) (p : P2) (r : Int) (incl : Bool) :
    ∃ res, (getNeighbors (lrun c ops) p r incl).2 = .ok res ∧
      ∀ a, a ∈ res ↔ a ∈ (lrun c ops).agents ∧ ∃ q d, (lrun c ops).pos a = some q ∧
        MetricDist2 c.dims c.torus [q.1, q.2] [p.1, p.2] d ∧ d ≤ r * r ∧ (incl = true ∨ 0 < d) := by
  refine ⟨_, (C10_legacy_neighbors_exact c ops p r incl).1, fun a => ?_⟩
  rw [C10_legacy_neighbors_mem]
  constructor
  · rintro ⟨h1, q, hq, h2, h3⟩
    exact ⟨h1, q, _, hq, (C10_legacy_distance_is_metric c hw q p _).mpr rfl, h2, h3⟩
  · rintro ⟨h1, q, d, hq, hm, h2, h3⟩
    have := (C10_legacy_distance_is_metric c hw q p d).mp hm
    subst this
    exact ⟨h1, q, hq, h2, h3⟩

/-- Experimental, every history whose vectors have one coordinate per axis, every initial capacity, EVERY query point with
    one coordinate per axis and every radius: an agent whose last assigned position is `q` is returned by
    `get_agents_in_radius(pt, r)` with the number `d` iff `d` is the (toroidal) Euclidean distance of the property between
    `pt` and `q` and `0 ≤ r`, `d ≤ r²`. -/
theorem C10_exp_radius_metric (c : ECfg) (hw : c.WF) (cap : Nat) (ops : List EOp) (hwf : WfOps c ops) (pt : Pos)
    (hpt : pt.length = c.dims.length) (r : Int) (a : Aid) (q : Pos) (hq : (espec c ops).pos a = some q) (d : Int) :
    (a, d) ∈ agentsInRadius (erun c cap ops) pt r ↔ MetricDist2 c.dims c.torus pt q d ∧ 0 ≤ r ∧ d ≤ r * r := by
  have hget := ((C10_exp_positions_all_histories c cap ops).2.1 a q hq).2
  have hlen := C10_exp_positions_have_dimension c ops hwf a q hq
  have hmem : a ∈ (erun c cap ops).active := by
    apply Classical.byContradiction; intro hn
    rw [getPos_of_not_mem (erun_refines c cap ops).inv hn] at hget; cases hget
  rw [(C10_exp_radius_exact c cap ops pt r).1 a d, C10_exp_distance_is_metric c hw pt q hpt hlen d]
  constructor
  · rintro ⟨_, q', h1, h2, h3, h4⟩
    rw [hget] at h1; cases h1
    exact ⟨h2, h3, h4⟩
  · rintro ⟨h2, h3, h4⟩
    exact ⟨hmem, q, hget, h2, h3, h4⟩

/-- Experimental k-nearest in the same terms: in a history whose vectors have one coordinate per axis and in which every
    agent of the space has been assigned a position, for every query point with one coordinate per axis,
    `get_k_nearest_agents(pt, k)` (`1 ≤ k ≤ n`, any admissible `argpartition`) returns `k` distinct agents, each with the
    (toroidal) Euclidean distance of the property to its last assigned position, and no agent left out is nearer. -/
theorem C10_exp_k_nearest_metric (argpart : List Int → Nat → List Nat) (hap : ArgPartSpec argpart)
    (c : ECfg) (hw : c.WF) (cap : Nat) (ops : List EOp) (hwf : WfOps c ops)
    (hall : ∀ a ∈ (espec c ops).members, (espec c ops).pos a ≠ none)
    (pt : Pos) (hpt : pt.length = c.dims.length) (k : Nat) :
    let s := erun c cap ops
    1 ≤ k → k ≤ s.active.length →
    ∃ res, kNearest argpart s pt k = .ok res ∧ res.length = k ∧ (res.map (·.1)).Nodup ∧
      (∀ ad ∈ res, ∃ q, (espec c ops).pos ad.1 = some q ∧ MetricDist2 c.dims c.torus pt q ad.2) ∧
      (∀ ad ∈ res, ∀ b ∈ (espec c ops).members, b ∉ res.map (·.1) →
        ∀ q e, (espec c ops).pos b = some q → MetricDist2 c.dims c.torus pt q e → ad.2 ≤ e) := by
  intro s hk hkn
  have h := erun_refines c cap ops
  obtain ⟨res, h1, h2, h3, h4, h5⟩ := C10_exp_k_nearest argpart hap c cap ops pt k hk hkn
  have hpos : ∀ b ∈ s.active, ∃ q, (espec c ops).pos b = some q ∧ getPos s b = .ok q ∧ q.length = c.dims.length := by
    intro b hb
    have hb' : b ∈ (espec c ops).members := by rw [← h.active]; exact hb
    cases hq : (espec c ops).pos b with
    | none => exact absurd hq (hall b hb')
    | some q => exact ⟨q, rfl, h.pos b q hq, C10_exp_positions_have_dimension c ops hwf b q hq⟩
  refine ⟨res, h1, h2, h3, ?_, ?_⟩
  · intro ad had
    obtain ⟨hm, q', hq', hd⟩ := h4 ad had
    obtain ⟨q, e1, e2, e3⟩ := hpos ad.1 hm
    have hqq : q = q' := by rw [e2] at hq'; exact Except.ok.inj hq'
    subst hqq
    exact ⟨q, e1, (C10_exp_distance_is_metric c hw pt q hpt e3 _).mpr hd⟩
  · intro ad had b hb hout q e hq hm
    have hb' : b ∈ s.active := by rw [h.active]; exact hb
    have hlen := C10_exp_positions_have_dimension c ops hwf b q hq
    have := (C10_exp_distance_is_metric c hw pt q hpt hlen e).mp hm
    subst this
    exact h5 ad had b hb' hout q (h.pos b q hq)

/-- Experimental `agent.get_neighbors_in_radius(r)` (`r ≥ 0`) in the same terms: for an agent whose last assigned position is `p`,
    in a history whose vectors have one coordinate per axis, the call does not raise, and another agent `b` whose last assigned
    position is `q` is returned with the number `d` iff `d` is the (toroidal) Euclidean distance of the property between `p` and
    `q` and `d ≤ r²`; the agent itself is never returned. -/
theorem C10_exp_neighbors_in_radius_metric (c : ECfg) (hw : c.WF) (cap : Nat) (ops : List EOp) (hwf : WfOps c ops)
    (a : Aid) (p : Pos) (hp : (espec c ops).pos a = some p) (r : Int) (hr : 0 ≤ r) :
    ∃ res, neighborsInRadius (erun c cap ops) a r = .ok res ∧ (∀ d, (a, d) ∉ res) ∧
      ∀ b q, (espec c ops).pos b = some q → b ≠ a → ∀ d,
        ((b, d) ∈ res ↔ MetricDist2 c.dims c.torus p q d ∧ d ≤ r * r) := by
  have h := erun_refines c cap ops
  have hget : ∀ b q, (espec c ops).pos b = some q → getPos (erun c cap ops) b = .ok q ∧ b ∈ (erun c cap ops).active := by
    intro b q hq
    have hg := h.pos b q hq
    refine ⟨hg, ?_⟩
    apply Classical.byContradiction; intro hn
    rw [getPos_of_not_mem h.inv hn] at hg; cases hg
  obtain ⟨hpa, hma⟩ := hget a p hp
  obtain ⟨res, h1, h2⟩ := C10_exp_neighbors_in_radius c hw cap ops a p r hma hpa hr
  refine ⟨res, h1, fun d hd => ((h2 a d).mp hd).1 rfl, fun b q hq hba d => ?_⟩
  obtain ⟨hpb, hmb⟩ := hget b q hq
  have hlp := C10_exp_positions_have_dimension c ops hwf a p hp
  have hlq := C10_exp_positions_have_dimension c ops hwf b q hq
  rw [h2 b d, C10_exp_distance_is_metric c hw p q hlp hlq d]
  constructor
  · rintro ⟨_, _, q', e1, e2, e3⟩
    have : q = q' := by rw [hpb] at e1; exact Except.ok.inj e1
    subst this
    exact ⟨e2, e3⟩
  · rintro ⟨e2, e3⟩
    exact ⟨hba, hmb, q, hpb, e2, e3⟩

/-- Legacy `get_heading(p, q)` for ANY two points: following it from `p` arrives at `q` (bounded space) or at a periodic image of
    `q` (torus), and its squared length is the (toroidal) Euclidean distance of the property — it is a shortest vector from `p`
    to an image of `q`. -/
theorem C10_legacy_heading_metric (c : LCfg) (hw : c.WF) (p q : P2) :
    (c.torus = false → (p.1 + (lheading c p q).1, p.2 + (lheading c p q).2) = q) ∧
    (c.torus = true → ∃ kx ky : Int,
      (p.1 + (lheading c p q).1, p.2 + (lheading c p q).2) = (q.1 + kx * c.width, q.2 + ky * c.height)) ∧
    MetricDist2 c.dims c.torus [p.1, p.2] [q.1, q.2] (sq (lheading c p q).1 + sq (lheading c p q).2) := by
  refine ⟨fun ht => ?_, fun ht => ?_, ?_⟩
  · simp only [lheading, ht, axisHeading_flat]
    apply Prod.ext <;> simp <;> omega
  · obtain ⟨kx, hx⟩ := axisHeading_reaches c.width p.1 q.1
    obtain ⟨ky, hy⟩ := axisHeading_reaches c.height p.2 q.2
    exact ⟨kx, ky, by simp only [lheading, ht, hx, hy]⟩
  · rw [C10_legacy_distance_is_metric c hw p q]
    exact C10_legacy_heading_length c hw p q

/-- Experimental `calculate_difference_vector`: for ANY two points with one coordinate per axis the squared length of the
    difference vector is the (toroidal) Euclidean distance of the property. -/
theorem C10_exp_difference_metric (c : ECfg) (hw : c.WF) (p q : Pos) (hp : p.length = c.dims.length)
    (hq : q.length = c.dims.length) : MetricDist2 c.dims c.torus p q (norm2 (ediff c p q)) := by
  rw [C10_exp_distance_is_metric c hw p q hp hq]
  exact C10_exp_difference_length c hw p q

/-- Experimental `calculate_difference_vector(point, agents)`, direction and arrival (the sign convention is the code's,
    `positions - point`: the vector points FROM the point TO the agent).  For ANY point `p` and position `q` with one
    coordinate per axis the result has one coordinate per axis and, axis by axis, `p[i] + diff[i] = q[i]` in a bounded space
    and `p[i] + diff[i] = q[i] + k·size_i` for an integer `k` on a torus: following the vector from the point arrives at the
    agent / at a periodic image of the agent.  With `C10_exp_difference_metric` (its length is the least distance to any
    image) it is a shortest such vector; the negated vector does not satisfy this (example below). -/
theorem C10_exp_difference_reaches (c : ECfg) (p q : Pos) (hp : p.length = c.dims.length) (hq : q.length = c.dims.length) :
    (ediff c p q).length = c.dims.length ∧
    ∀ i, i < c.dims.length → ∃ x y h d, p[i]? = some x ∧ q[i]? = some y ∧ (ediff c p q)[i]? = some h ∧ c.dims[i]? = some d ∧
      (c.torus = false → x + h = y) ∧ (c.torus = true → ∃ k : Int, x + h = y + k * (d.2 - d.1)) :=
  diffAux_reaches c.torus c.dims p q hp hq

/-- Experimental, every history: `calculate_difference_vector(pt)` lists the agents of the space in the order of `space.agents`,
    each once, paired with the difference vector from `pt` to its true position (to which `C10_exp_difference_reaches` and
    `C10_exp_difference_metric` apply). -/
theorem C10_exp_differences_exact (c : ECfg) (cap : Nat) (ops : List EOp) (pt : Pos) (a : Aid) (v : Pos) :
    let s := erun c cap ops
    (∃ l, diffsOf s pt none = .ok l ∧ l.map (·.1) = s.active ∧ ((a, v) ∈ l ↔
      a ∈ s.active ∧ ∃ q, getPos s a = .ok q ∧ v = ediff c pt q)) := by
  have h := erun_refines c cap ops
  refine ⟨_, rfl, ?_, ?_⟩
  · rw [List.map_fst_zip]
    simp [rows, h.inv.view, h.inv.len]
  · rw [List.zip_map_right, List.mem_map, h.cfg]
    constructor
    · rintro ⟨⟨b, q⟩, hm, he⟩
      simp only [Prod.map, id, Prod.mk.injEq] at he
      obtain ⟨rfl, rfl⟩ := he
      obtain ⟨h1, h2⟩ := (mem_zip_rows h.inv b q).mp hm
      exact ⟨h1, q, h2, rfl⟩
    · rintro ⟨h1, q, h2, rfl⟩
      exact ⟨(a, q), (mem_zip_rows h.inv a q).mpr ⟨h1, h2⟩, rfl⟩

/-- Experimental, any number of dimensions: two points with one coordinate per axis are at distance 0 exactly when on every
    axis their coordinates are equal or — on a torus — a whole number of sizes apart (periodic images of each other); the
    n-D counterpart of `C10_legacy_zero_distance_iff_same_point`.  Since both edges of an axis are inside an experimental
    space, `min` and `max` are distinct stored coordinates at distance 0 on a torus (example below). -/
theorem C10_exp_zero_distance_iff (c : ECfg) (hw : c.WF) (p q : Pos) (hp : p.length = c.dims.length)
    (hq : q.length = c.dims.length) :
    edist2 c p q = 0 ↔
      ∀ (i : Nat) (x y : Int) (d : Int × Int), p[i]? = some x → q[i]? = some y → c.dims[i]? = some d →
        x = y ∨ (c.torus = true ∧ ∃ k : Int, x - y = k * (d.2 - d.1)) :=
  dist2Aux_eq_zero_iff c.torus c.dims hw p q hp hq

/-! ### histories with vectors of any length reduce to histories with vectors of the right length -/

/-- Every history of calls with vectors of ANY length leaves the space exactly as the history does in which each vector is
    replaced by what numpy broadcasts it to and the calls numpy rejects are dropped — and that history is well-formed
    (`WfOps`).  So the theorems with a `WfOps` hypothesis cover every history the code can run (on spaces with `nd ≥ 2`; on a
    1-D space numpy broadcasts the other way round: not modelled). -/
theorem C10_exp_history_vectors_normalise (c : ECfg) (cap : Nat) (ops : List EOp) :
    erunV c cap ops = erun c cap (ops.filterMap (normOp c.dims.length)) ∧
    WfOps c (ops.filterMap (normOp c.dims.length)) := by
  constructor
  · suffices H : ∀ (ops : List EOp) (s : ESpace), s.cfg = c →
        ops.foldl estepV s = (ops.filterMap (normOp c.dims.length)).foldl estep s ∧
        (ops.foldl estepV s).cfg = c from (H ops _ rfl).1
    intro ops
    induction ops with
    | nil => intro s hs; exact ⟨rfl, hs⟩
    | cons op ops ih =>
      intro s hs
      have hnd : s.nd = c.dims.length := by simp [ESpace.nd, hs]
      have key : estepV s op = (match normOp c.dims.length op with | some op' => estep s op' | none => s) := by
        cases op with
        | new a => rfl
        | remove a => rfl
        | set a p =>
          simp only [estepV, normOp, agentSetV, hnd]
          cases hb : bcast c.dims.length p with
          | error e => cases hg : s.gone a <;> simp
          | ok q => rfl
        | iadd a v =>
          simp only [estepV, normOp, agentIaddV, hnd]
          cases hb : bcast c.dims.length v with
          | error e => cases hget : agentGet s a <;> rfl
          | ok w => rfl
        | raw i p =>
          simp only [estepV, normOp, rawWriteV, hnd]
          cases hb : bcast c.dims.length p with
          | error e => by_cases hlt : i < s.view <;> simp [hlt]
          | ok q => rfl
      simp only [List.foldl_cons, List.filterMap_cons]
      rw [key]
      cases hn : normOp c.dims.length op with
      | none => exact ih s hs
      | some op' => exact ih (estep s op') (by rw [estep_cfg]; exact hs)
  · intro op hop v hv
    obtain ⟨o, _, ho⟩ := List.mem_filterMap.mp hop
    have hb : ∀ p q, bcast c.dims.length p = .ok q → q.length = c.dims.length := by
      intro p q h
      unfold bcast at h
      split at h
      · cases h; assumption
      · split at h
        · cases h; simp
        · cases h
    cases o with
    | new a => simp [normOp] at ho; subst ho; simp [EOp.vec] at hv
    | remove a => simp [normOp] at ho; subst ho; simp [EOp.vec] at hv
    | set a p =>
      simp only [normOp] at ho
      split at ho
      · rename_i q hq; cases ho; simp only [EOp.vec, Option.some.injEq] at hv; subst hv; exact hb p q hq
      · cases ho
    | iadd a p =>
      simp only [normOp] at ho
      split at ho
      · rename_i q hq; cases ho; simp only [EOp.vec, Option.some.injEq] at hv; subst hv; exact hb p q hq
      · cases ho
    | raw a p =>
      simp only [normOp] at ho
      split at ho
      · rename_i q hq; cases ho; simp only [EOp.vec, Option.some.injEq] at hv; subst hv; exact hb p q hq
      · cases ho

/-! ## non-vacuity: concrete histories (torus with negative origin; capacity 0 with growth and compaction) -/
section Examples

def exL : LCfg := { xmin := -320, xmax := 320, ymin := 0, ymax := 640, torus := true }
def exOps : List LOp :=
  [.place 1 (0, 64), .place 2 (700, 64), .nbrs (0, 64) 64 true, .move 1 (-330, 700), .place 3 (9999, 0) ,
   .remove 2, .move 3 (0, 0)]
example : exL.WF := ⟨by decide, by decide⟩
example : (lrun exL exOps).agents = [1, 3] := by decide
example : (lrun exL exOps).pos 1 = some (310, 60) := by decide
example : (getNeighbors (lrun exL (exOps.take 4)) (-310, 50) 64 true).2 = .ok [1] := by rfl
example : (getNeighbors (lrun exL (exOps.take 4)) (-310, 50) 300 true).2 = .ok [1, 2] := by rfl
example : ((lrun exL (exOps.take 4)).pts) = some [(310, 60), (60, 64)] := by decide

def exE : ECfg := { dims := [(-64, 64), (0, 128), (0, 64)], torus := false }
def exEOps : List EOp :=
  [.new 1, .set 1 [0, 0, 0], .new 2, .set 2 [64, 128, 64], .new 3, .set 3 [10, 10, 10], .set 3 [65, 0, 0],
   .remove 1, .new 4, .set 4 [-64, 1, 2]]
example : exE.WF := by
  intro d hd; simp [exE] at hd; rcases hd with rfl | rfl | rfl <;> decide
example : (erun exE 0 exEOps).active = [2, 3, 4] := by decide
example : ((erun exE 0 exEOps).n, (erun exE 0 exEOps).cap) = (3, 3) := by decide
example : getPos (erun exE 0 exEOps) 3 = .ok [10, 10, 10] := by rfl
example : (espec exE exEOps).pos 3 = some [10, 10, 10] := by decide
example : agentsInRadius (erun exE 0 exEOps) [0, 0, 0] 65 = [(3, 300), (4, 4101)] := by decide
/-- one admissible `argpartition` answer for the three distances `[24576, 300, 4101]` and `kth = 1` -/
example : kNearest (fun _ _ => [1, 2, 0]) (erun exE 0 exEOps) [0, 0, 0] 2 = .ok [(3, 300), (4, 4101)] := by
  rfl

/-! any number of dimensions: a 1-D torus and a 5-D bounded space (the theorems above never mention the dimension) -/
def exE1 : ECfg := { dims := [(-64, 64)], torus := true }
def exE5 : ECfg := { dims := [(0, 64), (0, 64), (-64, 0), (0, 128), (10, 20)], torus := false }
example : getPos (erun exE1 1 [.new 1, .set 1 [70], .new 2, .set 2 [-60]]) 1 = .ok [-58] := by rfl
example : agentsInRadius (erun exE1 1 [.new 1, .set 1 [70], .new 2, .set 2 [-60]]) [60] 10 = [(1, 100), (2, 64)] := by
  decide
example : (erun exE5 0 [.new 1, .set 1 [1, 2, -3, 4, 15], .new 2, .set 2 [0, 0, 0, 0, 21]]).active = [1, 2] := by decide
example : getPos (erun exE5 0 [.new 1, .set 1 [1, 2, -3, 4, 15], .new 2, .set 2 [0, 0, 0, 0, 21]]) 1 = .ok [1, 2, -3, 4, 15] := by rfl
example : setPos (erun exE5 0 [.new 1, .set 1 [1, 2, -3, 4, 15], .new 2]) 2 [0, 0, 0, 0, 21] = .error .oob := by rfl
example : calcD2 (erun exE5 0 [.new 1, .set 1 [1, 2, -3, 4, 15], .new 2, .set 2 [0, 0, 0, 0, 20]]) [0, 0, 0, 0, 10] = [55, 100] := by
  decide

/-! edge cases: the half-size tie of the heading, the two edges of an experimental torus, a foreign `move_agent` -/
example : lheading exL (0, 0) (320, 100) = (-320, 100) := by decide          -- tie on x: through the edge
example : lheading exL (320 - 1, 0) (-1, 0) = (320, 0) := by decide           -- … and the reverse direction
example : ldist2 exL (0, 0) (320, 0) = 320 * 320 := by decide
example : edist2 exE1 [-64] [64] = 0 := by decide
example : inBounds exE1.dims [-64] = true ∧ inBounds exE1.dims [64] = true := by decide
example : (move (lrun exL (exOps.take 3)) 9 (5, 5)).2 = .error .key := by rfl
example : (move (lrun exL (exOps.take 3)) 9 (5, 5)).1.pos 9 = some (5, 5) ∧
    (move (lrun exL (exOps.take 3)) 9 (5, 5)).1.agents = [1, 2] := by decide
example : (move (lrun exL (exOps.take 2)) 9 (5, 5)).2 = .ok () := by rfl
/-- five agents on one spot: with this admissible `argpartition` answer agent 3 gets two neighbours for `k = 1` -/
example : nearestNeighbors (fun _ _ => [0, 1, 2, 3, 4])
    (erun exE1 0 [.new 1, .set 1 [0], .new 2, .set 2 [0], .new 3, .set 3 [0], .new 4, .set 4 [0], .new 5, .set 5 [0]]) 3 1 =
    .ok [(1, 0), (2, 0)] := by rfl

/-- a raw write can put an agent outside a bounded space: what `C10_exp_positions_inside` excludes for the agent API -/
example : (rawWrite (erun exE 0 exEOps) 1 [999, 0, 0]).toOption.map (fun s => agentGet s 3) = some (.ok [999, 0, 0]) := by
  rfl
example : inBounds exE.dims [999, 0, 0] = false := by decide
/-- … and a history with writes through the view: the bookkeeping follows them, the queries answer for the written rows -/
def exERaw : List EOp := exEOps ++ [.raw 1 [999, 0, 0], .raw 7 [0, 0, 0], .raw 0 [1, 1, 1], .remove 2, .new 5, .set 5 [0, 0, 0]]
example : (erun exE 0 exERaw).active = [3, 4, 5] := by decide
example : (espec exE exERaw).pos 3 = some [999, 0, 0] := by decide
example : agentGet (erun exE 0 exERaw) 3 = .ok [999, 0, 0] := by rfl
example : agentsInRadius (erun exE 0 exERaw) [990, 0, 0] 10 = [(3, 81)] := by decide
/-- the hypothesis of `C10_exp_positions_inside` holds of a history with an in-bounds write through the view -/
example : ∀ i p, EOp.raw i p ∈ exEOps ++ [.raw 1 [64, 0, 0]] → inBounds exE.dims p = true := by
  intro i p h; simp [exEOps] at h; obtain ⟨_, rfl⟩ := h; decide
/-! legacy, `agent.pos` written directly while the cache is live: `get_neighbors` still answers for the old position `(64, 64)`;
after the next placement the state is the one `move_agent` would have given -/
def exLd : LCfg := { xmin := 0, xmax := 640, ymin := 0, ymax := 640, torus := false }
def exLdOps : List LOp := [.place 1 (64, 64), .place 2 (320, 320), .nbrs (0, 0) 100 true]
example : (lrun exLd exLdOps).pts = some [(64, 64), (320, 320)] := by decide
example : (getNeighbors (lpoke (lrun exLd exLdOps) 1 (600, 600)) (64, 64) 10 true).2 = .ok [1] := by rfl
example : (getNeighbors (lpoke (lrun exLd exLdOps) 1 (600, 600)) (600, 600) 10 true).2 = .ok [] := by rfl
example : (lpoke (lrun exLd exLdOps) 1 (600, 600)).pos 1 = some (600, 600) := by decide
example : (getNeighbors (lstep (lpoke (lrun exLd exLdOps) 1 (600, 600)) (.place 3 (1, 1))) (600, 600) 10 true).2 = .ok [1] := by
  rfl

/-! vectors of the wrong length: `[5]` is taken for `(5, 5, 5)`; two coordinates in a 3-D space are a `ValueError`; the
distances of a bounded space refuse `[5]` while its difference vectors, and the distances of a torus, broadcast it -/
def exT : ECfg := { dims := [(0, 64), (0, 64)], torus := true }
example : (agentSetV (erun exE 0 exEOps) 3 [5]).toOption.map (fun s => agentGet s 3) = some (.ok [5, 5, 5]) := by rfl
example : (agentSetV (erun exE 0 exEOps) 3 [5, 5]).toOption.map (fun s => agentGet s 3) = none := by rfl
example : distancesOfV (erun exE 0 exEOps) [5] none = .error .value := by rfl
example : (diffsOfV (erun exE 0 exEOps) [0] none).toOption.map (·.length) = some 3 := by rfl
example : distancesOfV (erun exT 0 [.new 1, .set 1 [1, 2]]) [0] none = .ok [(1, 5)] := by rfl
example : distancesOfV (erun exT 0 [.new 1, .set 1 [1, 2]]) [0, 0, 0] none = .error .value := by rfl

/-! references to `agent_positions` kept by the user: a 1-D space of capacity 1; the reference is taken with one agent in the
space (`⟨1, 1⟩`: one row, length 1), the second agent re-allocates the array -/
def exK : ECfg := { dims := [(0, 64)], torus := false }
def exKpre : List EOp := [.new 1, .set 1 [5]]
example : holdView (erun exK 1 exKpre) = ⟨1, 1⟩ := by decide
example : (hrun exK 1 (exKpre ++ [.set 1 [7]])).read ⟨1, 1⟩ = [[7]] := by rfl
example : (erun exK 1 (exKpre ++ [.new 2])).cap = 2 := by decide
example : (hrun exK 1 (exKpre ++ [.new 2, .set 2 [9], .set 1 [8]])).read ⟨1, 1⟩ = [[5]] := by rfl
example : (heldWrite (erun exK 1 (exKpre ++ [.new 2])) ⟨1, 1⟩ 0 [3]).toOption.map (fun s => agentGet s 1) = some (.ok [5]) := by
  rfl
example : (heldWrite (erun exK 1 exKpre) ⟨1, 1⟩ 0 [3]).toOption.map (fun s => agentGet s 1) = some (.ok [3]) := by rfl
/-- capacity 5, reference taken with agents 1 and 2; after `1.remove()` row 0 is agent 2's: `v[0] = 9` moves agent 2, and
    `v[1] = 9` (a row no agent has any more) moves nobody -/
def exKrm : List EOp := [.new 1, .set 1 [5], .new 2, .set 2 [6], .remove 1]
example : holdView (erun exK 5 (exKrm.take 4)) = ⟨5, 2⟩ := by decide
example : (heldWrite (erun exK 5 exKrm) ⟨5, 2⟩ 0 [9]).toOption.map (fun s => agentGet s 2) = some (.ok [9]) := by rfl
example : (heldWrite (erun exK 5 exKrm) ⟨5, 2⟩ 1 [9]).toOption.map (fun s => agentGet s 2) = some (.ok [6]) := by rfl
example : (hrun exK 5 exKrm).read ⟨5, 2⟩ = [[6], [6]] := by rfl
/-! repair CS3: a query point outside the bounds of a torus stands for its periodic image.  Torus `[0,640)²` (10 x 10 units), an
agent at the origin, query point 25 units out: the toroidal distance is 5 units (before the repair the code said 15) -/
def exTorL : LCfg := { xmin := 0, xmax := 640, ymin := 0, ymax := 640, torus := true }
example : ldist2 exTorL (0, 0) (1600, 0) = 320 * 320 := by decide
example : (getNeighbors (lrun exTorL [.place 1 (0, 0)]) (1600, 0) 320 true).2 = .ok [1] := by rfl
example : lheading exTorL (0, 0) (1600, 0) = (-320, 0) := by decide
example : lheading exTorL (0, 0) (1536, 0) = (256, 0) := by decide
def exTorE : ECfg := { dims := [(0, 640), (0, 640)], torus := true }
example : agentsInRadius (erun exTorE 0 [.new 1, .set 1 [0, 0]]) [1600, 0] 320 = [(1, 320 * 320)] := by decide
example : ediff exTorE [1600, 0] [0, 0] = [320, 0] := by decide
/-- the hypotheses of `C10_exp_distance_is_metric` / `C10_exp_radius_metric` are met by that point, and the distance is attained
    by the image two sizes away -/
example : exTorE.WF := by intro d hd; simp [exTorE] at hd; rcases hd with rfl | rfl <;> decide
example : imgDist2 exTorE.dims [-2, 0] [1600, 0] [0, 0] = edist2 exTorE [1600, 0] [0, 0] := by decide
example : WfOps exTorE [.new 1, .set 1 [0, 0]] := by
  intro op hop v hv; simp at hop; rcases hop with rfl | rfl <;> simp [EOp.vec] at hv; subst hv; rfl
example : (espec exTorE [.new 1, .set 1 [0, 0]]).pos 1 = some [0, 0] := by decide
/-! a torus k-nearest through the edge; `get_nearest_neighbors` with a coincident agent; legacy query → move → query -/
example : kNearest (fun _ _ => [0, 1, 2]) (erun exTorE 0 [.new 1, .set 1 [10, 10], .new 2, .set 2 [630, 630], .new 3, .set 3 [320, 320]]) [0, 0] 2 =
    .ok [(1, 200), (2, 200)] := by rfl
example : nearestNeighbors (fun _ _ => [0, 1, 2]) (erun exTorE 0 [.new 1, .set 1 [10, 10], .new 2, .set 2 [10, 10], .new 3, .set 3 [320, 320]]) 2 1 =
    .ok [(1, 0)] := by rfl
example : (getNeighbors (lrun exTorL [.place 1 (0, 0), .place 2 (64, 0), .nbrs (0, 0) 64 true, .move 2 (600, 0)]) (0, 0) 64 true).2 = .ok [1, 2] := by
  rfl
example : (getNeighbors (lrun exTorL [.place 1 (0, 0), .place 2 (64, 0), .nbrs (0, 0) 64 true, .move 2 (320, 0)]) (0, 0) 64 true).2 = .ok [1] := by
  rfl
/-! the closed form of "last assigned" and the fresh agent: agent 1 is assigned, then removed agents' rows are compacted around it;
the new agent 2 of the reviewer's history reads the stale row of the removed agent 1 -/
example : agentGet (erun exE 0 ([.new 1, .new 2] ++ [EOp.set 2 [1, 2, 3]] ++ [.new 3, .remove 1, .new 4, .set 4 [0, 0, 0]])) 2 = .ok [1, 2, 3] := by
  rfl
example : getPos (erun exE 0 [.new 1, .set 1 [1, 2, 3], .remove 1, .new 2]) 2 = .ok [1, 2, 3] := by rfl
example : (espec exE [.new 1, .set 1 [1, 2, 3], .remove 1, .new 2]).pos 2 = none := by decide
example : (lrun exL ([.place 1 (0, 0), .place 2 (5, 5)] ++ [LOp.move 2 (700, 64)] ++ [.nbrs (0, 0) 64 true, .remove 1, .place 3 (1, 1)])).pos 2 =
    some (60, 64) := by decide
/-! vectors of any length: the history with a broadcast `[5]` and a rejected `[5, 5]` is the well-formed history with `[5, 5, 5]` -/
example : [EOp.new 1, .set 1 [5], .set 1 [6, 6], .iadd 1 [1]].filterMap (normOp 3) = [.new 1, .set 1 [5, 5, 5], .iadd 1 [1, 1, 1]] := by
  decide
example : agentGet (erunV exE 0 [.new 1, .set 1 [5], .set 1 [6, 6], .iadd 1 [1]]) 1 = .ok [6, 6, 6] := by rfl
/-! direction of the difference vector: from the point to the agent (`positions - point`); the negated vector would arrive at
    `[-10, -20, -30]`; on the torus the vector to `[630, 0]` from `[0, 0]` goes back through the edge -/
example : ediff exE [0, 0, 0] [10, 20, 30] = [10, 20, 30] := by decide
example : ediff exE [10, 20, 30] [0, 0, 0] = [-10, -20, -30] := by decide
example : ediff exTorE [0, 0] [630, 0] = [-10, 0] := by decide
example : edist2 exTorE [0, 5] [640, 5] = 0 ∧ edist2 exTorE [0, 5] [639, 5] = 1 := by decide
/-! the wrapped value: `[700, -10]` on the torus `[0,640]²` is stored as `[60, 630]` -/
example : eassign exTorE [700, -10] = some [60, 630] := by decide
end Examples

end Mesa.Cont
