import MesaModel.Proofs.Activation
import MesaModel.Props.C02
/-!
# C04 — one activation calls each surviving member exactly once, even under churn

Property theorems only (model: `Model/Registry.lean` + `Model/Activation.lean`; helper lemmas:
`Proofs/Activation.lean`).  All statements hold for **every** world `w` (any registries, any program-held
references, any sets), **every** callback script family `script : Aid → List Action` (on its turn an agent
may remove itself, remove any other agent — earlier, later, held or not —, create agents in any model, make
the program drop references, add agents to / discard agents from program-made sets including the activated one, in
any combination and number), every family `raises : Aid → Bool` of callbacks that end by raising, and every argument.

* `walk script arg w refs` is the loop `for ref in refs: if (agent := ref()) is not None: method(agent, arg)`;
  `doSet` is `walk` over the snapshot `members w t` (`list(keyrefs())`), `shuffleDo` over the shuffled snapshot.
* `visited script arg w refs` is the list of agents the loop invoked, in order; `C04_log_is_invocations`
  ties it to the invocation log (with the argument each callback received).
* `alive w a` ⇔ `a` was created ∧ (registered in its model ∨ held by the program): the refcounting fact.
-/
namespace Mesa.Agents

/-- The invocation log of one activation is exactly `visited`, and every callback received the
    argument that was passed to `do` / `shuffle_do` / `map`, unchanged. -/
theorem C04_log_is_invocations (script : Aid → List Action) (arg : Nat) (w : World) (refs : List Aid) :
    (walk script arg w refs).log = w.log ++ (visited script arg w refs).map (fun a => (a, arg)) :=
  walk_log script arg w refs

/-- Nobody is invoked twice, everybody invoked was a member when the call started, and the invocations
    happen in the visiting order (set order for `do`/`map`): the invoked agents are a sublist of the
    snapshot. -/
theorem C04_never_twice_only_members_in_order (script : Aid → List Action) (arg : Nat) (w : World) (t : Target)
    (hn : (rawMembers w t).Nodup) :
    (visited script arg w (members w t)).Sublist (members w t) ∧
    (visited script arg w (members w t)).Nodup ∧
    ∀ a ∈ visited script arg w (members w t), a ∈ rawMembers w t ∧ alive w a = true := by
  have hs := visited_sublist script arg w (members w t)
  refine ⟨hs, (hn.sublist (members_sublist w t)).sublist hs, fun a ha => ?_⟩
  have := hs.subset ha
  simp only [members, List.mem_filter] at this
  exact this

/-- Exactly the members that are alive at their own turn are invoked: `a` is invoked iff it is a
    member and, after the turns of the members before it, it is still registered or held. -/
theorem C04_invoked_iff_alive_at_turn (script : Aid → List Action) (arg : Nat) (w : World) (refs : List Aid)
    (hn : refs.Nodup) (a : Aid) :
    a ∈ visited script arg w refs ↔
      ∃ pre post, refs = pre ++ a :: post ∧ alive (walk script arg w pre) a = true :=
  mem_visited_iff script arg w refs hn a

/-- Every member that survives the whole call (is still registered in its model, or still held by the
    program, when the call returns) was invoked — exactly once. -/
theorem C04_survivor_invoked_exactly_once (script : Aid → List Action) (arg : Nat) (w : World) (t : Target)
    (hn : (rawMembers w t).Nodup) (a : Aid) (ha : a ∈ members w t)
    (hend : alive (doSet script arg w t) a = true) :
    (visited script arg w (members w t)).count a = 1 := by
  have hmem := visited_of_alive_end script arg w (members w t) (members_lt w t) a ha hend
  have hnd := (C04_never_twice_only_members_in_order script arg w t hn).2.1
  have h1 := List.nodup_iff_count.mp hnd a
  have h2 := List.count_pos_iff.mpr hmem
  omega

/-- An agent that was removed from its model before its turn, and that the program does not hold, is not
    invoked — and neither is it at any later point of the call: the dead stay dead whatever the callbacks do. -/
theorem C04_removed_unheld_never_invoked (script : Aid → List Action) (arg : Nat) (w : World)
    (pre post : List Aid) (a : Aid) (hn : (pre ++ a :: post).Nodup)
    (hdead : alive (walk script arg w pre) a = false) :
    a ∉ visited script arg w (pre ++ a :: post) ∧
    (a < w.info.length → ∀ more, alive (walk script arg (walk script arg w pre) more) a = false) := by
  refine ⟨fun hv => ?_, fun hlt more => ?_⟩
  · obtain ⟨pre', post', h1, h2⟩ := (mem_visited_iff script arg w _ hn a).mp hv
    have hpre : pre' = pre := nodup_split_unique hn h1
    rw [hpre, hdead] at h2; simp at h2
  · cases hal : alive (walk script arg (walk script arg w pre) more) a with
    | false => rfl
    | true =>
      have hle := le_walk script arg (walk script arg w pre) more
      have := hle.dead a (Nat.lt_of_lt_of_le hlt (le_walk script arg w pre).len) hal
      rw [hdead] at this; simp at this

/-- Agents created during the call are never invoked by it. -/
theorem C04_created_during_call_never_invoked (script : Aid → List Action) (arg : Nat) (w : World) (t : Target)
    (a : Aid) (hnew : w.info.length ≤ a) : a ∉ visited script arg w (members w t) := by
  intro h
  exact absurd (members_lt w t a ((visited_sublist script arg w _).subset h)) (Nat.not_lt.mpr hnew)

/-- `shuffle_do` visits in exactly the order `shuffle()` would have produced from the same generator
    state — an in-place `shuffle` from that state makes the set's own order equal to the visiting order and
    leaves the generator in the same state —, that order is a permutation of the snapshot, and the shuffle
    step of `shuffle_do` leaves the order of every set (and everything but the generator) untouched. -/
theorem C04_shuffle_do_order (script : Aid → List Action) (arg : Nat) (w : World) (t : Target)
    (h : t.exists? w = true) :
    let refs := (Rng.shuffle (members w t) (rngOf w t)).1
    let g := (Rng.shuffle (members w t) (rngOf w t)).2
    shuffleDo script arg w t = walk script arg (setRng w (t.model w) g) refs ∧
    rawMembers (shuffleInPlace w t) t = refs ∧ rngOf (shuffleInPlace w t) t = g ∧
    refs.Perm (members w t) ∧
    (∀ t', rawMembers (setRng w (t.model w) g) t' = rawMembers w t' ∧
           members (setRng w (t.model w) g) t' = members w t') ∧
    (∀ a, alive (setRng w (t.model w) g) a = alive w a) :=
  ⟨rfl, (shuffleInPlace_spec w t h).1, (shuffleInPlace_spec w t h).2, Rng.shuffle_perm _ _,
   fun t' => ⟨setRng_rawMembers _ _ _ t', setRng_members _ _ _ t'⟩, fun a => setRng_alive _ _ _ a⟩

/-- `map` is the same walk as `do`, and its result list is aligned with the invocations: the i-th result
    is what the i-th invoked agent returned. -/
theorem C04_map_results_aligned (script : Aid → List Action) (arg : Nat) (ret : Aid → Nat → Nat) (w : World)
    (t : Target) :
    (mapSet script arg ret w t).1 = doSet script arg w t ∧
    (mapSet script arg ret w t).2 = (visited script arg w (members w t)).map (fun a => ret a arg) :=
  walkMap_spec script arg ret w (members w t)

/-- `GroupBy.do`: activating group after group (each group an AgentSet with its own fresh snapshot) is one
    walk over the members regrouped by key — groups in order of first occurrence of their key, members in
    set order inside a group — so every statement above applies to it with that visiting order; the
    regrouped order is a permutation of the snapshot. -/
theorem C04_groupby_do_is_regrouped_walk (script : Aid → List Action) (arg : Nat) (key : Aid → Nat) (w : World)
    (t : Target) :
    groupDo script arg key w t = walk script arg w ((groupBy key (members w t)).map (·.2)).flatten ∧
    ((groupBy key (members w t)).map (·.2)).flatten.Perm (members w t) := by
  refine ⟨?_, groupBy_flatten_perm key _⟩
  unfold groupDo
  apply groupWalk_eq
  intro g hg a ha
  apply members_lt w t
  have hp := groupBy_flatten_perm key (members w t)
  apply hp.subset
  exact List.mem_flatten.mpr ⟨g.2, List.mem_map.mpr ⟨g, hg, rfl⟩, ha⟩

/-- `GroupBy.map`: the same state change as `GroupBy.do`, and the result dict has the group keys in group
    order (first occurrence of each key among the members). -/
theorem C04_groupby_map_like_do (script : Aid → List Action) (arg : Nat) (ret : Aid → Nat → Nat) (key : Aid → Nat)
    (w : World) (t : Target) :
    (groupMap script arg ret key w t).1 = groupDo script arg key w t ∧
    (groupMap script arg ret key w t).2.map (·.1) = (groupBy key (members w t)).map (·.1) := by
  refine ⟨groupMap_fst script arg ret key w t, ?_⟩
  unfold groupMap
  generalize groupBy key (members w t) = gs
  have : ∀ (acc : World × List (Nat × List Nat)),
      (gs.foldl (fun (acc : World × List (Nat × List Nat)) g =>
        let (w', rs) := walkMap script arg ret acc.1 (g.2.filter (alive acc.1))
        (w', acc.2 ++ [(g.1, rs)])) acc).2.map (·.1) = acc.2.map (·.1) ++ gs.map (·.1) := by
    induction gs with
    | nil => intro acc; simp
    | cons g gs ih =>
      intro acc
      simp only [List.foldl_cons]
      rw [ih]
      simp
  simpa using this (w, [])

private theorem groupMap_results (script : Aid → List Action) (arg : Nat) (ret : Aid → Nat → Nat) (gs : List (Nat × List Aid))
    (w : World) (acc : List (Nat × List Nat)) (hg : ∀ g ∈ gs, ∀ a ∈ g.2, a < w.info.length) :
    ((gs.foldl (fun (acc : World × List (Nat × List Nat)) g =>
        let (w', rs) := walkMap script arg ret acc.1 (g.2.filter (alive acc.1))
        (w', acc.2 ++ [(g.1, rs)])) (w, acc)).2.map (·.2)).flatten
      = (acc.map (·.2)).flatten ++ (visited script arg w (gs.map (·.2)).flatten).map (fun a => ret a arg) := by
  induction gs generalizing w acc with
  | nil => simp [visited]
  | cons g gs ih =>
    simp only [List.foldl_cons, List.map_cons, List.flatten_cons]
    have hspec := walkMap_spec script arg ret w (g.2.filter (alive w))
    have hfa := walk_filter_alive script arg w w (Le.refl w) g.2 (hg g List.mem_cons_self)
    have hstep : (walkMap script arg ret w (g.2.filter (alive w))) =
        (walk script arg w g.2, (visited script arg w g.2).map (fun a => ret a arg)) := by
      apply Prod.ext
      · rw [hspec.1, hfa.1]
      · rw [hspec.2, hfa.2]
    rw [hstep]
    simp only
    rw [ih (walk script arg w g.2) (acc ++ [(g.1, (visited script arg w g.2).map (fun a => ret a arg))])
      (fun g' hg' a ha => Nat.lt_of_lt_of_le (hg g' (List.mem_cons_of_mem _ hg') a ha) (le_walk script arg w g.2).len)]
    rw [visited_append]
    simp [List.map_append, List.flatten_append]

/-- `GroupBy.map` returns the results of exactly the agents it invoked, in invocation order: the result lists of the dict
    (whose keys are the group keys in group order, `C04_groupby_map_like_do`), read one after the other, are the results of
    the agents invoked by the regrouped walk (review L17: not only the keys). -/
theorem C04_groupby_map_results_aligned (script : Aid → List Action) (arg : Nat) (ret : Aid → Nat → Nat) (key : Aid → Nat)
    (w : World) (t : Target) :
    ((groupMap script arg ret key w t).2.map (·.2)).flatten
      = (visited script arg w ((groupBy key (members w t)).map (·.2)).flatten).map (fun a => ret a arg) := by
  unfold groupMap
  have := groupMap_results script arg ret (groupBy key (members w t)) w [] (by
    intro g hg a ha
    apply members_lt w t
    apply (groupBy_flatten_perm key (members w t)).subset
    exact List.mem_flatten.mpr ⟨g.2, List.mem_map.mpr ⟨g, hg, rfl⟩, ha⟩)
  simpa using this

/-- The duplicate-freeness assumed above holds at every reachable state (C02): after **any** history —
    including earlier activations with churn and in-place shuffles — one activation of any set invokes
    nobody twice, and every member that survives the call is invoked exactly once. -/
theorem C04_exactly_once_all_histories (ops : List Op) (script : Aid → List Action) (arg : Nat) (t : Target) :
    let w := run World.empty ops
    (visited script arg w (members w t)).Nodup ∧
    ∀ a ∈ members w t, alive (doSet script arg w t) a = true →
      (visited script arg w (members w t)).count a = 1 :=
  ⟨(C04_never_twice_only_members_in_order script arg _ t (C02_sets_nodup_all_histories ops t)).2.1,
   fun a ha hend => C04_survivor_invoked_exactly_once script arg _ t (C02_sets_nodup_all_histories ops t) a ha hend⟩

/-- **Never twice, only members, never the newly created, survivors exactly once — for every visiting order.**  The
    statements above hold for *any* reference list that is a permutation of the snapshot, walked from any world `w'`
    in which the same agents are alive (for `shuffle_do`: `w` with the generator advanced): nobody is invoked twice,
    everybody invoked was a member at call start, nobody created later is invoked, and every member still alive when
    the walk ends was invoked exactly once.  Instances: `shuffle_do` (the shuffled snapshot) and `GroupBy.do` (the
    snapshot regrouped by key), whose final states are exactly these walks. -/
theorem C04_every_visiting_order_never_twice_survivors_once (script : Aid → List Action) (arg : Nat) (w w' : World)
    (t : Target) (refs : List Aid) (hn : (rawMembers w t).Nodup) (hp : refs.Perm (members w t))
    (hlen : w'.info.length = w.info.length) :
    (visited script arg w' refs).Nodup ∧
    (∀ a ∈ visited script arg w' refs, a ∈ members w t) ∧
    (∀ a, w.info.length ≤ a → a ∉ visited script arg w' refs) ∧
    (∀ a ∈ members w t, alive (walk script arg w' refs) a = true → (visited script arg w' refs).count a = 1) := by
  have hs := visited_sublist script arg w' refs
  have hnd : refs.Nodup := hp.nodup_iff.mpr (hn.sublist (members_sublist w t))
  have hlt : ∀ x ∈ refs, x < w'.info.length := fun x hx => by rw [hlen]; exact members_lt w t x (hp.subset hx)
  refine ⟨hnd.sublist hs, fun a ha => hp.subset (hs.subset ha), fun a hnew ha => ?_, fun a ha hend => ?_⟩
  · have hlt' : a < w'.info.length := hlt a (hs.subset ha)
    rw [hlen] at hlt'
    exact absurd hlt' (Nat.not_lt.mpr hnew)
  · have hmem := visited_of_alive_end script arg w' refs hlt a (hp.symm.subset ha) hend
    have h1 := List.nodup_iff_count.mp (hnd.sublist hs) a
    have h2 := List.count_pos_iff.mpr hmem
    omega

/-- …instantiated: one `shuffle_do` and one `GroupBy.do` invoke nobody twice, only members of the snapshot, and every
    member that is alive when the call returns exactly once (`order` = the agents invoked, in order). -/
theorem C04_shuffle_do_and_groupby_do_exactly_once (script : Aid → List Action) (arg : Nat) (key : Aid → Nat) (w : World)
    (t : Target) (hn : (rawMembers w t).Nodup) :
    (let g := (Rng.shuffle (members w t) (rngOf w t)).2
     let order := visited script arg (setRng w (t.model w) g) (Rng.shuffle (members w t) (rngOf w t)).1
     order.Nodup ∧ (∀ a ∈ order, a ∈ members w t) ∧
     ∀ a ∈ members w t, alive (shuffleDo script arg w t) a = true → order.count a = 1) ∧
    (let order := visited script arg w ((groupBy key (members w t)).map (·.2)).flatten
     order.Nodup ∧ (∀ a ∈ order, a ∈ members w t) ∧
     ∀ a ∈ members w t, alive (groupDo script arg key w t) a = true → order.count a = 1) := by
  constructor
  · have h := C04_every_visiting_order_never_twice_survivors_once script arg w
      (setRng w (t.model w) (Rng.shuffle (members w t) (rngOf w t)).2) t (Rng.shuffle (members w t) (rngOf w t)).1 hn
      (Rng.shuffle_perm _ _) (by rw [setRng_info])
    exact ⟨h.1, h.2.1, h.2.2.2⟩
  · have h := C04_every_visiting_order_never_twice_survivors_once script arg w w t
      ((groupBy key (members w t)).map (·.2)).flatten hn (groupBy_flatten_perm key _) rfl
    rw [(C04_groupby_do_is_regrouped_walk script arg key w t).1]
    exact ⟨h.1, h.2.1, h.2.2.2⟩

/-- **An activation leaves the set's own order untouched** (program-made sets; for `model.agents` and the by-type sets the
    order after any history is fixed by C02's `C02_creation_order_unless_reordered`, for which no activation counts as a
    reordering).  Whatever the callbacks remove, create or drop — as long as they do not themselves edit sets —, after
    `do`, `shuffle_do`, `map` and `GroupBy.do` every program-made set has exactly the key list it had before the call:
    `shuffle_do` shuffles a private copy only, and what the set shows afterwards is its old order minus the dead. -/
theorem C04_activation_leaves_program_made_sets_as_they_are (script : Aid → List Action)
    (hne : ∀ a, ∀ act ∈ script a, act.isSetEdit = false) (arg : Nat) (ret : Aid → Nat → Nat) (key : Aid → Nat)
    (w : World) (t : Target) :
    (doSet script arg w t).sets = w.sets ∧ (shuffleDo script arg w t).sets = w.sets ∧
    (mapSet script arg ret w t).1.sets = w.sets ∧ (groupDo script arg key w t).sets = w.sets ∧
    ∀ k, (∀ a ∈ rawMembers w (.set k), a < w.info.length) →
      members (shuffleDo script arg w t) (.set k) = (members w (.set k)).filter (alive (shuffleDo script arg w t)) := by
  have hsd : (shuffleDo script arg w t).sets = w.sets := by
    simp only [shuffleDo]; rw [walk_sets script hne, setRng_sets]
  refine ⟨walk_sets script hne arg w _, hsd, ?_, ?_, fun k hk => ?_⟩
  · rw [(C04_map_results_aligned script arg ret w t).1]; exact walk_sets script hne arg w _
  · rw [(C04_groupby_do_is_regrouped_walk script arg key w t).1]; exact walk_sets script hne arg w _
  · have hle : Le w (shuffleDo script arg w t) := by
      simp only [shuffleDo]
      refine Le.trans ⟨⟨[], by simp [setRng_info]⟩, fun a _ h => by rw [setRng_alive] at h; exact h⟩ (le_walk script arg _ _)
    have hraw : rawMembers (shuffleDo script arg w t) (.set k) = rawMembers w (.set k) := by
      simp only [rawMembers, hsd]
    simp only [members, hraw, List.filter_filter]
    apply List.filter_congr
    intro a ha
    cases h1 : alive (shuffleDo script arg w t) a with
    | false => simp
    | true => simp [hle.dead a (hk a ha) h1]

/-! ### callbacks that raise, callbacks that edit the activated set -/

/-- **A callback that raises ends the call at the raiser.**  Whatever the callbacks do and whichever of them raise,
    the activation is an ordinary walk over a prefix `pre` of the reference list (so every theorem above applies to
    it): if an exception leaves the call, `pre` ends with the raiser `a`, which was alive at its turn and is the
    last agent invoked; everybody invoked before it did not raise; nobody behind it is invoked (the log holds exactly
    the invocations of `pre`).  If no exception leaves the call, the whole list was walked and nobody invoked raises. -/
theorem C04_exception_ends_the_call_at_the_raiser (script : Aid → List Action) (raises : Aid → Bool) (arg : Nat)
    (w : World) (refs : List Aid) :
    ∃ pre post, refs = pre ++ post ∧
      (walkX script raises arg w refs).1 = walk script arg w pre ∧
      (walkX script raises arg w refs).1.log = w.log ++ (visited script arg w pre).map (fun a => (a, arg)) ∧
      ((walkX script raises arg w refs).2 = true →
        ∃ pre' a, pre = pre' ++ [a] ∧ alive (walk script arg w pre') a = true ∧ raises a = true ∧
          visited script arg w pre = visited script arg w pre' ++ [a] ∧
          ∀ b ∈ visited script arg w pre', raises b = false) ∧
      ((walkX script raises arg w refs).2 = false → post = [] ∧ ∀ b ∈ visited script arg w refs, raises b = false) := by
  obtain ⟨pre, post, h1, h2, h3, h4⟩ := walkX_spec script raises arg w refs
  refine ⟨pre, post, h1, h2, by rw [h2]; exact walk_log script arg w pre, ?_, h4⟩
  intro hx
  obtain ⟨pre', a, e1, e2, e3, e4⟩ := h3 hx
  refine ⟨pre', a, e1, e2, e3, ?_, e4⟩
  rw [e1, visited_append, visited_alive _ e2]
  rfl

/-- `map`, `GroupBy.do` and `GroupBy.map` under exceptions: `map` changes the state exactly as `do` does and returns
    no list iff an exception leaves the call, otherwise the results of the invoked agents in order; `GroupBy.do` —
    whose loop over the groups is left by the first exception — is the raising walk over the members regrouped by
    key; `GroupBy.map` changes the state as `GroupBy.do` and returns no dict iff an exception leaves the call; and
    callbacks that never raise give the plain activation. -/
theorem C04_map_and_groupby_under_exceptions (script : Aid → List Action) (raises : Aid → Bool) (arg : Nat)
    (ret : Aid → Nat → Nat) (key : Aid → Nat) (w : World) (t : Target) :
    ((mapSetX script raises arg ret w t).1 = (doSetX script raises arg w t).1 ∧
     ((mapSetX script raises arg ret w t).2 = none ↔ (doSetX script raises arg w t).2 = true) ∧
     ∀ rs, (mapSetX script raises arg ret w t).2 = some rs →
       rs = (visited script arg w (members w t)).map (fun a => ret a arg)) ∧
    groupDoX script raises arg key w t
      = walkX script raises arg w ((groupBy key (members w t)).map (·.2)).flatten ∧
    ((groupMapX script raises arg ret key w t).1 = (groupDoX script raises arg key w t).1 ∧
     ((groupMapX script raises arg ret key w t).2 = none ↔ (groupDoX script raises arg key w t).2 = true)) ∧
    (∀ refs, walkX script (fun _ => false) arg w refs = (walk script arg w refs, false)) :=
  ⟨walkMapX_spec script raises arg ret w (members w t), groupDoX_eq script raises arg key w t,
   groupsMapX_spec script raises arg ret w _, fun refs => walkX_never script arg w refs⟩

/-- **Callbacks may edit the activated set.**  `add` / `discard` calls a callback makes on program-made sets — the
    very set being activated included — are invisible to the walk: the same agents are invoked, in the same order,
    as by the same callbacks without those calls, and the two final worlds differ in nothing but the program-made
    sets (registries, references, log identical).  In particular, when the callbacks do nothing else, every member
    present at call start is invoked exactly once in set order — also one that an earlier callback discarded from
    the set — and nobody that was added. -/
theorem C04_set_edits_invisible_to_the_walk (script : Aid → List Action) (arg : Nat) (w : World) (refs : List Aid) :
    visited script arg w refs = visited (stripEdits script) arg w refs ∧
    (∃ s', walk script arg w refs = withSets (walk (stripEdits script) arg w refs) s') ∧
    ((∀ a, stripEdits script a = []) → ∀ t, visited script arg w (members w t) = members w t) := by
  have h := walk_withSets script arg refs w w.sets
  rw [withSets_self] at h
  refine ⟨h.2, h.1, fun hs t => visited_of_no_churn script arg w _ hs ?_⟩
  intro a ha
  simp only [members, List.mem_filter] at ha
  exact ha.2

/-! ### non-vacuity: churn in one concrete activation -/

private def demoWorld : World :=
  (((((newModel World.empty ⟨[3, 1, 4, 1, 5]⟩ |> (createAgent · 0 0 false)) |> (createAgent · 0 1 true))
    |> (createAgent · 0 0 false)) |> (createAgent · 0 2 false)) |> (createAgent · 0 0 false))

/-- agent 0 removes agent 2 (not held: dies) and agent 1 (held: stays callable) and creates an agent;
    agent 3 removes itself and agent 0 (already invoked) -/
private def demoScript : Aid → List Action
  | 0 => [.rm 2, .rm 1, .create 0 0 1 false]
  | 3 => [.rmSelf, .rm 0]
  | _ => []

example : members demoWorld (.all 0) = [0, 1, 2, 3, 4] := by decide
example : visited demoScript 7 demoWorld (members demoWorld (.all 0)) = [0, 1, 3, 4] := by decide
example : members (doSet demoScript 7 demoWorld (.all 0)) (.all 0) = [4, 5] ∧
    (doSet demoScript 7 demoWorld (.all 0)).log = [(0, 7), (1, 7), (3, 7), (4, 7)] := by decide
example : visited demoScript 7 (setRng demoWorld 0 (Rng.shuffle (members demoWorld (.all 0)) (rngOf demoWorld (.all 0))).2)
    (Rng.shuffle (members demoWorld (.all 0)) (rngOf demoWorld (.all 0))).1 = [0, 4, 1, 3] := by decide

/-- agent 1 (held) removes agent 2 and then raises: the call ends there — 0 and 1 were invoked, 3 and 4 never -/
private def demoRaises : Aid → Bool := fun a => a == 1

example : walkX (fun a => if a = 1 then [.rm 2] else []) demoRaises 7 demoWorld (members demoWorld (.all 0))
    = (walk (fun a => if a = 1 then [.rm 2] else []) 7 demoWorld [0, 1], true) := by decide
example : (doSetX (fun a => if a = 1 then [.rm 2] else []) demoRaises 7 demoWorld (.all 0)).1.log = [(0, 7), (1, 7)] ∧
    members (doSetX (fun a => if a = 1 then [.rm 2] else []) demoRaises 7 demoWorld (.all 0)).1 (.all 0) = [0, 1, 3, 4] := by
  decide
example : ((groupMap demoScript 7 (fun a x => a * 100 + x) (GroupKey.ty.eval demoWorld) demoWorld (.all 0)).2) =
    [(0, [7, 407]), (1, [107]), (2, [307])] := by decide
example : (mapSetX demoScript demoRaises 7 (fun a x => a * 100 + x) demoWorld (.all 0)).2 = none ∧
    (mapSetX demoScript (fun _ => false) 7 (fun a x => a * 100 + x) demoWorld (.all 0)).2 = some [7, 107, 307, 407] := by
  decide

/-- the activated set is program-made set 0 = [0, 1, 2, 3]; agent 0 discards agent 2 from it and adds agent 4, agent 1
    discards itself: everybody present at call start is still invoked, agent 4 is not; the set ends as [0, 3, 4] -/
private def demoSetWorld : World := mkSet demoWorld 0 [0, 1, 2, 3]
private def demoEdits : Aid → List Action
  | 0 => [.discardFrom 0 2, .addTo 0 4]
  | 1 => [.discardFrom 0 1]
  | _ => []

/-- `shuffle_do` under churn (`demoScript` removes agents 2, 1, 3, 0 and creates one): the program-made set keeps its key
    list; afterwards it shows its old order minus the dead (1 is held, 0 2 3 died) -/
example : (shuffleDo demoScript 7 demoSetWorld (.set 0)).sets = demoSetWorld.sets ∧
    members (shuffleDo demoScript 7 demoSetWorld (.set 0)) (.set 0) = [1] ∧
    (∀ a, a < 6 → ∀ act ∈ demoScript a, act.isSetEdit = false) := by decide

example : visited demoEdits 7 demoSetWorld (members demoSetWorld (.set 0)) = [0, 1, 2, 3] ∧
    members (doSet demoEdits 7 demoSetWorld (.set 0)) (.set 0) = [0, 3, 4] ∧
    (∀ a, a < 6 → stripEdits demoEdits a = []) := by decide

end Mesa.Agents
