import MesaModel.Model.Repro
import MesaModel.Gen.RngSites
/-!
# C01 — a seeded run is reproducible  (partial: the logic is proved here, the runtime facts are differential)

`Gen/RngSites.lean` is regenerated from mesa's source on every check run; `C01_no_global_sites` is re-proved
against it, so a new draw from `random.*` / `np.random.*` (or an unseeded networkx generator) breaks a proof
obligation.  The remaining theorems are about the scripted-generator model (`Model/Repro.lean`).
What Lean cannot see — Mersenne Twister, the hash seed, process boundaries — is covered by harness/c01.py.
-/
namespace Mesa.Rng

/-- No stochastic call site in mesa/**/*.py draws from a process-global generator, and none has an
    unclassified receiver: each one draws from a generator handed to it (the model's), or is one of the
    documented `Random()` fallbacks, and every fallback sits in the body of `if <random|rng|seed parameter> is None:`
    (the extractor records this per site), i.e. is taken only when the caller passed no generator. -/
theorem C01_no_global_sites : ∀ s ∈ sites, s.recv = .modelGen ∨ (s.recv = .fallback ∧ s.guarded = true) := by decide

/-- the generated table is not vacuous -/
theorem C01_sites_nonempty : 20 ≤ sites.length ∧ 5 ≤ siteFiles.length := by decide

open Mesa.Repro

/-- Hash-order independence of "sort the set, then pick": whatever order the interpreter iterates a set in
    (any permutation), sorting by a total antisymmetric order first makes the pick — and the generator state
    afterwards — the same. -/
theorem C01_sorted_pick_hashorder_independent {α} (le : α → α → Bool)
    (total : ∀ a b, le a b || le b a) (trans : ∀ a b c, le a b → le b c → le a c)
    (antisymm : ∀ a b, le a b → le b a → a = b)
    (l l' : List α) (h : l.Perm l') (g : Gen) : pickSorted le l g = pickSorted le l' g := by
  have hs : l.mergeSort le = l'.mergeSort le := by
    apply List.Perm.eq_of_pairwise (le := fun a b => le a b = true)
    · intro a b _ _ h1 h2; exact antisymm a b h1 h2
    · exact List.pairwise_mergeSort (fun a b c => trans a b c) total l
    · exact List.pairwise_mergeSort (fun a b c => trans a b c) total l'
    · exact (List.mergeSort_perm l le).trans (h.trans (List.mergeSort_perm l' le).symm)
  simp only [pickSorted, hs]

theorem swapIB_perm {α} (a : Array α) (i j : Nat) : (a.swapIfInBounds i j).Perm a := by
  unfold Array.swapIfInBounds
  split
  · split
    · exact Array.swap_perm _ _
    · exact Array.Perm.refl _
  · exact Array.Perm.refl _

theorem shuffleAux_perm {α} (i : Nat) (a : Array α) (g : Gen) : (shuffleAux i a g).1.Perm a := by
  induction i generalizing a g with
  | zero => simp [shuffleAux]
  | succ i ih => simp only [shuffleAux]; exact (ih _ _).trans (swapIB_perm _ _ _)

/-- `shuffle` loses and duplicates nobody, for every list and every generator state. -/
theorem C01_shuffle_perm {α} (l : List α) (g : Gen) : (shuffle l g).1.Perm l := by
  have := shuffleAux_perm (l.toArray.size - 1) l.toArray g
  simpa [shuffle, Array.perm_iff_toList_perm] using this

theorem shuffleAux_congr {α} (i : Nat) (a : Array α) (g g' : Gen)
    (h : ∀ k, k < i → g.stream (g.pos + k) = g'.stream (g'.pos + k)) :
    (shuffleAux i a g).1 = (shuffleAux i a g').1 := by
  induction i generalizing a g g' with
  | zero => rfl
  | succ i ih =>
    simp only [shuffleAux, Gen.below]
    have h0 := h 0 (by omega)
    simp only [Nat.add_zero] at h0
    rw [h0]
    apply ih
    intro k hk
    have := h (k+1) (by omega)
    simpa [Nat.add_assoc, Nat.add_comm 1 k] using this

/-- The result of a shuffle is a function of the list and of the draws it consumes only: two generators
    that agree on the next `len-1` draws (e.g. two processes seeded alike, whatever else differs) give the
    same order. -/
theorem C01_shuffle_deterministic {α} (l : List α) (g g' : Gen)
    (h : ∀ k, k < l.length - 1 → g.stream (g.pos + k) = g'.stream (g'.pos + k)) :
    (shuffle l g).1 = (shuffle l g').1 := by
  have := shuffleAux_congr (l.toArray.size - 1) l.toArray g g' (by simpa using h)
  simp only [shuffle, this]

/-- Re-seeding with the remembered seed replays the stream: after `reset`, any number of draws equals the
    draws a freshly seeded generator produces. -/
theorem C01_reseed_replays (stream : Nat → Nat) (g : Gen) (hg : g.stream = stream) (k n : Nat) :
    (g.reset.draws k n).1 = ((Gen.seeded stream).draws k n).1 := by
  have : g.reset = Gen.seeded stream := by cases g; simp_all [Gen.reset, Gen.seeded]
  rw [this]

/-- Every collection derived from a collection carries the generator handle of its source. -/
theorem C01_derived_carry_generator {α} (c : Coll α) (p : α → Bool) (g : Gen) (key : α → Nat) (keys : List Nat) :
    (c.select p).genId = c.genId ∧ (c.shuffled g).1.genId = c.genId ∧
    ∀ grp ∈ c.groups key keys, grp.genId = c.genId := by
  refine ⟨rfl, rfl, ?_⟩
  intro grp hg
  simp only [Coll.groups, List.mem_map] at hg
  obtain ⟨k, _, rfl⟩ := hg
  rfl

/-! non-vacuity -/
example : (shuffle [1, 2, 3, 4, 5] ⟨fun i => [3, 1, 4, 1, 5].getD i 0, 0⟩).1 = [1, 3, 5, 2, 4] := by decide
example : ∀ a b : Int, (decide (a ≤ b) || decide (b ≤ a)) = true := by
  intro a b; simp only [Bool.or_eq_true, decide_eq_true_eq]; omega

end Mesa.Rng
