import MesaModel.Proofs.Signals
import MesaModel.Proofs.SignalsReentrant
import MesaModel.Proofs.SignalsSlices
import MesaModel.Proofs.SignalsSrc
/-!
# C16 — signals describe every change exactly once, to exactly the subscribers

Property theorems only (model: `Model/Signals.lean`, helper lemmas: `Proofs/Signals.lean`).

`init decls` is a fresh `HasObservables` instance whose class (with its bases) declares the observables
`decls` — `Observable`s and `ObservableList`s, in MRO/definition order, each with its set of signal types
*in the order Python happens to iterate that set* (π).  `run s ops` executes a history of `observe` /
`unobserve` / `clear_all_subscriptions` (concrete names/types or `All()`), handler deaths, assignments and
every list mutation; its outputs are, per operation, `err e` or the deliveries `(handler, signal)` in the
order the handlers were called.
-/
namespace Mesa.Signals

/-- declarations of a real class: names are distinct, the listed types are the kind's set in some order -/
def DeclsOK (ds : List Decl) : Prop :=
  (ds.map (·.name)).Nodup ∧ ∀ d ∈ ds, d.types.Perm d.kind.types

theorem init_wf {ds : List Decl} (h : DeclsOK ds) : (init ds).reg.WF :=
  ⟨h.1, fun d hd => (h.2 d hd).nodup_iff.mpr (by cases d.kind <;> decide)⟩

/-- **`observe` as a pointwise update, for every iteration order**: the call is rejected with `ValueError`
    exactly when it names an unknown observable or a type some selected observable does not emit (nothing
    is subscribed then); otherwise the handler is appended, once, to the subscriber list of every
    (name, type) pair the two selectors match — name or `All()`, type or `All()` — and to no other. -/
theorem C16_observe_pointwise {r : Reg Nat} (w : r.WF) (n : Sel Nat) (t : Sel SigType) (h : Nat) :
    (Reg.validObserve r n t ∧ ∃ r', r.observe n t h = .ok r' ∧ r'.decls = r.decls ∧
      ∀ a ty, r'.subs a ty =
        if n.matches a = true ∧ t.matches ty = true ∧ r.emits a ty then r.subs a ty ++ [h] else r.subs a ty) ∨
    (¬ Reg.validObserve r n t ∧ r.observe n t h = .error .value) :=
  Reg.observe_spec w n t h

/-- **`unobserve` as a pointwise update**: every entry the selectors match keeps exactly its live references
    to other handlers, in order; other entries are untouched (`KeyError`, and no change, only for an unknown
    concrete name combined with `All()` as type). -/
theorem C16_unobserve_pointwise {r : Reg Nat} (w : r.WF) (alive : Nat → Bool) (n : Sel Nat) (t : Sel SigType)
    (h : Nat) :
    ((∃ a, n = .one a ∧ t = .all ∧ a ∉ r.names) ∧ r.unobserve alive n t h = .error .key) ∨
    ((¬ ∃ a, n = .one a ∧ t = .all ∧ a ∉ r.names) ∧ ∃ r', r.unobserve alive n t h = .ok r' ∧
      r'.decls = r.decls ∧ ∀ a ty, r'.subs a ty =
        if Reg.touches r n t a ty then Reg.keep alive h (r.subs a ty) else r.subs a ty) :=
  Reg.unobserve_spec w alive n t h

/-- After `unobserve`, the handler is in none of the subscriber lists the call ranged over. -/
theorem C16_unobserve_removes {r r' : Reg Nat} (w : r.WF) {alive : Nat → Bool} {n : Sel Nat} {t : Sel SigType}
    {h : Nat} (ho : r.unobserve alive n t h = .ok r') {a : Nat} {ty : SigType} (hm : Reg.touches r n t a ty) :
    h ∉ r'.subs a ty := by
  rcases Reg.unobserve_spec w alive n t h with ⟨_, he⟩ | ⟨_, r'', ho', _, hs⟩
  · rw [he] at ho; cases ho
  · rw [ho'] at ho; injection ho with ho; subst ho
    rw [hs a ty, if_pos hm]
    simp [Reg.keep]

/-- **`unobserve` removes nothing else**: whatever the selectors, in every subscriber list every other live handler
    `g ≠ h` keeps all its subscriptions (as many entries as before).  Handlers are identities here: whether the owners
    of two bound methods compare equal (`__eq__` of value objects) plays no part (scenarios `veq` of the harness). -/
theorem C16_unobserve_keeps_others {r r' : Reg Nat} (w : r.WF) {alive : Nat → Bool} {n : Sel Nat} {t : Sel SigType}
    {h g : Nat} (ho : r.unobserve alive n t h = .ok r') (hg : g ≠ h) (hl : alive g = true) (a : Nat) (ty : SigType) :
    (r'.subs a ty).count g = (r.subs a ty).count g := by
  rcases Reg.unobserve_spec w alive n t h with ⟨_, he⟩ | ⟨_, r'', ho', _, hs⟩
  · rw [he] at ho; cases ho
  · rw [ho'] at ho; injection ho with ho; subst ho
    rw [hs a ty]
    split
    · exact List.count_filter (by simp [hl, hg])
    · rfl

/-- After `clear_all_subscriptions(name)` / `(All())` the matching entries are empty. -/
theorem C16_clear_removes (r : Reg Nat) (n : Sel Nat) (a : Nat) (ty : SigType) (hm : n.matches a = true) :
    (r.clearAll n).subs a ty = [] := by
  cases n with
  | all => rfl
  | one b =>
    simp only [Sel.matches, decide_eq_true_eq] at hm
    subst hm; simp [Reg.clearAll]

/-- **The registry is the subscription history.**  For every class and every history, each subscriber list
    holds — as far as live handlers are concerned — exactly what the history says, entry by entry, in
    subscription order: `specSubs` is defined without loops and without any iteration order. -/
theorem C16_registry_is_subscription_history {ds : List Decl} (hds : DeclsOK ds) (ops : List Op) :
    Refines (run (init ds) ops).1 (specSubs (init ds).reg ops) :=
  (run_refines (init_wf hds) ops rfl (fun _ _ => rfl)).2

/-- **Exactly once, in subscription order, with the payload that applied** (∀ classes, ∀ histories, ∀ π):
    after any history `ops`, an operation is either rejected — then nothing is delivered and nothing
    changes — or each signal it emits, in emission order, is handed to exactly the live handlers subscribed
    (per the history) to that name and type, once per subscription, in subscription order. -/
theorem C16_delivery_exactly_once_in_order {ds : List Decl} (hds : DeclsOK ds) (ops : List Op) (op : Op) :
    let s := (run (init ds) ops).1
    ((step s op).2 = .ok ((emitted s op).flatMap fun sig =>
        ((specSubs (init ds).reg ops sig.name sig.type).filter s.alive).map fun h => (h, sig))) ∨
    (∃ e, step s op = (s, .err e) ∧ emitted s op = []) := by
  intro s
  have hr : Refines s (specSubs (init ds).reg ops) := C16_registry_is_subscription_history hds ops
  have hlive : ∀ sig, liveDeliveries s sig =
      ((specSubs (init ds).reg ops sig.name sig.type).filter s.alive).map fun h => (h, sig) := by
    intro sig; unfold liveDeliveries; rw [hr sig.name sig.type]
  rcases step_kind s op with ⟨e, h, hem⟩ | ⟨r, h, hem, _⟩ | ⟨x, hop, h⟩ | ⟨s1, p, h, _, _⟩
  · exact Or.inr ⟨e, h, hem⟩
  · left; rw [h, hem]; rfl
  · left; rw [h, hop]; rfl
  · left; rw [h]; congr 1; exact flatMap_congr' _ fun sig _ => hlive sig

/-- A handler whose last reference was dropped is never called again, whatever it was subscribed to. -/
theorem C16_dead_never_called (s : St) (op : Op) (h : Nat) (hd : h ∈ s.dead) (ds : List (Nat × Sig))
    (ho : (step s op).2 = .ok ds) : ∀ d ∈ ds, d.1 ≠ h := by
  have hna : s.alive h = false := by simp [St.alive, hd]
  have key : ∀ d ∈ (emitted s op).flatMap (liveDeliveries s), d.1 ≠ h := by
    intro d hd'
    obtain ⟨sig, _, hm⟩ := List.mem_flatMap.mp hd'
    obtain ⟨x, hx, rfl⟩ := List.mem_map.mp hm
    intro hxh
    have := (List.mem_filter.mp hx).2
    simp only at hxh
    rw [hxh, hna] at this; cases this
  rcases step_kind s op with ⟨e, h', _⟩ | ⟨r, h', _, _⟩ | ⟨x, _, h'⟩ | ⟨s1, p, h', _, _⟩
  · rw [h'] at ho; cases ho
  · rw [h'] at ho; injection ho with ho; subst ho; simp
  · rw [h'] at ho; injection ho with ho; subst ho; simp
  · rw [h'] at ho; injection ho with ho; subst ho; exact key

/-- A handler that is in no subscriber list of the observable `n` receives no signal of `n`
    (in particular after `unobserve` / `clear_all_subscriptions`, until it subscribes again). -/
theorem C16_unsubscribed_never_called (s : St) (op : Op) (h n : Nat) (hn : ∀ t, h ∉ s.reg.subs n t)
    (ds : List (Nat × Sig)) (ho : (step s op).2 = .ok ds) : ∀ d ∈ ds, d.1 = h → d.2.name ≠ n := by
  have key : ∀ d ∈ (emitted s op).flatMap (liveDeliveries s), d.1 = h → d.2.name ≠ n := by
    intro d hd' hdh hname
    obtain ⟨sig, _, hm⟩ := List.mem_flatMap.mp hd'
    obtain ⟨x, hx, rfl⟩ := List.mem_map.mp hm
    simp only at hdh hname
    subst hdh hname
    exact hn sig.type (List.mem_filter.mp hx).1
  rcases step_kind s op with ⟨e, h', _⟩ | ⟨r, h', _, _⟩ | ⟨x, _, h'⟩ | ⟨s1, p, h', _, _⟩
  · rw [h'] at ho; cases ho
  · rw [h'] at ho; injection ho with ho; subst ho; simp
  · rw [h'] at ho; injection ho with ho; subst ho; simp
  · rw [h'] at ho; injection ho with ho; subst ho; exact key

/-- Subscribing to an unknown observable or to a signal type a selected observable does not emit is
    rejected with `ValueError` and changes nothing; every other subscription is accepted. -/
theorem C16_unknown_rejected {s : St} (w : s.reg.WF) (n : Sel Nat) (t : Sel SigType) (h : Nat) :
    (¬ Reg.validObserve s.reg n t → step s (.observe n t h) = (s, .err .value)) ∧
    (Reg.validObserve s.reg n t → (step s (.observe n t h)).2 = .ok []) := by
  rcases Reg.observe_spec w n t h with ⟨hv, r', ho, _, _⟩ | ⟨hv, ho⟩
  · exact ⟨fun h' => absurd hv h', fun _ => by simp [step, ho]⟩
  · exact ⟨fun _ => by simp [step, ho], fun h' => absurd h' hv⟩

/-- An assignment to an Observable signals `change` with the value that was there and the value assigned,
    and afterwards the Observable holds the assigned value. -/
theorem C16_assign_payload (s : St) (n : Nat) (v : Int) :
    emitted s (.assign n v) = [⟨n, .change, s.obsv n, .int v, .none⟩] ∧
    (step s (.assign n v)).1.obsv n = .int v := by
  refine ⟨rfl, ?_⟩
  simp [step]

/-- **The signals suffice to track the list** (one step, any state): applying the signals an operation emits
    for the list `n` — with their `old` / `new` / `index` payloads, `old` being checked against the copy —
    to a copy of the list as it was yields the list as it is afterwards.  Covers whole-list assignment,
    `[]=`, slice assignment, `del` (index and slice), `insert`, `append`, `pop`, `remove`, `extend`, `+=`,
    `reverse`, `clear`, assignment to and deletion of extended slices (open bounds, any step), and rejected
    calls (no signal, no change). -/
theorem C16_signals_track_list (s : St) (op : Op) (n : Nat) (hobs : ∀ v, op ≠ .assign n v) :
    replay ((s.lists n).getD []) ((emitted s op).filter fun sig => sig.name == n) =
      some (((step s op).1.lists n).getD []) := by
  cases hl : op.listName with
  | some m =>
    rw [step_list hl, emitted_list hl]
    unfold stepList
    cases hd : s.lists m with
    | none => simp [replay]
    | some d =>
      simp only
      cases hop : listOp m d op with
      | error e => simp [replay]
      | ok res =>
        obtain ⟨d', sigs⟩ := res
        obtain ⟨ht1, ht2⟩ := listOp_tracks hop
        have hpr := (notifyAll_spec s sigs).2
        by_cases hmn : m = n
        · subst hmn
          have : sigs.filter (fun sig => sig.name == m) = sigs :=
            List.filter_eq_self.mpr fun sig hs => by simp [ht2 sig hs]
          simp [this, hd, ht1]
        · have : sigs.filter (fun sig => sig.name == n) = [] :=
            List.filter_eq_nil_iff.mpr fun sig hs => by
              have := ht2 sig hs; simp [this, hmn]
          have hnm : ¬ n = m := fun e => hmn e.symm
          simp [this, replay, hnm, hpr.lists]
  | none =>
    cases op with
    | assign m v =>
      have hmn : ¬ m = n := fun e => hobs v (by rw [e])
      simp [emitted, step, hmn, replay, notify]
    | lassign m vs =>
      by_cases hmn : m = n
      · subst hmn; simp [emitted, step, replay, applySig]
      · have hnm : ¬ n = m := fun e => hmn e.symm
        simp [emitted, step, hmn, hnm, replay, notify]
    | observe a t x =>
      simp only [emitted, step, List.filter_nil, replay]
      cases s.reg.observe a t x <;> rfl
    | unobserve a t x =>
      simp only [emitted, step, List.filter_nil, replay]
      cases s.reg.unobserve s.alive a t x <;> rfl
    | clear a => rfl
    | drop x => rfl
    | _ => simp [Op.listName] at hl

/-- all signals a history emits, in order -/
def allEmitted (s : St) : List Op → List Sig
  | [] => []
  | op :: ops => emitted s op ++ allEmitted (step s op).1 ops

/-- **Replica theorem, ∀ histories**: a listener that starts with an empty copy and applies every signal
    emitted for the ObservableList `n` has, after any history, exactly the real list. -/
theorem C16_replica_all_histories (s : St) (ops : List Op) (n : Nat) (hobs : ∀ v, .assign n v ∉ ops) :
    replay ((s.lists n).getD []) ((allEmitted s ops).filter fun sig => sig.name == n) =
      some (((run s ops).1.lists n).getD []) := by
  induction ops generalizing s with
  | nil => rfl
  | cons op ops ih =>
    rw [allEmitted, List.filter_append, replay_append, run_cons,
      C16_signals_track_list s op n (fun v e => hobs v (by simp [e]))]
    exact ih (step s op).1 (fun v hv => hobs v (by simp [hv]))

/-- **A subscribed listener receives exactly these signals**: a live handler that is subscribed exactly once
    to the type of every signal the operation emits for `n` (e.g. subscribed once with `All()` for the type: the
    hypothesis speaks of the types that occur, not of all five — a plain Observable has `change` only) is called, in
    emission order, with exactly the signals emitted for `n` — so by `C16_signals_track_list` its copy stays identical
    to the real list; `C16_listener_replica_all_histories` composes the two over a history. -/
theorem C16_listener_receives_all (s : St) (op : Op) (n h : Nat)
    (hsub : ∀ sig ∈ emitted s op, sig.name = n → ((s.reg.subs n sig.type).filter s.alive).count h = 1)
    (ds : List (Nat × Sig)) (ho : (step s op).2 = .ok ds) :
    (ds.filter fun d => d.1 == h && d.2.name == n).map (·.2) = (emitted s op).filter fun sig => sig.name == n := by
  have key : ∀ sigs : List Sig,
      (∀ sig ∈ sigs, sig.name = n → ((s.reg.subs n sig.type).filter s.alive).count h = 1) →
      ((sigs.flatMap (liveDeliveries s)).filter fun d => d.1 == h && d.2.name == n).map (·.2) =
        sigs.filter fun sig => sig.name == n := by
    intro sigs
    induction sigs with
    | nil => intro _; rfl
    | cons sig sigs ih =>
      intro hsub
      rw [List.flatMap_cons, List.filter_append, List.map_append, ih (fun g hg => hsub g (by simp [hg])), List.filter_cons]
      by_cases hname : sig.name = n
      · have h1 : (liveDeliveries s sig).filter (fun d => d.1 == h && d.2.name == n) = [(h, sig)] := by
          unfold liveDeliveries
          rw [List.filter_map]
          have : ((fun d : Nat × Sig => d.1 == h && d.2.name == n) ∘ fun x => (x, sig)) = fun x => x == h := by
            funext x; simp [hname]
          rw [this, List.filter_beq, hname, hsub sig (by simp) hname]; rfl
        simp [h1, hname]
      · have h1 : (liveDeliveries s sig).filter (fun d => d.1 == h && d.2.name == n) = [] := by
          unfold liveDeliveries
          rw [List.filter_map]
          apply List.map_eq_nil_iff.mpr
          apply List.filter_eq_nil_iff.mpr
          intro x _; simp [hname]
        simp [h1, hname]
  rcases step_kind s op with ⟨e, h', _⟩ | ⟨r, h', hem, _⟩ | ⟨x, hop, h'⟩ | ⟨s1, p, h', _, _⟩
  · rw [h'] at ho; cases ho
  · rw [h'] at ho; injection ho with ho; subst ho; rw [hem]; rfl
  · rw [h'] at ho; injection ho with ho; subst ho; rw [hop]; rfl
  · rw [h'] at ho; injection ho with ho; subst ho; exact key _ hsub

/-- the signals handler `h` was called with for the observable `n` over a history, in order -/
def deliveriesTo (h n : Nat) : List Out → List Sig
  | [] => []
  | .ok ds :: os => (ds.filter fun d => d.1 == h && d.2.name == n).map (·.2) ++ deliveriesTo h n os
  | .err _ :: os => deliveriesTo h n os

/-- at every step of the history, handler `h` is alive and subscribed exactly once to the type of every signal that
    step emits for `n` (decidable; e.g. subscribed once with `All()` and never unsubscribed, cleared or dropped) -/
def subscribedThroughout (n h : Nat) : St → List Op → Bool
  | _, [] => true
  | s, op :: ops =>
    ((emitted s op).all fun sig => sig.name != n || ((s.reg.subs n sig.type).filter s.alive).count h == 1) &&
      subscribedThroughout n h (step s op).1 ops

/-- **A listener's own deliveries reconstruct the list, ∀ histories** (the replica theorem composed with the
    deliveries): a handler that stays subscribed — once — to every signal type the ObservableList `n` emits during a
    history, and applies the signals *it is called with* to its copy, has after the history exactly the real list;
    whatever else happens in between (other handlers subscribing, unsubscribing, dying, rejected calls, operations on
    other observables). -/
theorem C16_listener_replica_all_histories (s : St) (ops : List Op) (n h : Nat) (hobs : ∀ v, .assign n v ∉ ops)
    (hsub : subscribedThroughout n h s ops = true) :
    replay ((s.lists n).getD []) (deliveriesTo h n (run s ops).2) = some (((run s ops).1.lists n).getD []) := by
  have key : ∀ (ops : List Op) (s : St), subscribedThroughout n h s ops = true →
      deliveriesTo h n (run s ops).2 = (allEmitted s ops).filter fun sig => sig.name == n := by
    intro ops
    induction ops with
    | nil => intro s _; rfl
    | cons op ops ih =>
      intro s hs
      simp only [subscribedThroughout, Bool.and_eq_true, List.all_eq_true, Bool.or_eq_true, bne_iff_ne, ne_eq,
        beq_iff_eq] at hs
      have hs1 : ∀ sig ∈ emitted s op, sig.name = n → ((s.reg.subs n sig.type).filter s.alive).count h = 1 := by
        intro sig hm hn
        rcases hs.1 sig hm with h' | h'
        · exact absurd hn h'
        · exact h'
      rw [run_cons, allEmitted, List.filter_append, ← ih _ hs.2]
      cases ho : (step s op).2 with
      | ok ds =>
        simp only [deliveriesTo]
        rw [C16_listener_receives_all s op n h hs1 ds ho]
      | err e =>
        simp only [deliveriesTo]
        rcases step_kind s op with ⟨e', _, hem⟩ | ⟨r, h', _, _⟩ | ⟨x, _, h'⟩ | ⟨s1, p, h', _, _⟩
        · rw [hem]; rfl
        · rw [h'] at ho; cases ho
        · rw [h'] at ho; cases ho
        · rw [h'] at ho; cases ho
  rw [key ops s hsub]
  exact C16_replica_all_histories s ops n hobs

/-- **Independence from the iteration order of the signal-type sets** (needs the repaired loop variable):
    two classes that differ only in the order in which Python iterates each `signal_types` set produce the
    same results and the same deliveries, in the same order, for every history. -/
theorem C16_pi_independent {ds ds' : List Decl} (hds : DeclsOK ds) (h : SameSets ds ds') (ops : List Op) :
    (run (init ds') ops).2 = (run (init ds) ops).2 :=
  run_withDecls h ops (s := init ds) rfl (init_wf hds)

/-! ### non-vacuity: a class with an Observable defined before an ObservableList (the G6 witness class) -/

def exDecls : List Decl := [⟨0, .obs, [.change]⟩, ⟨1, .lst, [.insert, .append, .change, .replace, .remove]⟩]
def exDecls' : List Decl := [⟨0, .obs, [.change]⟩, ⟨1, .lst, [.remove, .replace, .change, .insert, .append]⟩]

example : DeclsOK exDecls := ⟨by decide, by decide⟩
example : SameSets exDecls exDecls' :=
  .cons ⟨rfl, rfl, .refl _⟩ (.cons ⟨rfl, rfl, by decide⟩ .nil)

/-- `observe(All(), All(), h)` then `lst = [1]; lst.append(2); x = 3; del lst[0]`: every signal reaches `h` once,
    with the payload that applied (G6 and L1 witnesses) -/
example : (run (init exDecls) [.observe .all .all 7, .lassign 1 [1], .lappend 1 2, .assign 0 3, .ldel 1 0]).2 =
    [.ok [], .ok [(7, ⟨1, .change, .list [], .list [1], .none⟩)], .ok [(7, ⟨1, .append, .none, .int 2, .int 1⟩)],
     .ok [(7, ⟨0, .change, .none, .int 3, .none⟩)], .ok [(7, ⟨1, .remove, .int 1, .none, .int 0⟩)]] := by decide

/-- `observe(All(), "append", h)` is rejected (the Observable does not emit `append`) and subscribes nothing
    (G1 witness); a handler subscribed twice is called twice; after `unobserve(All(), All(), h)` nothing -/
example : (run (init exDecls) [.observe .all (.one .append) 7, .lassign 1 [], .observe (.one 1) .all 7,
      .observe (.one 1) (.one .append) 7, .lappend 1 5, .unobserve .all .all 7, .lappend 1 6]).2 =
    [.err .value, .ok [], .ok [], .ok [],
     .ok [(7, ⟨1, .append, .none, .int 5, .int 0⟩), (7, ⟨1, .append, .none, .int 5, .int 0⟩)], .ok [], .ok []] := by
  decide

/-- non-vacuity of `C16_listener_replica_all_histories` (and of the hypothesis of `C16_listener_receives_all` for a
    class that has a plain Observable too): handler 7 subscribes with `All()` to every type of the list 1; then the
    list is assigned, appended to, inserted into, reversed, popped with an index out of range (rejected), extended and
    shortened, while handler 3 subscribes, is garbage-collected (`drop`) and the Observable 0 is assigned: 7 stays
    subscribed throughout, and replaying what *it* was called with gives the list -/
def exListenerOps : List Op :=
  [.lassign 1 [1, 2], .lappend 1 5, .observe .all .all 3, .linsert 1 0 4, .assign 0 9, .drop 3, .lreverse 1,
   .lpop 1 9, .lextend 1 [8, 9], .ldel 1 0]
def exListenerSt : St := (run (init exDecls) [.observe (.one 1) .all 7]).1

example : subscribedThroughout 1 7 exListenerSt exListenerOps = true := by decide
example : replay [] (deliveriesTo 7 1 (run exListenerSt exListenerOps).2) = some [2, 1, 4, 8, 9] ∧
    (run exListenerSt exListenerOps).1.lists 1 = some [2, 1, 4, 8, 9] ∧
    (run exListenerSt exListenerOps).2[7]? = some (.err .index) := by decide
/-- the listener checks `old` for every signal type, `change` included: a `change` whose `old` is not its copy does
    not fit (so the replica theorems also say that the `old` payload of every whole-list assignment is the list as it
    was) -/
example : applySig [1, 2] ⟨1, .change, .list [1], .list [7], .none⟩ = none ∧
    applySig [1, 2] ⟨1, .change, .list [1, 2], .list [7], .none⟩ = some [7] := by decide
/-- … and a handler that was garbage-collected in between is not subscribed throughout -/
example : subscribedThroughout 1 3 exListenerSt exListenerOps = false := by decide

/-! ### extended slices: `lst[a:b:c] = vs`, `del lst[a:b:c]` with open bounds, steps other than 1, negative steps -/

/-- **An extended slice is rejected exactly when Python rejects it**: `ValueError` for step 0 and — for a step other
    than 1 — for a number of items different from the number of selected positions; nothing changes, nothing is
    signalled then (`C18_signals_reject_unchanged`). -/
theorem C16_slicex_set_rejected_iff (n : Nat) (d : List Int) (sl : Slc) (vs : List Int) :
    (∃ e, pSetSliceX n d sl vs = .error e) ↔
      (sl.c.getD 1 = 0 ∨ (sl.c.getD 1 ≠ 1 ∧ ∀ idx, sl.indices d.length = some idx → vs.length ≠ idx.length)) := by
  unfold pSetSliceX getSliceX setSliceX Slc.indices
  cases ha : sl.adjust d.length with
  | none =>
    have h0 : sl.c.getD 1 = 0 := by
      unfold Slc.adjust at ha
      simp only at ha
      split at ha
      · assumption
      · cases ha
    simp [h0]
  | some t =>
    obtain ⟨start, stop, step⟩ := t
    obtain ⟨h0, hst, _, _⟩ := Slc.adjust_bounds ha
    subst hst
    simp only [Option.map_some]
    by_cases h1 : sl.c.getD 1 = 1
    · simp [h1]
    · by_cases hl : vs.length = ((List.range (sliceLen start stop (sl.c.getD 1))).map
          fun (j : Nat) => (start + (j : Int) * sl.c.getD 1).toNat).length
      · simp [h1, h0, hl]
      · simp only [List.length_map, List.length_range] at hl
        simp [h1, h0, hl]

/-- **Every position an extended slice selects exists**, whatever the bounds (open, negative, beyond the end) and
    the step: the payload `old` of the signal lists real items. -/
theorem C16_slicex_positions_exist {sl : Slc} {len : Nat} {idx : List Nat} (h : sl.indices len = some idx) :
    ∀ k ∈ idx, k < len :=
  Slc.indices_in_range h

/-- **An assignment to a slice with a step other than 1 touches only the selected positions**: the list keeps its
    length and every other item. -/
theorem C16_slicex_extended_set_frame {d d' : List Int} {sl : Slc} {vs : List Int} (hc : sl.c.getD 1 ≠ 1)
    (h : setSliceX d sl vs = some d') :
    d'.length = d.length ∧ ∀ idx, sl.indices d.length = some idx → ∀ k, k ∉ idx → d'.getD k 0 = d.getD k 0 := by
  unfold setSliceX at h
  cases ha : sl.adjust d.length with
  | none => simp [ha] at h
  | some t =>
    obtain ⟨start, stop, step⟩ := t
    obtain ⟨_, hst, _, _⟩ := Slc.adjust_bounds ha
    cases hi : sl.indices d.length with
    | none => simp [ha, hi] at h
    | some idx =>
      simp only [ha, hi] at h
      rw [if_neg (by rw [hst]; exact hc)] at h
      split at h
      · cases h
      · injection h with h
        subst h
        refine ⟨foldl_set_length _ _, fun idx' hidx' k hk => ?_⟩
        injection hidx' with hidx'
        subst hidx'
        exact foldl_set_other _ _ k fun p hp hpk => hk (hpk ▸ (List.of_mem_zip hp).1)

/-- **… and writes the items, in the order of the slice, to the selected positions** (which are distinct): the `j`-th
    item goes to the `j`-th position the slice selects — for a negative step that is from the back — and reading the
    slice back gives exactly what was assigned.  Together with `C16_slicex_extended_set_frame` this determines the list
    after the assignment item by item, independently of how `setSliceX` computes it (so the listener of the replica
    theorems, which applies a `replace` carrying an extended slice by the same function, is pinned too). -/
theorem C16_slicex_extended_set_values {d d' : List Int} {sl : Slc} {vs : List Int} {idx : List Nat}
    (hc : sl.c.getD 1 ≠ 1) (h : setSliceX d sl vs = some d') (hi : sl.indices d.length = some idx) :
    idx.Nodup ∧ vs.length = idx.length ∧ (∀ j (hj : j < idx.length), d'.getD idx[j] 0 = vs.getD j 0) ∧
    getSliceX d' sl = some vs := by
  have hnd := Slc.indices_nodup hi
  have hr := Slc.indices_in_range hi
  unfold setSliceX at h
  cases ha : sl.adjust d.length with
  | none => simp [ha] at h
  | some t =>
    obtain ⟨start, stop, step⟩ := t
    obtain ⟨_, hst, _, _⟩ := Slc.adjust_bounds ha
    simp only [ha, hi] at h
    rw [if_neg (by rw [hst]; exact hc)] at h
    split at h
    · cases h
    · rename_i hl
      have hl' : vs.length = idx.length := by simpa using hl
      injection h with h
      subst h
      have hm := foldl_set_zip_get idx vs d hl' hnd hr
      refine ⟨hnd, hl', fun j hj => ?_, ?_⟩
      · have e := congrArg (fun l => l.getD j 0) hm
        simpa [List.getD, hj] using e
      · unfold getSliceX
        rw [foldl_set_length, hi]
        exact congrArg some hm

/-- **`del lst[a:b:c]` erases exactly the selected positions**: what remains is the items at the other positions, in
    their order, and the list gets shorter by the number of positions selected (they are distinct and exist). -/
theorem C16_slicex_del_erases_selected {d d' : List Int} {sl : Slc} {idx : List Nat}
    (h : delSliceX d sl = some d') (hi : sl.indices d.length = some idx) :
    d' = ((List.range d.length).filter fun k => !idx.contains k).map (fun k => d.getD k 0) ∧
    d'.length + idx.length = d.length := by
  unfold delSliceX at h
  rw [hi] at h
  injection h with h
  have e := zipIdx_filter_map (fun k => !idx.contains k) d 0
  simp only [Nat.sub_zero, ← List.range_eq_range'] at e
  simp only [e] at h
  subst h
  refine ⟨rfl, ?_⟩
  rw [List.length_map]
  exact length_filter_not_contains (Slc.indices_nodup hi) (Slc.indices_in_range hi)

/-- non-vacuity: a negative step writes from the back (`d[::-2] = [7, 8, 9]`), so an implementation that wrote the
    items in the opposite order is excluded by `C16_slicex_extended_set_values`; `del d[::-2]` -/
example : setSliceX [0, 1, 2, 3, 4] ⟨none, none, some (-2)⟩ [7, 8, 9] = some [9, 1, 8, 3, 7] ∧
    (⟨none, none, some (-2)⟩ : Slc).indices 5 = some [4, 2, 0] ∧
    delSliceX [0, 1, 2, 3, 4] ⟨none, none, some (-2)⟩ = some [1, 3] := by decide

/-- non-vacuity / what Python does: `d[::2] = [7, 8, 9]`, `d[::-1]` selects everything backwards, `del d[1::2]`, a
    wrong number of items and step 0 are rejected -/
example : setSliceX [0, 1, 2, 3, 4] ⟨none, none, some 2⟩ [7, 8, 9] = some [7, 1, 8, 3, 9] := by decide
example : getSliceX [0, 1, 2, 3, 4] ⟨none, none, some (-1)⟩ = some [4, 3, 2, 1, 0] := by decide
example : getSliceX [0, 1, 2, 3, 4] ⟨some (-2), some (-9), some (-2)⟩ = some [3, 1] := by decide
example : delSliceX [0, 1, 2, 3, 4] ⟨some 1, none, some 2⟩ = some [0, 2, 4] := by decide
example : setSliceX [0, 1, 2, 3, 4] ⟨none, none, some 2⟩ [7, 8] = none := by decide
example : getSliceX [0, 1, 2] ⟨none, none, some 0⟩ = none := by decide
example : setSliceX [0, 1, 2, 3, 4] ⟨some 3, some 1, none⟩ [7] = some [0, 1, 2, 7, 3, 4] := by decide

/-! ### the derived methods by their signals

`extend`, `+=` and `clear` are loops over primitives in the model (as in `MutableSequence`); here is what they signal,
stated declaratively — which signals, with which `old` / `new` / `index`, and the resulting list — without the loops and
without the state machine (`specAppends`, `specClears` in `Proofs/SignalsSlices.lean` are closed forms). -/

/-- **`extend(vs)`**: the list becomes `d ++ vs`, and exactly one `append` per item is signalled, in order, the `k`-th
    with `new` = the item and `index` = `len(d) + k` (the position at which it arrives); nothing else. -/
theorem C16_extend_signals (n : Nat) (d vs : List Int) :
    listOp n d (.lextend n vs) = .ok (d ++ vs, specAppends n d.length vs) := by
  have h := mExtend_acc n vs d []
  simp only [listOp, mExtend, h, List.nil_append]

/-- **`lst += vs`**: the signals of `extend(vs)`, then one `change` whose `old` and `new` are both the extended list
    (the descriptor's `__set__` is handed the list object itself). -/
theorem C16_iadd_signals (n : Nat) (d vs : List Int) :
    listOp n d (.liadd n vs) =
      .ok (d ++ vs, specAppends n d.length vs ++ [⟨n, .change, .list (d ++ vs), .list (d ++ vs), .none⟩]) := by
  have h := mExtend_acc n vs d []
  simp only [listOp, mExtend, h, List.nil_append]

/-- **`clear()`**: the list becomes empty, and exactly one `remove` per item is signalled, from the last item to the
    first, each with `old` = the item removed and `index` = -1 (it is `pop()` until the list is empty); nothing else. -/
theorem C16_clear_signals (n : Nat) (d : List Int) :
    listOp n d (.lclear n) = .ok ([], specClears n d) := by
  simp only [listOp, mClear_spec]

example : specAppends 1 2 [7, 8] = [⟨1, .append, .none, .int 7, .int 2⟩, ⟨1, .append, .none, .int 8, .int 3⟩] := by decide
example : specClears 1 [4, 5, 6] = [⟨1, .remove, .int 6, .none, .int (-1)⟩, ⟨1, .remove, .int 5, .none, .int (-1)⟩,
    ⟨1, .remove, .int 4, .none, .int (-1)⟩] := by decide

/-! ### `extend` / `+=` from an iterable that raises part-way (`Model/SignalsSrc.lean`) -/

/-- **`extend(src)` where `src` yields `vs[0..k)` and then raises**: the items taken from the iterable before it raised
    — and only they — are in the list, each of them was announced by one `append` (item, index at which it arrived),
    in order, nothing else was signalled; the exception comes out exactly when the iterable raised (`k < len(vs)`); and
    a listener that applies these signals to its copy has the real list although the call did not complete. -/
theorem C16_extend_failing_source (n : Nat) (d vs : List Int) (k : Nat) :
    mExtendSrc n d vs k [] = ((d ++ vs.take k, specAppends n d.length (vs.take k)), decide (k < vs.length)) ∧
    replay d (mExtendSrc n d vs k []).1.2 = some (mExtendSrc n d vs k []).1.1 := by
  have h := mExtendSrc_acc n vs d k []
  simp only [List.nil_append] at h
  exact ⟨h, by rw [h]; exact replay_specAppends n (vs.take k) d⟩

/-- **On the machine** (any state, any handlers): `extend` / `+=` from such an iterable is `extend` of the items it
    yielded before it raised (state and deliveries; for `+=` no `change` follows, the assignment is not reached); if it
    does not raise, it is the plain `extend` / `+=` (`C16_failing_source_histories` lifts this to histories). -/
theorem C16_failing_source_is_extend_of_consumed (progs : Nat → List Act) (s : St) (iadd : Bool) (n : Nat)
    (vs : List Int) (k : Nat) :
    stepSrcR progs s iadd n vs k =
      if k < vs.length then
        ((stepR progs s (.lextend n (vs.take k))).1, (stepR progs s (.lextend n (vs.take k))).2, (s.lists n).isSome)
      else
        ((stepR progs s (if iadd then .liadd n vs else .lextend n vs)).1,
         (stepR progs s (if iadd then .liadd n vs else .lextend n vs)).2, false) := by
  have h := mExtendSrc_acc n vs
  have e := mExtend_acc n
  unfold stepSrcR
  cases hl : s.lists n with
  | none => cases iadd <;> simp [stepR, Op.listName, hl]
  | some d =>
    by_cases hk : k < vs.length
    · simp [h, hk, stepR, Op.listName, hl, listOp, mExtend, e]
    · have ht : vs.take k = vs := List.take_of_length_le (by omega)
      cases iadd <;> simp [h, hk, ht, stepR, Op.listName, hl, listOp, mExtend, e]

/-- the operation of `Op` with the same effect: `extend` of the items the iterable yielded before it raised -/
def OpS.asOp : OpS → Op
  | .op o => o
  | .src iadd n vs k =>
    if k < vs.length then .lextend n (vs.take k) else if iadd then .liadd n vs else .lextend n vs

/-- **Histories with failing iterables** (∀ states, ∀ handler programs, ∀ histories of `Op`s and of `extend(src)` /
    `+= src` calls whose iterable raises anywhere): the state reached and everything every handler was called with are
    those of the history in which each such call is replaced by `extend` of the items its iterable yielded before it
    raised (`OpS.asOp`) — so the theorems about histories (registry, deliveries, replicas) hold for these histories with
    `ops.map OpS.asOp` for `ops` (out of which calls the exception comes: `C16_failing_source_is_extend_of_consumed`,
    third component, call by call). -/
theorem C16_failing_source_histories (progs : Nat → List Act) (s : St) (ops : List OpS) :
    (runS progs s ops).1 = (runR progs s (ops.map OpS.asOp)).1 ∧
    (runS progs s ops).2.1 = (runR progs s (ops.map OpS.asOp)).2 := by
  induction ops generalizing s with
  | nil => exact ⟨rfl, rfl⟩
  | cons o ops ih =>
    have hstep : (stepS progs s o).1 = (stepR progs s o.asOp).1 ∧ (stepS progs s o).2.1 = (stepR progs s o.asOp).2 := by
      cases o with
      | op o => exact ⟨rfl, rfl⟩
      | src iadd n vs k =>
        simp only [stepS, OpS.asOp, C16_failing_source_is_extend_of_consumed]
        split <;> exact ⟨rfl, rfl⟩
    obtain ⟨i1, i2⟩ := ih (stepS progs s o).1
    simp only [runS, List.map_cons, runR]
    rw [← hstep.1, ← hstep.2]
    exact ⟨i1, by rw [i2]⟩

/-- **A listener keeps its replica through failing iterables**: the listener of `C16_listener_replica_all_histories`,
    in a history that also contains `extend(src)` / `+= src` calls whose iterable raises part-way, still has exactly
    the real list — the items that arrived before the exception included. -/
theorem C16_listener_replica_failing_sources (s : St) (ops : List OpS) (n h : Nat)
    (hobs : ∀ v, .assign n v ∉ ops.map OpS.asOp)
    (hsub : subscribedThroughout n h s (ops.map OpS.asOp) = true) :
    replay ((s.lists n).getD []) (deliveriesTo h n (runS (fun _ => []) s ops).2.1) =
      some (((runS (fun _ => []) s ops).1.lists n).getD []) := by
  obtain ⟨h1, h2⟩ := C16_failing_source_histories (fun _ => []) s ops
  rw [h1, h2, runR_passive (fun _ => rfl)]
  exact C16_listener_replica_all_histories s _ n h hobs hsub

/-- non-vacuity: handler 7 subscribed with `All()`; `extend` from an iterable that breaks after 2 of 3 items, an
    `append`, `+=` from one that breaks at once and from one that does not: the exception comes out of the first and the
    third call, and the replica is the list -/
def exSrcOps : List OpS :=
  [.op (.lassign 1 [1]), .src false 1 [5, 6, 7] 2, .op (.lappend 1 8), .src true 1 [9] 0, .src true 1 [4] 1]

example : (runS (fun _ => []) exListenerSt exSrcOps).2.2 = [false, true, false, true, false] ∧
    subscribedThroughout 1 7 exListenerSt (exSrcOps.map OpS.asOp) = true ∧
    replay [] (deliveriesTo 7 1 (runS (fun _ => []) exListenerSt exSrcOps).2.1) = some [1, 5, 6, 8, 4] ∧
    (runS (fun _ => []) exListenerSt exSrcOps).1.lists 1 = some [1, 5, 6, 8, 4] := by decide

/-- non-vacuity: the iterable breaks after two of four items — two items arrive, two `append`s, the exception comes out -/
example : mExtendSrc 1 [9] [5, 6, 7, 8] 2 [] =
    (([9, 5, 6], [⟨1, .append, .none, .int 5, .int 1⟩, ⟨1, .append, .none, .int 6, .int 2⟩]), true) := by decide

/-! ### handlers that subscribe / unsubscribe / clear while they are being notified

`runR progs s ops`: the same machine, but handler `h`, whenever it is called, makes the registry calls `progs h`
(`observe`, `unobserve`, `clear_all_subscriptions`, with names / types / `All()`) before it returns.  One round of
`_mesa_notify` (G13 repaired) = `roundLoop`: the subscriber list as it was when the signal was emitted is walked in
order; the registry the calls act on is the live one. -/

/-- Handlers that make no calls are the passive handlers of all theorems above: the two machines coincide. -/
theorem C16_reentrant_passive_is_run {progs : Nat → List Act} (hp : ∀ h, progs h = []) (s : St) (ops : List Op) :
    runR progs s ops = run s ops :=
  runR_passive hp s ops

/-- **A round of notification leaves the registry to the handlers** (fails with G13, where the list the round
    started from was written back and undid every `unobserve` / `clear_all_subscriptions` made meanwhile): after the
    round the registry is what the calls of the handlers that were called, in the order they were called, made of
    it — apart from the dead references dropped from the list of the signal. -/
theorem C16_reentrant_round_registry (progs : Nat → List Act) (r : Reg Nat) (alive : Nat → Bool) (n : Nat) (t : SigType) :
    let called := (r.deliverR progs alive n t).2
    let r' := r.acts alive (called.flatMap progs)
    (r.deliverR progs alive n t).1 = r'.setSubs n t ((r'.subs n t).filter alive) := by
  obtain ⟨new, h1, h2, _, _⟩ := roundLoop_spec progs alive n t (r.subs n t) r []
  simp only [Reg.deliverR, h1, h2, List.nil_append]

/-- **Only subscribers are called — "after `unobserve` or `clear_all_subscriptions` a handler receives nothing more",
    also inside a round**: the handlers called for a signal are taken, in order, from the live subscribers the signal
    had when it was emitted, and each of them is, when its turn comes, still subscribed in the registry as the calls
    of the handlers called before it have left it. -/
theorem C16_reentrant_called_are_subscribed (progs : Nat → List Act) (r : Reg Nat) (alive : Nat → Bool) (n : Nat)
    (t : SigType) :
    let called := (r.deliverR progs alive n t).2
    called.Sublist ((r.subs n t).filter alive) ∧
    ∀ pre h post, called = pre ++ h :: post →
      alive h = true ∧ h ∈ (r.acts alive (pre.flatMap progs)).subs n t := by
  obtain ⟨new, h1, _, h3, h4⟩ := roundLoop_spec progs alive n t (r.subs n t) r []
  simp only [Reg.deliverR, h1, List.nil_append]
  exact ⟨h3, h4⟩

/-- **Every handler nobody unsubscribes is called, once per subscription**: a live handler that none of the calls made
    during the round takes out of the list of the signal (`Act.keeps`: e.g. `observe` of anything, `unobserve` of
    another handler, `clear_all_subscriptions` of another observable) receives the signal exactly as often as it is
    subscribed. -/
theorem C16_reentrant_untouched_called_once_per_subscription (progs : Nat → List Act) {r : Reg Nat} (w : r.WF)
    (alive : Nat → Bool) (n : Nat) (t : SigType) (h : Nat) (hal : alive h = true)
    (hk : ∀ g ∈ r.subs n t, ∀ a ∈ progs g, a.keeps alive h n t) :
    (r.deliverR progs alive n t).2.count h = (r.subs n t).count h := by
  have := roundLoop_complete progs alive n t h hal (r.subs n t) r [] w hk id
  simpa [Reg.deliverR] using this

/-- **The registry is the history of all registry calls, those made by handlers included** (∀ classes, ∀ histories,
    ∀ handler programs): after any history each subscriber list holds — as far as live handlers are concerned —
    exactly what the loop-free table `specSubs` says for the history in which every operation is followed by the
    calls of the handlers it reached, in the order they were reached. -/
theorem C16_reentrant_registry_is_call_history {ds : List Decl} (hds : DeclsOK ds) (progs : Nat → List Act)
    (ops : List Op) :
    Refines (runR progs (init ds) ops).1
      (specSubs (init ds).reg (flatOps progs ops (runR progs (init ds) ops).2)) :=
  (runR_refines (init_wf hds) progs ops rfl (fun _ _ => rfl)).2

/-! non-vacuity: handlers 1 (one-shot: unsubscribes itself), 2 (passive), 3 (unsubscribes 2), 4 (clears the observable),
    5 (subscribes 2) on the Observable 0 of `exDecls` -/

def exProgs : Nat → List Act
  | 1 => [.unobserve (.one 0) (.one .change) 1]
  | 3 => [.unobserve .all .all 2]
  | 4 => [.clear (.one 0)]
  | 5 => [.observe (.one 0) .all 2]
  | _ => []

/-- a one-shot handler is called once (with G13 it stayed subscribed and was called for every later signal) -/
example : (runR exProgs (init exDecls) [.observe (.one 0) (.one .change) 1, .observe .all .all 2, .assign 0 1,
      .assign 0 2]).2.map (fun o => match o with | .ok ds => ds.map (·.1) | .err _ => []) =
    [[], [], [1, 2], [2]] := by decide

/-- a handler unsubscribed by a handler called before it does not get the signal in flight, nor any later one;
    `clear_all_subscriptions` inside a handler holds; a handler subscribed inside a round is called from the next
    signal on -/
example : (runR exProgs (init exDecls) [.observe .all .all 3, .observe .all .all 2, .assign 0 1, .assign 0 2,
      .observe (.one 0) .all 4, .observe (.one 0) .all 2, .assign 0 3, .assign 0 4,
      .observe (.one 0) .all 5, .assign 0 5, .assign 0 6]).2.map
        (fun o => match o with | .ok ds => ds.map (·.1) | .err _ => []) =
    [[], [], [3], [3], [], [], [3, 4], [], [], [5], [5, 2]] := by decide

/-- non-vacuity of `Act.keeps` in `C16_reentrant_untouched_called_once_per_subscription` -/
example : (Act.observe (.one 0) .all 2).keeps (fun _ => true) 7 0 .change := Act.keeps_observe _ _ _ _ _ _ _

/-- non-vacuity of `C16_reentrant_untouched_called_once_per_subscription` with handlers that do make calls and a count
    above 1: handler 2 is subscribed twice to `change` of the Observable 0, between handler 5 (which subscribes 9 when
    called), handler 6 (which unsubscribes 9) and handler 8 (which clears the ObservableList 1); every call of every
    subscriber keeps 2 (the hypothesis `hk`), and 2 is called twice -/
def exProgs2 : Nat → List Act
  | 5 => [.observe (.one 0) .all 9]
  | 6 => [.unobserve (.one 0) (.one .change) 9]
  | 8 => [.clear (.one 1)]
  | _ => []

def exReg2 : Reg Nat :=
  (run (init exDecls) [.observe (.one 0) .all 5, .observe (.one 0) .all 2, .observe (.one 0) .all 6,
    .observe .all (.one .change) 2, .observe (.one 0) .all 8]).1.reg

example : exReg2.subs 0 .change = [5, 2, 6, 2, 8] ∧
    (exReg2.deliverR exProgs2 (fun _ => true) 0 .change).2 = [5, 2, 6, 2, 8] ∧
    (exReg2.deliverR exProgs2 (fun _ => true) 0 .change).2.count 2 = 2 := by decide

example : ∀ g ∈ exReg2.subs 0 .change, ∀ a ∈ exProgs2 g, a.keeps (fun _ => true) 2 0 .change := by
  have hs : exReg2.subs 0 .change = [5, 2, 6, 2, 8] := by decide
  rw [hs]
  intro g hg a ha
  simp only [List.mem_cons, List.not_mem_nil, or_false] at hg
  rcases hg with rfl | rfl | rfl | rfl | rfl <;> simp only [exProgs2, List.mem_cons, List.not_mem_nil, or_false] at ha
  · subst ha; exact Act.keeps_observe _ _ _ _ _ _ _
  · subst ha; exact Act.keeps_unobserve_other _ _ _ _ _ (by decide) rfl
  · subst ha; exact Act.keeps_clear_other _ _ _ _ (by decide)

end Mesa.Signals
