import MesaModel.Model.Signals
