import MesaModel.Proofs.StepCounter
/-!
# C05 — every `step()` call advances `model.steps` by exactly one, before user code

Property theorems only (model: `Model/StepCounter.lean`, helper lemmas: `Proofs/StepCounter.lean`).
A hierarchy `h : Hier` is any list of levels (any depth), most derived class first; each level
independently inherits or overrides `step`, calls `super().step(...)` or not, takes arguments or not.
`callStep i args` is `model.step(*args)` on instance `i`: the new instance state, the records the
user bodies made (`depth`, `steps` as seen inside, arguments received), and whether it returned
normally (`false` = `TypeError` from an argument mismatch somewhere along the chain).
`overriding h 0` lists the depths of the levels that define `step`, in MRO order.
-/
namespace Mesa.Steps

/-- One call, one increment: for every hierarchy, every argument list, every prior state —
    also when the user chain raises `TypeError` half way. -/
theorem C05_increments_exactly_once (i : Inst) (args : List Int) :
    (callStep i args).1.steps = i.steps + 1 := rfl

/-- The increment happens before any user code: every body that runs during the call sees the
    already incremented counter. -/
theorem C05_increment_before_user_code (i : Inst) (args : List Int) :
    ∀ e ∈ (callStep i args).2.1, e.steps = i.steps + 1 :=
  runChain_steps _ _ _ _

/-- The user bodies that run are an initial segment of the levels that define `step`, in MRO
    order, each at most once; the wrapper itself is never re-entered (there is exactly one
    increment, `C05_increments_exactly_once`). -/
theorem C05_bodies_are_override_chain (i : Inst) (args : List Int) :
    ((callStep i args).2.1.map (·.depth)) <+: overriding i.hier 0 ∧
    ((callStep i args).2.1.map (·.depth)).Pairwise (· < ·) := by
  have h := runChain_prefix i.hier 0 args (i.steps + 1)
  exact ⟨h, (overriding_sorted i.hier 0).sublist h.sublist⟩

/-- A call without arguments never raises, and if some level defines `step` the most derived
    such level runs first (inherited from an intermediate base class or overridden directly). -/
theorem C05_most_derived_override_runs_first (i : Inst) :
    (callStep i []).2.2 = true ∧
    ((callStep i []).2.1.map (·.depth)).head? = (overriding i.hier 0).head? := by
  refine ⟨runChain_noargs_ok _ _ _, ?_⟩
  have hp := runChain_prefix i.hier 0 [] (i.steps + 1)
  by_cases hne : overriding i.hier 0 = []
  · have : (runChain i.hier 0 [] (i.steps + 1)).1.map (·.depth) = [] := by
      have := hp; rw [hne] at this; exact List.prefix_nil.mp this
    simp only [callStep]; rw [this, hne]
  · have hn := runChain_noargs_nonempty i.hier 0 (i.steps + 1) hne
    obtain ⟨t, ht⟩ := hp
    simp only [callStep]
    cases hl : (runChain i.hier 0 [] (i.steps + 1)).1 with
    | nil => exact absurd hl hn
    | cons e es => rw [hl] at ht; simp at ht; rw [← ht]; simp

/-- `super().step()` links: a body is followed by another one only if its level calls super. -/
theorem C05_next_body_only_through_super (i : Inst) (args : List Int) (pre : List Entry) (e : Entry)
    (post : List Entry) (h : (callStep i args).2.1 = pre ++ e :: post) (hpost : post ≠ []) :
    ∃ L, i.hier[e.depth]? = some L ∧ L.callsSuper = true := by
  obtain ⟨L, h1, h2, _⟩ := runChain_links i.hier 0 args (i.steps + 1) pre e post h hpost
  exact ⟨L, by simpa using h1, h2⟩

/-- `step` not overridden anywhere: only the counter moves, no user code runs. -/
theorem C05_not_overridden_only_counter (i : Inst) (h : ∀ L ∈ i.hier, L.overrides = false) :
    callStep i [] = ({ i with steps := i.steps + 1 }, [], true) := by
  have hp := runChain_prefix i.hier 0 [] (i.steps + 1)
  rw [overriding_eq_nil.mpr h] at hp
  have hnil : (runChain i.hier 0 [] (i.steps + 1)).1 = [] := by
    have := List.prefix_nil.mp hp; simpa using this
  have hok := runChain_noargs_ok i.hier 0 (i.steps + 1)
  simp only [callStep, hnil, hok]
  simp

/-- Arguments are handed to the user's step unchanged. -/
theorem C05_arguments_unchanged (i : Inst) (args : List Int) :
    ∀ e ∈ (callStep i args).2.1.head?, e.args = args :=
  runChain_head_args _ _ _ _

/-- `run_model` keeps stepping exactly until `running` becomes false: if it returns, it made `k`
    calls for some `k`, `running` was true before each of them and is false after the last; the
    counter advanced by exactly `k`. -/
theorem C05_run_model_exact (f : Nat) (i i' : Inst) (es : List Entry) (h : runModel f i = some (i', es)) :
    ∃ k, i' = stepN k i ∧ i'.running = false ∧ (∀ j, j < k → (stepN j i).running = true) ∧
      i'.steps = i.steps + k := by
  obtain ⟨k, h1, h2, h3⟩ := runModel_spec f i i' es h
  exact ⟨k, h1, h2, h3, by rw [h1, stepN_steps]⟩

/-- …and it does return whenever some level's step body takes part in the stop rule. -/
theorem C05_run_model_terminates (i : Inst) (h : ∃ L ∈ i.hier, L.overrides = true) :
    ∃ f, (runModel f i).isSome = true := by
  apply runModel_terminates
  intro hnil
  obtain ⟨L, hL, ho⟩ := h
  have := overriding_eq_nil.mp hnil L hL
  simp [ho] at this

/-- The counter of one model is unaffected by any other model: an operation on instance `i`
    leaves every other instance exactly as it was. -/
theorem C05_instances_independent (w : List Inst) (op : Op) (j : Nat) (h : op.target ≠ j) :
    (apply w op)[j]? = w[j]? := apply_frame w op j h

/-- All interleavings of `step` calls (with any arguments), re-armings and halts on any number of
    coexisting instances: at the end the counter of instance `j` has advanced by exactly the number
    of `step` calls that were made on `j`. -/
theorem C05_all_interleavings_count (ops : List Op) (hnr : ∀ op ∈ ops, op.isRun = false)
    (w : List Inst) (j : Nat) (x : Inst) (hx : w[j]? = some x) :
    (run w ops)[j]?.map (·.steps) = some (x.steps + (ops.filter (·.isStepOn j)).length) := by
  induction ops generalizing w x with
  | nil => simp [run, hx]
  | cons op rest ih =>
    have h1 := apply_steps w op j x hx (hnr op (List.mem_cons_self))
    cases hy : (apply w op)[j]? with
    | none => simp [hy] at h1
    | some y =>
      rw [hy] at h1; simp at h1
      have := ih (fun o ho => hnr o (List.mem_cons_of_mem _ ho)) (apply w op) y hy
      simp only [run, List.foldl_cons] at this ⊢
      rw [this, h1]
      cases hs : op.isStepOn j <;> simp [hs] <;> omega

/-! ### non-vacuity -/

/-- depth-4 chain: level 0 inherits, level 1 overrides and calls super with arguments, level 2 inherits,
    level 3 overrides without arguments and does not call super: `step()` runs bodies 1 and 3, both see 8. -/
example :
    let h : Hier := [⟨false, false, false⟩, ⟨true, true, true⟩, ⟨false, true, false⟩, ⟨true, false, false⟩]
    let i : Inst := { hier := h, steps := 7, running := true, execs := 0, stopAt := 5 }
    (callStep i []).2.1 = [⟨1, 8, []⟩, ⟨3, 8, []⟩] ∧ (callStep i []).2.2 = true ∧
    -- with an argument the chain breaks at level 3 (`def step(self)`): TypeError — after the increment
    (callStep i [4]).2 = ([⟨1, 8, [4]⟩], false) ∧ (callStep i [4]).1.steps = 8 := by decide

/-- `run_model` on that instance: stop rule at the 5th body execution, two bodies per call → 3 calls -/
example :
    let h : Hier := [⟨false, false, false⟩, ⟨true, true, true⟩, ⟨false, true, false⟩, ⟨true, false, false⟩]
    let i : Inst := { hier := h, steps := 7, running := true, execs := 0, stopAt := 5 }
    (runModel 10 i).map (fun r => (r.1.steps, r.1.running)) = some (10, false) := by decide

/-- two interleaved instances -/
example :
    let a : Inst := Inst.new [⟨true, false, false⟩] 9
    let b : Inst := Inst.new [] 9
    (run [a, b] [.step 0 [], .step 1 [], .step 0 [], .halt 1, .step 0 []]).map (·.steps) = [3, 1] := by decide

end Mesa.Steps
