import MesaModel.Proofs.StepCounter
import MesaModel.Proofs.StepMro
import MesaModel.Proofs.StepNested
import MesaModel.Proofs.StepBinding
/-!
# C05 — every `step()` call advances `model.steps` by exactly one, before user code

Property theorems only (model: `Model/StepCounter.lean`, helper lemmas: `Proofs/StepCounter.lean`).
A hierarchy `h : Hier` is any list of levels (any depth), most derived class first; each level
independently inherits or overrides `step`, calls `super().step(...)` or not, takes arguments or not.
`callStep i args` is `model.step(*args)` on instance `i`: the new instance state, the records the
user bodies made (`depth`, `steps` as seen inside, arguments received), and whether it returned
normally (`false` = `TypeError` from an argument mismatch somewhere along the chain).
`overriding h 0` lists the depths of the levels that define `step`, in MRO order.

Multiple inheritance (`Model/StepMro.lean`): classes may have several bases (other classes, `mesa.Model` = class 0,
or none at all = a plain mixin); a `Table` records the MRO Python computes for each class by C3 linearisation, and an
instance of class `c` runs through the hierarchy `T.hier lvls c` = the classes of its MRO in front of `Model`.  All
theorems of the first part are about *every* hierarchy, hence about every instance of every class of every table; the
last part says what the MRO is and what that means for the bodies (`TInv T`: `T` is a table of linearisations — true
for every table reachable by class definitions, `C05_class_tables_are_linearisations`).

Nested calls (`Model/StepNested.lean`): a step body may step *another* model instance; `stepNested` / `runNested`
return the calls in the order they start, and the theorems say they are ordinary calls.
-/
namespace Mesa.Steps

/-- **One call, one increment — because of how `Model.__init__` binds `step`.**  Take any hierarchy, construct an instance
    (`__new__`, optionally a subclass `__init__` that assigns `self.step = f` before `super().__init__()`, then
    `Model.__init__`: `self._user_step = self.step; self.step = self._wrapped_step`), and let the program do anything that
    does not re-bind the name `step` on the instance — calls with any arguments, returning normally or leaving with an
    exception (a `TypeError` of the class chain, a `RuntimeError` raised by user code), assignments to `_user_step`.  Then the next `model.step(*args)` finds the wrapper in the instance `__dict__`, advances `steps` by
    exactly one, the wrapper stays in place, and `steps` equals the number of calls made so far. -/
theorem C05_increments_exactly_once (h : Hier) (stopAt : Nat) (pre : Option Nat) (rz : Option Nat) (ops : List BOp)
    (hops : ∀ op ∈ ops, op.rebindsStep = false) (args : List Int) :
    let o := (Obj.construct h stopAt pre rz).run ops
    (o.call args).obj.inst.steps = o.inst.steps + 1 ∧
    (o.call args).obj.dictStep = some .wrapper ∧
    o.inst.steps = (ops.filter (·.isCall)).length := by
  have hc := construct_wrapped h stopAt pre rz
  obtain ⟨h1, h2⟩ := run_keeps_wrapper _ hc.1 ops hops
  have := call_wrapped_steps _ h1 args
  exact ⟨this.1, this.2.1, by rw [h2, hc.2.1]; simp⟩

/-- The increment happens before any user code: everything that runs during the call — the step bodies of the class
    chain, or the function the program supplied as `step` / `_user_step` — sees the already incremented counter. -/
theorem C05_increment_before_user_code (h : Hier) (stopAt : Nat) (pre : Option Nat) (rz : Option Nat) (ops : List BOp)
    (hops : ∀ op ∈ ops, op.rebindsStep = false) (args : List Int) :
    let o := (Obj.construct h stopAt pre rz).run ops
    (∀ e ∈ (o.call args).entries, e.steps = o.inst.steps + 1) ∧ (∀ c ∈ (o.call args).fns, c.steps = o.inst.steps + 1) := by
  have hc := construct_wrapped h stopAt pre rz
  obtain ⟨h1, _⟩ := run_keeps_wrapper _ hc.1 ops hops
  have := call_wrapped_steps _ h1 args
  exact ⟨this.2.2.2.1, this.2.2.2.2⟩

/-- What the wrapper delegates to is what the lookup `self.step` found when `Model.__init__` ran: without an instance
    attribute the class's own `step` — then the call is exactly `callStepR` of the chain model below (`callStep` when no class body
    raises), whose theorems say which bodies run —, and a function assigned before `super().__init__()` otherwise (called once, arguments unchanged,
    no class body runs). -/
theorem C05_wrapper_delegates_to_step_captured_at_init (h : Hier) (stopAt : Nat) (pre : Option Nat) (rz : Option Nat)
    (ops : List BOp)
    (h1 : ∀ op ∈ ops, op.rebindsStep = false) (h2 : ∀ op ∈ ops, ∀ f, op ≠ .setUser f) (args : List Int) :
    let o := (Obj.construct h stopAt pre rz).run ops
    (pre = none → (o.call args).entries = (callStepR o.inst rz args).2.1 ∧ (o.call args).ok = (callStepR o.inst rz args).2.2 ∧
        (o.call args).obj.inst = (callStepR o.inst rz args).1 ∧ (o.call args).fns = []) ∧
    (∀ f, pre = some f → (o.call args).entries = [] ∧ (o.call args).fns = [⟨f, o.inst.steps + 1, args⟩] ∧
        (o.call args).ok = !raisesFn f) := by
  have hc := construct_wrapped h stopAt pre rz
  obtain ⟨hw, _⟩ := run_keeps_wrapper _ hc.1 ops h1
  have hu := run_userStep_of_no_setUser _ hc.1 ops h1 h2
  have hrz : ((Obj.construct h stopAt pre rz).run ops).raiser = rz := by rw [run_raiser, hc.2.2.2]
  rw [hc.2.2.1] at hu
  refine ⟨fun hp => ?_, fun f hp => ?_⟩
  · subst hp
    have := call_wrapped_chain _ hw hu args
    rw [hrz] at this
    exact this
  · subst hp
    exact call_wrapped_fn _ hw f hu args

/-- **What the code does when the program re-binds `step` on the instance** (`model.step = f`, `del model.step`): the
    wrapper is gone for good and the counter stands still — the counter counts exactly the calls made while the
    wrapper was still the instance's `step`.  (The property speaks of `step` defined on classes; this is the boundary.) -/
theorem C05_rebinding_step_on_the_instance_stops_the_counter (h : Hier) (stopAt : Nat) (pre : Option Nat)
    (before : List BOp) (op : BOp) (after : List BOp)
    (hb : ∀ x ∈ before, x.rebindsStep = false) (hop : op.rebindsStep = true) :
    ((Obj.construct h stopAt pre).run (before ++ op :: after)).inst.steps = (before.filter (·.isCall)).length ∧
    ((Obj.construct h stopAt pre).run (before ++ op :: after)).dictStep ≠ some .wrapper := by
  have hc := construct_wrapped h stopAt pre
  obtain ⟨_, h2⟩ := run_keeps_wrapper _ hc.1 before hb
  have e : (Obj.construct h stopAt pre).run (before ++ op :: after)
      = ((((Obj.construct h stopAt pre).run before).apply op).run after) := by
    rw [Obj.run_append]; rfl
  have hgone : (((Obj.construct h stopAt pre).run before).apply op).dictStep ≠ some .wrapper ∧
      (((Obj.construct h stopAt pre).run before).apply op).inst.steps = ((Obj.construct h stopAt pre).run before).inst.steps := by
    cases op with
    | call args => simp [BOp.rebindsStep] at hop
    | setUser f => simp [BOp.rebindsStep] at hop
    | assign f => simp [Obj.apply]
    | del => simp [Obj.apply]
  obtain ⟨r1, r2⟩ := run_unwrapped _ hgone.1 after
  rw [e]
  exact ⟨by rw [r2, hgone.2, h2, hc.2.1]; simp, r1⟩

/-- non-vacuity: a two-level chain, the base level overriding `step`; a function assigned before `Model.__init__`; re-binding -/
example : ((Obj.construct [⟨false, false, false⟩, ⟨true, false, true⟩] 9 none).call [4]).entries = [⟨1, 1, [4]⟩] := by decide
example : ((Obj.construct [] 9 (some 50)).call []).ok = false ∧ ((Obj.construct [] 9 (some 50)).call []).obj.inst.steps = 1 := by decide
example : ((Obj.construct [⟨true, true, false⟩] 9 (some 3)).call [4]).fns = [⟨3, 1, [4]⟩] ∧
    ((Obj.construct [⟨true, true, false⟩] 9 (some 3)).call [4]).entries = [] := by decide
example : (((Obj.construct [⟨true, false, false⟩] 9 none).run [.call [], .assign 2, .call [], .del, .call []]).inst.steps = 1) ∧
    (((Obj.construct [⟨true, false, false⟩] 9 none).run [.call [], .assign 2]).call []).fns = [⟨2, 1, []⟩] ∧
    (((Obj.construct [⟨true, false, false⟩] 9 none).run [.call [], .del]).call []).entries = [⟨0, 1, []⟩] := by decide

/-! ### the class chain (`callStep` = the wrapper delegating to the class's `step`, the case of the theorem above) -/

/-- The user bodies that run are an initial segment of the levels that define `step`, in MRO
    order, each at most once; the wrapper itself is never re-entered (there is exactly one
    increment: `callStep` is the wrapper of `C05_increments_exactly_once`). -/
theorem C05_bodies_are_override_chain (i : Inst) (args : List Int) :
    ((callStep i args).2.1.map (·.depth)) <+: overriding i.hier 0 ∧
    ((callStep i args).2.1.map (·.depth)).Pairwise (· < ·) := by
  have h := runChain_prefix i.hier 0 args (i.steps + 1)
  exact ⟨h, (overriding_sorted i.hier 0).sublist h.sublist⟩

/-- **Exactly which bodies run** (lower and upper bound at once, for every hierarchy and every argument list): of the
    levels that define `step`, in MRO order, take those in front of the first one that cannot accept the arguments
    (`def step(self)` reached with arguments); the bodies that run are these up to and including the first that does not
    call `super().step(...)` — each of them, each once, each seeing the incremented counter and the caller's arguments;
    the call raises `TypeError` iff there are arguments and every body that ran called super. -/
theorem C05_bodies_are_exactly_the_super_chain (i : Inst) (args : List Int) :
    let good := (ovLevels i.hier 0).takeWhile (fun p => args.isEmpty || p.2.takesArgs)
    let n := (good.takeWhile (fun p => p.2.callsSuper)).length
    (callStep i args).2.1 = (good.take (n + 1)).map (fun p => ⟨p.1, i.steps + 1, args⟩) ∧
    (callStep i args).2.2 = (args.isEmpty || decide (n < good.length)) ∧
    (ovLevels i.hier 0).map (·.1) = overriding i.hier 0 ∧
    ∀ p ∈ ovLevels i.hier 0, i.hier[p.1]? = some p.2 ∧ p.2.overrides = true := by
  have h := runChain_eq_chainSpec i.hier 0 args (i.steps + 1)
  refine ⟨?_, ?_, ovLevels_depths _ _, fun p hp => ?_⟩
  · show (runChain i.hier 0 args (i.steps + 1)).1 = _
    rw [h]; rfl
  · show (runChain i.hier 0 args (i.steps + 1)).2 = _
    rw [h]; rfl
  · have := ovLevels_get i.hier 0 p hp
    exact ⟨by simpa using this.2.1, this.2.2⟩

/-- non-vacuity: three overriding levels, the middle one `def step(self)`: with an argument only the first body runs and the
    call raises; without arguments all three run -/
example : (callStep (Inst.new [⟨true, true, true⟩, ⟨true, true, false⟩, ⟨true, false, true⟩] 9) [4]).2 = ([⟨0, 1, [4]⟩], false) := by decide
example : ((callStep (Inst.new [⟨true, true, true⟩, ⟨true, true, false⟩, ⟨true, false, true⟩] 9) []).2.1.map (·.depth)) = [0, 1, 2] := by
  decide

/-- **A class body that raises** (review 3, M17: `def step(self): …; raise …` in a class of the hierarchy, possibly between
    two `super()` levels).  Compare a call on an instance of a class whose body at depth `r` raises (`callStepR`) with the
    same call were that body not to raise (`callStep`): the counter is incremented once all the same, before any body; the
    bodies that run are an initial segment of those that would have run; if the chain never reaches depth `r` nothing at all
    differs; and if it does, exactly the bodies up to and including that one run — no body behind the raiser, although its
    level may call `super().step()` — and the call does not return normally. -/
theorem C05_raising_class_body_cuts_the_chain (i : Inst) (r : Nat) (args : List Int) :
    (callStepR i (some r) args).1.steps = i.steps + 1 ∧ callStepR i none args = callStep i args ∧
    (callStepR i (some r) args).2.1 <+: (callStep i args).2.1 ∧
    (∀ e ∈ (callStepR i (some r) args).2.1, e.steps = i.steps + 1) ∧
    ((∀ e ∈ (callStep i args).2.1, e.depth ≠ r) → callStepR i (some r) args = callStep i args) ∧
    (∀ pre e post, (callStep i args).2.1 = pre ++ e :: post → e.depth = r → (∀ x ∈ pre, x.depth ≠ r) →
      (callStepR i (some r) args).2.1 = pre ++ [e] ∧ (callStepR i (some r) args).2.2 = false) := by
  have hpre : (callStepR i (some r) args).2.1 <+: (callStep i args).2.1 := cutAt_prefix _ _
  refine ⟨rfl, rfl, hpre, fun e he => runChain_steps _ _ _ _ e (hpre.subset he), fun hno => ?_, fun pre e post hfull he hp => ?_⟩
  · have hany : (runChain i.hier 0 args (i.steps + 1)).1.any (·.depth == r) = false := by
      rw [List.any_eq_false]
      intro e hin
      simpa using hno e hin
    simp [callStepR, callStep, cutAt, hany]
  · have hfull' : (runChain i.hier 0 args (i.steps + 1)).1 = pre ++ e :: post := hfull
    have hany : (runChain i.hier 0 args (i.steps + 1)).1.any (·.depth == r) = true := by
      rw [hfull', List.any_eq_true]
      exact ⟨e, by simp, by simpa using he⟩
    have h1 : cutAt (some r) (runChain i.hier 0 args (i.steps + 1)) = (pre ++ [e], false) := by
      simp only [cutAt, hany, if_true]
      rw [hfull', takeThrough_split r pre e post he hp]
    exact ⟨by show (cutAt (some r) _).1 = _; rw [h1], by show (cutAt (some r) _).2 = _; rw [h1]⟩

/-- non-vacuity: three levels all calling super, the middle one raises: bodies 0 and 1 run, body 2 does not, the counter moved;
    a raiser the chain never reaches (level 0 does not call super) changes nothing -/
example : callStepR (Inst.new [⟨true, true, false⟩, ⟨true, true, false⟩, ⟨true, false, false⟩] 9) (some 1) [] =
    ({ (Inst.new [⟨true, true, false⟩, ⟨true, true, false⟩, ⟨true, false, false⟩] 9) with steps := 1, execs := 2 },
      [⟨0, 1, []⟩, ⟨1, 1, []⟩], false) ∧
    callStepR (Inst.new [⟨true, false, false⟩, ⟨true, true, false⟩] 9) (some 1) [] =
      callStep (Inst.new [⟨true, false, false⟩, ⟨true, true, false⟩] 9) [] := by decide

/-- A call without arguments never raises, and if some level defines `step` the most derived
    such level runs first (inherited from an intermediate base class or overridden directly). -/
theorem C05_most_derived_override_runs_first (i : Inst) :
    (callStep i []).2.2 = true ∧
    ((callStep i []).2.1.map (·.depth)).head? = (overriding i.hier 0).head? := by
  refine ⟨runChain_noargs_ok _ _ _, ?_⟩
  have hp := runChain_prefix i.hier 0 [] (i.steps + 1)
  by_cases hne : overriding i.hier 0 = []
  · have : (runChain i.hier 0 [] (i.steps + 1)).1.map (·.depth) = [] := by
      have := hp; rw [hne] at this; exact List.prefix_nil.mp this
    simp only [callStep]; rw [this, hne]
  · have hn := runChain_noargs_nonempty i.hier 0 (i.steps + 1) hne
    obtain ⟨t, ht⟩ := hp
    simp only [callStep]
    cases hl : (runChain i.hier 0 [] (i.steps + 1)).1 with
    | nil => exact absurd hl hn
    | cons e es => rw [hl] at ht; simp at ht; rw [← ht]; simp

/-- `super().step()` links: a body is followed by another one only if its level calls super. -/
theorem C05_next_body_only_through_super (i : Inst) (args : List Int) (pre : List Entry) (e : Entry)
    (post : List Entry) (h : (callStep i args).2.1 = pre ++ e :: post) (hpost : post ≠ []) :
    ∃ L, i.hier[e.depth]? = some L ∧ L.callsSuper = true := by
  obtain ⟨L, h1, h2, _⟩ := runChain_links i.hier 0 args (i.steps + 1) pre e post h hpost
  exact ⟨L, by simpa using h1, h2⟩

/-- `step` not overridden anywhere: only the counter moves, no user code runs. -/
theorem C05_not_overridden_only_counter (i : Inst) (h : ∀ L ∈ i.hier, L.overrides = false) :
    callStep i [] = ({ i with steps := i.steps + 1 }, [], true) := by
  have hp := runChain_prefix i.hier 0 [] (i.steps + 1)
  rw [overriding_eq_nil.mpr h] at hp
  have hnil : (runChain i.hier 0 [] (i.steps + 1)).1 = [] := by
    have := List.prefix_nil.mp hp; simpa using this
  have hok := runChain_noargs_ok i.hier 0 (i.steps + 1)
  simp only [callStep, hnil, hok]
  simp

/-- Arguments are handed to the user's step unchanged. -/
theorem C05_arguments_unchanged (i : Inst) (args : List Int) :
    ∀ e ∈ (callStep i args).2.1.head?, e.args = args :=
  runChain_head_args _ _ _ _

/-- `run_model` keeps stepping exactly until `running` becomes false: if it returns, it made `k`
    calls for some `k`, `running` was true before each of them and is false after the last; the
    counter advanced by exactly `k`. -/
theorem C05_run_model_exact (f : Nat) (i i' : Inst) (es : List Entry) (h : runModel f i = some (i', es)) :
    ∃ k, i' = stepN k i ∧ i'.running = false ∧ (∀ j, j < k → (stepN j i).running = true) ∧
      i'.steps = i.steps + k := by
  obtain ⟨k, h1, h2, h3⟩ := runModel_spec f i i' es h
  exact ⟨k, h1, h2, h3, by rw [h1, stepN_steps]⟩

/-- `run_model` is nothing but `k` ordinary `step()` calls made one after the other: the final state is that of `k` calls, the
    records it leaves are the records of those `k` calls in order, call by call (the bodies of call number `j`, counted from 0, all see
    `steps + j + 1`), `running` was true
    before each call and is false after the last, and the counter advanced by exactly `k`. -/
theorem C05_run_model_is_k_step_calls (f : Nat) (i i' : Inst) (es : List Entry) (h : runModel f i = some (i', es)) :
    ∃ k, i' = stepN k i ∧ es = entriesN k i ∧ i'.running = false ∧ (∀ j, j < k → (stepN j i).running = true) ∧
      i'.steps = i.steps + k ∧ (∀ e ∈ es, i.steps + 1 ≤ e.steps ∧ e.steps ≤ i.steps + k) ∧
      es = (List.range k).flatMap (fun j => (callStep (stepN j i) []).2.1) ∧
      ∀ j, j < k → ∀ e ∈ (callStep (stepN j i) []).2.1, e.steps = i.steps + j + 1 := by
  obtain ⟨k, h1, h1e, h2, h3⟩ := runModel_entries f i i' es h
  exact ⟨k, h1, h1e, h2, h3, by rw [h1, stepN_steps], by rw [h1e]; exact entriesN_steps k i,
    by rw [h1e]; exact entriesN_eq_flatMap k i, fun j _ => callStep_stepN_steps j i⟩

example : runModel 10 (Inst.new [⟨true, false, false⟩] 3) =
    some (stepN 3 (Inst.new [⟨true, false, false⟩] 3), [⟨0, 1, []⟩, ⟨0, 2, []⟩, ⟨0, 3, []⟩]) := by decide

/-- …and it does return whenever some level's step body takes part in the stop rule. -/
theorem C05_run_model_terminates (i : Inst) (h : ∃ L ∈ i.hier, L.overrides = true) :
    ∃ f, (runModel f i).isSome = true := by
  apply runModel_terminates
  intro hnil
  obtain ⟨L, hL, ho⟩ := h
  have := overriding_eq_nil.mp hnil L hL
  simp [ho] at this

/-- The counter of one model is unaffected by any other model: an operation on instance `i`
    leaves every other instance exactly as it was. -/
theorem C05_instances_independent (w : List Inst) (op : Op) (j : Nat) (h : op.target ≠ j) :
    (apply w op)[j]? = w[j]? := apply_frame w op j h

/-- All interleavings of `step` calls (with any arguments), re-armings and halts on any number of
    coexisting instances: at the end the counter of instance `j` has advanced by exactly the number
    of `step` calls that were made on `j`. -/
theorem C05_all_interleavings_count (ops : List Op) (hnr : ∀ op ∈ ops, op.isRun = false)
    (w : List Inst) (j : Nat) (x : Inst) (hx : w[j]? = some x) :
    (run w ops)[j]?.map (·.steps) = some (x.steps + (ops.filter (·.isStepOn j)).length) := by
  induction ops generalizing w x with
  | nil => simp [run, hx]
  | cons op rest ih =>
    have h1 := apply_steps w op j x hx (hnr op (List.mem_cons_self))
    cases hy : (apply w op)[j]? with
    | none => simp [hy] at h1
    | some y =>
      rw [hy] at h1; simp at h1
      have := ih (fun o ho => hnr o (List.mem_cons_of_mem _ ho)) (apply w op) y hy
      simp only [run, List.foldl_cons] at this ⊢
      rw [this, h1]
      cases hs : op.isStepOn j <;> simp [hs] <;> omega

/-- **The history of one model is its own operations** (all interleavings, `run_model` included; review 3, M17: only
    histories in which every `run_model` call *returns* are spoken about — `allReturn`; a `run_model` that would not come back
    is not counted as a no-op): in such a history, what instance `j` is at the end is what it would be had only the
    operations on `j` been performed, in the same order — and in that shorter history every call returns, too.  The operations
    on other models, however many and wherever interleaved, are invisible to it (counter, `running`, stop rule and all). -/
theorem C05_instance_history_is_its_own_ops (ops : List Op) (w : List Inst) (j : Nat) (hret : allReturn w ops = true) :
    allReturn w (ops.filter (fun op => op.target == j)) = true ∧
    (run w ops)[j]? = (run w (ops.filter (fun op => op.target == j)))[j]? := by
  have key : ∀ (ops : List Op) (w w' : List Inst), w[j]? = w'[j]? → allReturn w ops = true →
      allReturn w' (ops.filter (fun op => op.target == j)) = true ∧
      (run w ops)[j]? = (run w' (ops.filter (fun op => op.target == j)))[j]? := by
    intro ops
    induction ops with
    | nil => intro w w' h _; exact ⟨rfl, by simpa [run] using h⟩
    | cons op ops ih =>
      intro w w' h hr
      simp only [allReturn, Bool.and_eq_true] at hr
      by_cases ht : op.target = j
      · have hf : (op :: ops).filter (fun op => op.target == j) = op :: ops.filter (fun op => op.target == j) := by
          simp [ht]
        rw [hf]
        subst ht
        have hstep := apply_local w w' op h
        obtain ⟨h1, h2⟩ := ih (apply w op) (apply w' op) hstep hr.2
        refine ⟨?_, ?_⟩
        · simp only [allReturn, Bool.and_eq_true]
          exact ⟨by rw [← returns_local w w' op h]; exact hr.1, h1⟩
        · simpa only [run, List.foldl_cons] using h2
      · have hf : (op :: ops).filter (fun op => op.target == j) = ops.filter (fun op => op.target == j) := by
          simp [ht]
        rw [hf]
        have := ih (apply w op) w' (by rw [apply_frame w op j ht]; exact h) hr.2
        simpa only [run, List.foldl_cons] using this
  exact key ops w w rfl hret

/-- a `run_model` on a model whose step never stops it does not return within any fuel given: such a history is not `allReturn` -/
example : allReturn [Inst.new [⟨true, false, false⟩] 100] [.run 0 3] = false ∧
    allReturn [Inst.new [⟨true, false, false⟩] 2, Inst.new [] 9] [.step 0 [], .step 1 [], .run 0 5, .step 1 [3], .halt 1, .step 0 []] = true := by
  decide

example : (run [Inst.new [⟨true, false, false⟩] 2, Inst.new [] 9] [.step 0 [], .step 1 [], .run 0 5, .step 1 [3], .halt 1, .step 0 []])[0]?.map
    (fun i => (i.steps, i.running)) = some (3, false) := by decide

/-! ## multiple inheritance: the MRO is the C3 linearisation -/

/-- Every table built by any sequence of (successful) class definitions — single or multiple inheritance,
    mixins, diamonds — is a table of linearisations. -/
theorem C05_class_tables_are_linearisations (defs : List (List Nat)) (T : Table)
    (h : defs.foldlM (fun (T : Table) b => T.define b) Table.init = some T) : TInv T :=
  TInv_foldlM defs Table.init T TInv_init h

/-- `class K(B1, …, Bn)`: if Python accepts the definition, the MRO of `K` starts with `K`, lists nobody twice,
    keeps the MRO of every base as a subsequence (monotonicity) and the bases in the order written (local
    precedence), and contains nothing but `K`, its bases and their ancestors; earlier classes are unaffected. -/
theorem C05_mro_is_c3_linearisation (T T' : Table) (hT : TInv T) (bases : List Nat) (h : T.define bases = some T') :
    TInv T' ∧ T'.length = T.length + 1 ∧ (∀ c, c < T.length → T'.mro c = T.mro c) ∧
    (T'.mro T.length).head? = some T.length ∧ (T'.mro T.length).Nodup ∧
    (∀ b ∈ bases, (T.mro b).Sublist (T'.mro T.length)) ∧ bases.Sublist (T'.mro T.length) ∧
    (∀ x ∈ T'.mro T.length, x = T.length ∨ x ∈ bases ∨ ∃ b ∈ bases, x ∈ T.mro b) := by
  have hT' := TInv_define hT h
  unfold Table.define at h
  obtain ⟨m, hl, rfl⟩ := Option.map_eq_some_iff.mp h
  obtain ⟨h1, h2, _, h4, h5, h6, _⟩ := Table.linearise_spec hT hl
  have hm : (T ++ [m]).mro T.length = m := by simp [Table.mro]
  refine ⟨hT', by simp, fun c hc => ?_, ?_, ?_, ?_, ?_, ?_⟩
  · simp [Table.mro, List.getElem?_append_left hc]
  all_goals rw [hm]
  · exact h1
  · exact h2
  · exact h4
  · exact h5
  · exact h6

/-- Single inheritance is the special case the first part models directly: the MRO of `class K(B)` is `K`
    followed by the MRO of `B`, so an instance of `K` runs through `K`'s level followed by the hierarchy of `B`. -/
theorem C05_single_inheritance_mro_is_the_chain (T : Table) (hT : TInv T) (b : Nat) (hb : b < T.length)
    (lvls : Nat → Level) :
    T.define [b] = some (T ++ [T.length :: T.mro b]) ∧
    (T ++ [T.length :: T.mro b]).hier lvls T.length = lvls T.length :: T.hier lvls b := by
  refine ⟨by simp [Table.define, Table.linearise_single hT hb], ?_⟩
  have hne : T.length ≠ 0 := by omega
  simp [Table.hier, Table.labels, Table.mro, hne]

/-- Whatever the class graph: during one `step()` on an instance of class `c` every user body that runs
    belongs to a class of `c`'s MRO in front of `Model` that defines `step`; the classes run in MRO order and
    **each at most once** — the shared base of a diamond runs once, not once per path. -/
theorem C05_each_class_body_once_in_mro_order (T : Table) (hT : TInv T) (lvls : Nat → Level) (c : Nat)
    (i : Inst) (hi : i.hier = T.hier lvls c) (args : List Int) :
    let ran := (callStep i args).2.1.filterMap (fun e => (T.labels c)[e.depth]?)
    ran.length = (callStep i args).2.1.length ∧ ran.Sublist (T.labels c) ∧ ran.Nodup ∧
    ∀ k ∈ ran, k ≠ 0 ∧ k ∈ T.mro c ∧ (lvls k).overrides = true := by
  intro ran
  obtain ⟨hpre, hpw⟩ := C05_bodies_are_override_chain i args
  have hran : ran = ((callStep i args).2.1.map (·.depth)).filterMap ((T.labels c)[·]?) := by
    simp only [ran, List.filterMap_map]; rfl
  have hlen : (T.labels c).length = i.hier.length := by simp [hi, Table.hier]
  have hover : ∀ d ∈ (callStep i args).2.1.map (·.depth), d ∈ overriding i.hier 0 := fun d hd => hpre.subset hd
  have hnd : (T.labels c).Nodup := by
    have : (T.mro c).Nodup := by
      unfold Table.mro
      cases hc : T[c]? with
      | none => simp
      | some m => simpa using (hT c m hc).2.2
    exact this.sublist (List.takeWhile_sublist _)
  have hsub : ran.Sublist (T.labels c) := by rw [hran]; exact filterMap_getElem?_sublist _ _ hpw
  refine ⟨?_, hsub, hnd.sublist hsub, ?_⟩
  · rw [hran, length_filterMap_of_isSome, List.length_map]
    intro d hd
    have := overriding_lt i.hier 0 d (hover d hd)
    have hd' : d < (T.labels c).length := by omega
    simp [List.getElem?_eq_getElem hd']
  · intro k hk
    rw [hran] at hk
    obtain ⟨d, hd, hdk⟩ := List.mem_filterMap.mp hk
    obtain ⟨L, hL1, hL2⟩ := mem_overriding i.hier 0 d (hover d hd)
    have hkmem : k ∈ T.labels c := List.mem_of_getElem? hdk
    refine ⟨?_, (List.takeWhile_sublist _).subset hkmem, ?_⟩
    · have := of_mem_takeWhile hkmem
      simpa using this
    · simp only [hi, Table.hier, Nat.sub_zero, List.getElem?_map, hdk, Option.map_some, Option.some.injEq] at hL1
      rw [hL1]; exact hL2

/-! ## nested step calls across model instances -/

/-- **A `step()` made from inside another model's step body is an ordinary `step()`.**  Whatever the linking of
    instances (each body of `i` steps the instance `i` is linked to, links pointing to later instances only), one
    call `model_i.step(*args)` — with everything it sets off — leaves all instances exactly as the same calls made one
    after the other at top level would; every call, nested or not, records what a top-level call records at that
    moment — in particular each of its bodies sees its *own* instance's counter already advanced by one; and the
    counter of every instance ends advanced by exactly the number of calls made on it, nested ones included.
    (No instance-external state: a guard or counter shared between models breaks the second clause.) -/
theorem C05_nested_calls_are_ordinary_calls (links : List (Option Nat)) (f : Nat) (w : List Inst) (i : Nat)
    (args : List Int) :
    let r := stepNested links f w i args
    r.1 = run w (r.2.map Call.toOp) ∧
    (∀ pre c post, r.2 = pre ++ c :: post →
      ∃ x, (run w (pre.map Call.toOp))[c.inst]? = some x ∧ (callStep x c.args).2 = (c.entries, c.ok) ∧
        ∀ e ∈ c.entries, e.steps = x.steps + 1) ∧
    (∀ j x, w[j]? = some x → r.1[j]?.map (·.steps) = some (x.steps + (r.2.filter (fun c => c.inst == j)).length)) := by
  intro r
  obtain ⟨h1, h2⟩ := stepNested_flat links f w i args
  refine ⟨h1, fun pre c post hc => ?_, fun j x hx => ?_⟩
  · obtain ⟨x, hx1, hx2⟩ := h2 pre c post hc
    refine ⟨x, hx1, hx2, fun e he => ?_⟩
    have : c.entries = (callStep x c.args).2.1 := by rw [hx2]
    rw [this] at he
    exact runChain_steps _ _ _ _ e he
  · show (stepNested links f w i args).1[j]?.map (·.steps) = _
    rw [h1]
    have hcount := C05_all_interleavings_count ((stepNested links f w i args).2.map Call.toOp)
      (fun op hop => by obtain ⟨c, _, rfl⟩ := List.mem_map.mp hop; rfl) w j x hx
    rw [hcount]
    congr 2
    rw [List.filter_map, List.length_map]
    rfl

/-- …and so is a `run_model()` whose steps set off nested calls. -/
theorem C05_nested_run_is_ordinary_calls (links : List (Option Nat)) (f : Nat) (w w' : List Inst) (i : Nat)
    (cs : List Call) (h : runNested links f w i = some (w', cs)) :
    w' = run w (cs.map Call.toOp) ∧
    ∀ j x, w[j]? = some x → w'[j]?.map (·.steps) = some (x.steps + (cs.filter (fun c => c.inst == j)).length) := by
  obtain ⟨h1, _⟩ := runNested_flat links f w i w' cs h
  refine ⟨h1, fun j x hx => ?_⟩
  rw [h1]
  have hcount := C05_all_interleavings_count (cs.map Call.toOp)
    (fun op hop => by obtain ⟨c, _, rfl⟩ := List.mem_map.mp hop; rfl) w j x hx
  rw [hcount]
  congr 2
  rw [List.filter_map, List.length_map]
  rfl

/-! ### non-vacuity -/

/-- depth-4 chain: level 0 inherits, level 1 overrides and calls super with arguments, level 2 inherits,
    level 3 overrides without arguments and does not call super: `step()` runs bodies 1 and 3, both see 8. -/
example :
    let h : Hier := [⟨false, false, false⟩, ⟨true, true, true⟩, ⟨false, true, false⟩, ⟨true, false, false⟩]
    let i : Inst := { hier := h, steps := 7, running := true, execs := 0, stopAt := 5 }
    (callStep i []).2.1 = [⟨1, 8, []⟩, ⟨3, 8, []⟩] ∧ (callStep i []).2.2 = true ∧
    -- with an argument the chain breaks at level 3 (`def step(self)`): TypeError — after the increment
    (callStep i [4]).2 = ([⟨1, 8, [4]⟩], false) ∧ (callStep i [4]).1.steps = 8 := by decide

/-- `run_model` on that instance: stop rule at the 5th body execution, two bodies per call → 3 calls -/
example :
    let h : Hier := [⟨false, false, false⟩, ⟨true, true, true⟩, ⟨false, true, false⟩, ⟨true, false, false⟩]
    let i : Inst := { hier := h, steps := 7, running := true, execs := 0, stopAt := 5 }
    (runModel 10 i).map (fun r => (r.1.steps, r.1.running)) = some (10, false) := by decide

/-- two interleaved instances -/
example :
    let a : Inst := Inst.new [⟨true, false, false⟩] 9
    let b : Inst := Inst.new [] 9
    (run [a, b] [.step 0 [], .step 1 [], .step 0 [], .halt 1, .step 0 []]).map (·.steps) = [3, 1] := by decide

/-- a driver whose two bodies each step a sub-model, which itself steps a third: one `driver.step()` makes 1 + 2 + 2
    calls; the sub-model's bodies see its own counter (4, then 5), not the driver's -/
example :
    let d : Inst := { Inst.new [⟨true, true, false⟩, ⟨true, false, false⟩] 99 with steps := 10 }
    let s : Inst := { Inst.new [⟨true, false, false⟩] 99 with steps := 3 }
    let t : Inst := Inst.new [] 99
    let r := stepNested [some 1, some 2, none] 4 [d, s, t] 0 []
    r.1.map (·.steps) = [11, 5, 2] ∧
    r.2.map (fun c => (c.inst, c.entries.map (·.steps))) = [(0, [11, 11]), (1, [4]), (2, []), (1, [5]), (2, [])] := by
  decide

/-- the diamond `A(Model)`, `B(A)`, `C(A)`, `D(B, C)`, every class overriding `step` and calling `super().step()`:
    the MRO of `D` is D, B, C, A, Model — `B`'s `super()` leads to `C`, not to `A` — and one `step()` runs the four
    bodies once each, all seeing the incremented counter -/
example :
    let defs := [[0], [1], [1], [2, 3]]
    let lv : Nat → Level := fun _ => ⟨true, true, false⟩
    (defs.foldlM (fun (T : Table) b => T.define b) Table.init).map (fun T =>
      (T.mro 4, (callStep (Inst.new (T.hier lv 4) 9) []).2.1.map (fun e => ((T.labels 4)[e.depth]?, e.steps))))
    = some ([4, 2, 3, 1, 0], [(some 4, 1), (some 2, 1), (some 3, 1), (some 1, 1)]) := by decide

/-- a mixin in front of `Model` runs, the same mixin behind `Model` never does; `class X(Model, A)` with `A(Model)`
    has no consistent MRO (TypeError at class creation) -/
example :
    (([[], [1, 0], [0, 1]].foldlM (fun (T : Table) b => T.define b) Table.init).map fun T => (T.labels 2, T.labels 3)) = some ([2, 1], [3]) ∧
    [[0], [0, 1]].foldlM (fun (T : Table) b => T.define b) Table.init = none := by decide

/-- **The nesting fuel is immaterial** (it is a device of the model, not of the code): when links only point to instances
    created later — what the generator and the driver enforce; Python would raise `RecursionError` on a cycle — any two
    fuels at least the number of instances (the driver uses one more) give the same run; and with that fuel no nested call
    is dropped: a call on an instance whose bodies step instance `j` comprises, besides itself, at least one call per body
    that ran. -/
theorem C05_nested_fuel_is_immaterial (links : List (Option Nat)) (hf : Forward links) (w : List Inst) (i : Nat)
    (args : List Int) :
    (∀ f f', w.length ≤ f → w.length ≤ f' → stepNested links f w i args = stepNested links f' w i args) ∧
    (∀ f j x, w[i]? = some x → links[i]?.join = some j → j < w.length →
      1 + (callStep x args).2.1.length ≤ (stepNested links (f + 2) w i args).2.length) :=
  ⟨fun f f' h1 h2 => stepNested_fuel links hf f f' w i args (by omega) (by omega),
   fun f j x hx hl hj => stepNested_calls_ge links f w i j args x hx hl hj⟩

/-- non-vacuity: model 0 (two bodies) steps model 1 (one body), which steps model 2: five calls, whatever the fuel ≥ 3 -/
example : (stepNested [some 1, some 2, none] 3
      [Inst.new [⟨true, true, false⟩, ⟨true, false, false⟩] 9, Inst.new [⟨true, false, false⟩] 9, Inst.new [] 9] 0 []).2.map (·.inst)
    = [0, 1, 2, 1, 2] ∧ Forward [some 1, some 2, none] := by
  refine ⟨by decide, fun i j h => ?_⟩
  match i, h with
  | 0, h => simp at h; omega
  | 1, h => simp at h; omega
  | 2, h => simp at h
  | n + 3, h => simp at h

end Mesa.Steps
