import MesaModel.Model.StepCounter
