/-
CPython's `heapq` (heappush / heappop with `_siftdown` / `_siftup`), transcribed from Lib/heapq.py, on lists.
`EventList` keeps its events in such a heap; the Devs model abstracts it by a sorted list.  `Proofs/Heap.lean`
proves that this abstraction is sound: the heap is a correct priority queue for any strict weak order.

The sift procedures move a *hole*: the item being placed is carried separately and written at the end, exactly as
the Python code does (`newitem = heap[pos] … heap[pos] = newitem`).  `startpos` is always 0 in heapq's own calls.
-/
namespace Mesa.Heap

variable {α : Type}

/-- `_siftdown(heap, 0, pos)` with `newitem = item`: follow the path to the root, moving parents down until one is
    not larger than `item` -/
def siftDown (lt : α → α → Bool) (l : List α) (pos : Nat) (item : α) : List α :=
  if _h : 0 < pos then
    match l[(pos - 1) / 2]? with
    | some parent =>
      if lt item parent then siftDown lt (l.set pos parent) ((pos - 1) / 2) item
      else l.set pos item
    | none => l.set pos item
  else l.set pos item
termination_by pos
decreasing_by omega

/-- the child `_siftup` moves up: the right one unless the left one is strictly smaller -/
def smallerChild (lt : α → α → Bool) (l : List α) (pos : Nat) : Nat :=
  match l[2 * pos + 1]?, l[2 * pos + 2]? with
  | some x, some y => if lt x y then 2 * pos + 1 else 2 * pos + 2
  | _, _ => 2 * pos + 1

/-- first loop of `_siftup(heap, pos)`: bubble the smaller child up until the hole is at a leaf; returns the list and
    the final position of the hole -/
def bubble (lt : α → α → Bool) (l : List α) (pos : Nat) : List α × Nat :=
  if _h : 2 * pos + 1 < l.length then
    match hv : l[smallerChild lt l pos]? with
    | some v => bubble lt (l.set pos v) (smallerChild lt l pos)
    | none => (l, pos)
  else (l, pos)
termination_by l.length - pos
decreasing_by
  simp only [List.length_set]
  have : pos < smallerChild lt l pos := by
    unfold smallerChild; split <;> (try split) <;> omega
  have : smallerChild lt l pos < l.length := (List.getElem?_eq_some_iff.mp hv).1
  omega

/-- `heappush(heap, item)`: append, then `_siftdown(heap, 0, len(heap)-1)` -/
def heappush (lt : α → α → Bool) (l : List α) (x : α) : List α := siftDown lt (l ++ [x]) l.length x

/-- `heappop(heap)`: pop the last element; if anything is left, return the root, put the last element there and
    `_siftup(heap, 0)` -/
def heappop (lt : α → α → Bool) (l : List α) : Option (α × List α) :=
  match l.getLast? with
  | none => none
  | some last =>
    match l.dropLast with
    | [] => some (last, [])
    | ret :: rest =>
      let (b, pos) := bubble lt (last :: rest) 0
      some (ret, siftDown lt b pos last)

end Mesa.Heap
