import MesaModel.Model.Viz
/-!
Model of the plotting keyword arguments of `draw_space(space, agent_portrayal, ax=ax, **space_drawing_kwargs)`
as far as they meet the agents' portrayals (mesa/visualization/mpl_space_drawing.py): `draw_space` hands them to
`draw_orthogonal_grid` / `draw_hex_grid` / `draw_network`, which hand them to `_scatter` and so to every
`ax.scatter` call — but not to `draw_continuous_space` / `draw_voronoi_grid`, where they are dropped —, and
`_scatter` refuses a keyword (`edgecolors`, `linewidths`, `alpha`, looked at in this order) that some agent's
portrayal specifies as well.  Only these three keywords are modelled; a space without agents is never refused
(`_scatter` returns before it looks).
-/
namespace Mesa.Viz

/-- `draw_space` passes `**space_drawing_kwargs` on to the drawing function of the class -/
def forwardsKwargs : Family → Bool
  | .cs | .xcs | .vor => false
  | _ => true

/-- the per-agent keywords in the order `_scatter` looks at them -/
def optKeys : List (Key × (Entry → Option Val)) :=
  [("edgecolors", (·.edgecolors)), ("linewidths", (·.linewidths)), ("alpha", (·.alpha))]

/-- the first keyword given both by some agent's portrayal and as a plotting keyword (ValueError) -/
def kwConflict (es : List Entry) (kw : List (Key × Val)) : Option Key :=
  (optKeys.find? fun kf => !(optArray kf.2 es).isEmpty && kw.any (·.1 == kf.1)).map (·.1)

inductive KwErr where
  | attribute
  | raised (e : Err)         -- what `draw_space` raises on this space without keywords too (`drawRaises`)
  | conflict (key : Key)     -- "… is specified in agent portrayal and via plotting kwargs, you can only use one or the other"
deriving DecidableEq, Repr

/-- the scatter calls and the keywords every one of them is handed in addition -/
structure KwDrawing where
  groups : List Group
  kw : List (Key × Val)
deriving DecidableEq, Repr

/-- matplotlib's side (trusted): a scalar keyword applies to every marker of the call -/
def applyKw (kw : List (Key × Val)) (e : Entry) : Entry :=
  { e with
    alpha := match kw.lookup "alpha" with | some v => some v | none => e.alpha
    edgecolors := match kw.lookup "edgecolors" with | some v => some v | none => e.edgecolors
    linewidths := match kw.lookup "linewidths" with | some v => some v | none => e.linewidths }

/-- the markers on the Axes, call by call -/
def KwDrawing.drawn (d : KwDrawing) : List (List Entry) := d.groups.map fun g => g.drawn.map (applyKw d.kw)

/-- `_scatter(ax, arguments, **kwargs)` -/
def scatterKw (es : List Entry) (kw : List (Key × Val)) : Except KwErr KwDrawing :=
  if es.isEmpty then .ok ⟨[], kw⟩
  else match kwConflict es kw with
    | some k => .error (.conflict k)
    | none => .ok ⟨scatter es, kw⟩

/-- `draw_space(space, agent_portrayal, ax=ax, **kw)` -/
def drawSpaceKw (sp : Space) (heap : Heap) (p : Portrayal) (kw : List (Key × Val)) : Except KwErr KwDrawing :=
  match drawRaises sp with
  | some e => .error (.raised e)
  | none =>
    match collectAgentData drawDefaults heap p (spaceAgents sp) with
    | none => .error .attribute
    | some es =>
      scatterKw (es.map fun e => { e with loc := transform sp.fam e.loc }) (if forwardsKwargs sp.fam then kw else [])

end Mesa.Viz
