import MesaModel.Model.StepCounter
/-
Multiple inheritance for the step counter (property C05).

`Model.__init__` captures `self.step` — an attribute lookup along the *instance's class MRO* — and
`super().step(...)` inside a user body continues along that same MRO (not along the bases of the class
the body is written in).  With single inheritance the MRO is the chain itself (`Model/StepCounter.lean`);
with several bases per class Python computes it by C3 linearisation:

    mro(C) = C :: merge(mro(B1), …, mro(Bn), [B1, …, Bn])
    merge:  take the first sequence whose head occurs in no tail of any sequence; emit it and remove it
            from the front of every sequence; repeat; fail (TypeError) if sequences remain but no head qualifies

Classes are numbered in definition order; class 0 is `mesa.Model`; a class without bases is a plain
mixin (`object` is left implicit: it is last in every linearisation).  Only the part of the MRO in front
of `Model` can ever run: `Model.step` does not call `super().step()`.
-/
namespace Mesa.Steps

/-- the first head that is in no tail (`none`: no consistent MRO) -/
def c3Pick (seqs : List (List Nat)) : Option Nat :=
  (seqs.filterMap List.head?).find? (fun h => seqs.all (fun s => !(s.tail.contains h)))

/-- remove `h` from the front of every sequence that starts with it; forget exhausted sequences -/
def c3Remove (h : Nat) (seqs : List (List Nat)) : List (List Nat) :=
  (seqs.map fun s => if s.head? = some h then s.tail else s).filter (fun s => !s.isEmpty)

/-- the merge loop of C3 (fuel: every round consumes at least one element) -/
def c3Merge : Nat → List (List Nat) → Option (List Nat)
  | _, [] => some []
  | 0, _ :: _ => none
  | f + 1, seqs@(_ :: _) =>
    match c3Pick seqs with
    | none => none
    | some h => (c3Merge f (c3Remove h seqs)).map (h :: ·)

/-- the class table: the MRO of every class defined so far (index = class id; entry 0 is `mesa.Model`) -/
abbrev Table := List (List Nat)

def Table.init : Table := [[0]]

def Table.mro (T : Table) (c : Nat) : List Nat := T[c]?.getD []

/-- the linearisation of a new class with the given bases (`none` = `TypeError` at class creation:
    an unknown or duplicate base, or no consistent MRO) -/
def Table.linearise (T : Table) (bases : List Nat) : Option (List Nat) :=
  if bases.all (· < T.length) && decide bases.Nodup then
    let seqs := (bases.map T.mro ++ [bases]).filter (fun s => !s.isEmpty)
    (c3Merge ((seqs.map List.length).sum + 1) seqs).map (T.length :: ·)
  else none

/-- `class K(B1, …, Bn): …` -/
def Table.define (T : Table) (bases : List Nat) : Option Table :=
  (T.linearise bases).map fun m => T ++ [m]

/-- the levels an instance of class `c` can reach, most derived first: the MRO in front of `Model` -/
def Table.labels (T : Table) (c : Nat) : List Nat := (T.mro c).takeWhile (· ≠ 0)

/-- is `c` a Model subclass (can it be instantiated as a model)? -/
def Table.isModel (T : Table) (c : Nat) : Bool := (T.mro c).contains 0

/-- the hierarchy (`Model/StepCounter.lean`) an instance of class `c` runs through; `lvls k` says how
    class `k` defines `step` -/
def Table.hier (T : Table) (lvls : Nat → Level) (c : Nat) : Hier := (T.labels c).map lvls

end Mesa.Steps
