import MesaModel.Model.Legacy
import MesaModel.Gen.LegacyTables
/-
Model of the neighbourhood queries of the legacy spaces of mesa/space.py (property C09):
`_Grid.get_neighborhood` (interior fast path / border slow path, insertion-ordered dict, centre
pop, result cache keyed by the argument tuple), `iter/get_neighbors`, `get_cell_list_contents`,
`get_neighborhood_mask`, `_HexGrid.get_neighborhood` (breadth-first expansion with
parity-dependent offsets, per-item update of `coordinates`, final sort) and
`NetworkGrid.get_neighborhood / get_neighbors`; and of `NetworkGrid` as a space of its own (C08-style):
`place_agent / remove_agent / move_agent` (after the NG1 repair), `is_cell_empty`,
`get_cell_list_contents` / `iter_cell_list_contents`, `get_all_cell_contents`, `agents`, histories `nrun`.
Node ids are naturals `0..n-1`; an id `≥ n` is a node that does not exist (KeyError).
-/
namespace Mesa.Legacy

/-- the part of a grid the neighbourhood functions depend on -/
structure Dim where
  w : Int
  h : Int
  torus : Bool
deriving Repr, DecidableEq

def Grid.dim (g : Grid) : Dim := { w := g.w, h := g.h, torus := g.torus }

namespace Dim

def oob (d : Dim) (p : Coord) : Bool := decide (p.1 < 0) || decide (p.1 ≥ d.w) || decide (p.2 < 0) || decide (p.2 ≥ d.h)

end Dim

/-- Python `range(lo, lo + n)` -/
def intRange (lo : Int) (n : Nat) : List Int := (List.range n).map fun i => lo + Int.ofNat i

/-- insertion into a dict used as an ordered set: `d[c] = True` -/
def insertKey (l : List Coord) (c : Coord) : List Coord := if c ∈ l then l else l ++ [c]

/-- the keys of the dict after inserting `cs` in order -/
def dictKeys (cs : List Coord) : List Coord := cs.foldl insertKey []

/-- interior test of `get_neighborhood` -/
def interior (d : Dim) (pos : Coord) (r : Nat) : Bool :=
  decide (pos.1 ≥ (r : Int)) && decide (d.w - pos.1 > (r : Int)) && decide (pos.2 ≥ (r : Int)) && decide (d.h - pos.2 > (r : Int))

/-- fast path: the cells inserted, in order -/
def fastKeys (pos : Coord) (moore : Bool) (r : Nat) : List Coord :=
  (intRange (pos.1 - r) (2 * r + 1)).flatMap fun nx =>
    (intRange (pos.2 - r) (2 * r + 1)).filterMap fun ny =>
      if !moore && decide (Grid.iabs (nx - pos.1) + Grid.iabs (ny - pos.2) > (r : Int)) then none else some (nx, ny)

/-- slow path: the cells inserted, in order -/
def slowKeys (d : Dim) (pos : Coord) (moore : Bool) (r : Nat) : List Coord :=
  (intRange (-(r : Int)) (2 * r + 1)).flatMap fun dx =>
    (intRange (-(r : Int)) (2 * r + 1)).filterMap fun dy =>
      if !moore && decide (Grid.iabs dx + Grid.iabs dy > (r : Int)) then none
      else
        let c : Coord := if d.torus then ((pos.1 + dx) % d.w, (pos.2 + dy) % d.h) else (pos.1 + dx, pos.2 + dy)
        if d.oob c then none else some c

structure NKey where
  pos : Coord
  moore : Bool
  ic : Bool
  r : Nat
deriving Repr, DecidableEq

/-- `get_neighborhood` without the cache -/
def nbhdCompute (d : Dim) (k : NKey) : Except Err (List Coord) :=
  if d.oob k.pos then .error .oob
  else
    let keys := dictKeys (if interior d k.pos k.r then fastKeys k.pos k.moore k.r else slowKeys d k.pos k.moore k.r)
    .ok (if k.ic then keys else keys.filter (fun c => c != k.pos))

abbrev NCache := List (NKey × List Coord)

/-- `get_neighborhood`: cache lookup first, then compute and store -/
def getNbhd (d : Dim) (cache : NCache) (k : NKey) : NCache × Except Err (List Coord) :=
  match cache.lookup k with
  | some v => (cache, .ok v)
  | none =>
    match nbhdCompute d k with
    | .error e => (cache, .error e)
    | .ok v => ((k, v) :: cache, .ok v)

/-- `_Grid.iter_neighbors` (a SingleGrid cell yields its agent unless it is `None`) and the
    `MultiGrid` override (`chain.from_iterable` of the non-empty cells) -/
def cellsContents (g : Grid) (cells : List Coord) : List Aid :=
  if g.multi then (cells.filter fun c => !g.isCellEmpty c).flatMap g.content
  else cells.filterMap fun c => (g.content c).head?

/-! ### hexagonal grids -/

/-- the six `adjacent` coordinates of a hexagon, by the parity of its column -/
def hexAdjacent (c : Coord) : List Coord :=
  (if c.1 % 2 = 0 then Gen.hexEven else Gen.hexOdd).map fun o => (c.1 + o.1, c.2 + o.2)

/-- the comprehension that wraps (torus) or drops out-of-grid (bounded) coordinates and drops the
    ones already in `coordinates` -/
def hexFilter (d : Dim) (visited : List Coord) (adj : List Coord) : List Coord :=
  if d.torus then (adj.map fun c => ((c.1 % d.w, c.2 % d.h) : Coord)).filter fun c => c ∉ visited
  else adj.filter fun c => !d.oob c && c ∉ visited

/-- one iteration of the inner `for`: `(queue, coordinates)`.  The deque is popped on the right and
    extended on the left, i.e. it is a FIFO queue; it is kept here in pop order. -/
def hexStep (d : Dim) (more : Bool) (st : List Coord × List Coord) (x : Coord) : List Coord × List Coord :=
  let adj := hexFilter d st.2 (hexAdjacent x)
  (if more then st.1 ++ adj else st.1, adj.foldl (fun v c => sadd c v) st.2)

/-- the `while radius > 0` loop: a level pops exactly the items that were queued when it started -/
def hexLevels (d : Dim) : Nat → List Coord → List Coord → List Coord
  | 0, _, v => v
  | r+1, q, v =>
    let st := q.foldl (hexStep d (decide (r > 0))) ([], v)
    hexLevels d r st.1 st.2

/-- `_HexGrid.get_neighborhood` without the cache -/
def hexCompute (d : Dim) (pos : Coord) (ic : Bool) (r : Nat) : List Coord :=
  let v := hexLevels d r [pos] []
  if ic then sadd pos v else sdiscard pos v

structure HKey where
  pos : Coord
  ic : Bool
  r : Nat
deriving Repr, DecidableEq

abbrev HCache := List (HKey × List Coord)

def getHexNbhd (d : Dim) (cache : HCache) (k : HKey) : HCache × List Coord :=
  match cache.lookup k with
  | some v => (cache, v)
  | none => let v := hexCompute d k.pos k.ic k.r; ((k, v) :: cache, v)

/-! ### NetworkGrid -/

/-- `list(G.neighbors(u))` of an undirected simple graph built by `add_edge` in the order of `edges` -/
def adjOf (edges : List (Nat × Nat)) (u : Nat) : List Nat :=
  edges.filterMap fun e => if e.1 = u then some e.2 else if e.2 = u then some e.1 else none

def ninsert (x : Nat) (l : List Nat) : List Nat := if x ∈ l then l else l ++ [x]

/-- all nodes at most one hop from a node of `s` -/
def expand (adj : Nat → List Nat) (s : List Nat) : List Nat :=
  s.foldl (fun acc u => (adj u).foldl (fun acc v => ninsert v acc) acc) s

/-- a concrete `single_source_shortest_path_length(G, v, r).keys()`: r-fold expansion of `[v]` -/
def ball (adj : Nat → List Nat) : Nat → Nat → List Nat
  | 0, v => [v]
  | r+1, v => expand adj (ball adj r v)

/-- `NetworkGrid.get_neighborhood`; `within v r` stands for the keys of
    `nx.single_source_shortest_path_length(G, v, r)` -/
def netNbhd (adj : Nat → List Nat) (within : Nat → Nat → List Nat) (v : Nat) (ic : Bool) (r : Nat) : List Nat :=
  if r = 1 then (if ic then adj v ++ [v] else adj v)
  else
    let ks := within v r
    (if ic then ks else ks.erase v).mergeSort (fun a b => decide (a ≤ b))

structure Net where
  n : Nat
  edges : List (Nat × Nat)
  content : Nat → List Aid
  pos : Aid → Option Nat

namespace Net

def init (n : Nat) (edges : List (Nat × Nat)) : Net := { n := n, edges := edges, content := fun _ => [], pos := fun _ => none }

def place (t : Net) (a : Aid) (v : Nat) : Net × Res :=
  if v < t.n then ({ t with content := fun u => if u = v then t.content v ++ [a] else t.content u,
                            pos := updA t.pos a (some v) }, .ok)
  else (t, .err .key)

def remove (t : Net) (a : Aid) : Net × Res :=
  match t.pos a with
  | none => (t, .err .key)
  | some v =>
    if a ∈ t.content v then
      ({ t with content := fun u => if u = v then (t.content v).erase a else t.content u, pos := updA t.pos a none }, .ok)
    else (t, .err .value)

/-- `NetworkGrid.move_agent` (after the NG1 repair: the target node's agent list is looked up first, so a
    node that does not exist raises KeyError before anything changes), then `remove_agent`, `place_agent` -/
def move (t : Net) (a : Aid) (v : Nat) : Net × Res :=
  if v < t.n then
    match t.remove a with
    | (t1, .err e) => (t1, .err e)
    | (t1, .ok) => t1.place a v
  else (t, .err .key)

/-- `get_cell_list_contents` on nodes that exist: non-empty nodes, chained -/
def cellsContents (t : Net) (nodes : List Nat) : List Aid :=
  (nodes.filter fun v => !(t.content v).isEmpty).flatMap t.content

/-- `is_cell_empty`: `G.nodes[node_id]` raises KeyError for a node that does not exist -/
def isCellEmpty (t : Net) (v : Nat) : Except Err Bool :=
  if v < t.n then .ok (t.content v).isEmpty else .error .key

/-- `get_cell_list_contents` / `list(iter_cell_list_contents(..))`: the lazy `filterfalse(is_cell_empty, ..)`
    raises KeyError at the first node that does not exist; no partial list is returned -/
def getCellListContents (t : Net) (nodes : List Nat) : Except Err (List Aid) :=
  if nodes.all (fun v => decide (v < t.n)) then .ok (t.cellsContents nodes) else .error .key

/-- iteration over `G`: the nodes in insertion order (the protocol builds the graph on `range(n)`) -/
def allNodes (t : Net) : List Nat := List.range t.n

/-- `get_all_cell_contents` -/
def getAllCellContents (t : Net) : List Aid := t.cellsContents t.allNodes

/-- `NetworkGrid.agents`: the node lists flattened into an `AgentSet` (first occurrences) -/
def agentsList (t : Net) : List Aid := Grid.dedup (t.allNodes.flatMap t.content)

def nbhd (t : Net) (v : Nat) (ic : Bool) (r : Nat) : List Nat :=
  netNbhd (adjOf t.edges) (fun v r => ball (adjOf t.edges) r v) v ic r

/-- `get_neighborhood` as called: networkx raises (`NetworkXError` for radius 1, `NodeNotFound` otherwise) for a
    node that is not in the graph -/
def nbhdChecked (t : Net) (v : Nat) (ic : Bool) (r : Nat) : Except Err (List Nat) :=
  if v < t.n then .ok (t.nbhd v ic r) else .error .noNode

end Net

/-- `_HexGrid.iter_neighbors` / `get_neighbors`: the neighbourhood goes through `iter_cell_list_contents`, which
    indexes `_grid[x][y]` raw — for a centre outside the grid with `include_center` the centre itself is in the
    list and is aliased (or raises IndexError) -/
def hexNeighbors (g : Grid) (cells : List Coord) : Except Err (List Aid) :=
  match g.rawCells cells with
  | .error e => .error e
  | .ok cs => .ok (cellsContents g cs)

/-! ### NetworkGrid histories -/

inductive NOp where
  | place (a : Aid) (v : Nat)
  | remove (a : Aid)
  | move (a : Aid) (v : Nat)

def nstep (t : Net) : NOp → Net × Res
  | .place a v => t.place a v
  | .remove a => t.remove a
  | .move a v => t.move a v

/-- a history; a call that raises is caught by the caller, who goes on with the state left behind -/
def nrun (t : Net) : List NOp → Net
  | [] => t
  | op :: ops => nrun (nstep t op).1 ops

end Mesa.Legacy
