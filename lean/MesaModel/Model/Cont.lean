/-
Model of both continuous spaces (property C10, C18-cont):

  * `mesa/space.py`  `ContinuousSpace`  (legacy, 2-D)                         -> `LSpace`
  * `mesa/experimental/continuous_space/{continuous_space,continuous_space_agents}.py`  -> `ESpace`

Exact arithmetic: a coordinate is an `Int` in units of 1/64, a squared distance an `Int` in
units of 1/4096 (the harness only uses multiples of 1/64 of small magnitude, for which every
`+ - * % abs min <=` the code performs is exact in binary64; `sqrt` is only observed through
its exact inverse, see harness/cont_common.py).  A radius is an `Int` in units of 1/64 and is
compared squared.

The model follows the code after the repairs S3, S20, CS1 (legacy), S17, S18, S19, CS2 (experimental) and CS3 (both).
numpy's `argpartition` is a parameter (`argpart`) of the k-nearest functions; the theorems
assume only its documented post-condition.
-/
namespace Mesa.Cont

abbrev Aid := Nat

inductive Err where
  | oob      -- "Point out of bounds, and space non-toroidal." / ValueError of the position setter
  | notIn    -- Exception("Agent does not exist in the space")
  | key      -- KeyError
  | index    -- IndexError
  | value    -- ValueError (argpartition: kth out of bounds)
  | type     -- TypeError (arithmetic on a `None` position)
  | attr     -- AttributeError (`agent.space` is `None` after `agent.remove()`)
deriving Repr, DecidableEq

/-- `abs` -/
def iabs (x : Int) : Int := if x < 0 then -x else x

/-- `np.sign` -/
def sgn (x : Int) : Int := if x < 0 then -1 else if x = 0 then 0 else 1

def sq (x : Int) : Int := x * x

/-- `np.fmod` / C `fmod` on exact values: the remainder that keeps the sign of the dividend -/
def fmodI (x s : Int) : Int := if x < 0 then -((-x) % s) else x % s

/-- per-axis separation, as every distance computation of both spaces does it:
    `d = abs(a - b)`; on a torus `d = d % size; d = min(d, size - d)` (after repair CS3: the separation is reduced
    modulo the size first, so a point outside the bounds stands for its periodic image) -/
def axisDist (torus : Bool) (size a b : Int) : Int :=
  let d := iabs (a - b)
  if torus then
    let m := d % size
    min m (size - m)
  else d

/-- per-axis heading from `a` to `b`: `h = b - a`; on a torus `h = fmod(h, size)` (repair CS3), then the one of `h`
    and `h - sign(h)*size` with the smaller absolute value (on a tie the second) -/
def axisHeading (torus : Bool) (size a b : Int) : Int :=
  let h := b - a
  if torus then
    let h' := fmodI h size
    let inv := h' - sgn h' * size
    if iabs h' < iabs inv then h' else inv
  else h

def upd {β : Type} (f : Nat → β) (k : Nat) (v : β) : Nat → β := fun x => if x = k then v else f x

/-- all values, or `none` if one is missing (a lookup that raises aborts the whole comprehension) -/
def collect {α : Type} : List (Option α) → Option (List α)
  | [] => some []
  | none :: _ => none
  | some x :: xs => (collect xs).map (x :: ·)

/-! ## legacy `mesa.space.ContinuousSpace` -/

structure LCfg where
  xmin : Int
  xmax : Int
  ymin : Int
  ymax : Int
  torus : Bool
deriving Repr, DecidableEq

def LCfg.width (c : LCfg) : Int := c.xmax - c.xmin
def LCfg.height (c : LCfg) : Int := c.ymax - c.ymin

abbrev P2 := Int × Int

/-- `out_of_bounds`: the upper edge is outside -/
def oob (c : LCfg) (p : P2) : Bool :=
  p.1 < c.xmin || p.1 ≥ c.xmax || p.2 < c.ymin || p.2 ≥ c.ymax

/-- `torus_adj` -/
def torusAdj (c : LCfg) (p : P2) : Except Err P2 :=
  if !oob c p then .ok p
  else if !c.torus then .error .oob
  else .ok (c.xmin + (p.1 - c.xmin) % c.width, c.ymin + (p.2 - c.ymin) % c.height)

/-- squared `get_distance`; also the row computation of `get_neighbors` -/
def ldist2 (c : LCfg) (p q : P2) : Int :=
  sq (axisDist c.torus c.width p.1 q.1) + sq (axisDist c.torus c.height p.2 q.2)

/-- `get_heading` -/
def lheading (c : LCfg) (p q : P2) : P2 :=
  (axisHeading c.torus c.width p.1 q.1, axisHeading c.torus c.height p.2 q.2)

/-- `_agent_to_index`: an insertion-ordered dict agent ↦ index-or-None -/
abbrev Dict := List (Aid × Option Nat)

def Dict.keys (d : Dict) : List Aid := d.map Prod.fst

def Dict.get? (d : Dict) (a : Aid) : Option (Option Nat) := d.lookup a

/-- `d[a] = v`: in place if the key exists, appended otherwise -/
def Dict.set (d : Dict) (a : Aid) (v : Option Nat) : Dict :=
  if d.keys.contains a then d.map (fun kv => if kv.1 = a then (a, v) else kv) else d ++ [(a, v)]

def Dict.del (d : Dict) (a : Aid) : Dict := d.filter (fun kv => kv.1 ≠ a)

structure LSpace where
  cfg : LCfg
  a2i : Dict                 -- _agent_to_index
  i2a : List Aid             -- _index_to_agent (keys 0 … len-1)
  pts : Option (List P2)     -- _agent_points (None = cache invalid)
  pos : Aid → Option P2      -- agent.pos of every agent object

def linit (c : LCfg) : LSpace := { cfg := c, a2i := [], i2a := [], pts := none, pos := fun _ => none }

/-- `space.agents` -/
def LSpace.agents (s : LSpace) : List Aid := s.a2i.keys

/-- `_invalidate_agent_cache` -/
def invalidate (s : LSpace) : LSpace := { s with pts := none, i2a := [] }

/-- `place_agent` (after repair S3: the position is validated first) -/
def place (s : LSpace) (a : Aid) (p : P2) : Except Err LSpace :=
  match torusAdj s.cfg p with
  | .error e => .error e
  | .ok p' =>
    let s1 := invalidate s
    .ok { s1 with a2i := s1.a2i.set a none, pos := upd s1.pos a (some p') }

/-- `move_agent`.  The state is returned also when the call raises: a `KeyError` for an
    agent that is not in the space comes after `agent.pos` was written. -/
def move (s : LSpace) (a : Aid) (p : P2) : LSpace × Except Err Unit :=
  match torusAdj s.cfg p with
  | .error e => (s, .error e)
  | .ok p' =>
    let s1 := { s with pos := upd s.pos a (some p') }
    match s1.pts with
    | none => (s1, .ok ())
    | some pts =>
      match s1.a2i.get? a with
      | none => (s1, .error .key)
      | some none => ({ s1 with pts := some (pts.map fun _ => p') }, .ok ())  -- `arr[None] = pos` broadcasts
      | some (some i) =>
        if i < pts.length then ({ s1 with pts := some (pts.set i p') }, .ok ())
        else (s1, .error .index)

/-- `remove_agent` -/
def remove (s : LSpace) (a : Aid) : Except Err LSpace :=
  if !s.a2i.keys.contains a then .error .notIn
  else
    let s1 := invalidate { s with a2i := s.a2i.del a }
    .ok { s1 with pos := upd s1.pos a none }

/-- `_build_agent_cache` when `_agent_points is None` (after repair S20 the array is (n, 2)) -/
def ensureCache (s : LSpace) : Except Err (LSpace × List P2) :=
  match s.pts with
  | some pts => .ok (s, pts)
  | none =>
    match collect (s.a2i.keys.map s.pos) with
    | none => .error .type
    | some pts =>
      .ok ({ s with a2i := s.a2i.keys.zipIdx.map (fun ai => (ai.1, some ai.2)),
                    i2a := s.a2i.keys, pts := some pts }, pts)

/-- `get_neighbors(pos, radius, include_center)`; builds the cache if needed -/
def getNeighbors (s : LSpace) (p : P2) (r : Int) (incl : Bool) : LSpace × Except Err (List Aid) :=
  match ensureCache s with
  | .error e => (s, .error e)
  | .ok (s1, pts) =>
    let dists := pts.map (fun q => ldist2 s.cfg q p)
    let hits := dists.zipIdx.filter (fun di => di.1 ≤ r * r && (incl || di.1 > 0))
    match collect (hits.map (fun di => s1.i2a[di.2]?)) with
    | none => (s1, .error .key)
    | some ags => (s1, .ok ags)

/-- `agent.pos = p` written by the user directly: a plain attribute — nothing is validated and the space is not told -/
def lpoke (s : LSpace) (a : Aid) (p : P2) : LSpace := { s with pos := upd s.pos a (some p) }

inductive LOp where
  | place (a : Aid) (p : P2)
  | move (a : Aid) (p : P2)
  | remove (a : Aid)
  | nbrs (p : P2) (r : Int) (incl : Bool)
deriving Repr, DecidableEq

/-- state after one call (a caller that catches the exception and carries on) -/
def lstep (s : LSpace) : LOp → LSpace
  | .place a p => match place s a p with | .ok s' => s' | .error _ => s
  | .move a p => (move s a p).1
  | .remove a => match remove s a with | .ok s' => s' | .error _ => s
  | .nbrs p r incl => (getNeighbors s p r incl).1

def lrun (c : LCfg) (ops : List LOp) : LSpace := ops.foldl lstep (linit c)

/-! ## experimental `ContinuousSpace` / `ContinuousSpaceAgent` -/

abbrev Pos := List Int

structure ECfg where
  dims : List (Int × Int)     -- rows of `dimensions`: (min, max) per axis
  torus : Bool
deriving Repr, DecidableEq

/-- `in_bounds`: both edges are inside -/
def inBounds : List (Int × Int) → Pos → Bool
  | d :: ds, x :: xs => d.1 ≤ x && x ≤ d.2 && inBounds ds xs
  | _, _ => true

/-- `torus_correct` -/
def torusCorrect : List (Int × Int) → Pos → Pos
  | d :: ds, x :: xs => (d.1 + (x - d.1) % (d.2 - d.1)) :: torusCorrect ds xs
  | _, _ => []

/-- squared entry of `calculate_distances` -/
def dist2Aux (torus : Bool) : List (Int × Int) → Pos → Pos → Int
  | d :: ds, a :: as, b :: bs => sq (axisDist torus (d.2 - d.1) a b) + dist2Aux torus ds as bs
  | _, _, _ => 0

def edist2 (c : ECfg) (p q : Pos) : Int := dist2Aux c.torus c.dims p q

/-- row of `calculate_difference_vector` (from the point to the agent) -/
def diffAux (torus : Bool) : List (Int × Int) → Pos → Pos → Pos
  | d :: ds, a :: as, b :: bs => axisHeading torus (d.2 - d.1) a b :: diffAux torus ds as bs
  | _, _, _ => []

def ediff (c : ECfg) (p q : Pos) : Pos := diffAux c.torus c.dims p q

structure ESpace where
  cfg : ECfg
  buf : Nat → Pos           -- rows of _agent_positions (rows ≥ cap do not exist)
  cap : Nat                 -- _agent_positions.shape[0]
  n : Nat                   -- _n_agents
  active : List Aid         -- active_agents
  a2i : Aid → Option Nat    -- _agent_to_index
  i2a : Nat → Option Aid    -- _index_to_agent (never read by the code)
  gone : Aid → Bool         -- agent objects whose `space` attribute is `None` (after `agent.remove()`)

/-- uninitialised rows (`np.empty`) are modelled by the empty vector -/
def einit (c : ECfg) (cap : Nat) : ESpace :=
  { cfg := c, buf := fun _ => [], cap := cap, n := 0, active := [], a2i := fun _ => none, i2a := fun _ => none,
    gone := fun _ => false }

/-- number of rows of the view `agent_positions = _agent_positions[0:_n_agents]` -/
def ESpace.view (s : ESpace) : Nat := min s.n s.cap

/-- `max(int(round(0.2 * n)), 1)` (repair S17); `0.2*n` is never half-way between two integers -/
def growBy (n : Nat) : Nat := max ((2 * n + 5) / 10) 1

/-- `_add_agent` -/
def addAgent (s : ESpace) (a : Aid) : ESpace :=
  let index := s.n
  let n' := s.n + 1
  { s with
    n := n'
    cap := if s.cap ≤ index then s.cap + growBy n' else s.cap
    a2i := upd s.a2i a (some index)
    i2a := upd s.i2a index (some a)
    active := s.active ++ [a] }

/-- the re-indexing loop of `_remove_agent` -/
def reindex : List Aid → (Aid → Option Nat) → (Nat → Option Aid) → Except Err ((Aid → Option Nat) × (Nat → Option Aid))
  | [], m, r => .ok (m, r)
  | a :: as, m, r =>
    match m a with
    | none => .error .key
    | some old => reindex as (upd m a (some (old - 1))) (upd r (old - 1) (some a))

/-- `_remove_agent` -/
def removeAgent (s : ESpace) (a : Aid) : Except Err ESpace :=
  match s.a2i a with
  | none => .error .key
  | some index =>
    if s.active.length ≤ index then .error .index
    else
      let active' := s.active.eraseIdx index
      match reindex (active'.drop index) (upd s.a2i a none) (upd s.i2a index none) with
      | .error e => .error e
      | .ok (m, r) =>
        .ok { s with
          active := active'
          a2i := m
          i2a := r
          buf := fun i => if index ≤ i ∧ i + 1 < s.n then s.buf (i + 1) else s.buf i
          n := s.n - 1 }

/-- `ContinuousSpaceAgent.position` (getter) -/
def getPos (s : ESpace) (a : Aid) : Except Err Pos :=
  match s.a2i a with
  | none => .error .key
  | some i => if i < s.view then .ok (s.buf i) else .error .index

/-- `ContinuousSpaceAgent.position = value` -/
def setPos (s : ESpace) (a : Aid) (p : Pos) : Except Err ESpace :=
  let v : Except Err Pos :=
    if inBounds s.cfg.dims p then .ok p
    else if s.cfg.torus then .ok (torusCorrect s.cfg.dims p)
    else .error .oob
  match v with
  | .error e => .error e
  | .ok p' =>
    match s.a2i a with
    | none => .error .key
    | some i => if i < s.view then .ok { s with buf := upd s.buf i p' } else .error .index

/-- the rows of `agent_positions` -/
def rows (s : ESpace) : List Pos := (List.range s.view).map s.buf

/-- squared `calculate_distances(point)[0]` -/
def calcD2 (s : ESpace) (pt : Pos) : List Int := (rows s).map (edist2 s.cfg pt)

/-- `get_agents_in_radius(point, radius)` as (agent, squared distance) pairs -/
def agentsInRadius (s : ESpace) (pt : Pos) (r : Int) : List (Aid × Int) :=
  (s.active.zip (calcD2 s pt)).filter (fun ad => decide (0 ≤ r) && ad.2 ≤ r * r)

/-- numpy's documented post-condition of `argpartition(d, kth)`: the result is a permutation of the
    indices; the entry at position `kth` is in its sorted place: no earlier entry is larger, no
    later entry is smaller.  (Trusted; the k-nearest theorems assume nothing else about `argpart`.) -/
def ArgPartSpec (argpart : List Int → Nat → List Nat) : Prop :=
  ∀ (d : List Int) (kth : Nat), kth < d.length →
    (argpart d kth).Perm (List.range d.length) ∧
    ∀ p, (argpart d kth)[kth]? = some p →
      (∀ i x, i < kth → (argpart d kth)[i]? = some x → d.getD x 0 ≤ d.getD p 0) ∧
      (∀ j y, kth < j → (argpart d kth)[j]? = some y → d.getD p 0 ≤ d.getD y 0)

/-- `(agents[i], dists[i])` (either lookup may raise `IndexError`) -/
def knnPick (s : ESpace) (d : List Int) (i : Nat) : Option (Aid × Int) :=
  match s.active[i]?, d[i]? with
  | some a, some x => some (a, x)
  | _, _ => none

/-- `get_k_nearest_agents(point, k)` (after repair S18: partition at `k-1`) -/
def kNearest (argpart : List Int → Nat → List Nat) (s : ESpace) (pt : Pos) (k : Nat) :
    Except Err (List (Aid × Int)) :=
  let d := calcD2 s pt
  if k = 0 then .ok []
  else if d.length < k then .error .value
  else
    let idx := (argpart d (k - 1)).take k
    match collect (idx.map (knnPick s d)) with
    | none => .error .index
    | some res => .ok res

/-- an `argpartition` that sorts completely (stable): the instance the driver runs -/
def argsortPart (d : List Int) (_kth : Nat) : List Nat :=
  (List.range d.length).mergeSort (fun i j => decide (d.getD i 0 ≤ d.getD j 0))

/-- `ContinuousSpaceAgent.get_neighbors_in_radius`.  When nothing at all is in the radius
    (only possible for a negative radius: the agent itself is at distance 0) the mask
    `np.asarray([])` is a float array and indexing with it raises `IndexError`. -/
def neighborsInRadius (s : ESpace) (a : Aid) (r : Int) : Except Err (List (Aid × Int)) :=
  match getPos s a with
  | .error e => .error e
  | .ok p =>
    let res := agentsInRadius s p r
    if res.isEmpty then .error .index else .ok (res.filter (fun ad => ad.1 ≠ a))

/-- `ContinuousSpaceAgent.get_nearest_neighbors` -/
def nearestNeighbors (argpart : List Int → Nat → List Nat) (s : ESpace) (a : Aid) (k : Nat) :
    Except Err (List (Aid × Int)) :=
  match getPos s a with
  | .error e => .error e
  | .ok p =>
    match kNearest argpart s p (k + 1) with
    | .error e => .error e
    | .ok res => .ok (res.filter (fun ad => ad.1 ≠ a))

/-! ### the agent-level API
Every `ContinuousSpaceAgent` method first goes through `self.space`, which `remove()` sets to `None`:
on a removed agent object each of them raises `AttributeError` before anything else happens. -/

/-- `agent.position` (getter; after repair CS2 the row is returned as a copy) -/
def agentGet (s : ESpace) (a : Aid) : Except Err Pos := if s.gone a then .error .attr else getPos s a

/-- `agent.position = value` -/
def agentSet (s : ESpace) (a : Aid) (p : Pos) : Except Err ESpace :=
  if s.gone a then .error .attr else setPos s a p

/-- `agent.position = value` with the state returned also when the call raises.  `writeFirst = false` is the code as it is
    (validate / wrap, then the one write into the row); `writeFirst = true` is a setter that stores the value in the row
    before it validates it — the order a rejected assignment must not have; kept so that "a rejected assignment changes
    nothing" is a statement that can fail. -/
def agentSetW (writeFirst : Bool) (s : ESpace) (a : Aid) (p : Pos) : ESpace × Except Err Unit :=
  if s.gone a then (s, .error .attr)
  else if writeFirst then
    match s.a2i a with
    | none => (s, .error .key)
    | some i =>
      if i < s.view then
        let s1 : ESpace := { s with buf := upd s.buf i p }
        if inBounds s.cfg.dims p then (s1, .ok ())
        else if s.cfg.torus then ({ s with buf := upd s.buf i (torusCorrect s.cfg.dims p) }, .ok ())
        else (s1, .error .oob)
      else (s, .error .index)
  else
    if inBounds s.cfg.dims p || s.cfg.torus then
      match setPos s a p with
      | .error e => (s, .error e)
      | .ok s' => (s', .ok ())
    else (s, .error .oob)

/-- `agent.remove()`: `Agent.remove` (deregistration from the model, idempotent), `space._remove_agent(self)`,
    then `self.space = None` -/
def agentRemove (s : ESpace) (a : Aid) : Except Err ESpace :=
  if s.gone a then .error .attr
  else match removeAgent s a with
    | .error e => .error e
    | .ok s' => .ok { s' with gone := upd s'.gone a true }

/-- `agent.get_neighbors_in_radius(r)` -/
def agentNir (s : ESpace) (a : Aid) (r : Int) : Except Err (List (Aid × Int)) :=
  if s.gone a then .error .attr else neighborsInRadius s a r

/-- `agent.get_nearest_neighbors(k)` -/
def agentNn (argpart : List Int → Nat → List Nat) (s : ESpace) (a : Aid) (k : Nat) :
    Except Err (List (Aid × Int)) :=
  if s.gone a then .error .attr else nearestNeighbors argpart s a k

/-- component-wise sum (`ndarray.__iadd__`) -/
def vadd : Pos → Pos → Pos
  | x :: xs, y :: ys => (x + y) :: vadd xs ys
  | _, _ => []

/-- `agent.position += v`: the getter (a copy of the row), `+=` on that copy, then the setter with the sum —
    so the sum is validated / wrapped like any assigned value before anything is written -/
def agentIadd (s : ESpace) (a : Aid) (v : Pos) : Except Err ESpace :=
  match agentGet s a with
  | .error e => .error e
  | .ok p => agentSet s a (vadd p v)

/-- `agent.position += v` statement by statement, the state returned also when the call raises (as `move` does for the
    legacy space): `tmp = agent.position` (the getter), `tmp += v` (`ndarray.__iadd__` writes into whatever the getter
    handed out), `agent.position = tmp` (the setter).  `view = false` is the code as it is (repair CS2: the getter returns a
    copy, so the `+=` touches no state); `view = true` is the code before the repair (the getter returned a view of the
    agent's row: the sum was in the array before the setter looked at it) — kept so that "a rejected `+=` changes nothing"
    is a statement that can fail. -/
def agentIaddW (view : Bool) (s : ESpace) (a : Aid) (v : Pos) : ESpace × Except Err Unit :=
  match agentGet s a with
  | .error e => (s, .error e)
  | .ok p =>
    let sum := vadd p v
    let s1 : ESpace :=
      if view then (match s.a2i a with | some i => { s with buf := upd s.buf i sum } | none => s) else s
    match agentSet s1 a sum with
    | .error e => (s1, .error e)
    | .ok s2 => (s2, .ok ())

/-- `agent.position[j] = x`: a write into the copy the getter returned; the space is not involved
    (the result type has no state) -/
def agentPoke (s : ESpace) (a : Aid) (j : Nat) : Except Err Unit :=
  match agentGet s a with
  | .error e => .error e
  | .ok p => if j < p.length then .ok () else .error .index

/-- `space.agent_positions[i] = p`: a user write through the public view of the filled rows — no bounds check,
    no torus wrap, no agent involved (`IndexError` beyond the view) -/
def rawWrite (s : ESpace) (i : Nat) (p : Pos) : Except Err ESpace :=
  if i < s.view then .ok { s with buf := upd s.buf i p } else .error .index

/-- rows selected by `agents=[…]`: `_agent_positions[[_agent_to_index[a] for a in agents]]` -/
def rowsOf (s : ESpace) (sub : List Aid) : Except Err (List (Aid × Pos)) :=
  match collect (sub.map (fun a => (s.a2i a).map (fun i => (a, i)))) with
  | none => .error .key
  | some ais =>
    if ais.all (fun ai => ai.2 < s.cap) then .ok (ais.map fun ai => (ai.1, s.buf ai.2))
    else .error .index

/-- `calculate_distances(point, agents)` squared, paired with the agents -/
def distancesOf (s : ESpace) (pt : Pos) : Option (List Aid) → Except Err (List (Aid × Int))
  | none => .ok (s.active.zip (calcD2 s pt))
  | some sub => (rowsOf s sub).map (fun l => l.map fun aq => (aq.1, edist2 s.cfg pt aq.2))

/-- `calculate_difference_vector(point, agents)` paired with the agents -/
def diffsOf (s : ESpace) (pt : Pos) : Option (List Aid) → Except Err (List (Aid × Pos))
  | none => .ok (s.active.zip ((rows s).map (ediff s.cfg pt)))
  | some sub => (rowsOf s sub).map (fun l => l.map fun aq => (aq.1, ediff s.cfg pt aq.2))

inductive EOp where
  | new (a : Aid)
  | set (a : Aid) (p : Pos)
  | remove (a : Aid)
  | iadd (a : Aid) (v : Pos)
  | raw (i : Nat) (p : Pos)   -- `space.agent_positions[i] = p`: a user write through the public view
deriving Repr, DecidableEq

/-- state after one call.  Agent objects are created fresh by the constructor, so `new a`
    for an agent object that exists already (in the space or removed) has no counterpart in the
    code and is ignored. -/
def estep (s : ESpace) : EOp → ESpace
  | .new a => if (s.a2i a).isSome || s.gone a then s else addAgent s a
  | .set a p => match agentSet s a p with | .ok s' => s' | .error _ => s
  | .remove a => match agentRemove s a with | .ok s' => s' | .error _ => s
  | .iadd a v => match agentIadd s a v with | .ok s' => s' | .error _ => s
  | .raw i p => match rawWrite s i p with | .ok s' => s' | .error _ => s

def erun (c : ECfg) (cap : Nat) (ops : List EOp) : ESpace := ops.foldl estep (einit c cap)

/-! ### vectors of the wrong length
The code never checks the length of a point; numpy decides.  Against the `nd ≥ 2` columns of the space a one-element vector
broadcasts (it stands for its `nd`-fold repetition), any other wrong length raises `ValueError` — except that the distances of a
bounded (non-torus) space come from `scipy.cdist`, which insists on `nd` columns.  (On a 1-D space numpy would broadcast the
space's single column against a longer vector instead: not modelled, the functions below are about `nd ≥ 2`.) -/

/-- the vector numpy computes with when `p` meets the `nd` columns of the space -/
def bcast (nd : Nat) (p : Pos) : Except Err Pos :=
  if p.length = nd then .ok p
  else match p with
    | [x] => .ok (List.replicate nd x)
    | _ => .error .value

/-- `ndims` -/
def ESpace.nd (s : ESpace) : Nat := s.cfg.dims.length

/-- `agent.position = p` for a `p` of any length (`in_bounds` / `torus_correct` broadcast or raise first) -/
def agentSetV (s : ESpace) (a : Aid) (p : Pos) : Except Err ESpace :=
  if s.gone a then .error .attr
  else match bcast s.nd p with
    | .error e => .error e
    | .ok q => setPos s a q

/-- … with the state returned also on an exception (what the driver runs) -/
def agentSetVW (writeFirst : Bool) (s : ESpace) (a : Aid) (p : Pos) : ESpace × Except Err Unit :=
  if s.gone a then (s, .error .attr)
  else match bcast s.nd p with
    | .error e => (s, .error e)
    | .ok q => agentSetW writeFirst s a q

/-- `agent.position += v` for a `v` of any length (the getter, then `+=` on the copy, then the setter) -/
def agentIaddV (s : ESpace) (a : Aid) (v : Pos) : Except Err ESpace :=
  match agentGet s a with
  | .error e => .error e
  | .ok q =>
    match bcast s.nd v with
    | .error e => .error e
    | .ok v' => agentSet s a (vadd q v')

/-- … statement by statement with the state returned also on an exception (what the driver runs): a `v` numpy cannot
    broadcast makes `tmp += v` raise before anything is written, whatever the getter handed out -/
def agentIaddVW (view : Bool) (s : ESpace) (a : Aid) (v : Pos) : ESpace × Except Err Unit :=
  match agentGet s a with
  | .error e => (s, .error e)
  | .ok _ =>
    match bcast s.nd v with
    | .error e => (s, .error e)
    | .ok v' => agentIaddW view s a v'

/-- `space.agent_positions[i] = p` for a `p` of any length (the index is looked at first) -/
def rawWriteV (s : ESpace) (i : Nat) (p : Pos) : Except Err ESpace :=
  if i < s.view then
    match bcast s.nd p with
    | .error e => .error e
    | .ok q => .ok { s with buf := upd s.buf i q }
  else .error .index

/-- the point a query computes with: distances of a non-torus space go through `cdist` (exact length or `ValueError`),
    everything else through numpy broadcasting -/
def queryPoint (s : ESpace) (viaCdist : Bool) (pt : Pos) : Except Err Pos :=
  if viaCdist && !s.cfg.torus then (if pt.length = s.nd then .ok pt else .error .value) else bcast s.nd pt

/-- a query about `agents=sub` at a point of any length: the rows are selected first (`KeyError` / `IndexError`), then the
    point meets them -/
def withPoint {α : Type} (s : ESpace) (viaCdist : Bool) (pt : Pos) (sub : Option (List Aid)) (f : Pos → Except Err α) :
    Except Err α :=
  match (match sub with | none => (.ok [] : Except Err (List (Aid × Pos))) | some l => rowsOf s l) with
  | .error e => .error e
  | .ok _ =>
    match queryPoint s viaCdist pt with
    | .error e => .error e
    | .ok q => f q

def distancesOfV (s : ESpace) (pt : Pos) (sub : Option (List Aid)) : Except Err (List (Aid × Int)) :=
  withPoint s true pt sub (fun q => distancesOf s q sub)

def diffsOfV (s : ESpace) (pt : Pos) (sub : Option (List Aid)) : Except Err (List (Aid × Pos)) :=
  withPoint s false pt sub (fun q => diffsOf s q sub)

def agentsInRadiusV (s : ESpace) (pt : Pos) (r : Int) : Except Err (List (Aid × Int)) :=
  withPoint s true pt none (fun q => .ok (agentsInRadius s q r))

def kNearestV (argpart : List Int → Nat → List Nat) (s : ESpace) (pt : Pos) (k : Nat) : Except Err (List (Aid × Int)) :=
  withPoint s true pt none (fun q => kNearest argpart s q k)

/-- `in_bounds(p)` / `torus_correct(p)` -/
def inBoundsV (s : ESpace) (p : Pos) : Except Err Bool := (bcast s.nd p).map (inBounds s.cfg.dims)
def torusCorrectV (s : ESpace) (p : Pos) : Except Err Pos := (bcast s.nd p).map (torusCorrect s.cfg.dims)

/-! ### histories whose calls carry vectors of any length (what the driver runs line by line) -/

/-- what numpy makes of the vector of a call on a space with `nd` axes: the call with the broadcast vector, or no call at
    all (`ValueError` before anything is written) -/
def normOp (nd : Nat) : EOp → Option EOp
  | .set a p => match bcast nd p with | .ok q => some (.set a q) | .error _ => none
  | .iadd a v => match bcast nd v with | .ok w => some (.iadd a w) | .error _ => none
  | .raw i p => match bcast nd p with | .ok q => some (.raw i q) | .error _ => none
  | op => some op

/-- one call with a vector of any length, as the code runs it (`agentSetV` / `agentIaddV` / `rawWriteV`) -/
def estepV (s : ESpace) : EOp → ESpace
  | .set a p => match agentSetV s a p with | .ok s' => s' | .error _ => s
  | .iadd a v => match agentIaddV s a v with | .ok s' => s' | .error _ => s
  | .raw i p => match rawWriteV s i p with | .ok s' => s' | .error _ => s
  | op => estep s op

def erunV (c : ECfg) (cap : Nat) (ops : List EOp) : ESpace := ops.foldl estepV (einit c cap)

/-! ### references to `space.agent_positions` kept by the user
`agent_positions` is re-sliced from `_agent_positions` by every add / remove, and `_agent_positions` is re-allocated
(`np.vstack`) when it is full.  A reference `v = space.agent_positions` the user keeps is a view of rows `0 .. len` of the
array that was `_agent_positions` when it was taken.  A re-allocation makes the array strictly larger and nothing ever
shrinks it, so within one history the number of rows names the array: the reference reaches the space's current array iff
the capacity is still what it was (`C10_exp_capacity_names_the_array`). -/

structure Held where
  cap : Nat   -- rows of the array it is a view of
  len : Nat   -- its own length: `_n_agents` when it was taken
deriving Repr, DecidableEq

/-- `v = space.agent_positions` -/
def holdView (s : ESpace) : Held := ⟨s.cap, s.view⟩

/-- `v[i] = p` as far as the space is concerned: a write into row `i` of the space's array if `v` still is a view of it,
    nothing if the array has been re-allocated since (`IndexError` beyond the length the reference has) -/
def heldWrite (s : ESpace) (v : Held) (i : Nat) (p : Pos) : Except Err ESpace :=
  if i < v.len then
    if v.cap = s.cap then .ok { s with buf := upd s.buf i p } else .ok s
  else .error .index

/-- the space together with the arrays it has dropped (by their number of rows), which only kept references reach -/
structure HSpace where
  sp : ESpace
  orph : Nat → Nat → Pos

def hinit (c : ECfg) (cap : Nat) : HSpace := ⟨einit c cap, fun _ _ => []⟩

/-- after a call that took the space from `h.sp` to `s'`: a re-allocation (`vstack` copies) leaves the old array, as it
    is, to whoever still refers to it -/
def HSpace.advance (h : HSpace) (s' : ESpace) : HSpace :=
  { sp := s', orph := if s'.cap = h.sp.cap then h.orph else upd h.orph h.sp.cap h.sp.buf }

/-- `v[i] = p` -/
def HSpace.write (h : HSpace) (v : Held) (i : Nat) (p : Pos) : Except Err HSpace :=
  match heldWrite h.sp v i p with
  | .error e => .error e
  | .ok s' =>
    .ok { sp := s', orph := if v.cap = h.sp.cap then h.orph else upd h.orph v.cap (upd (h.orph v.cap) i p) }

/-- the rows `v` shows -/
def HSpace.read (h : HSpace) (v : Held) : List Pos :=
  (List.range v.len).map (if v.cap = h.sp.cap then h.sp.buf else h.orph v.cap)

/-- one call of a history, with the dropped arrays kept -/
def hstep (h : HSpace) (op : EOp) : HSpace := h.advance (estep h.sp op)

def hrun (c : ECfg) (cap : Nat) (ops : List EOp) : HSpace := ops.foldl hstep (hinit c cap)

end Mesa.Cont
