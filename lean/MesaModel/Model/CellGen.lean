import MesaModel.Model.CellCollection
/-!
Which random generator the collections of a cell space carry, and what a random selection consumes from it
(property C01 on the cells model; `discrete_space.py`, `grid.py`, `network.py`, `voronoi.py`, `cell.py`, `cell_collection.py`).

* Every constructor builds its cells with `random=self.random` (`Gens.built`).
* Every collection-valued expression of the API (`CollExpr`: `space.all_cells`, `space.empties`, `cell.get_neighborhood(r, ic)`,
  `cell.neighborhood`, `coll.select(...)` on any of these, nested to any depth) has a `random` attribute: `CollExpr.gen` follows
  the constructor calls (`CellCollection(..., random=self.random)` in `all_cells`, `get_neighborhood` and `select`).
* A random selection is `self.random.choice(population)`: `pick` (element, position, draws used); `pickRest` is the script left in
  the generator afterwards.  `Grid.select_random_empty_cell` with `_try_random`: `tryRandomUsed` counts the draws of the loop.

Not imported by the driver: the tie is the harness check `coll.random is space.random` on every generated `coll` line and the
`used=` field of every random pick (`Proto/Cells.lean`).
-/
namespace Mesa.Cells

/-- a generator object (`random.Random` instance), by name -/
abbrev GenId := Nat

/-- the `random` attributes a space holds: `space.random` and `cell.random` of every cell -/
structure Gens where
  space : GenId
  cell : Cid → GenId

/-- `Grid.__init__` / `Network.__init__` / `VoronoiGrid.__init__` with `random=g`: `self.random = g` and every cell is built by
    `cell_klass(coordinate, capacity, random=self.random)` -/
def Gens.built (g : GenId) : Gens := { space := g, cell := fun _ => g }

/-- the collection-valued expressions of the API, nested to any depth -/
inductive CollExpr where
  | all                                             -- `space.all_cells`
  | empties                                         -- `space.empties`
  | nb (c : Cid) (r : Nat) (ic : Bool)              -- `space[c].get_neighborhood(r, ic)`
  | nbp (c : Cid)                                   -- `space[c].neighborhood`
  | sel (e : CollExpr) (f : Option Filt) (am : AtMost)   -- `e.select(filter_func, at_most)`

/-- `coll.random` of the collection an expression evaluates to -/
def CollExpr.gen (G : Gens) : CollExpr → GenId
  | .all => G.space            -- `CellCollection({cell: cell._agents ...}, random=self.random)` (the space's)
  | .empties => G.space        -- `self.all_cells.select(...)`: `select` hands on the receiver's generator, that of `all_cells`
  | .nb c _ _ => G.cell c      -- `CellCollection[Cell](self._neighborhood(...), random=self.random)` (the cell's)
  | .nbp c => G.cell c         -- `self.get_neighborhood()`
  | .sel e _ _ => e.gen G      -- `return self`, or `CellCollection(cell_generator(...), random=self.random)` (the receiver's)

/-- the cells of the collection, in its order (memo tables left out: `C07_cache_transparent`); radius ≥ 1 -/
def CollExpr.cells (sp : Space) (s : State) : CollExpr → Coll
  | .all => sp.cells
  | .empties => Mesa.Cells.empties sp s
  | .nb c r ic => nbhd (fun x => (sp.conn x).map (·.2)) r ic c
  | .nbp c => nbhd (fun x => (sp.conn x).map (·.2)) 1 false c
  | .sel e f am => select (f.map fun p => p.eval sp s) am (e.cells sp s)

/-- the script left in the generator after `random.choice(seq)`: an empty sequence raises before anything is drawn -/
def pickRest {α : Type} (seq : List α) (draws : List Nat) : List Nat := if seq.isEmpty then draws else draws.tail

/-- how many draws the rejection-sampling loop of `Grid.select_random_empty_cell` consumes (all of them if it never hits) -/
def tryRandomUsed (s : State) (cells : List Cid) : List Nat → Nat
  | [] => 0
  | d :: ds =>
    match draw cells d with
    | none => 0
    | some c => if isEmpty s c then 1 else 1 + tryRandomUsed s cells ds

end Mesa.Cells
