import MesaModel.Base.Rng
/-!
Identity-level model of `copy.deepcopy` / pickle round trips of an **AgentSet** (property C19, first half), after the
repair S24 (`AgentSet.__setstate__` keeps the restored models of its members alive).

What is modelled (mesa/agent.py, mesa/model.py):

* objects are identities (`Nat`); the world maps identities to records:
  agents `{unique_id, w (one public attribute), model}`, models `{_agents (strong, registration order), random}`,
  generators (the scripted `random.Random`: the remaining draw script), agent sets
  `{_agents (WEAK keys, insertion order), random, _restored_models}`;
* `Agent._ids` — the class-level `defaultdict` of per-model id counters, keyed by the model *object*: it holds a
  strong reference to every model that ever created an agent, and it is **not** copied by deepcopy / pickle;
* liveness, as after `gc.collect()`: a model is alive iff the program holds it, or `Agent._ids` does, or a set keeps it in
  `_restored_models`; an agent is alive iff it is registered in an alive model (the program itself holds no agents).
  Every read of a set skips dead members — that is what the `WeakKeyDictionary` does;
* `copySet`: the object graph reachable from the set — the set, its generator, the alive members, their models, everything
  registered in those models, those models' generators — is reconstructed once (pickle / deepcopy memo), with fresh
  identities `old + next`.  `keepOwners = false` is the code before the repair.

Core Lean only (linked into `drv_copyset`).
-/
namespace Mesa.CopySet
open Mesa (Rng)

-- identities are natural numbers

structure AgentRec where
  uid : Nat
  w : Int
  model : Nat
deriving Repr, DecidableEq

structure ModelRec where
  reg : List Nat        -- Model._agents: strong references, registration order
  gen : Nat             -- Model.random
deriving Repr, DecidableEq

structure SetRec where
  members : List Nat    -- WeakKeyDictionary keys, insertion order (dead ones are skipped by every read)
  gen : Nat             -- AgentSet.random
  owners : List Nat     -- AgentSet._restored_models (repair S24); [] for a set the program built
deriving Repr, DecidableEq

structure World where
  next : Nat
  agents : Nat → Option AgentRec
  models : Nat → Option ModelRec
  gens : Nat → Option Rng
  sets : Nat → Option SetRec
  setIds : List Nat           -- the sets the program holds (all of them), creation order
  heldM : List Nat            -- the models the program holds (those it built itself)
  ids : Nat → Option Nat      -- Agent._ids: last unique_id handed out per model; a strong reference to each key

def init : World :=
  { next := 0, agents := fun _ => none, models := fun _ => none, gens := fun _ => none, sets := fun _ => none,
    setIds := [], heldM := [], ids := fun _ => none }

/-! ### liveness (as after `gc.collect()`) -/

/-- some set keeps model `m` in `_restored_models` -/
def ownersOf (w : World) (t : Nat) : List Nat :=
  match w.sets t with
  | some r => r.owners
  | none => []

def owned (w : World) (m : Nat) : Bool := w.setIds.any fun t => (ownersOf w t).contains m

def modelAlive (w : World) (m : Nat) : Bool :=
  (w.models m).isSome && (w.heldM.contains m || (w.ids m).isSome || owned w m)

def agentAlive (w : World) (a : Nat) : Bool :=
  match w.agents a with
  | none => false
  | some ar =>
    modelAlive w ar.model &&
      (match w.models ar.model with
       | some mr => mr.reg.contains a
       | none => false)

/-- the members a read of the set sees -/
def aliveMembers (w : World) (r : SetRec) : List Nat := r.members.filter (agentAlive w)

/-! ### observations -/

/-- what the program can read from a set: per member its identity, `unique_id`, attribute and model; and the state of the
    set's generator -/
def scriptOf (w : World) (g : Nat) : List Nat :=
  match w.gens g with
  | some r => r.script
  | none => []

def itemsOf (w : World) (l : List Nat) : List (Nat × Nat × Int × Nat) :=
  l.filterMap fun a => (w.agents a).map fun ar => (a, ar.uid, ar.w, ar.model)

def view (w : World) (s : Nat) : Option (List (Nat × Nat × Int × Nat) × List Nat) :=
  match w.sets s with
  | none => none
  | some r => some (itemsOf w (aliveMembers w r), scriptOf w r.gen)

/-- `list(model.agents)` (identities), or `none` for a model that is gone -/
def regView (w : World) (m : Nat) : Option (List Nat) :=
  if modelAlive w m then (w.models m).map (·.reg) else none

/-! ### operations -/

def upd {β} (f : Nat → Option β) (k : Nat) (v : β) : Nat → Option β := fun i => if i = k then some v else f i

/-- `Model(seed=…)` with a scripted generator: generator `next`, model `next+1` -/
def newModel (w : World) (script : List Nat) : World × Nat :=
  let g := w.next
  let m := w.next + 1
  ({ w with next := w.next + 2, gens := upd w.gens g ⟨script⟩, models := upd w.models m { reg := [], gen := g },
            heldM := w.heldM ++ [m] }, m)

/-- `Agent(model)` then `agent.w = v`; `none`: the model is gone -/
def create (w : World) (m : Nat) (v : Int) : Option (World × Nat × Nat) :=
  if !modelAlive w m then none else
  match w.models m with
  | none => none
  | some mr =>
    let a := w.next
    let uid := (w.ids m).getD 0 + 1
    some ({ w with next := w.next + 1, agents := upd w.agents a { uid := uid, w := v, model := m },
                   models := upd w.models m { mr with reg := mr.reg ++ [a] }, ids := upd w.ids m uid }, a, uid)

/-- `agent.remove()` (the program can only name an agent that is alive) -/
def remove (w : World) (a : Nat) : Option World :=
  if !agentAlive w a then none else
  match w.agents a with
  | none => none
  | some ar =>
    match w.models ar.model with
    | none => none
    | some mr => some { w with models := upd w.models ar.model { mr with reg := mr.reg.erase a } }

def setW (w : World) (a : Nat) (v : Int) : Option World :=
  if !agentAlive w a then none else
  match w.agents a with
  | none => none
  | some ar => some { w with agents := upd w.agents a { ar with w := v } }

/-- keep the first occurrence of every element (a dict built from keys) -/
def dedup : List Nat → List Nat
  | [] => []
  | x :: xs => x :: (dedup xs).filter (· != x)

/-- `AgentSet([a1, a2, …], random=m.random)`; all operands alive -/
def mkSet (w : World) (m : Nat) (as : List Nat) : Option (World × Nat) :=
  if !modelAlive w m || !as.all (agentAlive w) then none else
  match w.models m with
  | none => none
  | some mr =>
    let s := w.next
    some ({ w with next := w.next + 1, sets := upd w.sets s { members := dedup as, gen := mr.gen, owners := [] },
                   setIds := w.setIds ++ [s] }, s)

def addTo (w : World) (s a : Nat) : Option World :=
  if !agentAlive w a then none else
  match w.sets s with
  | none => none
  | some r => some { w with sets := upd w.sets s { r with members := if r.members.contains a then r.members else r.members ++ [a] } }

def discard (w : World) (s a : Nat) : Option World :=
  if !agentAlive w a then none else
  match w.sets s with
  | none => none
  | some r => some { w with sets := upd w.sets s { r with members := r.members.erase a } }

def wOf (w : World) (a : Nat) : Int := match w.agents a with | some ar => ar.w | none => 0

/-- stable insertion by ascending key (`sortBy` inserts from the right, so an earlier element goes before its equals) -/
def insertBy (key : Nat → Int) (x : Nat) : List Nat → List Nat
  | [] => [x]
  | y :: ys => if key x ≤ key y then x :: y :: ys else y :: insertBy key x ys

def sortBy (key : Nat → Int) (l : List Nat) : List Nat := l.foldr (insertBy key) []

/-- `s.sort("w", ascending=True, inplace=True)`: the alive members in stable ascending order of `w` -/
def sortW (w : World) (s : Nat) : Option World :=
  match w.sets s with
  | none => none
  | some r => some { w with sets := upd w.sets s { r with members := sortBy (wOf w) (aliveMembers w r) } }

/-- `s.shuffle(inplace=True)`: CPython's Fisher–Yates over the alive members with the set's generator -/
def shuffleSet (w : World) (s : Nat) : Option World :=
  match w.sets s with
  | none => none
  | some r =>
    match w.gens r.gen with
    | none => none
    | some g =>
      let (l, g') := Rng.shuffle (aliveMembers w r) g
      some { w with sets := upd w.sets s { r with members := l }, gens := upd w.gens r.gen g' }

/-- the distinct models of a list of agents, in order of first appearance -/
def modelsOf (w : World) (as : List Nat) : List Nat :=
  dedup (as.filterMap fun a => (w.agents a).map (·.model))

/-- the models reconstructed by a copy of set record `r`: those of its alive members -/
def copiedM (w : World) (r : SetRec) : List Nat := modelsOf w (aliveMembers w r)

/-- the agents reconstructed: everything registered in a reconstructed model (the alive members are among them) -/
def copiedA (w : World) (r : SetRec) (a : Nat) : Bool :=
  match w.agents a with
  | some ar => (copiedM w r).contains ar.model && (match w.models ar.model with | some mr => mr.reg.contains a | none => false)
  | none => false

/-- the generators reconstructed: the set's and those of the reconstructed models -/
def copiedG (w : World) (r : SetRec) (g : Nat) : Bool :=
  g == r.gen || (copiedM w r).any fun m => match w.models m with | some mr => mr.gen == g | none => false

/-- the world after copying set `t` (record `r`): every reconstructed object gets the identity `old + w.next` -/
def copyWorld (w : World) (t : Nat) (r : SetRec) (keepOwners : Bool) : World :=
  let B := w.next
  { w with
    next := B + B
    agents := fun i => if B ≤ i then
        (if copiedA w r (i - B) then (w.agents (i - B)).map fun ar => { ar with model := ar.model + B } else none)
      else w.agents i
    models := fun i => if B ≤ i then
        (if (copiedM w r).contains (i - B) then
          (w.models (i - B)).map fun mr => { reg := mr.reg.map (· + B), gen := mr.gen + B } else none)
      else w.models i
    gens := fun i => if B ≤ i then (if copiedG w r (i - B) then w.gens (i - B) else none) else w.gens i
    sets := upd w.sets (t + B)
      { members := (aliveMembers w r).map (· + B), gen := r.gen + B,
        owners := if keepOwners then (copiedM w r).map (· + B) else [] }
    setIds := w.setIds ++ [t + B] }

/-- `copy.deepcopy(s)` / `pickle.loads(pickle.dumps(s))`.  Returns the new world and the identity of the copy (`none`: no
    such set).  `keepOwners = false` is the code before the repair S24. -/
def copySet (w : World) (s : Nat) (keepOwners : Bool := true) : Option (World × Nat) :=
  match w.sets s with
  | none => none
  | some r => some (copyWorld w s r keepOwners, s + w.next)

/-! ### the step function of the protocol -/

inductive Op where
  | newModel (script : List Nat)
  | create (m : Nat) (v : Int)
  | remove (a : Nat)
  | setW (a : Nat) (v : Int)
  | mkSet (m : Nat) (as : List Nat)
  | add (s a : Nat)
  | discard (s a : Nat)
  | sortW (s : Nat)
  | shuffle (s : Nat)
  | copy (s : Nat)
deriving Repr, DecidableEq

/-- a rejected operation (an operand that is gone) leaves the world as it is -/
def step (w : World) : Op → World
  | .newModel sc => (newModel w sc).1
  | .create m v => match create w m v with | some (w', _, _) => w' | none => w
  | .remove a => (remove w a).getD w
  | .setW a v => (setW w a v).getD w
  | .mkSet m as => match mkSet w m as with | some (w', _) => w' | none => w
  | .add s a => (addTo w s a).getD w
  | .discard s a => (discard w s a).getD w
  | .sortW s => (sortW w s).getD w
  | .shuffle s => (shuffleSet w s).getD w
  | .copy s => match copySet w s with | some (w', _) => w' | none => w

def run (w : World) (ops : List Op) : World := ops.foldl step w

/-- the identities whose record an operation may change (besides the fresh ones it allocates) -/
def writes (w : World) : Op → List Nat
  | .newModel _ => []
  | .create m _ => [m]
  | .remove a => a :: (match w.agents a with | some ar => [ar.model] | none => [])
  | .setW a _ => [a]
  | .mkSet _ _ => []
  | .add s _ => [s]
  | .discard s _ => [s]
  | .sortW s => [s]
  | .shuffle s => s :: (match w.sets s with | some r => [r.gen] | none => [])
  | .copy _ => []

/-- everything the view of set `s` depends on: the set, its generator, its members and their models -/
def deps (w : World) (s : Nat) : List Nat :=
  match w.sets s with
  | none => [s]
  | some r => s :: r.gen :: (r.members ++ r.members.filterMap fun a => (w.agents a).map (·.model))

end Mesa.CopySet
