import MesaModel.Model.VizInputs
/-!
Model of the execution controls of `SolaraViz` (mesa/visualization/solara_viz.py): `ModelController` /
`SimulatorController` — the closures `do_step`, `do_reset`, `do_play_pause`, the play loop `step` — together with the
reactive `model_parameters` they share with `ModelCreator`: what a click on Step / ▶ / ❚❚ / Reset does, how many model
steps one tick of the play loop makes, when the loop ends, and with which keyword arguments a reset creates the next
model.

The controller sees of the model only `model.steps` and `model.running`.  A model class is therefore a `Behaviour`:
whether the instance created with these keyword arguments is still `running` after its k-th step.  Time does not
exist here: `time.sleep(play_interval)` is the point at which the user can act between two ticks (`Ev`), and the
user can also click ▶ / ❚❚ while a `model.step()` is executing (`hook`).  Threads (`solara.lab.use_task`) are not
modelled: the loop is the function `step` run to its end.

The two controllers differ in the constructor call of a reset: `ModelController` calls `Model(**model_parameters)`,
`SimulatorController` calls `Model(simulator=simulator, **model_parameters)` (`Ctrl.sim`, `Ctrl.extraKeywords`); the
check `ModelCreator` runs is told about that keyword (fix P3).
-/
namespace Mesa.Viz

abbrev Params := List (String × Option Val)

/-- `beh kwargs k`: `model.running` after the k-th `step()` of `Model(**kwargs)` -/
abbrev Behaviour := Params → Nat → Bool

structure Ctrl where
  params : Params              -- the reactive `model_parameters`
  inputs : List String := []   -- the names of the inputs `UserInputs` created
  kwargs : Params              -- what the current model was created with (besides `simulator=`)
  sim : Bool := false          -- `SimulatorController` (a `Simulator` was handed to `SolaraViz`)
  gen : Nat := 0               -- how many models a reset has created
  steps : Nat := 0             -- `model.steps`
  mrunning : Bool := true      -- `model.running`
  running : Bool := true       -- the reactive `running`
  playing : Bool := false      -- the reactive `playing`
  render : Nat := 1            -- the reactive `render_interval`
  threads : Bool := false      -- the reactive `use_threads`
  updates : Nat := 0           -- calls of `force_update()`
deriving DecidableEq, Repr

/-- the keyword arguments a reset passes to the constructor besides the parameter set -/
def Ctrl.extraKeywords (c : Ctrl) : List String := if c.sim then ["simulator"] else []

/-- `model.value.step()` (for `SimulatorController`: `simulator.run_for(1)`, one step of the model per time unit) -/
def Ctrl.modelStep (beh : Behaviour) (c : Ctrl) : Ctrl :=
  { c with steps := c.steps + 1, mrunning := beh c.kwargs (c.steps + 1) }

/-- a click on ▶ / ❚❚ (`do_play_pause`); the button is disabled while `running` is false -/
def Ctrl.clickPlay (c : Ctrl) : Option Ctrl :=
  if c.running then some { c with playing := !c.playing } else none

/-- one iteration of `for _ in range(render_interval.value)` in `do_step`, the `i`-th: `model.value.step()`, during
    which the user clicks ▶ / ❚❚ if `hook = some i`, then `running.value = model.value.running` -/
def stepOnce (beh : Behaviour) (hook : Option Nat) (i : Nat) (c : Ctrl) : Ctrl :=
  let c1 := c.modelStep beh
  let c2 := if hook = some i then (c1.clickPlay.getD c1) else c1
  { c2 with running := c2.mrunning }

/-- the loop `for _ in range(render_interval.value)` in `do_step`, `n` iterations to go, the next one being the
    `i`-th; `breakable`: the branch taken while playing (`if not playing.value: break`) -/
def stepLoop (beh : Behaviour) (breakable : Bool) (hook : Option Nat) : Nat → Nat → Ctrl → Ctrl
  | 0, _, c => c
  | n + 1, i, c =>
    let c3 := stepOnce beh hook i c
    if breakable && !c3.playing then c3 else stepLoop beh breakable hook n (i + 1) c3

/-- `do_step()` -/
def doStep (beh : Behaviour) (hook : Option Nat) (c : Ctrl) : Ctrl :=
  if c.playing then
    let c' := stepLoop beh true hook c.render 1 c
    if c'.threads then c' else { c' with updates := c'.updates + 1 }
  else
    let c' := stepLoop beh false hook c.render 1 c
    { c' with updates := c'.updates + 1 }

/-- `do_reset()`: a new model from the current `model_parameters` (and `simulator=simulator`, see `extraKeywords`).  The
    flag `running` is set to True before the model exists and is not read off the new model: a model that stops in its
    constructor (`beh kwargs 0 = false`) has its buttons enabled until it is stepped once -/
def doReset (beh : Behaviour) (c : Ctrl) : Ctrl :=
  { c with playing := false, running := true, mrunning := beh c.params 0, kwargs := c.params, steps := 0, gen := c.gen + 1 }

/-- what the user does while the play loop sleeps -/
inductive Ev where
  | idle
  | pause                               -- a click on ❚❚
  | reset                               -- a click on Reset
  | render (n : Nat)                    -- the render-interval slider
  | set (name : String) (v : Val)       -- an input of `UserInputs`
deriving DecidableEq, Repr

def Ctrl.change (c : Ctrl) (name : String) (v : Val) : Option Ctrl :=
  if c.inputs.contains name then some { c with params := onChange c.params name v } else none

def applyEv (beh : Behaviour) (c : Ctrl) : Ev → Ctrl
  | .idle => c
  | .pause => c.clickPlay.getD c
  | .reset => doReset beh c
  | .render n => { c with render := n }
  | .set name v => (c.change name v).getD c

/-- the play loop `step`: `while running.value and playing.value: time.sleep(…); do_step()`, one `(ev, hook)` per
    tick; when the list is used up the user clicks ❚❚ during the next sleep -/
def playLoop (beh : Behaviour) : List (Ev × Option Nat) → Ctrl → Ctrl
  | [], c =>
    if c.running && c.playing then doStep beh none (applyEv beh c .pause) else c
  | (ev, hook) :: rest, c =>
    if c.running && c.playing then playLoop beh rest (doStep beh hook (applyEv beh c ev)) else c

inductive CtrlOp where
  | step                                -- the Step button
  | play                                -- the ▶ / ❚❚ button (the loop it starts is run by a following `loop`)
  | reset                               -- the Reset button
  | render (n : Nat)
  | threads (b : Bool)
  | change (name : String) (v : Val)
  | loop (evs : List (Ev × Option Nat))
deriving DecidableEq, Repr

/-- `none`: the button is disabled / there is no such input -/
def Ctrl.apply (beh : Behaviour) (c : Ctrl) : CtrlOp → Option Ctrl
  | .step => if c.playing || !c.running then none else some (doStep beh none c)
  | .play => c.clickPlay
  | .reset => some (doReset beh c)
  | .render n => some { c with render := n }
  | .threads b =>
    -- `SolaraViz` shows a hint above the checkbox while threads are on: toggling shifts the controller to another
    -- position among the children of the card, so it is mounted anew and its own state (`playing`, `running`) starts over
    if b = c.threads then some c else some { c with threads := b, playing := false, running := true }
  | .change name v => c.change name v
  | .loop evs => some (playLoop beh evs c)

/-- a history of user actions; a click that is not possible leaves everything as it is -/
def Ctrl.run (beh : Behaviour) (c : Ctrl) : List CtrlOp → Ctrl
  | [] => c
  | op :: ops => ((c.apply beh op).getD c).run beh ops

/-- `SolaraViz(model, model_params=ps, render_interval=r, use_threads=t[, simulator=…])` rendered for a model of class
    `beh` created with `kwargs0` (not stepped yet): the errors of `ModelCreator`, else the initial state of the controls —
    the flag `running` starts True whatever the model says -/
def Ctrl.init (beh : Behaviour) (sig : List Param) (ps : List (String × ParamVal)) (kwargs0 : Params) (r : Nat) (t : Bool)
    (sim : Bool := false) : Except CreatorErr Ctrl :=
  match modelCreator sig ps (if sim then ["simulator"] else []) with
  | .error e => .error e
  | .ok (mp, ws) =>
    .ok { params := mp, inputs := ws.map (·.name), kwargs := kwargs0, sim := sim, mrunning := beh kwargs0 0, render := r, threads := t }

end Mesa.Viz
