import MesaModel.Model.Viz
/-!
Model of the parameter side of `ModelCreator` and of `UserInputs` (mesa/visualization/solara_viz.py): what becomes
of a `model_params` dict mixing fixed values, `Slider` objects and option dicts — the parameter set the model is
(re-)created with (`model_parameters`: the fixed values and the current value of every input), the input widgets,
what a change of an input does, and the errors in the order they surface (an unsupported input type while the
inputs are rendered, then the constructor check, which runs as an effect).

Values are opaque tokens.  solara's widgets and its reactive plumbing are not modelled.
-/
namespace Mesa.Viz

/-- a value of `model_params` as far as `ModelCreator` / `UserInputs` look at it -/
inductive ParamVal where
  | slider (isFloat : Bool) (label : String) (value : Val)                   -- a `Slider` object
  | spec (type : String) (value : Option Val) (label : Option String)        -- a dict with a "type"
  | plainDict                                                                -- a dict without "type": a fixed value
  | plain (v : Val)                                                          -- anything else: a fixed value
deriving DecidableEq, Repr

/-- what `check_param_is_fixed` sees -/
def ParamVal.toPy : ParamVal → PyVal
  | .slider _ _ _ => .slider
  | .spec _ v l => .dict (["type"] ++ (if v.isSome then ["value"] else []) ++ (if l.isSome then ["label"] else []))
  | .plainDict => .dict []
  | .plain _ => .other

inductive WidgetKind where
  | sliderInt | sliderFloat | select | checkbox | inputText
deriving DecidableEq, Repr

/-- one input created by `UserInputs`; its `on_value` reports under `name` -/
structure Widget where
  kind : WidgetKind
  name : String
  label : String
  value : Option Val
deriving DecidableEq, Repr

/-- the `input_type` dispatch of `UserInputs` -/
def widgetKind? : String → Option WidgetKind
  | "SliderInt" => some .sliderInt
  | "SliderFloat" => some .sliderFloat
  | "Select" => some .select
  | "Checkbox" => some .checkbox
  | "InputText" => some .inputText
  | _ => none

/-- `UserInputs(user_params)`: one input per entry, in order; `.error t`: "t is not a supported input type".
    (Fixed values never get here: `ModelCreator` passes the user-adjustable part of the split.) -/
def userInputs : List (String × ParamVal) → Except String (List Widget)
  | [] => .ok []
  | (name, v) :: rest =>
    let w? : Except String Widget := match v with
      | .slider isFloat label value => .ok ⟨if isFloat then .sliderFloat else .sliderInt, name, label, some value⟩
      | .spec type value label =>
        match widgetKind? type with
        | some k => .ok ⟨k, name, label.getD name, value⟩
        | none => .error type
      | .plainDict => .error "None"        -- `options.get("type")` of a dict without one
      | .plain _ => .error "None"
    match w? with
    | .error t => .error t
    | .ok w =>
      match userInputs rest with
      | .error t => .error t
      | .ok ws => .ok (w :: ws)

def splitParams (ps : List (String × ParamVal)) : List (String × ParamVal) × List (String × ParamVal) :=
  (ps.filter (fun kv => !isFixed kv.2.toPy), ps.filter (fun kv => isFixed kv.2.toPy))

/-- the value a parameter contributes to `model_parameters`: a fixed value itself (a dict: written `dict`),
    an input its `.get("value")` (`none`: Python's `None`) -/
def ParamVal.initial : ParamVal → Option Val
  | .slider _ _ value => some value
  | .spec _ value _ => value
  | .plainDict => some "dict"
  | .plain v => some v

/-- `{**fixed_params, **{k: v.get("value") for k, v in user_params.items()}}` (the two parts have no key in common) -/
def initialParams (ps : List (String × ParamVal)) : List (String × Option Val) :=
  let (user, fixed) := splitParams ps
  fixed.map (fun kv => (kv.1, kv.2.initial)) ++ user.map (fun kv => (kv.1, kv.2.initial))

inductive CreatorErr where
  | unsupported (type : String)     -- raised while the inputs are rendered
  | check (e : CheckErr)            -- raised by the effect that checks the constructor
deriving DecidableEq, Repr

/-- rendering `ModelCreator(model, model_params, extra_keywords=extra)`: the parameters for (re-)creating the model
    and the inputs -/
def modelCreator (sig : List Param) (ps : List (String × ParamVal)) (extra : List String := []) :
    Except CreatorErr (List (String × Option Val) × List Widget) :=
  match userInputs (splitParams ps).1 with
  | .error t => .error (.unsupported t)
  | .ok ws =>
    match creatorCheck sig (ps.map fun kv => (kv.1, kv.2.toPy)) extra with
    | .error e => .error (.check e)
    | .ok () => .ok (initialParams ps, ws)

/-- `on_change(name, value)`: `model_parameters.value = {**model_parameters.value, name: value}` -/
def onChange (params : List (String × Option Val)) (name : String) (value : Val) : List (String × Option Val) :=
  if params.any (·.1 == name) then params.map fun kv => if kv.1 == name then (name, some value) else kv
  else params ++ [(name, some value)]

end Mesa.Viz
