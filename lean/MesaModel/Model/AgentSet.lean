import MesaModel.Base.Rng
import MesaModel.Base.ListOps
/-
Model of mesa/agent.py `AgentSet` and `GroupBy` as an ordered set with list semantics
(property C03).

The generic list functions (`selectGo`, `sortL`, `groupBy`, `addKey`, …) mirror the code of
each method branch by branch; the property theorems say they coincide with the list
operations the property names (`filter`/`take`, stable sort, permutation, partition).
`Store` puts them behind set names so that the in-place and the copying form of an
operation can be told apart: a population of agents with mutable integer attributes, all
registered with one model and strongly held (weak references play no role here, see C04),
and the AgentSets the program has made so far.

`select(at_most=<float f ≤ 1.0>)`: the code computes `int(len(self) * f)` on IEEE doubles.
The model takes the resulting *count* (`AtMost.count k`); the driver computes `k` with
Lean's `Float` (same IEEE operations) from the fraction `p/q` the protocol carries.
-/
namespace Mesa.ASet

/-! ### list-level functions (what the theorems are about) -/

/-- `agent_generator` of `AgentSet.select`:
    `count = 0; for agent in self: if count >= at_most: break; if pred(agent): yield agent; count += 1` -/
def selectGo {α} (p : α → Bool) (atMost : Option Nat) : List α → Nat → List α
  | [], _ => []
  | a :: rest, c =>
    if (match atMost with | some k => decide (k ≤ c) | none => false) then []
    else if p a then a :: selectGo p atMost rest (c + 1)
    else selectGo p atMost rest c

/-- `sorted(keys, key=key, reverse=not ascending)`: CPython's sort is stable, and
    `reverse=True` keeps the original order among equal keys -/
def sortL {α} (key : α → Int) (asc : Bool) (l : List α) : List α :=
  l.mergeSort (fun a b => if asc then decide (key a ≤ key b) else decide (key b ≤ key a))

/-! ### the store -/

structure Agent where
  id : Nat                      -- harness name; `unique_id = id + 1`
  ty : Nat                      -- exact class (index into the harness hierarchy)
  attrs : List (Nat × Int)      -- attribute index → value (an absent index = no such attribute)
deriving Repr, DecidableEq, Inhabited

def Agent.attr (a : Agent) (k : Nat) : Option Int := a.attrs.lookup k

/-- `setattr(agent, k, v)` -/
def Agent.setAttr (a : Agent) (k : Nat) (v : Int) : Agent :=
  { a with attrs := (k, v) :: a.attrs.filter (fun kv => kv.1 ≠ k) }

/-- class hierarchy of the harness: `T0 ← T1 ← T2`, `T3` apart; `isinstance(agent, cls)` -/
def isInst (ty cls : Nat) : Bool :=
  ty == cls || (cls == 0 && (ty == 1 || ty == 2)) || (cls == 1 && ty == 2)

structure Store where
  pop : List Agent              -- index = id
  sets : List (List Nat)        -- AgentSets made so far (member ids in order)
  rng : Rng                     -- model.random, shared by every set
deriving Repr, DecidableEq, Inhabited

inductive Err where | attr | key | index | value
deriving Repr, DecidableEq

/-- filter functions of the harness (total: a missing attribute reads as 0) -/
inductive Pred where
  | lt (k : Nat) (v : Int) | ge (k : Nat) (v : Int) | eq (k : Nat) (v : Int) | has (k : Nat) | oddUid
deriving Repr, DecidableEq

def Pred.eval (a : Agent) : Pred → Bool
  | .lt k v => decide ((a.attr k).getD 0 < v)
  | .ge k v => decide (v ≤ (a.attr k).getD 0)
  | .eq k v => decide ((a.attr k).getD 0 = v)
  | .has k => (a.attr k).isSome
  | .oddUid => (a.id + 1) % 2 == 1

/-- sort / group keys of the harness; `none` = the key function raises AttributeError -/
inductive Key where
  | attr (k : Nat)               -- attribute name (str) or `lambda a: a.k`
  | modAttr (k : Nat) (m : Nat)  -- `lambda a: a.k % m`   (m > 0: Python `%` = `Int.emod`)
  | negAttr (k : Nat)            -- `lambda a: -a.k`
  | ty                           -- `lambda a: TY[type(a)]`
  | uid                          -- "unique_id"
deriving Repr, DecidableEq

def Key.eval (a : Agent) : Key → Option Int
  | .attr k => a.attr k
  | .modAttr k m => (a.attr k).map (· % (m : Int))
  | .negAttr k => (a.attr k).map (- ·)
  | .ty => some a.ty
  | .uid => some (a.id + 1)

inductive AtMost where | inf | count (k : Nat)
deriving Repr, DecidableEq

def Store.agent (st : Store) (i : Nat) : Agent := st.pop[i]?.getD default
def Store.get (st : Store) (s : Nat) : List Nat := st.sets[s]?.getD []

/-- result of an AgentSet-returning method: in place (`_update`, returns self) or a new set -/
def Store.put (st : Store) (s : Nat) (inplace : Bool) (l : List Nat) : Store × Nat :=
  if inplace then ({ st with sets := st.sets.set s l }, s)
  else ({ st with sets := st.sets ++ [l] }, st.sets.length)

/-- `AgentSet(agents, random)`: `WeakKeyDictionary({agent: None for agent in agents})` -/
def mk (st : Store) (ids : List Nat) : Store × Nat := st.put 0 false (dedup ids)

/-- `AgentSet.select(filter_func, at_most, inplace, agent_type)` -/
def selectIds (st : Store) (l : List Nat) (pred : Option Pred) (ty : Option Nat) (am : AtMost) : List Nat :=
  match pred, ty, am with
  | none, none, .inf => l          -- `return self if inplace else copy.copy(self)`
  | _, _, _ =>
    selectGo
      (fun i => (match pred with | some p => p.eval (st.agent i) | none => true) &&
                (match ty with | some c => isInst (st.agent i).ty c | none => true))
      (match am with | .inf => none | .count k => some k) l 0

def select (st : Store) (s : Nat) (pred : Option Pred) (ty : Option Nat) (am : AtMost) (inplace : Bool) :
    Store × Nat :=
  st.put s inplace (selectIds st (st.get s) pred ty am)

/-- `AgentSet.shuffle(inplace)` -/
def shuffle (st : Store) (s : Nat) (inplace : Bool) : Store × Nat :=
  let (l, g) := Rng.shuffle (st.get s) st.rng
  { st with rng := g }.put s inplace l

/-- all key values, or `none` if the key function raises on some member -/
def keysOf (st : Store) (key : Key) (l : List Nat) : Option (List Int) :=
  l.mapM (fun i => key.eval (st.agent i))

/-- `AgentSet.sort(key, ascending, inplace)` -/
def sort (st : Store) (s : Nat) (key : Key) (asc : Bool) (inplace : Bool) : Except Err (Store × Nat) :=
  match keysOf st key (st.get s) with
  | none => .error .attr
  | some _ => .ok (st.put s inplace (sortL (fun i => (key.eval (st.agent i)).getD 0) asc (st.get s)))

/-- `AgentSet.groupby(by, result_type)`; with `result_type="agentset"` every group becomes a new set -/
def group (st : Store) (s : Nat) (key : Key) (asSets : Bool) : Except Err (Store × List (Int × List Nat)) :=
  match keysOf st key (st.get s) with
  | none => .error .attr
  | some _ =>
    let gs := groupBy (fun i => (key.eval (st.agent i)).getD 0) (st.get s)
    .ok (if asSets then { st with sets := st.sets ++ gs.map (·.2) } else st, gs)

inductive Missing where | error | default (d : Option Int) | bogus
deriving Repr, DecidableEq

/-- `[[getattr(agent, k, d) for k in ks] for agent in self]` (`none` = Python `None`) -/
def rowsOf (st : Store) (s : Nat) (ks : List Nat) (d : Option Int) : List (List (Option Int)) :=
  (st.get s).map fun i => ks.map fun k => match (st.agent i).attr k with | some v => some v | none => d

/-- does every member have every one of the attributes? -/
def allPresent (st : Store) (s : Nat) (ks : List Nat) : Bool :=
  (st.get s).all fun i => ks.all fun k => ((st.agent i).attr k).isSome

/-- `AgentSet.get(attr_names, handle_missing, default_value)`; one row per agent -/
def get (st : Store) (s : Nat) (ks : List Nat) : Missing → Except Err (List (List (Option Int)))
  | .error => if allPresent st s ks then .ok (rowsOf st s ks none) else .error .attr   -- getattr raises
  | .default d => .ok (rowsOf st s ks d)
  | .bogus => .error .value

/-- `AgentSet.set(attr_name, value)` -/
def setAttr (st : Store) (s : Nat) (k : Nat) (v : Int) : Store :=
  let l := st.get s
  { st with pop := st.pop.map fun a => if a.id ∈ l then a.setAttr k v else a }

inductive AggFn where | sum | min | max | len
deriving Repr, DecidableEq

/-- `AgentSet.agg(attribute, func)` = `func(self.get(attribute))` -/
def agg (st : Store) (s : Nat) (k : Nat) (f : AggFn) : Except Err Int :=
  match (st.get s).mapM (fun i => (st.agent i).attr k) with
  | none => .error .attr
  | some vs =>
    match f, vs with
    | .sum, _ => .ok vs.sum
    | .len, _ => .ok vs.length
    | .min, [] => .error .value
    | .max, [] => .error .value
    | .min, v :: rest => .ok (rest.foldl min v)
    | .max, v :: rest => .ok (rest.foldl max v)

inductive MapFn where
  | dbl (k : Nat)              -- callable `lambda a: a.k * 2 + 1`
  | plus (k : Nat) (d : Int)   -- method name "plus<k>" with argument d: returns `self.k + d`
  | nosuch                     -- a method name no agent has
deriving Repr, DecidableEq

/-- `AgentSet.map(method, *args)` (no churn here; C04 covers mutation during the call) -/
def map (st : Store) (s : Nat) : MapFn → Except Err (List Int)
  | .dbl k => match (st.get s).mapM (fun i => (st.agent i).attr k) with
    | none => .error .attr | some vs => .ok (vs.map (· * 2 + 1))
  | .plus k d => match (st.get s).mapM (fun i => (st.agent i).attr k) with
    | none => .error .attr | some vs => .ok (vs.map (· + d))
  | .nosuch => if st.get s = [] then .ok [] else .error .attr

/-- `agentset[i]` -/
def item (st : Store) (s : Nat) (i : Int) : Except Err Nat :=
  match pyIndex (st.get s) i with | some a => .ok a | none => .error .index

/-- `agentset[i:j]` -/
def slice (st : Store) (s : Nat) (i j : Int) : List Nat := pySlice (st.get s) i j

/-- `AgentSet.add` -/
def add (st : Store) (s : Nat) (a : Nat) : Store := { st with sets := st.sets.set s (addKey (st.get s) a) }

/-- `AgentSet.discard` -/
def discard (st : Store) (s : Nat) (a : Nat) : Store := { st with sets := st.sets.set s ((st.get s).erase a) }

/-- `AgentSet.remove`: `KeyError` for a non-member -/
def remove (st : Store) (s : Nat) (a : Nat) : Except Err Store :=
  if a ∈ st.get s then .ok (discard st s a) else .error .key

def contains (st : Store) (s : Nat) (a : Nat) : Bool := (st.get s).contains a
def len (st : Store) (s : Nat) : Nat := (st.get s).length

end Mesa.ASet
