import MesaModel.Base.Rng
import MesaModel.Base.ListOps
/-
Model of mesa/agent.py `AgentSet` and `GroupBy` as an ordered set with list semantics
(property C03).

The generic list functions (`selectGo`, `sortL`, `groupBy`, `addKey`, …) mirror the code of
each method branch by branch; the property theorems say they coincide with the list
operations the property names (`filter`/`take`, stable sort, permutation, partition).
`Store` puts them behind set names so that the in-place and the copying form of an
operation can be told apart: a population of agents with mutable integer attributes, all
registered with one model and held by the program until `kill` (death *during* an operation
is C04's subject), and the AgentSets the program has made so far.

`select(at_most=<float f ≤ 1.0>)`: the code computes `int(len(self) * f)` on IEEE doubles.
The model takes the resulting *count* (`AtMost.count k`); the driver computes `k` with
Lean's `Float` (same IEEE operations) from the fraction `p/q` the protocol carries.
-/
namespace Mesa.ASet

/-! ### list-level functions (what the theorems are about) -/

/-- `agent_generator` of `AgentSet.select`:
    `count = 0; for agent in self: if count >= at_most: break; if pred(agent): yield agent; count += 1` -/
def selectGo {α} (p : α → Bool) (atMost : Option Nat) : List α → Nat → List α
  | [], _ => []
  | a :: rest, c =>
    if (match atMost with | some k => decide (k ≤ c) | none => false) then []
    else if p a then a :: selectGo p atMost rest (c + 1)
    else selectGo p atMost rest c

/-- `sorted(keys, key=key, reverse=not ascending)`: CPython's sort is stable, and
    `reverse=True` keeps the original order among equal keys -/
def sortL {α} (key : α → Int) (asc : Bool) (l : List α) : List α :=
  l.mergeSort (fun a b => if asc then decide (key a ≤ key b) else decide (key b ≤ key a))

/-! ### the methods `AgentSet` inherits from `collections.abc.Set` / `MutableSet` / `Sequence`

`AgentSet` defines `__contains__`, `__iter__`, `__len__`, `add`, `discard`, `__getitem__` and
`_from_iterable(it) = AgentSet(it, random=self.random)` (an ordered de-duplication that carries the
set's generator); everything below is the mixin code of CPython's `_collections_abc.py` on top of them. -/
section mixins
variable {α : Type} [DecidableEq α]

/-- `Set.__or__` (= `__ror__`): `self._from_iterable(e for s in (self, other) for e in s)` -/
def unionL (l m : List α) : List α := dedup (l ++ m)

/-- `Set.__and__` (= `__rand__`): `self._from_iterable(value for value in other if value in self)` —
    it iterates *other*, so the result is in other's order -/
def interL (l m : List α) : List α := dedup (m.filter (fun x => x ∈ l))

/-- `Set.__sub__`: `self._from_iterable(value for value in self if value not in other)`; an `other`
    that is not a Set is first made one (`_from_iterable(other)`), which only matters through membership -/
def diffL (l m : List α) : List α := dedup (l.filter (fun x => x ∉ dedup m))

/-- `Set.__xor__` (= `__rxor__`): `(self - other) | (other - self)` (a non-Set `other` made a Set first) -/
def xorL (l m : List α) : List α := unionL (diffL l m) (diffL (dedup m) l)

/-- `Set.__le__`: `if len(self) > len(other): return False; for elem in self: if elem not in other: return False; return True` -/
def leL (l m : List α) : Bool := if m.length < l.length then false else l.all (fun x => x ∈ m)

/-- `Set.__ge__`: `if len(self) < len(other): return False; for elem in other: if elem not in self: …` -/
def geL (l m : List α) : Bool := if l.length < m.length then false else m.all (fun x => x ∈ l)

/-- `Set.__lt__`: `len(self) < len(other) and self.__le__(other)` -/
def ltL (l m : List α) : Bool := decide (l.length < m.length) && leL l m

/-- `Set.__gt__`: `len(self) > len(other) and self.__ge__(other)` -/
def gtL (l m : List α) : Bool := decide (m.length < l.length) && geL l m

/-- `Set.__eq__`: `len(self) == len(other) and self.__le__(other)` (`!=` is its negation) -/
def eqL (l m : List α) : Bool := decide (l.length = m.length) && leL l m

/-- `Set.isdisjoint`: `for value in other: if value in self: return False; return True` -/
def disjointL (l m : List α) : Bool := m.all (fun x => x ∉ l)

/-- `MutableSet.pop`: `it = iter(self); value = next(it)` (`StopIteration` → `KeyError`);
    `self.discard(value); return value` — the *first* member -/
def popL : List α → Option (α × List α)
  | [] => none
  | a :: rest => some (a, rest)

/-- `MutableSet.clear`: `try: while True: self.pop() except KeyError: pass` -/
def clearL (l : List α) : List α :=
  go l.length l
where
  go : Nat → List α → List α
    | 0, l => l
    | f + 1, l => match popL l with | none => l | some (_, rest) => go f rest

/-- `MutableSet.__ior__`: `for value in it: self.add(value)` -/
def iorL (l m : List α) : List α := m.foldl addKey l

/-- the loop `for value in it: self.discard(value)` -/
def discardAll (l m : List α) : List α := m.foldl (fun acc x => acc.erase x) l

/-- `MutableSet.__iand__`: `for value in (self - it): self.discard(value)` — keeps *self's* order -/
def iandL (l m : List α) : List α := discardAll l (diffL l m)

/-- `MutableSet.__isub__`: `if it is self: self.clear() else: for value in it: self.discard(value)` -/
def isubL (l m : List α) (same : Bool) : List α := if same then clearL l else discardAll l m

/-- `MutableSet.__ixor__`: `if it is self: self.clear()`, else (a non-Set `it` made a Set first)
    `for value in it: if value in self: self.discard(value) else: self.add(value)` -/
def ixorL (l m : List α) (same : Bool) : List α :=
  if same then clearL l
  else (dedup m).foldl (fun acc v => if v ∈ acc then acc.erase v else addKey acc v) l

/-- `not (stop is None or i < stop)` -/
def stopHit (stop : Option Int) (i : Nat) : Bool :=
  match stop with | some s => decide (s ≤ (i : Int)) | none => false

/-- the loop of `Sequence.index`: `while stop is None or i < stop: try: v = self[i] except IndexError:
    break; if v is value: return i; i += 1` then `raise ValueError` (`none`) -/
def indexGo (v : α) (stop : Option Int) : List α → Nat → Option Nat
  | [], _ => none
  | a :: rest, i =>
    if stopHit stop i then none
    else if a = v then some i else indexGo v stop rest (i + 1)

/-- `Sequence.index(value, start=0, stop=None)`:
    `if start < 0: start = max(len(self) + start, 0)`; `if stop is not None and stop < 0: stop += len(self)` -/
def indexL (l : List α) (v : α) (start : Int) (stop : Option Int) : Option Nat :=
  let n : Int := l.length
  let s0 : Nat := (if start < 0 then max (n + start) 0 else start).toNat
  indexGo v (stop.map fun s => if s < 0 then s + n else s) (l.drop s0) s0

/-- `Sequence.count`: `sum(1 for v in self if v is value or v == value)` -/
def countL (l : List α) (v : α) : Nat := l.count v

/-- `Sequence.__reversed__`: `for i in reversed(range(len(self))): yield self[i]` -/
def reversedL (l : List α) : List α := l.reverse

end mixins

/-! ### the store -/

structure Agent where
  id : Nat                      -- harness name; `unique_id = id + 1`
  ty : Nat                      -- exact class (index into the harness hierarchy)
  attrs : List (Nat × Int)      -- attribute index → value (an absent index = no such attribute)
deriving Repr, DecidableEq, Inhabited

def Agent.attr (a : Agent) (k : Nat) : Option Int := a.attrs.lookup k

/-- `setattr(agent, k, v)` -/
def Agent.setAttr (a : Agent) (k : Nat) (v : Int) : Agent :=
  { a with attrs := (k, v) :: a.attrs.filter (fun kv => kv.1 ≠ k) }

/-- class hierarchy of the harness: `T0 ← T1 ← T2`, `T3` apart; `isinstance(agent, cls)` -/
def isInst (ty cls : Nat) : Bool :=
  ty == cls || (cls == 0 && (ty == 1 || ty == 2)) || (cls == 1 && ty == 2)

structure Store where
  pop : List Agent              -- index = id
  sets : List (List Nat)        -- AgentSets made so far (member ids in order)
  rng : Rng                     -- model.random, shared by every set
  dead : List Nat := []         -- agents that have died (removed from the model, no reference left in the program)
deriving Repr, DecidableEq, Inhabited

inductive Err where | attr | key | index | value | type
deriving Repr, DecidableEq

/-- filter functions of the harness (total: a missing attribute reads as 0) -/
inductive Pred where
  | lt (k : Nat) (v : Int) | ge (k : Nat) (v : Int) | eq (k : Nat) (v : Int) | has (k : Nat) | oddUid
deriving Repr, DecidableEq

def Pred.eval (a : Agent) : Pred → Bool
  | .lt k v => decide ((a.attr k).getD 0 < v)
  | .ge k v => decide (v ≤ (a.attr k).getD 0)
  | .eq k v => decide ((a.attr k).getD 0 = v)
  | .has k => (a.attr k).isSome
  | .oddUid => (a.id + 1) % 2 == 1

/-- sort / group keys of the harness; `none` = the key function raises AttributeError -/
inductive Key where
  | attr (k : Nat)               -- attribute name (str) or `lambda a: a.k`
  | modAttr (k : Nat) (m : Nat)  -- `lambda a: a.k % m`   (m > 0: Python `%` = `Int.emod`)
  | negAttr (k : Nat)            -- `lambda a: -a.k`
  | ty                           -- `lambda a: TY[type(a)]`
  | uid                          -- "unique_id"
deriving Repr, DecidableEq

def Key.eval (a : Agent) : Key → Option Int
  | .attr k => a.attr k
  | .modAttr k m => (a.attr k).map (· % (m : Int))
  | .negAttr k => (a.attr k).map (- ·)
  | .ty => some a.ty
  | .uid => some (a.id + 1)

/-- the keys a program can write with the key functions above: `a.k % 0` raises `ZeroDivisionError` in Python, an arm the
    model does not have — the driver refuses `mod:<k>:0` (`bad-op`) and the theorems about raising keys assume `WellFormed` -/
def Key.WellFormed : Key → Prop
  | .modAttr _ m => 0 < m
  | _ => True

inductive AtMost where | inf | count (k : Nat)
deriving Repr, DecidableEq

def Store.agent (st : Store) (i : Nat) : Agent := st.pop[i]?.getD default
def Store.get (st : Store) (s : Nat) : List Nat := st.sets[s]?.getD []

/-- result of an AgentSet-returning method: in place (`_update`, returns self) or a new set -/
def Store.put (st : Store) (s : Nat) (inplace : Bool) (l : List Nat) : Store × Nat :=
  if inplace then ({ st with sets := st.sets.set s l }, s)
  else ({ st with sets := st.sets ++ [l] }, st.sets.length)

/-- `AgentSet(agents, random)`: `WeakKeyDictionary({agent: None for agent in agents})` -/
def mk (st : Store) (ids : List Nat) : Store × Nat := st.put 0 false (dedup ids)

/-- `AgentSet.select(filter_func, at_most, inplace, agent_type)` -/
def selectIds (st : Store) (l : List Nat) (pred : Option Pred) (ty : Option Nat) (am : AtMost) : List Nat :=
  match pred, ty, am with
  | none, none, .inf => l          -- `return self if inplace else copy.copy(self)`
  | _, _, _ =>
    selectGo
      (fun i => (match pred with | some p => p.eval (st.agent i) | none => true) &&
                (match ty with | some c => isInst (st.agent i).ty c | none => true))
      (match am with | .inf => none | .count k => some k) l 0

def select (st : Store) (s : Nat) (pred : Option Pred) (ty : Option Nat) (am : AtMost) (inplace : Bool) :
    Store × Nat :=
  st.put s inplace (selectIds st (st.get s) pred ty am)

/-- `AgentSet.shuffle(inplace)` -/
def shuffle (st : Store) (s : Nat) (inplace : Bool) : Store × Nat :=
  let (l, g) := Rng.shuffle (st.get s) st.rng
  { st with rng := g }.put s inplace l

/-- all key values, or `none` if the key function raises on some member -/
def keysOf (st : Store) (key : Key) (l : List Nat) : Option (List Int) :=
  l.mapM (fun i => key.eval (st.agent i))

/-- `AgentSet.sort(key, ascending, inplace)` -/
def sort (st : Store) (s : Nat) (key : Key) (asc : Bool) (inplace : Bool) : Except Err (Store × Nat) :=
  match keysOf st key (st.get s) with
  | none => .error .attr
  | some _ => .ok (st.put s inplace (sortL (fun i => (key.eval (st.agent i)).getD 0) asc (st.get s)))

/-- `AgentSet.groupby(by, result_type)`; with `result_type="agentset"` every group becomes a new set -/
def group (st : Store) (s : Nat) (key : Key) (asSets : Bool) : Except Err (Store × List (Int × List Nat)) :=
  match keysOf st key (st.get s) with
  | none => .error .attr
  | some _ =>
    let gs := groupBy (fun i => (key.eval (st.agent i)).getD 0) (st.get s)
    .ok (if asSets then { st with sets := st.sets ++ gs.map (·.2) } else st, gs)

inductive Missing where | error | default (d : Option Int) | bogus
deriving Repr, DecidableEq

/-- `[[getattr(agent, k, d) for k in ks] for agent in self]` (`none` = Python `None`) -/
def rowsOf (st : Store) (s : Nat) (ks : List Nat) (d : Option Int) : List (List (Option Int)) :=
  (st.get s).map fun i => ks.map fun k => match (st.agent i).attr k with | some v => some v | none => d

/-- does every member have every one of the attributes? -/
def allPresent (st : Store) (s : Nat) (ks : List Nat) : Bool :=
  (st.get s).all fun i => ks.all fun k => ((st.agent i).attr k).isSome

/-- `AgentSet.get(attr_names, handle_missing, default_value)`; one row per agent -/
def get (st : Store) (s : Nat) (ks : List Nat) : Missing → Except Err (List (List (Option Int)))
  | .error => if allPresent st s ks then .ok (rowsOf st s ks none) else .error .attr   -- getattr raises
  | .default d => .ok (rowsOf st s ks d)
  | .bogus => .error .value

/-- `AgentSet.set(attr_name, value)` -/
def setAttr (st : Store) (s : Nat) (k : Nat) (v : Int) : Store :=
  let l := st.get s
  { st with pop := st.pop.map fun a => if a.id ∈ l then a.setAttr k v else a }

inductive AggFn where | sum | min | max | len
deriving Repr, DecidableEq

/-- `AgentSet.agg(attribute, func)` = `func(self.get(attribute))` -/
def agg (st : Store) (s : Nat) (k : Nat) (f : AggFn) : Except Err Int :=
  match (st.get s).mapM (fun i => (st.agent i).attr k) with
  | none => .error .attr
  | some vs =>
    match f, vs with
    | .sum, _ => .ok vs.sum
    | .len, _ => .ok vs.length
    | .min, [] => .error .value
    | .max, [] => .error .value
    | .min, v :: rest => .ok (rest.foldl min v)
    | .max, v :: rest => .ok (rest.foldl max v)

/-! ### `getattr(agent, name)` — what a method *name* denotes on an agent

`AgentSet.map("name", d)` evaluates `getattr(agent, name)(d)` for every member.  The lookup is Python's (no data descriptors
among the harness' names): the instance `__dict__` first — whatever is stored there is returned as it is, never bound —, then
the class along its MRO, whose entry answers through its `__get__`: a plain function binds the *agent*, a `staticmethod`
nothing, a `classmethod` the agent's *exact class*; any other callable object is returned as it is. -/

/-- the bodies of the harness' callables -/
inductive Body where
  | plusAttr (k : Nat)        -- `def plus<k>(self, d): return self.<k> + d`
  | twice                     -- `def base(d): return 2 * d`
  | rankPlus                  -- `def rank(cls, d): return TY[cls] + d`
  | decoy                     -- `def own<k>(self, d): return -999` (class level)
  | triple (owner k : Nat)    -- `_Own(owner, <k>)`: `__call__(d) = 3 * owner.<k> + d` (a callable object that knows its owner)
deriving Repr, DecidableEq

/-- an entry of a `__dict__` -/
inductive Entry where
  | function (b : Body)
  | staticmethod (b : Body)
  | classmethod (b : Body)
  | object (b : Body)         -- a callable that is not a descriptor
deriving Repr, DecidableEq

/-- what the callable that the lookup produced passes *before* the caller's arguments -/
inductive Recv where
  | nothing
  | agent (i : Nat)
  | cls (ty : Nat)
deriving Repr, DecidableEq

/-- `getattr(agent, name)` given the entry of the agent's own `__dict__` and the first entry along the MRO of its class;
    `none` = `AttributeError` -/
def resolve (inst cls : Option Entry) (i ty : Nat) : Option (Body × Recv) :=
  match inst with
  | some (.function b) | some (.staticmethod b) | some (.classmethod b) | some (.object b) => some (b, .nothing)
  | none =>
    match cls with
    | some (.function b) => some (b, .agent i)
    | some (.staticmethod b) => some (b, .nothing)
    | some (.classmethod b) => some (b, .cls ty)
    | some (.object b) => some (b, .nothing)
    | none => none

/-- calling a body with what it was bound to and the one argument `d`; a body that gets one positional argument too few or
    too many raises `TypeError` -/
def Body.call (st : Store) : Body → Recv → Int → Except Err Int
  | .plusAttr k, .agent i, d => match (st.agent i).attr k with | some v => .ok (v + d) | none => .error .attr
  | .twice, .nothing, d => .ok (2 * d)
  | .rankPlus, .cls ty, d => .ok ((ty : Int) + d)
  | .decoy, .agent _, _ => .ok (-999)
  | .triple o k, .nothing, d => match (st.agent o).attr k with | some v => .ok (3 * v + d) | none => .error .attr
  | _, _, _ => .error .type

/-- the method names `map` is called with -/
inductive Name where
  | plus (k : Nat) | base | rank | own (k : Nat) | nosuch
deriving Repr, DecidableEq

/-- the harness' classes (`T0 ← T1 ← T2` and `T3`): every one of them finds the same entries along its MRO -/
def classEntry (_ty : Nat) : Name → Option Entry
  | .plus k => some (.function (.plusAttr k))
  | .base => some (.staticmethod .twice)
  | .rank => some (.classmethod .rankPlus)
  | .own _ => some (.function .decoy)
  | .nosuch => none

/-- the harness' instances: `self.own<k> = _Own(self, <k>)` in `__init__`, nothing else callable -/
def instEntry (i : Nat) : Name → Option Entry
  | .own k => some (.object (.triple i k))
  | _ => none

/-- `getattr(agent_i, name)(d)` -/
def callByName (st : Store) (name : Name) (d : Int) (i : Nat) : Except Err Int :=
  match resolve (instEntry i name) (classEntry (st.agent i).ty name) i (st.agent i).ty with
  | none => .error .attr
  | some (b, r) => b.call st r d

/-- a list comprehension whose element expression may raise: the first exception leaves it -/
def mapE (f : Nat → Except Err Int) : List Nat → Except Err (List Int)
  | [] => .ok []
  | i :: rest =>
    match f i with
    | .error e => .error e
    | .ok v => match mapE f rest with | .error e => .error e | .ok vs => .ok (v :: vs)

inductive MapFn where
  | dbl (k : Nat)              -- callable `lambda a: a.k * 2 + 1`
  | plus (k : Nat) (d : Int)   -- method name "plus<k>" with argument d: returns `self.k + d`
  | nosuch                     -- a method name no agent has
  | stat (d : Int)             -- the name of a `@staticmethod` "base": `agent.base(d)` = `2 * d`
  | cls (d : Int)              -- the name of a `@classmethod` "rank": `agent.rank(d)` = index of the agent's exact class + d
  | own (k : Nat) (d : Int)    -- the name "own<k>" of a callable stored on each *instance* (the class has a decoy of the
                               -- same name): `agent.own<k>(d)` = `3 * agent.k + d`
deriving Repr, DecidableEq

/-- `AgentSet.map(method, *args)` (no churn here; C04 covers mutation during the call): a callable is applied to every member,
    a *name* is looked up on every member (`callByName`) -/
def map (st : Store) (s : Nat) : MapFn → Except Err (List Int)
  | .dbl k => match (st.get s).mapM (fun i => (st.agent i).attr k) with
    | none => .error .attr | some vs => .ok (vs.map (· * 2 + 1))
  | .plus k d => mapE (callByName st (.plus k) d) (st.get s)
  | .nosuch => mapE (callByName st .nosuch 0) (st.get s)
  | .stat d => mapE (callByName st .base d) (st.get s)
  | .cls d => mapE (callByName st .rank d) (st.get s)
  | .own k d => mapE (callByName st (.own k) d) (st.get s)

/-- `agentset[i]` -/
def item (st : Store) (s : Nat) (i : Int) : Except Err Nat :=
  match pyIndex (st.get s) i with | some a => .ok a | none => .error .index

/-- `agentset[i:j]` -/
def slice (st : Store) (s : Nat) (i j : Int) : List Nat := pySlice (st.get s) i j

/-- `AgentSet.add` -/
def add (st : Store) (s : Nat) (a : Nat) : Store := { st with sets := st.sets.set s (addKey (st.get s) a) }

/-- `AgentSet.discard` -/
def discard (st : Store) (s : Nat) (a : Nat) : Store := { st with sets := st.sets.set s ((st.get s).erase a) }

/-- `AgentSet.remove`: `KeyError` for a non-member -/
def remove (st : Store) (s : Nat) (a : Nat) : Except Err Store :=
  if a ∈ st.get s then .ok (discard st s a) else .error .key

def contains (st : Store) (s : Nat) (a : Nat) : Bool := (st.get s).contains a
def len (st : Store) (s : Nat) : Nat := (st.get s).length

/-- `agent.remove()` followed by the program dropping its last reference: the agent dies, and — every
    AgentSet holding only weak references — it is gone from *every* set at once (original and derived alike);
    the other members keep their order (`WeakKeyDictionary`'s removal callback deletes the one key) -/
def kill (st : Store) (a : Nat) : Store :=
  { st with sets := st.sets.map (fun l => l.erase a), dead := a :: st.dead }

/-! ### set algebra, comparisons, `pop` / `clear`, `index` / `count` / `reversed` on the store -/

/-- the right-hand operand: another AgentSet of the store, or a plain iterable of agents
    (a list or generator, duplicates allowed) -/
inductive Other where
  | set (k : Nat)
  | list (ids : List Nat)
deriving Repr, DecidableEq

def Store.other (st : Store) : Other → List Nat
  | .set k => st.get k
  | .list ids => ids

/-- `|`, `&`, `-`, `^`, and `list - agentset` (`__rsub__`; the other reflected forms are the
    same functions: `__ror__ = __or__`, `__rand__ = __and__`, `__rxor__ = __xor__`) -/
inductive SetOp where | or | and | sub | xor | rsub
deriving Repr, DecidableEq

def SetOp.eval (l m : List Nat) : SetOp → List Nat
  | .or => unionL l m
  | .and => interL l m
  | .sub => diffL l m
  | .xor => xorL l m
  | .rsub => diffL (dedup m) l     -- `other = self._from_iterable(other)`, then the members of `other` not in self

/-- `a | b`, `a & b`, `a - b`, `a ^ b`, `[…] - a`: always a new AgentSet built by `_from_iterable` -/
def setop (st : Store) (op : SetOp) (s : Nat) (o : Other) : Store × Nat :=
  st.put s false (op.eval (st.get s) (st.other o))

/-- `a |= b`, `a &= b`, `a -= b`, `a ^= b`: mutate `a` through `add` / `discard`, return `a` -/
def isetopL (l m : List Nat) (same : Bool) : SetOp → List Nat
  | .or => iorL l m
  | .and => iandL l m
  | .sub => isubL l m same
  | .xor => ixorL l m same
  | .rsub => l                     -- (no in-place reflected form; the driver does not offer it)

def isetop (st : Store) (op : SetOp) (s : Nat) (o : Other) : Store :=
  { st with sets := st.sets.set s (isetopL (st.get s) (st.other o) (decide (o = .set s)) op) }

inductive CmpOp where | le | lt | ge | gt | eq | ne
deriving Repr, DecidableEq

/-- `a <= b`, `a < b`, `a >= b`, `a > b`, `a == b`, `a != b` between two AgentSets -/
def cmp (st : Store) (op : CmpOp) (s t : Nat) : Bool :=
  let l := st.get s
  let m := st.get t
  match op with
  | .le => leL l m | .lt => ltL l m | .ge => geL l m | .gt => gtL l m | .eq => eqL l m | .ne => !eqL l m

def isdisjoint (st : Store) (s : Nat) (o : Other) : Bool := disjointL (st.get s) (st.other o)

/-- `AgentSet.pop()` (inherited): removes and returns the first member; `KeyError` on an empty set -/
def pop (st : Store) (s : Nat) : Except Err (Store × Nat) :=
  match popL (st.get s) with
  | none => .error .key
  | some (a, rest) => .ok ({ st with sets := st.sets.set s rest }, a)

/-- `AgentSet.clear()` (inherited) -/
def clear (st : Store) (s : Nat) : Store := { st with sets := st.sets.set s (clearL (st.get s)) }

/-- `agentset.index(agent[, start[, stop]])`: `ValueError` if not found in the range -/
def index (st : Store) (s : Nat) (a : Nat) (start : Int) (stop : Option Int) : Except Err Nat :=
  match indexL (st.get s) a start stop with | some i => .ok i | none => .error .value

def count (st : Store) (s : Nat) (a : Nat) : Nat := countL (st.get s) a
def reversed (st : Store) (s : Nat) : List Nat := reversedL (st.get s)

end Mesa.ASet
