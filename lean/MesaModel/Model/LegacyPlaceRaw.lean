import MesaModel.Model.Legacy
/-
`place_agent` of the legacy grids for *arbitrary* integer coordinates (round 3; C18's "placing outside a bounded space").
`SingleGrid.place_agent` / `MultiGrid.place_agent` do not call `torus_adj` or `out_of_bounds`: they index `self._grid[x][y]`
and `self._empty_mask[pos]` raw.  Beyond `-size .. size-1` the first of these raises IndexError before anything is written
(on a torus too: `place_agent` never wraps).  A coordinate in `-size .. -1` aliases the cell counted from the end (Python list
indexing and numpy agree): the agent is stored in that cell and the mask is cleared there, but `agent.pos` and
`_empties.discard(pos)` use the coordinates as given — outside the property's quantifier; modelled for the call itself.
-/
namespace Mesa.Legacy

namespace Grid

/-- `place_agent(agent, p)` where `p` indexes the cell `c` (`c = p` for in-grid coordinates) -/
def placeAt (g : Grid) (a : Aid) (p c : Coord) : Grid × Res :=
  if g.multi then
    if g.pos a = none ∨ a ∉ g.content c then
      ({ g with content := upd g.content c (g.content c ++ [a]), pos := updA g.pos a (some p),
                empties := g.empties.map (sdiscard p), mask := upd g.mask c false }, .ok)
    else (g, .ok)
  else if g.isCellEmpty c then
    ({ g with content := upd g.content c [a], empties := g.empties.map (sdiscard p),
              mask := upd g.mask c false, pos := updA g.pos a (some p) }, .ok)
  else (g, .err .full)

/-- `place_agent` for arbitrary integers: IndexError beyond `-size .. size-1`, before anything is written -/
def placeRaw (g : Grid) (a : Aid) (p : Coord) : Grid × Res :=
  match g.rawCell p with
  | .error e => (g, .err e)
  | .ok c => g.placeAt a p c

end Grid

/-- a call of a history in which `place_agent` takes arbitrary integer coordinates -/
def stepR (g : Grid) : Op → Grid × Res
  | .place a p => g.placeRaw a p
  | op => step g op

def runR (g : Grid) : List Op → Grid
  | [] => g
  | op :: ops => runR (stepR g op).1 ops

end Mesa.Legacy
