import MesaModel.Gen.CellTables
/-!
Model of the *geometry* of mesa's cell spaces (property C07):
`mesa/discrete_space/grid.py` (`_connect_cells_2d/_nd`, `_connect_single_cell_2d/_nd`),
`network.py` (`_connect_single_cell`), `voronoi.py` (`VoronoiGrid._connect_cells` over a given
triangle list) and `cell.py` (`Cell._neighborhood`, `get_neighborhood`, `neighborhood` with their
`functools.cache` / `cached_property` memo tables).

Cells are named by their key in `space._cells`: the coordinate tuple of a grid cell, `[node]`
for a `Network` node, `[i]` for the i-th Voronoi centroid.  Connection keys are the keys of
`Cell.connections`: the offset tuple (grids), `[node]` (network), `[i, j]` (Voronoi).
A Python dict is a list without duplicate keys in insertion order.

Core Lean only; no Mathlib.
-/
namespace Mesa.Cells

abbrev Coord := List Int
abbrev Key := List Int

/-! ### offset tables -/

/-- `itertools.product([-1, 0, 1], repeat=n)` in its iteration order -/
def prod3 : Nat → List (List Int)
  | 0 => [[]]
  | n+1 => [-1, 0, 1].flatMap (fun x => (prod3 n).map (x :: ·))

def zeroVec (n : Nat) : List Int := List.replicate n 0

/-- `OrthogonalMooreGrid._connect_cells_nd`:
    `offsets = list(product([-1,0,1], repeat=n)); offsets.remove((0,)*n)` -/
def mooreOffsets (n : Nat) : List (List Int) := (prod3 n).erase (zeroVec n)

/-- `offset = [0]*n; offset[dim] = delta` -/
def unitVec (n dim : Nat) (delta : Int) : List Int := (zeroVec n).set dim delta

/-- `OrthogonalVonNeumannGrid._connect_cells_nd`: for dim in range(n): for delta in [-1, 1] -/
def vnOffsets (n : Nat) : List (List Int) :=
  (List.range n).flatMap (fun dim => [unitVec n dim (-1), unitVec n dim 1])

/-! ### connecting one cell -/

/-- `tuple(c + dc for c, dc in zip(coord, d_coord))` -/
def addv (c d : List Int) : List Int := List.zipWith (· + ·) c d

/-- `tuple(nc % d for nc, d in zip(n_coord, self.dimensions))`; Python's `%` with a positive
    modulus is `Int.emod` -/
def wrapv (c : List Int) (dims : List Nat) : List Int :=
  List.zipWith (fun x (w : Nat) => x % (w : Int)) c dims

/-- `all(0 <= nc < d for nc, d in zip(n_coord, self.dimensions))` -/
def inb (c : List Int) (dims : List Nat) : Bool :=
  (List.zipWith (fun x (w : Nat) => decide (0 ≤ x ∧ x < (w : Int))) c dims).all id

/-- `Grid._connect_single_cell_nd` for one offset: the coordinate of the connected cell -/
def connectNd (dims : List Nat) (torus : Bool) (c d : List Int) : Option Coord :=
  let n := addv c d
  let n := if torus then wrapv n dims else n
  if inb n dims then some n else none

/-- `Grid._connect_single_cell_2d` for one offset (`height, width = self.dimensions`) -/
def connect2d (height width : Nat) (torus : Bool) (i j di dj : Int) : Option (Int × Int) :=
  let ni := i + di
  let nj := j + dj
  let ni := if torus then ni % (height : Int) else ni
  let nj := if torus then nj % (width : Int) else nj
  if 0 ≤ ni ∧ ni < (height : Int) ∧ 0 ≤ nj ∧ nj < (width : Int) then some (ni, nj) else none

inductive GridKind where | moore | vn | hex
deriving Repr, DecidableEq

/-- `HexGrid._connect_cells_2d`: `offsets = even_offsets if i % 2 else odd_offsets` with
    `i = cell.coordinate[1]`; the two tables are the generated constants -/
def hexTable (j : Int) : List (Int × Int) :=
  if j % 2 ≠ 0 then Gen.hexWhenOdd else Gen.hexWhenEven

/-- the offset list `_connect_cells_2d` uses for the cell with second coordinate `j` -/
def offsets2d (k : GridKind) (j : Int) : List (Int × Int) :=
  match k with
  | .moore => Gen.moore2d
  | .vn => Gen.vn2d
  | .hex => hexTable j

/-- the offset list `_connect_cells_nd` uses; `none`: `NotImplementedError` (hex) -/
def offsetsNd (k : GridKind) (n : Nat) : List (List Int) :=
  match k with
  | .moore => mooreOffsets n
  | .vn => vnOffsets n
  | .hex => []

/-- `Cell.connections` of the grid cell `c` after `Grid._connect_cells`: the dict
    offset ↦ cell, in insertion order (`_ndims == 2` selects the 2-D code path) -/
def gridConn (k : GridKind) (dims : List Nat) (torus : Bool) (c : Coord) : List (Key × Coord) :=
  match dims with
  | [h, w] =>
    match c with
    | [i, j] => (offsets2d k j).filterMap fun (di, dj) =>
        (connect2d h w torus i j di dj).map fun (ni, nj) => ([di, dj], [ni, nj])
    | _ => []
  | _ => (offsetsNd k dims.length).filterMap fun d => (connectNd dims torus c d).map fun n => (d, n)

/-- `product(*(range(dim) for dim in dimensions))`: the keys of `Grid._cells` in order -/
def allCoords : List Nat → List Coord
  | [] => [[]]
  | d :: ds => (List.range d).flatMap (fun (x : Nat) => (allCoords ds).map ((x : Int) :: ·))

/-! ### dict-as-list helpers -/

section Generic
variable {α : Type} [DecidableEq α]

/-- `d[x] = …` on a dict whose values are determined by the key: a new key goes to the end,
    an existing key keeps its place -/
def dictAdd (acc : List α) (x : α) : List α := if x ∈ acc then acc else acc ++ [x]

/-- `d.update(v)` / a dict comprehension over `v` -/
def dictUpdate (acc v : List α) : List α := v.foldl dictAdd acc

/-- first binding of a key in an association list (`dict.get`) -/
def assocGet {β : Type} (m : List (α × β)) (k : α) : Option β :=
  match m with
  | [] => none
  | (k', v) :: rest => if k' = k then some v else assocGet rest k

/-- `d[k] = v` on a dict given as a list of items: an existing key keeps its place and gets the new value,
    a new key goes to the end -/
def dictSet {β : Type} (m : List (α × β)) (k : α) (v : β) : List (α × β) :=
  match m with
  | [] => [(k, v)]
  | (k', v') :: rest => if k' = k then (k, v) :: rest else (k', v') :: dictSet rest k v

/-- `for key in [k for k, v in d.items() if v == x]: del d[key]` -/
def dictDropValue {κ : Type} (m : List (κ × α)) (x : α) : List (κ × α) := m.filter fun p => p.2 ≠ x

/-- `Cell.connect(other, key)` as an edit of the connection structure `conn` (cell ↦ its `connections` dict):
    `self.connections[key] = other` -/
def connectConn {κ : Type} [DecidableEq κ] (conn : α → List (κ × α)) (c other : α) (key : κ) : α → List (κ × α) :=
  fun x => if x = c then dictSet (conn c) key other else conn x

/-- `Cell.disconnect(other)`: every key of `self.connections` that leads to `other` is deleted -/
def disconnectConn {κ : Type} (conn : α → List (κ × α)) (c other : α) : α → List (κ × α) :=
  fun x => if x = c then dictDropValue (conn c) other else conn x

/-! ### neighbourhoods (`Cell._neighborhood`, repaired S14/S15 semantics)

`nb c` is `c.connections.values()` as a list of cells. -/

/-- `Cell._neighborhood(radius, include_center)` without the memo table; radius 0 is rejected by
    the caller (`ValueError`) -/
def nbhd (nb : α → List α) : Nat → Bool → α → List α
  | 0, _, _ => []
  | 1, ic, c =>
      let u := dictUpdate [] (nb c)
      if ic then dictAdd u c else u.erase c
  | r+2, ic, c =>
      let u := (nb c).foldl (fun acc n => dictUpdate acc (nbhd nb (r+1) true n)) []
      if ic then dictAdd u c else u.erase c

/-- memo table of a `functools.cache`d method: (cell, radius, include_center) ↦ result -/
abbrev Memo (α : Type) := List ((α × Nat × Bool) × List α)

/-- `Cell._neighborhood` as the code runs it: every call (also the recursive ones) first looks
    into the memo table and stores its result there -/
def nbhdC (nb : α → List α) : Nat → Bool → α → Memo α → List α × Memo α
  | 0, _, _, m => ([], m)
  | 1, ic, c, m =>
    match assocGet m (c, 1, ic) with
    | some v => (v, m)
    | none =>
      let u := dictUpdate [] (nb c)
      let res := if ic then dictAdd u c else u.erase c
      (res, ((c, 1, ic), res) :: m)
  | r+2, ic, c, m =>
    match assocGet m (c, r+2, ic) with
    | some v => (v, m)
    | none =>
      let um := (nb c).foldl
        (fun (am : List α × Memo α) n =>
          let vm := nbhdC nb (r+1) true n am.2
          (dictUpdate am.1 vm.1, vm.2)) ([], m)
      let res := if ic then dictAdd um.1 c else um.1.erase c
      (res, ((c, r+2, ic), res) :: um.2)

/-- the three memo tables of a space's cells: `_neighborhood` (`@cache`), `get_neighborhood`
    (`@cache`) and the `neighborhood` `cached_property` -/
structure Caches (α : Type) where
  inner : Memo α := []
  outer : Memo α := []
  prop : List (α × List α) := []

/-- `Cell._forget_neighborhoods` (repair SC2), called by `connect` / `disconnect` of cell `c`:
    `_neighborhood.cache_clear()`, `get_neighborhood.cache_clear()` (the memo tables of *all* cells) and
    `c.__dict__.pop("neighborhood", None)` -/
def Caches.forget (cs : Caches α) (c : α) : Caches α :=
  { inner := [], outer := [], prop := cs.prop.filter fun p => p.1 ≠ c }

/-- `cell.get_neighborhood(radius, include_center)` for radius ≥ 1 -/
def getNbhd (nb : α → List α) (r : Nat) (ic : Bool) (c : α) (cs : Caches α) : List α × Caches α :=
  match assocGet cs.outer (c, r, ic) with
  | some v => (v, cs)
  | none =>
    let vm := nbhdC nb r ic c cs.inner
    (vm.1, { cs with inner := vm.2, outer := ((c, r, ic), vm.1) :: cs.outer })

/-- `cell.neighborhood` -/
def nbProp (nb : α → List α) (c : α) (cs : Caches α) : List α × Caches α :=
  match assocGet cs.prop c with
  | some v => (v, cs)
  | none =>
    let vm := getNbhd nb 1 false c cs
    (vm.1, { vm.2 with prop := (c, vm.1) :: vm.2.prop })

end Generic

/-! ### Network and Voronoi connections -/

/-- `G.neighbors(u)` for a graph built by `add_nodes_from(range(n)); add_edges_from(edges)`:
    the adjacency dict of `u` in insertion order (`directed`: successors only) -/
def netAdj (directed : Bool) (edges : List (Nat × Nat)) (u : Nat) : List Nat :=
  dictUpdate [] (edges.flatMap fun (a, b) =>
    (if a = u then [b] else []) ++ (if !directed && b = u then [a] else []))

/-- `Network._connect_single_cell`: `cell.connect(self._cells[node_id], node_id)` -/
def netConn (directed : Bool) (edges : List (Nat × Nat)) (c : Coord) : List (Key × Coord) :=
  match c with
  | [u] => if 0 ≤ u then (netAdj directed edges u.toNat).map fun (v : Nat) => ([(v : Int)], [(v : Int)]) else []
  | _ => []

/-- the `connect` calls `VoronoiGrid._connect_cells` makes for one exported triangle:
    `for i, j in combinations(t, 2): cells[i].connect(cells[j], (i, j)); cells[j].connect(cells[i], (j, i))` -/
def triPairs (t : Nat × Nat × Nat) : List (Nat × Nat) :=
  let (a, b, c) := t
  [(a, b), (b, a), (a, c), (c, a), (b, c), (c, b)]

/-- connections of Voronoi cell `i` given the exported triangle list -/
def vorAdj (tris : List (Nat × Nat × Nat)) (i : Nat) : List Nat :=
  dictUpdate [] (((tris.flatMap triPairs).filter (·.1 = i)).map (·.2))

def vorConn (tris : List (Nat × Nat × Nat)) (c : Coord) : List (Key × Coord) :=
  match c with
  | [i] => if 0 ≤ i then (vorAdj tris i.toNat).map fun (j : Nat) => ([i, (j : Int)], [(j : Int)]) else []
  | _ => []

end Mesa.Cells
