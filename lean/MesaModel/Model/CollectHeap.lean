import MesaModel.Model.Collect
/-
References and `deepcopy` (property C12, "immune to later mutation of the model").

`Model/Collect.lean` treats a model attribute that holds a mutable list as a *value*: the aliasing between what
`collect` stored and the live object is not expressible there.  This file models exactly that part with a heap of
NESTED objects: a mutable list is an object with an identity (address); its items are `None`, ints or REFERENCES to
other objects (`[[1], [2]]` is three objects); attributes (and stored entries) hold references; two attributes, or an
attribute and an item of another object, may name the same object; an object may contain itself.  Mutations address an
object by a path from an attribute (`model.a[p0][p1]…`) and append an int or a reference in place, or remove the last
item.  `collect` stores `copy(value)` for a string reporter — `deepcopy` in the code
(`copy.deepcopy(getattr(model, reporter, None))`) — parametrised by the kind of copy so that the shallow copy
(`list(v)` / `copy.copy(v)`: a new outer object whose items are the same references) and no copy at all (the reference is
stored) can be stated and refuted.

`deepcopy` gives every object reachable from the value a fresh identity and keeps the shape of the graph (sharing and
cycles: the memo).  Here: the WHOLE heap of `n` objects is duplicated, object `r` to address `r + n`, every reference
inside a duplicate shifted by `n`; the stored value is the shifted reference.  For the objects reachable from the value
this is exactly the isomorphic copy `deepcopy` builds; the duplicates of the other objects are referenced by nothing
that existed before and by no attribute, so they are garbage that no read can reach (an over-approximation of
allocation, not of behaviour).
-/
namespace Mesa.CollectHeap
open Mesa.Collect

inductive HVal where
  | none
  | int (i : Int)
  | ref (addr : Nat)          -- the identity of a mutable list object
deriving Repr, DecidableEq

/-- an object: a list whose items are `None`, ints or references to objects -/
abbrev Obj := List HVal
/-- address = position; objects are allocated at the end and never freed -/
abbrev Heap := List Obj

structure HSt where
  heap : Heap
  attrs : List (Nat × HVal)   -- model attributes
  col : List HVal             -- `model_vars[name]` of the one reporter
deriving Repr, DecidableEq

def getH (attrs : List (Nat × HVal)) (a : Nat) : HVal := (attrs.lookup a).getD .none

/-- what reading a value shows, as a tree; `cut` stands for an object below the reading depth -/
inductive Tree where
  | none
  | int (i : Int)
  | cut
  | node (items : List Tree)
deriving Repr

/-- what a value shows when it is read now, down to depth `d` (an object may contain itself: the tree a reference
    denotes can be infinite, every finite depth of it is a `Tree`; a tree without `cut` is the whole value) -/
def read : Nat → Heap → HVal → Tree
  | _, _, .none => .none
  | _, _, .int i => .int i
  | 0, _, .ref _ => .cut
  | d + 1, heap, .ref r => .node ((heap[r]?.getD []).map (read d heap))

/-- `v[p0][p1]…` — `none` for what raises in Python (subscript of None / an int, index out of range) -/
def follow (heap : Heap) : HVal → List Nat → Option HVal
  | v, [] => some v
  | .ref r, p :: ps =>
    match (heap[r]?.getD [])[p]? with
    | some it => follow heap it ps
    | Option.none => Option.none
  | _, _ :: _ => Option.none

inductive HOp where
  | setInt (a : Nat) (i : Int)                       -- `model.a = i`
  | setNew (a : Nat) (xs : List Int)                 -- `model.a = [..]`   (a new object)
  | bind (a b : Nat) (pb : List Nat)                 -- `model.a = model.b[p0][p1]…`  (rebind: one more name for an object)
  | app (a : Nat) (pa : List Nat) (x : Int)          -- `model.a[p0]….append(x)`  (in place)
  | appRef (a : Nat) (pa : List Nat) (b : Nat) (pb : List Nat)   -- `model.a[p0]….append(model.b[q0]…)`: a reference is appended
  | pop (a : Nat) (pa : List Nat)                    -- `model.a[p0]….pop()`
  | collect (a : Nat)                                -- `collect` with the string reporter `"a"`
deriving Repr, DecidableEq

inductive Copy where
  | deep      -- `copy.deepcopy(v)`
  | shallow   -- `list(v)` / `copy.copy(v)`
  | alias     -- `v`
deriving Repr, DecidableEq

def shiftVal (n : Nat) : HVal → HVal
  | .ref r => .ref (r + n)
  | v => v

def copyVal (c : Copy) (heap : Heap) (v : HVal) : Heap × HVal :=
  match c, v with
  | .deep, .ref r => (heap ++ heap.map (·.map (shiftVal heap.length)), .ref (r + heap.length))
  | .shallow, .ref r => (heap ++ [heap[r]?.getD []], .ref heap.length)
  | _, v => (heap, v)

/-- the object a mutation addresses (`none`: the access raises, caught by the caller, nothing changes) -/
def target (s : HSt) (a : Nat) (pa : List Nat) : Option Nat :=
  match follow s.heap (getH s.attrs a) pa with
  | some (.ref r) => some r
  | _ => Option.none

def applyH (c : Copy) (s : HSt) : HOp → HSt
  | .setInt a i => { s with attrs := setKey a (.int i) s.attrs }
  | .setNew a xs => { s with heap := s.heap ++ [xs.map .int], attrs := setKey a (.ref s.heap.length) s.attrs }
  | .bind a b pb =>
    match follow s.heap (getH s.attrs b) pb with
    | some v => { s with attrs := setKey a v s.attrs }
    | Option.none => s
  | .app a pa x =>
    match target s a pa with
    | some r => { s with heap := s.heap.set r (s.heap[r]?.getD [] ++ [.int x]) }
    | Option.none => s
  | .appRef a pa b pb =>
    match target s a pa, follow s.heap (getH s.attrs b) pb with
    | some r, some v => { s with heap := s.heap.set r (s.heap[r]?.getD [] ++ [v]) }
    | _, _ => s
  | .pop a pa =>
    match target s a pa with
    | some r => { s with heap := s.heap.set r (s.heap[r]?.getD []).dropLast }
    | Option.none => s
  | .collect a =>
    let cv := copyVal c s.heap (getH s.attrs a)
    { s with heap := cv.1, col := s.col ++ [cv.2] }

def runH (c : Copy) (s : HSt) (ops : List HOp) : HSt := ops.foldl (applyH c) s

/-- what the reporter showed, to depth `d`, at the moment of each collect of the history -/
def seen (c : Copy) (d : Nat) : HSt → List HOp → List Tree
  | _, [] => []
  | s, op :: ops =>
    (match op with
     | .collect a => [read d s.heap (getH s.attrs a)]
     | _ => []) ++ seen c d (applyH c s op) ops

def empty : HSt := { heap := [], attrs := [], col := [] }

/-- what the stored column shows, entry by entry and to depth `d`, when it is read after the history `ops` -/
def stored (c : Copy) (d : Nat) (ops : List HOp) : List Tree :=
  (runH c empty ops).col.map (read d (runH c empty ops).heap)

end Mesa.CollectHeap
