import MesaModel.Model.Collect
/-
References and `deepcopy` (property C12, "immune to later mutation of the model").

`Model/Collect.lean` treats a model attribute that holds a mutable list as a *value*: the aliasing between what
`collect` stored and the live object is not expressible there.  This file models exactly that part with a heap:
a mutable list is an object with an address, attributes (and stored entries) hold references, two attributes may
name the same object, `append` mutates the object in place, and `collect` stores `copy(value)` for a string
reporter — `deepcopy` in the code (`copy.deepcopy(getattr(model, reporter, None))`), parametrised here so that the
aliasing version (`copy = identity`) can be stated and refuted.
-/
namespace Mesa.CollectHeap
open Mesa.Collect

inductive HVal where
  | none
  | int (i : Int)
  | ref (addr : Nat)          -- a mutable list object
deriving Repr, DecidableEq

structure HSt where
  heap : List (List Int)      -- address = position; objects are allocated at the end and never freed
  attrs : List (Nat × HVal)   -- model attributes
  col : List HVal             -- `model_vars[name]` of the one reporter
deriving Repr, DecidableEq

def getH (attrs : List (Nat × HVal)) (a : Nat) : HVal := (attrs.lookup a).getD .none

/-- what a reference shows when it is read now -/
def resolve (heap : List (List Int)) : HVal → Val
  | .none => .none
  | .int i => .int i
  | .ref r => .list (heap[r]?.getD [])

inductive HOp where
  | setInt (a : Nat) (i : Int)          -- `model.a = i`
  | setNew (a : Nat) (xs : List Int)    -- `model.a = [..]`   (a new object)
  | alias (a b : Nat)                   -- `model.a = model.b` (two names for one object)
  | app (a : Nat) (x : Int)             -- `model.a.append(x)` (in place)
  | collect (a : Nat)                   -- `collect` with the string reporter `"a"`
deriving Repr, DecidableEq

/-- `copy.deepcopy(v)` (`deep = true`): a list is copied into a new object; `deep = false`: the value itself is
    stored (an alias of the live object) -/
def copyVal (deep : Bool) (heap : List (List Int)) (v : HVal) : List (List Int) × HVal :=
  match deep, v with
  | true, .ref r => (heap ++ [heap[r]?.getD []], .ref heap.length)
  | _, v => (heap, v)

def applyH (deep : Bool) (s : HSt) : HOp → HSt
  | .setInt a i => { s with attrs := setKey a (.int i) s.attrs }
  | .setNew a xs => { s with heap := s.heap ++ [xs], attrs := setKey a (.ref s.heap.length) s.attrs }
  | .alias a b => { s with attrs := setKey a (getH s.attrs b) s.attrs }
  | .app a x =>
    match getH s.attrs a with
    | .ref r => { s with heap := s.heap.set r (s.heap[r]?.getD [] ++ [x]) }
    | _ => s                                                   -- AttributeError, caught
  | .collect a =>
    let c := copyVal deep s.heap (getH s.attrs a)
    { s with heap := c.1, col := s.col ++ [c.2] }

def runH (deep : Bool) (s : HSt) (ops : List HOp) : HSt := ops.foldl (applyH deep) s

/-- what the reporter showed at the moment of each collect of the history -/
def seen (deep : Bool) : HSt → List HOp → List Val
  | _, [] => []
  | s, op :: ops =>
    (match op with
     | .collect a => [resolve s.heap (getH s.attrs a)]
     | _ => []) ++ seen deep (applyH deep s op) ops

def empty : HSt := { heap := [], attrs := [], col := [] }

end Mesa.CollectHeap
