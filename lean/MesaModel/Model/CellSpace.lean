import MesaModel.Model.CellGeometry
/-!
Model of the *occupancy* side of mesa's cell spaces (properties C06, C18-cells; C19 builds on it):
`mesa/discrete_space/cell_agent.py` (`HasCell.cell`, `FixedCell.cell`, `BasicMovement`,
`CellAgent.remove`, `FixedAgent.remove`, `Grid2DMovingAgent.move`), `cell.py` (`add_agent`,
`remove_agent`, `is_empty`, `is_full`, `agents`), `discrete_space.py` (`empties`, `agents`,
`select_random_empty_cell`), `grid.py` (`Grid.select_random_empty_cell`, the `empty` property
layer), `cell_collection.py` (`select_random_cell`).  The model follows the code after the
repairs S11 (`HasCell.cell`), S12 (`FixedCell.cell`), S13 (`Grid2DMovingAgent.move`), SC3 (`Cell.add_agent`: capacity 0),
SC4 (`HasCell.cell`: re-entering the own cell asks no capacity).

## State (explicit, for C19)

* `Space` — what no agent operation changes:
  `cells` (keys of `space._cells`, in dict order), `conn c` (`Cell.connections` of cell `c`: key ↦ cell,
  in dict order; edited only by `Cell.connect` / `Cell.disconnect`, see `connectSp` / `disconnectSp` and the
  histories `DOp`), `cap c` (`Cell.capacity`; rewritten only by the program's `cell.capacity = k`, see `setCapSp`), `isGrid` (a `Grid`: it has the `empty` property layer and
  the try-random search strategy), `coordKey c` (`cell.coordinate` used as a dict key — the default key of
  `Cell.connect`; `none` if it is unhashable).
* `State` — what operations change:
  `occ c` (`Cell._agents`, a list, append at the end), `flag c` (the value last stored into
  `cell.empty`: for a grid cell an entry of the `empty` property layer — `some true` initially —,
  for other cells an instance attribute that does not exist (`none`) before the first `add_agent`),
  `cellOf a` (`agent._mesa_cell`), `kinds` (the agents created so far, by creation index, with their
  class), `registry` (`model.agents`: the registered agents), `tryRandom` (`Grid._try_random`).

Agents are named by creation index, cells by `Coord` (see CellGeometry).
-/
namespace Mesa.Cells

abbrev Cid := Coord
abbrev Aid := Nat

/-- the agent classes of `cell_agent.py` -/
inductive AKind where
  | cell     -- CellAgent
  | fixed    -- FixedAgent
  | grid2d   -- Grid2DMovingAgent
deriving Repr, DecidableEq

structure Space where
  cells : List Cid
  conn : Cid → List (Key × Cid)
  cap : Cid → Option Nat
  isGrid : Bool
  /-- `cell.coordinate` as a key of `connections` (`Cell.connect(other)` without a key uses `other.coordinate`):
      the coordinate tuple of a grid cell, the node of a `Network` cell; `none` for a `VoronoiGrid` cell built from
      a list of lists, whose coordinate is a `list` (unhashable: `TypeError`) -/
  coordKey : Cid → Option Key := fun c => some c

/-- cells `[0] … [n-1]` of a `Network` on nodes 0..n-1 / a `VoronoiGrid` on n centroids -/
def rangeCoords (n : Nat) : List Cid := (List.range n).map fun (i : Nat) => [(i : Int)]

/-- an `OrthogonalMooreGrid` / `OrthogonalVonNeumannGrid` / `HexGrid` (`dimensions`, `torus`, `capacity`) -/
def gridSpace (k : GridKind) (dims : List Nat) (torus : Bool) (cap : Option Nat) : Space :=
  { cells := allCoords dims, conn := gridConn k dims torus, cap := fun _ => cap, isGrid := true }

/-- a `Network` on the graph with nodes 0..n-1 and the given edge list -/
def netSpace (directed : Bool) (n : Nat) (edges : List (Nat × Nat)) (cap : Option Nat) : Space :=
  { cells := rangeCoords n, conn := netConn directed edges, cap := fun _ => cap, isGrid := false }

/-- a `VoronoiGrid` on n centroids whose triangulation exported the given triangles
    (`capacity_function` constant `cap`) -/
def vorSpace (n : Nat) (tris : List (Nat × Nat × Nat)) (cap : Option Nat) : Space :=
  { cells := rangeCoords n, conn := vorConn tris, cap := fun _ => cap, isGrid := false, coordKey := fun _ => none }

/-- `round_float`, the default `capacity_function` of `VoronoiGrid`: `int(area * 500)`, for the exact area `num/den`
    (IEEE rounding of the float area is assumed away; the check compares on point sets where it cannot matter) -/
def roundFloat (num den : Nat) : Nat := num * 500 / den

/-- a `VoronoiGrid` with the default `capacity_function`: `_build_cell_polygons` overwrites every cell's capacity with
    `round_float(polygon_area)`; `areas[i]` is the exact area of the i-th Voronoi cell as a fraction -/
def vorSpaceAreas (n : Nat) (tris : List (Nat × Nat × Nat)) (areas : List (Nat × Nat)) : Space :=
  { cells := rangeCoords n, conn := vorConn tris, isGrid := false, coordKey := fun _ => none,
    cap := fun c => match c with
      | [i] => if 0 ≤ i then (areas[i.toNat]?).map fun a => roundFloat a.1 a.2 else none
      | _ => none }

structure State where
  occ : Cid → List Aid
  flag : Cid → Option Bool
  cellOf : Aid → Option Cid
  kinds : List AKind
  registry : List Aid
  tryRandom : Bool

/-- exceptions, as the small enum of the line protocol -/
inductive Err where
  | full      -- Exception("ERROR: Cell is full")
  | noCell    -- ValueError("No cell in direction …")
  | fixed     -- ValueError("Cannot move agent in FixedCell")
  | value     -- other ValueError (invalid direction, list.remove(x): x not in list)
  | attr      -- AttributeError (no such method on this agent class, `None.connections`, `None.add_agent`)
  | key       -- KeyError (`space[coord]` for a coordinate that is no cell)
  | index     -- IndexError (choice from an empty sequence)
  | script    -- the scripted random source of the harness ran out of draws
  | noAgent   -- the line names an agent that was never created (harness-level)
  | type      -- TypeError (an unhashable connection key)
deriving Repr, DecidableEq

inductive Res where
  | ok
  | okAgent (a : Aid)
  | okCell (c : Cid)
  | err (e : Err)
deriving Repr, DecidableEq

inductive Op where
  | new (k : AKind)                      -- `Kind(model)`
  | setCell (a : Aid) (c : Option Cid)   -- `a.cell = space[c]` / `a.cell = None`
  | moveTo (a : Aid) (c : Cid)           -- `a.move_to(space[c])`
  | moveRel (a : Aid) (d : Key)          -- `a.move_relative(d)`
  | gridMove (a : Aid) (dir : String) (k : Int)   -- `a.move(dir, k)`
  | remove (a : Aid)                     -- `a.remove()`
  | setTryRandom (b : Bool)              -- `space._try_random = b`
  | randEmpty (draws : List Nat)         -- `space.select_random_empty_cell()`
  | randCell (draws : List Nat)          -- `space.all_cells.select_random_cell()`
deriving Repr, DecidableEq

def upd {α β : Type} [DecidableEq α] (f : α → β) (a : α) (b : β) : α → β :=
  fun x => if x = a then b else f x

/-- a freshly built space: no agents; the `empty` layer of a grid is all `True` -/
def init (sp : Space) : State :=
  { occ := fun _ => [], flag := fun _ => if sp.isGrid then some true else none,
    cellOf := fun _ => none, kinds := [], registry := [], tryRandom := true }

/-- the test of `Cell.add_agent` (repair SC3): `self.capacity is not None and n >= self.capacity` — a capacity of 0
    (the area-based default of a tiny Voronoi cell) is a capacity: such a cell takes nobody -/
def fullFor (sp : Space) (s : State) (c : Cid) : Bool :=
  match sp.cap c with
  | none => false
  | some k => decide ((s.occ c).length ≥ k)

/-- `Cell.is_empty` -/
def isEmpty (s : State) (c : Cid) : Bool := (s.occ c).isEmpty

/-- `Cell.is_full`: `len(self.agents) == self.capacity` -/
def isFull (sp : Space) (s : State) (c : Cid) : Bool :=
  match sp.cap c with
  | none => false
  | some k => (s.occ c).length == k

/-- `Cell.add_agent` (repair SC3): checks the capacity, then appends and writes `empty = False`.
    Returns the state after the call and whether it raised. -/
def addAgent (sp : Space) (s : State) (c : Cid) (a : Aid) : State × Bool :=
  if fullFor sp s c then (s, false)
  else ({ s with flag := upd s.flag c (some false), occ := upd s.occ c (s.occ c ++ [a]) }, true)

/-- `Cell.remove_agent`: `self._agents.remove(agent)` (ValueError if absent);
    `self.empty = self.is_empty` -/
def removeAgent (s : State) (c : Cid) (a : Aid) : Option State :=
  if a ∈ s.occ c then
    let l := (s.occ c).erase a
    some { s with occ := upd s.occ c l, flag := upd s.flag c (some l.isEmpty) }
  else none

/-- `HasCell.cell` setter (S11-repaired order: enter the new cell, leave the old one, re-point;
    re-entering the current cell leaves first and comes back without a capacity test, repair SC4) -/
def setCellMobile (sp : Space) (s : State) (a : Aid) (tgt : Option Cid) : State × Res :=
  let old := s.cellOf a
  -- enter the new cell first
  match (match tgt with
         | some c => if tgt ≠ old then addAgent sp s c a else (s, true)
         | none => (s, true)) with
  | (s1, false) => (s1, .err .full)
  | (s1, true) =>
    -- remove from current cell
    match (match old with
           | some o => removeAgent s1 o a
           | none => some s1) with
    | none => (s1, .err .value)
    | some s2 =>
      let s3 := { s2 with cellOf := upd s2.cellOf a tgt }
      -- re-entering the current cell: back to the end of its list; the capacity is not asked again (repair SC4: the
      -- agent was an occupant already — a capacity lowered under the occupancy must not turn it away after it has left)
      match tgt with
      | some c =>
        if tgt = old then
          ({ s3 with flag := upd s3.flag c (some false), occ := upd s3.occ c (s3.occ c ++ [a]) }, .ok)
        else (s3, .ok)
      | none => (s3, .ok)

/-- `FixedCell.cell` setter (S12-repaired order) -/
def setCellFixed (sp : Space) (s : State) (a : Aid) (tgt : Option Cid) : State × Res :=
  match s.cellOf a with
  | some _ => (s, .err .fixed)
  | none =>
    match tgt with
    | none => (s, .err .attr)            -- `None.add_agent`
    | some c =>
      match addAgent sp s c a with
      | (s1, false) => (s1, .err .full)
      | (s1, true) => ({ s1 with cellOf := upd s1.cellOf a (some c) }, .ok)

/-- `a.cell = …` by agent class -/
def setCell (sp : Space) (s : State) (k : AKind) (a : Aid) (tgt : Option Cid) : State × Res :=
  match k with
  | .fixed => setCellFixed sp s a tgt
  | _ => setCellMobile sp s a tgt

/-- `dict.get` on `Cell.connections` -/
def connGet (sp : Space) (c : Cid) (d : Key) : Option Cid := assocGet (sp.conn c) d

/-- the walk of the repaired `Grid2DMovingAgent.move`: `k` lookups of `d` starting from `c` -/
def walk (sp : Space) (d : Key) : Nat → Cid → Option Cid
  | 0, c => some c
  | k+1, c => match connGet sp c d with
    | none => none
    | some c' => walk sp d k c'

/-- `str.lower()` restricted to ASCII (the harness only sends ASCII names) -/
def lower (s : String) : String := String.ofList (s.toList.map Char.toLower)

/-- lookup in `Grid2DMovingAgent.DIRECTION_MAP` (generated constant) -/
def dirVec (name : String) : Option Key :=
  (assocGet Gen.directionMap (lower name)).map fun (di, dj) => [di, dj]

def draw (cells : List Cid) (d : Nat) : Option Cid := cells[d % cells.length]?

/-- `Grid.select_random_empty_cell` with `_try_random`: `while True: cell = random.choice(cells);
    if cell.is_empty: return cell` — one scripted draw per iteration -/
def tryRandomLoop (s : State) (cells : List Cid) : List Nat → Res
  | [] => .err .script
  | d :: ds =>
    match draw cells d with
    | none => .err .index
    | some c => if isEmpty s c then .okCell c else tryRandomLoop s cells ds

/-- `random.choice(seq)`: IndexError on an empty sequence, else one draw -/
def choice (seq : List Cid) (draws : List Nat) : Res :=
  if seq.isEmpty then .err .index
  else match draws with
    | [] => .err .script
    | d :: _ => match draw seq d with
      | some c => .okCell c
      | none => .err .index

/-- `DiscreteSpace.empties` -/
def empties (sp : Space) (s : State) : List Cid := sp.cells.filter (isEmpty s)

/-- `DiscreteSpace.agents`: an AgentSet (ordered, duplicate-free) over the chained cell lists -/
def spaceAgents (sp : Space) (s : State) : List Aid := dictUpdate [] (sp.cells.flatMap s.occ)

/-- `CellCollection.agents` of a (memoised) neighbourhood: the collection holds the cells' *live* agent
    lists, so it shows who is there now -/
def nbhdAgents (s : State) (cells : List Cid) : List Aid := cells.flatMap s.occ

def step (sp : Space) (s : State) : Op → State × Res
  | .new k =>
    ({ s with kinds := s.kinds ++ [k], registry := s.registry ++ [s.kinds.length] }, .okAgent s.kinds.length)
  | .setCell a tgt =>
    match s.kinds[a]? with
    | none => (s, .err .noAgent)
    | some k =>
      match tgt with
      | some c => if c ∈ sp.cells then setCell sp s k a tgt else (s, .err .key)
      | none => setCell sp s k a none
  | .moveTo a c =>
    match s.kinds[a]? with
    | none => (s, .err .noAgent)
    | some .fixed => (s, .err .attr)
    | some k => if c ∈ sp.cells then setCell sp s k a (some c) else (s, .err .key)
  | .moveRel a d =>
    match s.kinds[a]? with
    | none => (s, .err .noAgent)
    | some .fixed => (s, .err .attr)
    | some k =>
      match s.cellOf a with
      | none => (s, .err .attr)
      | some c =>
        match connGet sp c d with
        | none => (s, .err .noCell)
        | some c' => setCell sp s k a (some c')
  | .gridMove a dir k =>
    match s.kinds[a]? with
    | none => (s, .err .noAgent)
    | some .grid2d =>
      match dirVec dir with
      | none => (s, .err .value)
      | some d =>
        if k ≤ 0 then (s, .ok)
        else match s.cellOf a with
          | none => (s, .err .attr)
          | some c =>
            match walk sp d k.toNat c with
            | none => (s, .err .noCell)
            | some c' => setCell sp s .grid2d a (some c')
    | some _ => (s, .err .attr)
  | .remove a =>
    match s.kinds[a]? with
    | none => (s, .err .noAgent)
    | some .fixed =>
      -- `super().remove()` (KeyError suppressed), then `self.cell.remove_agent(self)`
      let s1 := { s with registry := s.registry.erase a }
      match s1.cellOf a with
      | none => (s1, .err .attr)
      | some c =>
        match removeAgent s1 c a with
        | none => (s1, .err .value)
        | some s2 => (s2, .ok)
    | some _ =>
      -- `super().remove()`, then `self.cell = None`
      setCellMobile sp { s with registry := s.registry.erase a } a none
  | .setTryRandom b => ({ s with tryRandom := b }, .ok)
  | .randEmpty draws =>
    if sp.isGrid && s.tryRandom then (s, tryRandomLoop s sp.cells draws)
    else (s, choice (empties sp s) draws)
  | .randCell draws => (s, choice sp.cells draws)

/-- a history -/
def run (sp : Space) (s : State) : List Op → State
  | [] => s
  | op :: ops => run sp (step sp s op).1 ops

/-- `for a in cell.agents: a.remove()` — emptying a cell by iterating over the *copy* `cell.agents` hands out (the loop
    stops at the first `remove()` that raises): the removals are those of the agents listed when the loop started, in order -/
def removeEach (sp : Space) : State → List Aid → State × Res
  | s, [] => (s, .ok)
  | s, a :: as =>
    match step sp s (.remove a) with
    | (s', .ok) => removeEach sp s' as
    | (s', r) => (s', r)

def clearCell (sp : Space) (s : State) (c : Cid) : State × Res := removeEach sp s (s.occ c)

/-! ### histories that also edit connections (`Cell.connect` / `Cell.disconnect` after construction) -/

/-- `space[c].connect(space[c2], key)`: `connections[key] = other` on cell `c` only -/
def connectSp (sp : Space) (c c2 : Cid) (key : Key) : Space := { sp with conn := connectConn sp.conn c c2 key }

/-- `space[c].disconnect(space[c2])` -/
def disconnectSp (sp : Space) (c c2 : Cid) : Space := { sp with conn := disconnectConn sp.conn c c2 }

/-- `space[c].capacity = k`: a plain attribute write on cell `c`.  Nothing else happens: the occupants stay (also when
    there are more than `k` of them); `add_agent` / `is_full` read the new value from then on -/
def setCapSp (sp : Space) (c : Cid) (k : Option Nat) : Space := { sp with cap := upd sp.cap c k }

/-- an operation of a history that may edit connections / capacities between the agent operations -/
inductive DOp where
  | op (o : Op)
  | connect (c c2 : Cid) (key : Option Key)    -- `space[c].connect(space[c2], key)`; `none`: the default key
  | disconnect (c c2 : Cid)                    -- `space[c].disconnect(space[c2])`
  | setCap (c : Cid) (k : Option Nat)          -- `space[c].capacity = k` (an int, 0 included, or None) by hand
deriving Repr, DecidableEq

/-- the edit a `connect` / `disconnect` line makes, or the exception it raises (`space[…]` of a coordinate that
    is no cell: KeyError; default key of an unhashable coordinate: TypeError); the occupancy state is never touched -/
def editSp (sp : Space) : DOp → Space × Res
  | .op _ => (sp, .ok)
  | .connect c c2 key =>
    if c ∈ sp.cells ∧ c2 ∈ sp.cells then
      match (match key with | some k => some k | none => sp.coordKey c2) with
      | some k => (connectSp sp c c2 k, .ok)
      | none => (sp, .err .type)
    else (sp, .err .key)
  | .disconnect c c2 =>
    if c ∈ sp.cells ∧ c2 ∈ sp.cells then (disconnectSp sp c c2, .ok) else (sp, .err .key)
  | .setCap c k =>
    if c ∈ sp.cells then (setCapSp sp c k, .ok) else (sp, .err .key)

def dstep (sp : Space) (s : State) : DOp → (Space × State) × Res
  | .op o => ((sp, (step sp s o).1), (step sp s o).2)
  | e => (((editSp sp e).1, s), (editSp sp e).2)

/-- a history with connection edits: the space (its connections) and the occupancy state after it -/
def drun (sp : Space) (s : State) : List DOp → Space × State
  | [] => (sp, s)
  | o :: os => drun (dstep sp s o).1.1 (dstep sp s o).1.2 os

end Mesa.Cells
