/-!
Identity-level model of `copy.deepcopy` / pickle round trips of a **cell space together with its agents**
(property C19, second half), after the repairs S21 / S22 (`pickle_gridcell` returns a 3-tuple, so a cell is memoised
before the agents in it are copied) and S23.

What is modelled (mesa/discrete_space/cell.py, cell_agent.py, discrete_space.py, grid.py, network.py, mesa/agent.py):

* objects are identities (`Nat`); the world maps identities to records:
  cells `{idx (position of the coordinate in the space's enumeration), _agents (list, order of entering),
  connections (targets, in the order of the dict), capacity}`,
  agents `{_mesa_cell, unique_id, model}`, and one record per simulation `{_cells (enumeration order),
  model._agents (registration order)}` — the program builds one `Model` per space and keeps the two together, so the pair
  `(space, model)` has one identity here (`home` of an agent = that pair).  The two further objects every cell of a space
  refers to — the generator (`space.random is model.random is cell.random`) and, for grids, the dynamically created cell class
  (`type(cell)`, carrier of the property descriptors, `Model/Copy.lean`) — are created with the pair and copied with it; they
  share its identity (`rnd`, `klass` of a cell point to the pair);
* `Agent._ids` — the class-level per-model id counter, keyed by the model *object*, **not** copied;
* `HasCell.cell = c` as repaired: the new cell's refusal (`Cell.add_agent`: `capacity is not None and n >= capacity`) comes before
  anything changes; then the agent leaves the old cell's list (`list.remove`: first occurrence) and enters the new one at
  the end; re-entering the current cell moves the agent to the end of its list.  `cell = None`, `CellAgent.remove()`
  (deregister + `cell = None`; the program then forgets the agent);
* `copySpace`: `copy.deepcopy((space, model))` / a pickle round trip of the pair: the space, its cells, the model and every
  agent registered in it are reconstructed once (memo), with fresh identities `old + next`.  `Cell.__getstate__` drops the
  connections and `DiscreteSpace.__setstate__` / `Grid.__setstate__` rebuild them from the geometry (`_connect_cells`): the
  connections of the copy are the shifted connections of the original (the program never edits connections here);
* `ghostCopy`: the code before S22 (2-tuple reduce): an occupied cell is reconstructed a second time from inside the copy
  of its agent; the copied agent points to that second reconstruction, which is not a cell of the copied space.

The program only places an agent in a cell of the space its model belongs to (`Foreign` otherwise: the harness refuses the
same way), so every pointer of a space stays inside it — that is an invariant proved in `Proofs/CopyOccInv.lean`, not an
assumption of the theorems about copies.

Core Lean only (linked into `drv_copyocc`).
-/
namespace Mesa.CopyOcc

-- identities are natural numbers

structure CellRec where
  idx : Nat
  agents : List Nat
  conn : List Nat
  cap : Option Nat
  rnd : Nat              -- Cell.random: the generator object of a pair space / model
  klass : Option Nat     -- type(cell): the dynamic cell class of a grid; `none`: the plain class `Cell` (network cells)
deriving Repr, DecidableEq

structure AgentRec where
  cell : Option Nat
  uid : Nat
  home : Nat
deriving Repr, DecidableEq

structure SpaceRec where
  cells : List Nat      -- DiscreteSpace._cells, enumeration order (= all_cells)
  reg : List Nat        -- model._agents, registration order
deriving Repr, DecidableEq

structure World where
  next : Nat
  cells : Nat → Option CellRec
  agents : Nat → Option AgentRec
  spaces : Nat → Option SpaceRec
  ids : Nat → Option Nat      -- Agent._ids: last unique_id handed out per model

def init : World :=
  { next := 0, cells := fun _ => none, agents := fun _ => none, spaces := fun _ => none, ids := fun _ => none }

def upd {β} (f : Nat → Option β) (k : Nat) (v : β) : Nat → Option β := fun i => if i = k then some v else f i

/-- the refusal of `Cell.add_agent` (after the repair SC3): `if self.capacity is not None and n >= self.capacity`
    (a capacity of 0 is a capacity: such a cell refuses every agent) -/
def capFull (cap : Option Nat) (n : Nat) : Bool :=
  match cap with
  | some k => decide (k ≤ n)
  | none => false

def full (cr : CellRec) : Bool := capFull cr.cap cr.agents.length

/-! ### operations -/

/-- connection targets of cell number `i`: the pairs `(i, j)` in the given order -/
def connOf (base k : Nat) (pairs : List (Nat × Nat)) (i : Nat) : List Nat :=
  (pairs.filter fun p => p.1 == i && p.2 < k).map fun p => p.2 + base

/-- a new space of `k` cells (identities `next+1 … next+k`) with one capacity and the connection relation `pairs`
    (pairs of cell numbers; the order is the order of each cell's `connections` dict), and its model: identity `next`;
    `grid`: a `Grid` (one dynamic cell class per grid) rather than a `Network` (plain `Cell`s) -/
def newSpace (w : World) (k : Nat) (cap : Option Nat) (grid : Bool) (pairs : List (Nat × Nat)) : World × Nat :=
  let s := w.next
  let base := w.next + 1
  ({ w with
     next := base + k
     cells := fun i => if base ≤ i ∧ i < base + k then
         some { idx := i - base, agents := [], conn := connOf base k pairs (i - base), cap := cap, rnd := s,
                klass := if grid then some s else none }
       else w.cells i
     spaces := upd w.spaces s { cells := (List.range k).map (· + base), reg := [] } }, s)

/-- `CellAgent(model)`: registered, not placed -/
def newAgent (w : World) (s : Nat) : Option (World × Nat × Nat) :=
  match w.spaces s with
  | none => none
  | some sr =>
    let a := w.next
    let uid := (w.ids s).getD 0 + 1
    some ({ w with next := w.next + 1, agents := upd w.agents a { cell := none, uid := uid, home := s },
                   spaces := upd w.spaces s { sr with reg := sr.reg ++ [a] }, ids := upd w.ids s uid }, a, uid)

/-- the cell map after `old_cell.remove_agent(a)` -/
def leave (w : World) (a o : Nat) : Nat → Option CellRec :=
  match w.cells o with
  | some cr => upd w.cells o { cr with agents := cr.agents.erase a }
  | none => w.cells

/-- `agent.cell = None` for the agent with record `ar` -/
def unplaceRec (w : World) (a : Nat) (ar : AgentRec) : World :=
  match ar.cell with
  | none => w
  | some o => { w with cells := leave w a o, agents := upd w.agents a { ar with cell := none } }

def unplace (w : World) (a : Nat) : World :=
  match w.agents a with
  | none => w
  | some ar => unplaceRec w a ar

/-- an unplaced agent enters cell `c` (at the end of its list) and points to it -/
def place (w : World) (a c : Nat) : World :=
  match w.agents a, w.cells c with
  | some ar, some cr =>
    { w with cells := upd w.cells c { cr with agents := cr.agents ++ [a] },
             agents := upd w.agents a { ar with cell := some c } }
  | _, _ => w

def inSpace (w : World) (s c : Nat) : Bool :=
  match w.spaces s with
  | some sr => sr.cells.contains c
  | none => false

inductive Res where
  | ok | noAgent | noCell | foreign | full
deriving Repr, DecidableEq

/-- `agent.cell = c`.  A different cell that is full refuses before anything changes; otherwise the agent leaves its old
    cell and enters `c` (entering and leaving touch different lists, so the order of the two does not show; for `c` the
    current cell the code removes first and appends then — the agent moves to the end of the list, and the second capacity
    test of the code cannot fail because the cell held at most `capacity` agents, `C19_space_invariant`) -/
def setCell (w : World) (a c : Nat) : World × Res :=
  match w.agents a with
  | none => (w, .noAgent)
  | some ar =>
    match w.cells c with
    | none => (w, .noCell)
    | some cr =>
      if !inSpace w ar.home c then (w, .foreign)
      else if ar.cell != some c && full cr then (w, .full)
      else (place (unplace w a) a c, .ok)

/-- `agent.cell = None` -/
def unsetCell (w : World) (a : Nat) : Option World :=
  match w.agents a with
  | none => none
  | some ar => some (unplaceRec w a ar)

/-- `model.deregister_agent(a)`; the program forgets the agent -/
def dereg (w : World) (a s : Nat) : World :=
  match w.spaces s with
  | some sr => { w with spaces := upd w.spaces s { sr with reg := sr.reg.erase a },
                        agents := fun i => if i = a then none else w.agents i }
  | none => { w with agents := fun i => if i = a then none else w.agents i }

/-- `agent.remove()` of a `CellAgent` -/
def remove (w : World) (a : Nat) : Option World :=
  match w.agents a with
  | none => none
  | some ar => some (dereg (unplace w a) a ar.home)

def shiftCell (B : Nat) (cr : CellRec) : CellRec :=
  { cr with agents := cr.agents.map (· + B), conn := cr.conn.map (· + B), rnd := cr.rnd + B, klass := cr.klass.map (· + B) }

def shiftAgent (B : Nat) (ar : AgentRec) : AgentRec :=
  { ar with cell := ar.cell.map (· + B), home := ar.home + B }

/-- the world after copying space `s` (record `sr`): every reconstructed object gets the identity `old + w.next` -/
def copyWorld (w : World) (s : Nat) (sr : SpaceRec) : World :=
  let B := w.next
  { w with
    next := B + B
    cells := fun i => if B ≤ i then
        (if sr.cells.contains (i - B) then (w.cells (i - B)).map (shiftCell B) else none)
      else w.cells i
    agents := fun i => if B ≤ i then
        (if sr.reg.contains (i - B) then (w.agents (i - B)).map (shiftAgent B) else none)
      else w.agents i
    spaces := upd w.spaces (s + B) { cells := sr.cells.map (· + B), reg := sr.reg.map (· + B) } }

/-- `copy.deepcopy((space, model))` / `pickle.loads(pickle.dumps((space, model)))`.  Returns the new world and the identity
    of the copy (`none`: no such space). -/
def copySpace (w : World) (s : Nat) : Option (World × Nat) :=
  match w.spaces s with
  | none => none
  | some sr => some (copyWorld w s sr, s + w.next)

/-- the second reconstruction of an occupied cell made by the code before S22: same coordinate, capacity and (shifted)
    agents, no connections (it is not in the space, so `_connect_cells` never reaches it), the copied generator, and a
    throw-away class of its own (`Grid.__setstate__` re-classes the cells of the grid only) -/
def ghostOf (B : Nat) (cr : CellRec) : Option CellRec :=
  if cr.agents.isEmpty then none
  else some { cr with agents := cr.agents.map (· + B), conn := [], rnd := cr.rnd + B, klass := none }

/-- the code before S22: as `copyWorld`, but every occupied cell `c` is reconstructed a second time (identity `c + 2·next`)
    and the copied agents point to that one.  This is the old `deepcopy` exactly when one agent is placed (the refutation
    in `Props/C19Occ.lean` uses such a world); with several placed agents the old traversal duplicated the cell of the agent
    it reached first only (the model, reached through that agent, pulled in the other agents and their cells before the space
    got to them), and nested one further reconstruction per agent sharing that cell. -/
def ghostWorld (w : World) (s : Nat) (sr : SpaceRec) : World :=
  let B := w.next
  let w1 := copyWorld w s sr
  { w1 with
    next := B + B + B
    cells := fun i => if B + B ≤ i then
        (if sr.cells.contains (i - (B + B)) then (w.cells (i - (B + B))).bind (ghostOf B) else none)
      else w1.cells i
    agents := fun i => if B ≤ i then
        (if sr.reg.contains (i - B) then
          (w.agents (i - B)).map fun ar => { ar with cell := ar.cell.map (· + (B + B)), home := ar.home + B }
         else none)
      else w.agents i }

def ghostCopy (w : World) (s : Nat) : Option (World × Nat) :=
  match w.spaces s with
  | none => none
  | some sr => some (ghostWorld w s sr, s + w.next)

/-! ### observations -/

/-- what the program reads from one cell: identity, coordinate index, capacity, the agents listed (identities, in order),
    the connection targets (identities, in order), its generator and its class -/
def cellView (w : World) (c : Nat) : Option (Nat × Nat × Option Nat × List Nat × List Nat × Nat × Option Nat) :=
  (w.cells c).map fun cr => (c, cr.idx, cr.cap, cr.agents, cr.conn, cr.rnd, cr.klass)

/-- what the program reads from one agent: identity, `unique_id`, the cell it points to -/
def agentView (w : World) (a : Nat) : Option (Nat × Nat × Option Nat) :=
  (w.agents a).map fun ar => (a, ar.uid, ar.cell)

/-- everything the program reads from a space and its model: the cells in enumeration order, the registered agents in
    registration order -/
def view (w : World) (s : Nat) :
    Option (List (Nat × Nat × Option Nat × List Nat × List Nat × Nat × Option Nat) × List (Nat × Nat × Option Nat)) :=
  match w.spaces s with
  | none => none
  | some sr => some (sr.cells.filterMap (cellView w), sr.reg.filterMap (agentView w))

/-- the cells of a space that hold no agent (what the `empty` property layer of a grid shows) -/
def empties (w : World) (s : Nat) : Option (List Nat) :=
  match w.spaces s with
  | none => none
  | some sr => some (sr.cells.filter fun c => match w.cells c with | some cr => cr.agents.isEmpty | none => false)

/-! ### the step function of the protocol -/

inductive Op where
  | newSpace (k : Nat) (cap : Option Nat) (grid : Bool) (pairs : List (Nat × Nat))
  | newAgent (s : Nat)
  | set (a c : Nat)
  | unset (a : Nat)
  | remove (a : Nat)
  | copy (s : Nat)
deriving Repr, DecidableEq

/-- a rejected operation leaves the world as it is -/
def step (w : World) : Op → World
  | .newSpace k cap grid pairs => (newSpace w k cap grid pairs).1
  | .newAgent s => match newAgent w s with | some (w', _, _) => w' | none => w
  | .set a c => (setCell w a c).1
  | .unset a => (unsetCell w a).getD w
  | .remove a => (remove w a).getD w
  | .copy s => match copySpace w s with | some (w', _) => w' | none => w

def run (w : World) (ops : List Op) : World := ops.foldl step w

/-- the cell an agent points to / the space it is registered in, as lists -/
def cellOf (w : World) (a : Nat) : List Nat :=
  match w.agents a with
  | some ar => ar.cell.toList
  | none => []

def homeOf (w : World) (a : Nat) : List Nat :=
  match w.agents a with
  | some ar => [ar.home]
  | none => []

/-- the identities whose record an operation may change (besides the fresh ones it allocates) -/
def writes (w : World) : Op → List Nat
  | .newSpace _ _ _ _ => []
  | .newAgent s => [s]
  | .set a c => a :: c :: cellOf w a
  | .unset a => a :: cellOf w a
  | .remove a => a :: (homeOf w a ++ cellOf w a)
  | .copy _ => []

/-- everything the view of space `s` depends on: the space / model record, its cells, its registered agents -/
def deps (w : World) (s : Nat) : List Nat :=
  match w.spaces s with
  | none => [s]
  | some sr => s :: (sr.cells ++ sr.reg)

end Mesa.CopyOcc
