import MesaModel.Model.VizLayers
/-!
Model of the default marker size `s_default` of the `draw_*` functions (mesa/visualization/mpl_space_drawing.py):
`(180 / extent)²` with the extent of the space — `max(width, height)` for grids and continuous spaces, the larger
side of the bounding box of the centroids for Voronoi grids, of the layout for networks (fixes V12, V15: a layout /
bounding box without extent, i.e. a single node / centroid, counts as extent 1).  The layout of a network with several nodes is networkx's and not
modelled.
-/
namespace Mesa.Viz

inductive SizeDefault where
  | exact (f : Frac)     -- `(180 / extent)²` as a fraction
  | layout               -- a network with several nodes: depends on `spring_layout`
  | undefined            -- extent 0: the division raises / yields inf (spaces that cannot hold an agent)
deriving DecidableEq, Repr

/-- `max(xs) - min(xs)` -/
def spread (xs : List Int) : Int :=
  match minOf xs, maxOf xs with
  | some lo, some hi => hi - lo
  | _, _ => 0

/-- `(180 / extent) ** 2` -/
def sizeOfExtent (extent : Int) : SizeDefault :=
  if 0 < extent then .exact ⟨32400, (extent * extent).toNat⟩ else .undefined

/-- `s_default` as the drawing function of the class computes it -/
def defaultSize (sp : Space) : SizeDefault :=
  match sp.fam with
  | .netgrid | .net =>
    -- `width`, `height` of the layout; `(max(width, height) or 1)` (fix V12)
    if sp.cells.length = 0 then .undefined else if sp.cells.length = 1 then sizeOfExtent 1 else .layout
  | .vor =>
    -- `(max(width, height) or 1)` (fix V15: a single centroid has no extent)
    let e := max (spread (sp.cells.map (·.x))) (spread (sp.cells.map (·.y)))
    sizeOfExtent (if e = 0 then 1 else e)
  | _ => sizeOfExtent (max (sp.w : Int) (sp.h : Int))

end Mesa.Viz
