import MesaModel.Model.Signals
/-
Model of `Computable` / `Computed` (mesa_signal.py) on top of the Signals registry (property C17).

* several owners, each with its own `Reg` (subscribers of every Observable / Computable);
  a key is `(owner, name)`;
* a Computed's function is a *read tree*: what it returns depends only on what it reads, in
  the order it reads it; `write` nodes are the assignments a function may perform (cycle detection);
* `Computed.__call__`, `Computable.__get__`, `Observable.__set__`, `_set_dirty`, `_add_parent`,
  `_remove_parents` follow the repaired code (G4, G7, G8, G9, G10, G11, G12, G15 repaired; G7: `Observable.__set__`
  stores before it notifies, and a notification reaches the dependent Computeds before the user handlers, which may
  read Computables while being notified);
* `proc` = `PROCESSING_SIGNALS` (what the evaluating functions have read) grows over one outermost evaluation,
  nested ones included, and is cleared when `depth` = `EVALUATION_DEPTH` returns to 0 (G10 repaired: no
  assignment clears it);
* the mutually recursive calls (read → notify → set_dirty → notify …, read → read) go through
  one fuel-indexed function `exec`; `none` = out of fuel (Python: RecursionError / no termination).
The notification loop iterates over a snapshot of the subscriber list, skips what has been unsubscribed
meanwhile and prunes the dead references of the current list afterwards, as `_mesa_notify` does (G13 repaired).
-/
namespace Mesa.Computed
open Mesa.Signals

abbrev Key := Nat × Nat

/-- a value: an int or Python's `None` -/
abbrev V := Option Int

inductive Tree where
  | ret (v : V)
  | read (k : Key) (cont : V → Tree)
  | readC (c : Nat) (cont : V → Tree)
  | write (k : Key) (v : V) (next : Tree)
  | fail                                    -- the function raises (an exception of its own, `Err.user`)

/-- what a Computed remembers a value for: an Observable, or another Computable -/
inductive PRef where
  | obs (k : Key)
  | comp (c : Nat)
deriving Repr, DecidableEq

/-- a subscriber: the `_set_dirty` method of Computed `c`, or a user handler -/
inductive Sub where
  | dirty (c : Nat)
  | user (h : Nat)
deriving Repr, DecidableEq

structure Comp where
  owner : Nat
  name : Nat
  tree : Tree
  dirty : Bool := true
  first : Bool := true
  value : Option V := none              -- `_value` (`none`: never computed; Python has `None` there as well)
  parents : List (PRef × V) := []     -- `parents[owner][name] = value`, flattened in iteration order
  evals : Nat := 0                      -- how often the function body ran (instrumentation)

/-- a call of a user handler: handler, owner, name, old, new -/
structure Entry where
  h : Nat
  owner : Nat
  name : Nat
  old : V
  new : V
deriving Repr, DecidableEq

structure St where
  regs : Nat → Reg Sub
  dead : List Nat
  store : Key → V
  comps : Nat → Option Comp
  cur : Option Nat := none              -- CURRENT_COMPUTED
  proc : List Key := []                 -- PROCESSING_SIGNALS
  depth : Nat := 0                      -- EVALUATION_DEPTH: function bodies running right now
  log : List Entry := []
  progs : Nat → List Nat                -- Computables a user handler reads when it is called

def St.alive (s : St) : Sub → Bool
  | .dirty _ => true
  | .user h => !s.dead.contains h

def St.setComp (s : St) (c : Nat) (x : Comp) : St :=
  { s with comps := fun c' => if c' = c then some x else s.comps c' }

def St.setReg (s : St) (o : Nat) (r : Reg Sub) : St :=
  { s with regs := fun o' => if o' = o then r else s.regs o' }

/-- owner and name of what a `PRef` names -/
def St.keyOf (s : St) : PRef → Option Key
  | .obs k => some k
  | .comp c => (s.comps c).map fun x => (x.owner, x.name)

/-- insertion of a new key into the flattened dict of dicts: at the end of its owner's group,
    or at the very end when the owner has no group yet -/
def insertAfterGroup (ownerOf : PRef → Nat) (o : Nat) (e : PRef × V) : List (PRef × V) → List (PRef × V)
  | [] => [e]
  | x :: rest =>
    if ownerOf x.1 = o ∧ !(rest.any fun y => ownerOf y.1 = o) then x :: e :: rest
    else x :: insertAfterGroup ownerOf o e rest

/-- `parents[owner][name] = value`: an existing key keeps its place and gets the new value -/
def insertParent (ownerOf : PRef → Nat) (r : PRef) (v : V) (ps : List (PRef × V)) : List (PRef × V) :=
  if ps.any (fun e => e.1 = r) then ps.map fun e => if e.1 = r then (r, v) else e
  else insertAfterGroup ownerOf (ownerOf r) (r, v) ps

def St.ownerOf (s : St) (r : PRef) : Nat := ((s.keyOf r).getD (0, 0)).1

inductive Task where
  | notify (k : Key) (old new : V)
  | readC (c : Nat)
  | assign (k : Key) (v : V)

inductive R where
  | ok (v : V)
  | err (e : Err)
deriving Repr, DecidableEq

abbrev Rec := Task → St → Option (St × R)

/-- `Computed._add_parent`: subscribe `_set_dirty` to every signal of the parent, remember the value -/
def addParent (s : St) (p : Nat) (r : PRef) (v : V) : St × R :=
  match s.keyOf r, s.comps p with
  | some (o, n), some x =>
    match (s.regs o).observe (.one n) .all (Sub.dirty p) with
    | .error e => (s, .err e)
    | .ok reg =>
      let s1 := s.setReg o reg
      (s1.setComp p { x with parents := insertParent s.ownerOf r v x.parents }, .ok none)
  | _, _ => (s, .err .attr)

/-- distinct owners of the remembered parents, in dict order -/
def parentOwners (s : St) (ps : List (PRef × V)) : List Nat :=
  (ps.map fun e => s.ownerOf e.1).eraseDups

/-- `Computed._remove_parents` (G4 repaired: the remembered values are cleared too) -/
def removeParents (s : St) (c : Nat) : St :=
  match s.comps c with
  | none => s
  | some x =>
    let s1 := (parentOwners s x.parents).foldl (fun s o =>
      match (s.regs o).unobserve s.alive .all .all (Sub.dirty c) with
      | .ok reg => s.setReg o reg
      | .error _ => s) s
    s1.setComp c { x with parents := [] }

/-- the function body: runs with `CURRENT_COMPUTED = c` -/
def evalTree (rec : Rec) : Tree → St → Option (St × R)
  | .ret v, s => some (s, .ok v)
  | .read k cont, s =>
    -- `BaseObservable.__get__`
    let v := s.store k
    match s.cur with
    | none => evalTree rec (cont v) s
    | some p =>
      match addParent s p (.obs k) v with
      | (s1, .err e) => some (s1, .err e)
      | (s1, .ok _) => evalTree rec (cont v) { s1 with proc := k :: s1.proc }
  | .readC c cont, s =>
    match rec (.readC c) s with
    | none => none
    | some (s1, .err e) => some (s1, .err e)
    | some (s1, .ok v) => evalTree rec (cont v) s1
  | .write k v next, s =>
    match rec (.assign k v) s with
    | none => none
    | some (s1, .err e) => some (s1, .err e)
    | some (s1, .ok _) => evalTree rec next s1
  | .fail, s => some (s, .err .user)

/-- the dirty pre-check of `Computed.__call__`: `true` = some remembered value differs (early exit); a remembered
    Computable that raises now counts as changed (G12 repaired: the exception is not passed on, the function decides
    whether it still reads that Computable) -/
def precheck (rec : Rec) : List (PRef × V) → St → Option (St × Except Err Bool)
  | [], s => some (s, .ok false)
  | (.obs k, v) :: rest, s =>
    if s.store k ≠ v then some (s, .ok true) else precheck rec rest s
  | (.comp c, v) :: rest, s =>
    match rec (.readC c) s with
    | none => none
    | some (s1, .err _) => some (s1, .ok true)      -- it raised
    | some (s1, .ok v') => if v' ≠ v then some (s1, .ok true) else precheck rec rest s1

/-- what a user handler does after recording: read Computables -/
def readAll (rec : Rec) : List Nat → St → Option (St × R)
  | [], s => some (s, .ok none)
  | c :: cs, s =>
    match rec (.readC c) s with
    | none => none
    | some (s1, .err e) => some (s1, .err e)
    | some (s1, .ok _) => readAll rec cs s1

/-- `_mesa_notify` (G13 repaired): the observers the signal had when it was emitted, in order; one that has died is
    skipped, and so is one that is no longer in the list as it is now (what a handler called before — here: the
    re-evaluation of a Computed, `_remove_parents` — has unsubscribed meanwhile) -/
def notifyLoop (rec : Rec) (k : Key) (old new : V) : List Sub → St → Option (St × Except Err Unit)
  | [], s => some (s, .ok ())
  | x :: xs, s =>
    if !s.alive x || !(((s.regs k.1).subs k.2 .change).contains x) then notifyLoop rec k old new xs s
    else
      match x with
      | .dirty c =>
        -- `Computed._set_dirty`
        match s.comps c with
        | none => some (s, .error .attr)
        | some cx =>
          if cx.dirty then notifyLoop rec k old new xs s
          else
            match rec (.notify (cx.owner, cx.name) cx.value.join none) (s.setComp c { cx with dirty := true }) with
            | none => none
            | some (s1, .err e) => some (s1, .error e)
            | some (s1, .ok _) => notifyLoop rec k old new xs s1
      | .user h =>
        -- a user handler: records the signal, then reads the Computables of its program
        let s0 := { s with log := s.log ++ [⟨h, k.1, k.2, old, new⟩] }
        match readAll rec (s.progs h) s0 with
        | none => none
        | some (s1, .err e) => some (s1, .error e)
        | some (s1, .ok _) => notifyLoop rec k old new xs s1

/-- the observer is the `_set_dirty` of a Computed (a dependent), not a user handler -/
def Sub.isDep : Sub → Bool
  | .dirty _ => true
  | .user _ => false

/-- `HasObservables.notify` + `_mesa_notify` for the `change` signal of key `k` (G7 repaired): first the dependents
    (the `_set_dirty` of the Computeds subscribed), then the user handlers, each group in subscription order — every
    Computable that depends on `k` is dirty before a handler can read it; afterwards the dead references are dropped
    from the list as it is then -/
def notifyT (rec : Rec) (k : Key) (old new : V) (s : St) : Option (St × R) :=
  let snap := (s.regs k.1).subs k.2 .change
  match notifyLoop rec k old new (snap.filter Sub.isDep) s with
  | none => none
  | some (s1, .error e) => some (s1, .err e)
  | some (s1, .ok _) =>
    match notifyLoop rec k old new (snap.filter fun x => !x.isDep) s1 with
    | none => none
    | some (s2, .error e) => some (s2, .err e)
    | some (s2, .ok _) =>
      some (s2.setReg k.1 ((s2.regs k.1).setSubs k.2 .change (((s2.regs k.1).subs k.2 .change).filter s2.alive)),
        .ok none)

/-- `Observable.__set__`: cycle check, **store, then notify** (G7 repaired: whoever reads while being notified sees
    the new value; G10 repaired: PROCESSING_SIGNALS is left alone) -/
def assignT (rec : Rec) (k : Key) (v : V) (s : St) : Option (St × R) :=
  if s.cur.isSome ∧ s.proc.contains k then some (s, .err .value)
  else
    match rec (.notify k (s.store k) v) { s with store := fun k' => if k' = k then v else s.store k' } with
    | none => none
    | some (s1, .err e) => some (s1, .err e)
    | some (s1, .ok _) => some (s1, .ok none)

/-- the `finally` of an evaluation: restore `CURRENT_COMPUTED`, one function body less is running; when the
    outermost one is over, what it read is forgotten -/
def leave (saved : Option Nat) (s : St) : St :=
  { s with cur := saved, depth := s.depth - 1, proc := if s.depth - 1 = 0 then [] else s.proc }

/-- the `except` of an evaluation (G11 repaired): nothing was computed, so the next read runs the function again
    (`_first = True`) instead of re-validating the value cached before the failure -/
def markFailed (s : St) (c : Nat) : St :=
  match s.comps c with
  | none => s
  | some x => s.setComp c { x with first := true }

/-- the re-evaluation branch of `Computed.__call__`: forget the parents, run the function with
    `CURRENT_COMPUTED = c` and `EVALUATION_DEPTH + 1` (both restored in `finally`), store the value, become clean;
    if the function raises: `markFailed` -/
def evalBody (rec : Rec) (c : Nat) (tree : Tree) (saved : Option Nat) (s1 : St) : Option (St × R) :=
  let s2 := removeParents s1 c
  match s2.comps c with
  | none => some (s2, .err .attr)
  | some x2 =>
    let s3 := { (s2.setComp c { x2 with evals := x2.evals + 1 }) with cur := some c, depth := s2.depth + 1 }
    match evalTree rec tree s3 with
    | none => none
    | some (s4, .err e) => some (leave saved (markFailed s4 c), .err e)
    | some (s4, .ok v) =>
      match s4.comps c with
      | none => some (leave saved s4, .err .attr)
      | some x4 => some (leave saved (s4.setComp c { x4 with value := some v, dirty := false }), .ok v)

/-- `Computed.__call__` of the Computed `c` whose record is `x` -/
def callC (rec : Rec) (c : Nat) (x : Comp) (s : St) : Option (St × R) :=
  if !x.dirty then some (s, .ok x.value.join)
  else
    let s0 := s.setComp c { x with first := false }
    if x.first then evalBody rec c x.tree s.cur s0
    else
      -- the pre-check, outside the enclosing evaluation (G9 repaired)
      match precheck rec x.parents { s0 with cur := none } with
      | none => none
      | some (s1, .error e) => some ({ s1 with cur := s.cur }, .err e)
      | some (s1, .ok true) => evalBody rec c x.tree s.cur { s1 with cur := s.cur }
      | some (s1, .ok false) =>
        match s1.comps c with
        | none => some ({ s1 with cur := s.cur }, .err .attr)
        | some x1 => some ({ (s1.setComp c { x1 with dirty := false }) with cur := s.cur }, .ok x1.value.join)

/-- `Computed._sources` (G15 repaired): the Observables Computed `c` depends on — the ones its last evaluation read
    and, through the Computables it read, the ones those depend on in turn.  The walk follows the remembered parents;
    a function reads only Computables defined before it (smaller index), so `c + 1` levels reach everything (Python:
    a `seen` set ends the walk) -/
def sourcesOf (s : St) : Nat → Nat → List Key
  | 0, _ => []
  | f+1, c =>
    match s.comps c with
    | none => []
    | some x => x.parents.flatMap fun e =>
      match e.1 with
      | .obs k => [k]
      | .comp c' => sourcesOf s f c'

/-- `Computable.__get__` -/
def getC (rec : Rec) (c : Nat) (s : St) : Option (St × R) :=
  match s.comps c with
  | none => some (s, .err .attr)
  | some x =>
    match callC rec c x s with
    | none => none
    | some (s1, .err e) => some (s1, .err e)
    | some (s1, .ok new) =>
      -- G8 repaired: the evaluating Computed remembers the value it is handed; G15 repaired: what the Computable
      -- depends on goes on record as read (`PROCESSING_SIGNALS`), also when it was served from its cache
      let added : St × R := match s1.cur with
        | none => (s1, .ok none)
        | some p =>
          match addParent s1 p (.comp c) new with
          | (s2, .err e) => (s2, .err e)
          | (s2, .ok u) => ({ s2 with proc := sourcesOf s2 (c + 1) c ++ s2.proc }, .ok u)
      match added with
      | (s2, .err e) => some (s2, .err e)
      | (s2, .ok _) =>
        if new ≠ x.value.join then
          match rec (.notify (x.owner, x.name) x.value.join new) s2 with
          | none => none
          | some (s3, .err e) => some (s3, .err e)
          | some (s3, .ok _) => some (s3, .ok new)
        else some (s2, .ok new)

def stepF (rec : Rec) : Task → St → Option (St × R)
  | .notify k old new, s => notifyT rec k old new s
  | .assign k v, s => assignT rec k v s
  | .readC c, s => getC rec c s

def exec : Nat → Task → St → Option (St × R)
  | 0 => fun _ _ => none
  | f+1 => stepF (exec f)

/-! ### the C17 state machine -/

inductive Op where
  | define (c : Nat) (owner name : Nat) (tree : Tree)    -- `owner.name = Computed(func)`
  | assign (k : Key) (v : V)
  | read (c : Nat)
  | observe (k : Key) (h : Nat)                           -- user handler on `change` of one name
  | unobserve (k : Key) (h : Nat)
  | drop (h : Nat)

def init (decls : Nat → List Decl) (progs : Nat → List Nat) : St :=
  { regs := fun o => { decls := decls o, subs := fun _ _ => [] }, dead := [], store := fun _ => some 0,
    comps := fun _ => none, progs := progs }

/-- one top-level operation; `none` = out of fuel -/
def step (fuel : Nat) (s : St) : Op → Option (St × R)
  | .define c o n t =>
    -- `Computable.__set__`: store the Computed, then read it once
    exec fuel (.readC c) (s.setComp c { owner := o, name := n, tree := t })
  | .assign k v => exec fuel (.assign k v) s
  | .read c => exec fuel (.readC c) s
  | .observe k h =>
    match (s.regs k.1).observe (.one k.2) (.one .change) (Sub.user h) with
    | .ok r => some (s.setReg k.1 r, .ok none)
    | .error e => some (s, .err e)
  | .unobserve k h =>
    match (s.regs k.1).unobserve s.alive (.one k.2) (.one .change) (Sub.user h) with
    | .ok r => some (s.setReg k.1 r, .ok none)
    | .error e => some (s, .err e)
  | .drop h => some ({ s with dead := h :: s.dead }, .ok none)

end Mesa.Computed
