/-
Model of the step counter of mesa/model.py (property C05):

    __init__:        self._user_step = self.step          # MRO lookup on the class
                     self.step = self._wrapped_step       # instance attribute shadows the class
    _wrapped_step:   self.steps += 1; self._user_step(*args, **kwargs)
    run_model:       while self.running: self.step()

A class hierarchy below `mesa.Model` is a list of levels, most derived class first (the MRO).
A level may define `step`; its body records what it sees and may call `super().step(...)`,
which Python resolves along the *class* MRO (never to the instance's wrapper).  A level that
does not take arguments is `def step(self)`; one that does is `def step(self, *args)` and
forwards them to `super().step(*args)`.  `Model.step(self)` itself takes none, so arguments
that reach a level which does not take them raise `TypeError` — after the increment, as in
the code.  Every body execution counts towards the harness's stop rule
(`execs += 1; if execs >= stop_at: running = False`).
-/
namespace Mesa.Steps

structure Level where
  overrides : Bool
  callsSuper : Bool
  takesArgs : Bool
deriving Repr, DecidableEq, Inhabited

abbrev Hier := List Level

/-- what a body records: its depth in the MRO, `model.steps` as it sees it, its arguments -/
structure Entry where
  depth : Nat
  steps : Nat
  args : List Int
deriving Repr, DecidableEq

/-- `self._user_step(*args)` resolved along the MRO from depth `d` on: the entries recorded,
    and whether the call returned normally (`false` = TypeError) -/
def runChain : Hier → Nat → List Int → Nat → List Entry × Bool
  | [], _, args, _ => ([], args.isEmpty)                 -- `Model.step(self)`
  | L :: rest, d, args, s =>
    if !L.overrides then runChain rest (d + 1) args s    -- attribute lookup goes on along the MRO
    else if !L.takesArgs && !args.isEmpty then ([], false)
    else if L.callsSuper then
      let r := runChain rest (d + 1) (if L.takesArgs then args else []) s
      (⟨d, s, args⟩ :: r.1, r.2)
    else ([⟨d, s, args⟩], true)

structure Inst where
  hier : Hier
  steps : Nat
  running : Bool
  execs : Nat        -- body executions so far (harness stop rule)
  stopAt : Nat
deriving Repr, DecidableEq, Inhabited

/-- `Model.__init__` -/
def Inst.new (h : Hier) (stopAt : Nat) : Inst :=
  { hier := h, steps := 0, running := true, execs := 0, stopAt := stopAt }

/-- `model.step(*args)` = `_wrapped_step(*args)` -/
def callStep (i : Inst) (args : List Int) : Inst × List Entry × Bool :=
  let r := runChain i.hier 0 args (i.steps + 1)
  let k := r.1.length
  ({ i with steps := i.steps + 1, execs := i.execs + k,
            running := i.running && !(k != 0 && decide (i.stopAt ≤ i.execs + k)) }, r.1, r.2)

/-- the records up to and including the first one made at depth `r` -/
def takeThrough (r : Nat) : List Entry → List Entry
  | [] => []
  | e :: es => if e.depth == r then [e] else e :: takeThrough r es

/-- a class body that raises: the level at depth `r` is `def step(self, …): <record>; raise RuntimeError(…)` — its body makes
    its record (and counts for the stop rule) and then raises, before any `super().step(…)`.  Of the bodies the chain would
    run, those up to and including the first at depth `r` run, nothing after it does (not even the `TypeError` a later level
    would have raised), and the call does not return normally.  A chain that never reaches depth `r` is unaffected. -/
def cutAt (r : Option Nat) (res : List Entry × Bool) : List Entry × Bool :=
  match r with
  | none => res
  | some r => if res.1.any (·.depth == r) then (takeThrough r res.1, false) else res

/-- `model.step(*args)` = `_wrapped_step(*args)` on an instance of a class whose body at depth `r` raises (`none`: no body does) -/
def callStepR (i : Inst) (r : Option Nat) (args : List Int) : Inst × List Entry × Bool :=
  let res := cutAt r (runChain i.hier 0 args (i.steps + 1))
  let k := res.1.length
  ({ i with steps := i.steps + 1, execs := i.execs + k,
            running := i.running && !(k != 0 && decide (i.stopAt ≤ i.execs + k)) }, res.1, res.2)

/-- `run_model` with fuel (`none` = does not terminate within the fuel) -/
def runModel : Nat → Inst → Option (Inst × List Entry)
  | 0, _ => none
  | f + 1, i =>
    if !i.running then some (i, [])
    else
      let r := callStep i []
      match runModel f r.1 with
      | none => none
      | some (i', es) => some (i', r.2.1 ++ es)

/-- the program sets `running = True` again and moves the stop rule `k` executions ahead -/
def rearm (i : Inst) (k : Nat) : Inst := { i with running := true, stopAt := i.execs + k }

/-! ### several coexisting model instances -/

/-- the program sets `running = False` itself -/
def halt (i : Inst) : Inst := { i with running := false }

inductive Op where
  | step (i : Nat) (args : List Int)
  | run (i : Nat) (fuel : Nat)
  | rearm (i : Nat) (k : Nat)
  | halt (i : Nat)
deriving Repr, DecidableEq

def apply (w : List Inst) : Op → List Inst
  | .step i args => match w[i]? with | some x => w.set i (callStep x args).1 | none => w
  | .run i fuel => match w[i]? with
    | some x => (match runModel fuel x with | some (x', _) => w.set i x' | none => w)
    | none => w
  | .rearm i k => match w[i]? with | some x => w.set i (rearm x k) | none => w
  | .halt i => match w[i]? with | some x => w.set i (halt x) | none => w

def run (w : List Inst) (ops : List Op) : List Inst := ops.foldl apply w

/-- does the call return?  A `run_model` whose model is still `running` when the fuel is used up does not: Python would loop
    on, the model's `apply` leaves the world as it was — a reading no statement about histories may rely on -/
def Op.returns (w : List Inst) : Op → Bool
  | .run i fuel => match w[i]? with | some x => (runModel fuel x).isSome | none => true
  | _ => true

/-- a history every call of which returns -/
def allReturn : List Inst → List Op → Bool
  | _, [] => true
  | w, op :: ops => op.returns w && allReturn (apply w op) ops

end Mesa.Steps
