import MesaModel.Model.Legacy
import MesaModel.Model.LegacyNbhd
/-
Model of the remaining views of the legacy grids of mesa/space.py (property C08, round 3):

* `_Grid.coord_iter()` — `(content, (x, y))` for `x in range(width)` for `y in range(height)`;
* the int `PropertyLayer`s of a `_PropertyGrid` as far as `select_cells` reads them: `PropertyLayer.set_cell`
  (numpy indexing: `-size .. -1` alias from the end, IndexError beyond);
* `_PropertyGrid.select_cells(conditions, extreme_values, masks, only_empty, return_list)`, statement by statement:
  the combined mask starts all-True, is and-ed with every mask given, with `empty_mask` if `only_empty`, with every
  condition applied to its layer (a layer that does not exist: KeyError), and then, extreme by extreme, with
  "the layer equals the highest / lowest value among the cells still selected" (no cell selected: nothing is;
  an invalid mode: ValueError); `np.where` lists the selected cells in row-major order (x, then y).

A boolean numpy array of shape `(width, height)` is a function `Coord → Bool` read on the cells of the grid.
-/
namespace Mesa.Legacy

/-- `coord_iter()` -/
def Grid.coordIter (g : Grid) : List (List Aid × Coord) := g.allCells.map fun c => (g.content c, c)

/-- the int property layers of a grid: `data i c` is `properties[name_i].data[c]`; layers `0 .. n-1` exist -/
structure Layers where
  n : Nat
  data : Nat → Coord → Int

def Layers.init (n : Nat) : Layers := { n := n, data := fun _ _ => 0 }

/-- `grid.properties[name].set_cell(position, value)`: a layer that does not exist is a KeyError of the dict;
    `data[x, y] = value` indexes like a Python list per axis -/
def Grid.layerSet (g : Grid) (ls : Layers) (i : Nat) (p : Coord) (v : Int) : Layers × Res :=
  if i < ls.n then
    match g.rawCell p with
    | .error e => (ls, .err e)
    | .ok c => ({ ls with data := fun j => if j = i then upd (ls.data i) c v else ls.data j }, .ok)
  else (ls, .err .key)

/-- the comparisons the protocol's conditions use: `lambda d: d >= k`, `d <= k`, `d == k`, `d != k` -/
inductive Cmp where | ge | le | eq | ne
deriving Repr, DecidableEq

def Cmp.holds : Cmp → Int → Int → Bool
  | .ge, v, k => decide (k ≤ v)
  | .le, v, k => decide (v ≤ k)
  | .eq, v, k => decide (v = k)
  | .ne, v, k => decide (v ≠ k)

structure Cond where
  layer : Nat
  cmp : Cmp
  k : Int
deriving Repr, DecidableEq

inductive Mode where | highest | lowest | other
deriving Repr, DecidableEq

structure Extreme where
  layer : Nat
  mode : Mode
deriving Repr, DecidableEq

abbrev CMask := Coord → Bool

/-- `for prop_name, condition in conditions.items(): combined_mask &= condition(self.properties[prop_name].data)` -/
def applyConds (ls : Layers) : List Cond → CMask → Except Err CMask
  | [], m => .ok m
  | c :: cs, m =>
    if c.layer < ls.n then applyConds ls cs (fun p => m p && c.cmp.holds (ls.data c.layer p) c.k)
    else .error .key

/-- `masked_values.max()` / `.min()` over the selected cells (`none`: every cell is masked) -/
def extremeOf (hi : Bool) : List Int → Option Int
  | [] => none
  | x :: xs => some (xs.foldl (fun a b => if hi then (if a < b then b else a) else (if b < a then b else a)) x)

/-- `for property_name, mode in extreme_values.items(): …` -/
def Grid.applyExtremes (g : Grid) (ls : Layers) : List Extreme → CMask → Except Err CMask
  | [], m => .ok m
  | e :: es, m =>
    if e.layer < ls.n then
      let vals := (g.allCells.filter m).map (ls.data e.layer)
      match e.mode with
      | .other => .error .value
      | .highest =>
        match extremeOf true vals with
        | none => applyExtremes g ls es (fun _ => false)
        | some t => applyExtremes g ls es (fun p => m p && decide (ls.data e.layer p = t))
      | .lowest =>
        match extremeOf false vals with
        | none => applyExtremes g ls es (fun _ => false)
        | some t => applyExtremes g ls es (fun p => m p && decide (ls.data e.layer p = t))
    else .error .key

/-- the combined mask of `select_cells` (what `return_list=False` returns, read on the cells of the grid) -/
def Grid.selectMask (g : Grid) (ls : Layers) (masks : List CMask) (onlyEmpty : Bool) (conds : List Cond)
    (exts : List Extreme) : Except Err CMask :=
  let m0 : CMask := fun p => masks.all (fun m => m p)
  let m1 : CMask := if onlyEmpty then (fun p => m0 p && g.mask p) else m0
  match applyConds ls conds m1 with
  | .error e => .error e
  | .ok m2 => g.applyExtremes ls exts m2

/-- `select_cells(…, return_list=True)`: `list(zip(*np.where(combined_mask)))` -/
def Grid.selectCells (g : Grid) (ls : Layers) (masks : List CMask) (onlyEmpty : Bool) (conds : List Cond)
    (exts : List Extreme) : Except Err (List Coord) :=
  match g.selectMask ls masks onlyEmpty conds exts with
  | .error e => .error e
  | .ok m => .ok (g.allCells.filter m)

/-- the mask `get_neighborhood_mask` builds from a neighbourhood -/
def nbhdMask (cells : List Coord) : CMask := fun c => decide (c ∈ cells)

end Mesa.Legacy
