/-
Model of mesa/datacollection.py (properties C12, C18-collect; used by the C13 batch model).

A model history is a list of `Op`s applied to a `State` that holds what reporters can see
(`steps`, model attributes, registered agents with their attributes) and what the
`DataCollector` holds (`model_vars`, `_collection_steps`, `_agent_records`,
`_agenttype_records`, `tables`, `_validated`).

Values are `none | int | list of ints`; a model attribute holding a mutable list is a value
here, so "deep copy at collect time" is what the model does by construction (aliasing is the
business of the correspondence check).  Reporters are the four forms of the code, each
carrying an *abstract function of the snapshot* that returns a value or raises (`Except Err Val`);
names of reporters, attributes, tables, columns and classes are small naturals (dict order =
list order).  pandas is not modelled: a frame is (index tuples, columns, values).

A reporter that raises ends `collect` where it stands: what the reporters before it appended
stays (the partial collect is visible); see `collect`.
-/
namespace Mesa.Collect

inductive Val where
  | none
  | int (i : Int)
  | list (xs : List Int)
deriving Repr, DecidableEq, Inhabited

/-- Python `d[k] = v` on an insertion-ordered dict: overwrite in place or append -/
def setKey (k : Nat) (v : α) : List (Nat × α) → List (Nat × α)
  | [] => [(k, v)]
  | (k', v') :: rest => if k' = k then (k', v) :: rest else (k', v') :: setKey k v rest

def delKey (k : Nat) (l : List (Nat × α)) : List (Nat × α) := l.filter (·.1 != k)

/-- `getattr(obj, name, None)` -/
def getAttr (attrs : List (Nat × Val)) (a : Nat) : Val := (attrs.lookup a).getD .none

structure AgentS where
  id : Nat
  ty : Nat                       -- the agent's class
  attrs : List (Nat × Val)
deriving Repr, DecidableEq

/-- what a reporter can look at: the model at one moment -/
structure Snap where
  steps : Nat
  attrs : List (Nat × Val)
  agents : List AgentS           -- `model.agents` in its current order (creation order until reordered in place)
deriving Repr, DecidableEq

inductive Err where
  | attr | value | key | unknown | missing | warn | index | runtime
deriving Repr, DecidableEq

/-- the exception a reporter call raised, if any -/
def excOf : Except Err Val → Option Err
  | .ok _ => none
  | .error e => some e

/-- the value a reporter call returned (only read where `excOf` is `none`) -/
def valOf : Except Err Val → Val
  | .ok v => v
  | .error _ => .none

/-- model-level reporter forms (`collect`, lines 329-345); each function returns a value or raises -/
inductive MRep where
  | attr (a : Nat)                                                   -- "name": `getattr(model, name, None)`
  | fn (f : Snap → Except Err Val)                                   -- plain function / lambda: `f(model)`; validated by a trial call
  | part (f : Snap → Except Err Val)                                 -- `functools.partial`: `f(model)`; never validated
  | meth (f : Snap → Except Err Val)                                 -- bound method: `f()`
  | fnArgs (f : List Int → Snap → Except Err Val) (args : List Int)  -- `[f, args]`: `f(*args)`

/-- evaluating the reporter on the model as it is -/
def MRep.run : MRep → Snap → Except Err Val
  | .attr a, sn => .ok (getAttr sn.attrs a)
  | .fn f, sn => f sn
  | .part f, sn => f sn
  | .meth f, sn => f sn
  | .fnArgs f args, sn => f args sn

def MRep.exc (r : MRep) (sn : Snap) : Option Err := excOf (r.run sn)
def MRep.eval (r : MRep) (sn : Snap) : Val := valOf (r.run sn)

/-- agent-level reporter forms (`_new_agent_reporter`, `_new_agenttype_reporter`) -/
inductive ARep where
  | attr (a : Nat)                                                             -- `getattr(agent, name, None)`
  | fn (f : Snap → AgentS → Except Err Val)                                    -- function: `f(agent)`
  | meth (f : Snap → AgentS → Except Err Val)                                  -- method of the class: `f(agent)`
  | fnArgs (f : List Int → Snap → AgentS → Except Err Val) (args : List Int)   -- `[f, args]`: `f(agent, *args)`

def ARep.run : ARep → Snap → AgentS → Except Err Val
  | .attr a, _, ag => .ok (getAttr ag.attrs a)
  | .fn f, sn, ag => f sn ag
  | .meth f, sn, ag => f sn ag
  | .fnArgs f args, sn, ag => f args sn ag

def ARep.exc (r : ARep) (sn : Snap) (ag : AgentS) : Option Err := excOf (r.run sn ag)
def ARep.eval (r : ARep) (sn : Snap) (ag : AgentS) : Val := valOf (r.run sn ag)

/-- the reporter dictionaries handed to `DataCollector(...)` and the class hierarchy -/
structure Cfg where
  mreps : List MRep
  areps : List ARep
  treps : List (Nat × List ARep)       -- agent type ↦ its reporters
  isAgentClass : Nat → Bool            -- `issubclass(T, Agent)`
  isSub : Nat → Nat → Bool             -- `issubclass(c, T)`

structure Row where
  step : Nat
  id : Nat
  vals : List Val
deriving Repr, DecidableEq

abbrev Table := List (Nat × List Val)       -- column ↦ values

structure State where
  steps : Nat
  running : Bool
  attrs : List (Nat × Val)
  agents : List AgentS                       -- `model.agents`, registry order
  types : List Nat                           -- `model.agent_types` (classes that ever had an instance)
  nextId : Nat
  validated : Bool
  modelVars : List (List Val)                -- one list per model reporter
  collSteps : List Nat                       -- `_collection_steps`
  records : List (Nat × List Row)            -- `_agent_records`
  typeRecords : List (Nat × List (Nat × List Row))   -- `_agenttype_records`
  tables : List (Nat × Table)
deriving Repr, DecidableEq

def init (cfg : Cfg) (tables : List (Nat × List Nat)) : State :=
  { steps := 0, running := true, attrs := [], agents := [], types := [], nextId := 1,
    validated := false, modelVars := cfg.mreps.map fun _ => [], collSteps := [], records := [],
    typeRecords := [],
    tables := tables.foldl (fun acc (t, cols) => setKey t (cols.foldl (fun c k => setKey k [] c) []) acc) [] }

def State.snap (s : State) : Snap := { steps := s.steps, attrs := s.attrs, agents := s.agents }

/-- `get_reports`: prefix `(model.steps, unique_id)` + one value per reporter -/
def mkRow (reps : List ARep) (sn : Snap) (ag : AgentS) : Row :=
  { step := sn.steps, id := ag.id, vals := reps.map fun r => r.eval sn ag }

/-- `get_reports(agent)` evaluates the reporters in dict order: the first exception, if any -/
def rowExc (reps : List ARep) (sn : Snap) (ag : AgentS) : Option Err := reps.findSome? fun r => r.exc sn ag

/-- `list(map(get_reports, agents))`: agents in order; the first exception, if any (then no list is built) -/
def rowsExc (reps : List ARep) (sn : Snap) (ags : List AgentS) : Option Err := ags.findSome? (rowExc reps sn)

/-- `_validate_model_reporter` for the reporters in dict order, first failure: a string naming a missing
    attribute (AttributeError), a plain function whose trial call raises (RuntimeError); partials, bound
    methods and `[f, args]` lists are not called here -/
def validateErr (cfg : Cfg) (s : State) : Option Err :=
  cfg.mreps.findSome? fun r => match r with
    | .attr a => if (s.attrs.lookup a).isSome then none else some .attr
    | .fn f => match f s.snap with
      | .ok _ => none
      | .error _ => some .runtime
    | _ => none

/-- the validation step of `collect`: only while `_validated` is unset, only with model reporters -/
def guardErr (cfg : Cfg) (s : State) : Option Err :=
  if cfg.mreps.isEmpty || s.validated then none else validateErr cfg s

/-- the loop over `model_reporters` (one `append` per reporter): a reporter that raises ends it; the
    columns of the reporters before it have been appended to, its own and the later ones have not -/
def mLoop (sn : Snap) : List MRep → List (List Val) → List (List Val) × Option Err
  | r :: rs, col :: cols =>
    match r.run sn with
    | .error e => (col :: cols, some e)
    | .ok v => ((col ++ [v]) :: (mLoop sn rs cols).1, (mLoop sn rs cols).2)
  | _, cols => (cols, none)

/-- in-place reorderings of `model.agents`: `shuffle(inplace=True)` with the permutation the random source
    happens to draw (`perm p`: the agent at position `p[j]` goes to position `j`, for any permutation `p` of the
    positions — every order a shuffle can produce; a `p` that is not a permutation of the positions is not a draw and
    leaves the order alone; `rev` = reversed, `rot` = first to the end are two such draws with names) and `sort(key, ascending, inplace=True)` = Python's stable `sorted(..., reverse=not ascending)` by
    `unique_id` or by an int-valued key read off attribute `a` -/
inductive ReKind where
  | rev
  | rot
  | byId (asc : Bool)
  | byAttr (a : Nat) (asc : Bool)
  | perm (p : List Nat)
deriving Repr, DecidableEq

/-- `p` lists every position of a list of length `n` once -/
def isPermOfRange (p : List Nat) (n : Nat) : Bool := p.isPerm (List.range n)

/-- the sort key `byAttr a` uses: the attribute if it is an int, else 0 -/
def intKey (a : Nat) (ag : AgentS) : Int :=
  match getAttr ag.attrs a with
  | .int i => i
  | _ => 0

/-- stable insertion sort (structural, so that examples reduce in the kernel): `x` goes in front of the first
    element it is `le` to — elements that compare equal keep their order -/
def insertBy (le : α → α → Bool) (x : α) : List α → List α
  | [] => [x]
  | y :: ys => if le x y then x :: y :: ys else y :: insertBy le x ys

def sortStable (le : α → α → Bool) : List α → List α
  | [] => []
  | x :: xs => insertBy le x (sortStable le xs)

/-- `sorted(agents, key=key, reverse=not asc)`: stable in both directions -/
def sortBy (key : AgentS → Int) (asc : Bool) (l : List AgentS) : List AgentS :=
  if asc then sortStable (fun x y => decide (key x ≤ key y)) l else sortStable (fun x y => decide (key y ≤ key x)) l

def reorderList : ReKind → List AgentS → List AgentS
  | .rev, l => l.reverse
  | .rot, l => l.drop 1 ++ l.take 1
  | .byId asc, l => sortBy (fun ag => (ag.id : Int)) asc l
  | .byAttr a asc, l => sortBy (intKey a) asc l
  | .perm p, l => if isPermOfRange p l.length then p.filterMap (l[·]?) else l

/-- `model.agents_by_type[T]` is an AgentSet of its own: it keeps the order in which the agents were created
    (= ascending `unique_id`) whatever is done to `model.agents` -/
def byCreation (l : List AgentS) : List AgentS := sortStable (fun x y => decide (x.id ≤ y.id)) l

/-- the agents an agent-type reporter keyed by `T` looks at (`_record_agenttype`, with the T3 repair:
    a class whose instances are all gone is treated like one that never had any).  A class with direct
    instances is read from `agents_by_type[T]` (creation order), any other from `model.agents` (its current
    order) -/
def typeAgents (cfg : Cfg) (s : State) (T : Nat) : Option (List AgentS) :=
  if s.types.contains T && s.agents.any (fun a => a.ty == T) then some (byCreation (s.agents.filter fun a => a.ty == T))
  else if cfg.isAgentClass T then some (s.agents.filter fun a => cfg.isSub a.ty T)
  else none

/-- the loop over `agenttype_reporters`; stops at the first unknown type (ValueError) or at the first
    reporter that raises (the dict keeps the types written before) -/
def typeLoop (cfg : Cfg) (s : State) :
    List (Nat × List ARep) → List (Nat × List Row) → List (Nat × List Row) × Option Err
  | [], acc => (acc, none)
  | (T, reps) :: rest, acc =>
    match typeAgents cfg s T with
    | none => (acc, some .value)
    | some ags =>
      match rowsExc reps s.snap ags with
      | some e => (acc, some e)
      | none => typeLoop cfg s rest (setKey T (ags.map (mkRow reps s.snap)) acc)

/-- `DataCollector.collect`.  Four places where it can end early, each leaving what was written before:
    validation (first collect only: nothing stored), a model reporter (columns before it appended),
    an agent reporter (model values and `_collection_steps` stored, no agent records), the agent-type loop
    (`_agenttype_records[steps]` holds the types before the failing one). -/
def collect (cfg : Cfg) (s : State) : State × Option Err :=
  match guardErr cfg s with
  | some e => ({ s with validated := true }, some e)
  | none =>
    let sn := s.snap
    let m := mLoop sn cfg.mreps s.modelVars
    let s1 := { s with validated := !cfg.mreps.isEmpty || s.validated, modelVars := m.1 }
    match m.2 with
    | some e => (s1, some e)
    | none =>
      let s2 := { s1 with collSteps := s1.collSteps ++ [s.steps] }
      match rowsExc cfg.areps sn s.agents with
      | some e => (s2, some e)
      | none =>
        let s3 := if cfg.areps.isEmpty then s2 else
          { s2 with records := setKey s.steps (s.agents.map (mkRow cfg.areps sn)) s2.records }
        if cfg.treps.isEmpty then (s3, none)
        else
          let r := typeLoop cfg s cfg.treps []
          ({ s3 with typeRecords := setKey s.steps r.1 s3.typeRecords }, r.2)

/-- `DataCollector.add_table_row` (with the T1 repair: the row is validated before any append) -/
def addTableRow (s : State) (t : Nat) (row : List (Nat × Val)) (ignoreMissing : Bool) : State × Option Err :=
  match s.tables.lookup t with
  | none => (s, some .unknown)
  | some tab =>
    if !ignoreMissing && tab.any (fun c => (row.lookup c.1).isNone) then (s, some .missing)
    else
      let tab' := tab.map fun (c, vs) => (c, vs ++ [(row.lookup c).getD .none])
      ({ s with tables := setKey t tab' s.tables }, none)

inductive Op where
  | create (ty : Nat) (attrs : List (Nat × Val))   -- `Cls(model)` + attribute assignments
  | remove (id : Nat)                               -- `agent.remove()` (KeyError of a second call is suppressed)
  | step                                            -- `model.steps += 1` (the wrapper of `step`)
  | mset (a : Nat) (v : Val)                        -- `model.a = v`
  | mapp (a : Nat) (x : Int)                        -- `model.a.append(x)`  (in-place mutation)
  | mdel (a : Nat)                                  -- `del model.a`
  | aset (id a : Nat) (v : Val)                     -- `agent.a = v`
  | adel (id a : Nat)                               -- `del agent.a`
  | collect
  | row (t : Nat) (r : List (Nat × Val)) (ignoreMissing : Bool)
  | stopAt (k : Nat)                                -- `if model.steps >= k: model.running = False`
  | reorder (k : ReKind)                            -- `model.agents.shuffle(inplace=True)` / `.sort(…, inplace=True)`
deriving Repr, DecidableEq

def updAgent (id : Nat) (f : AgentS → AgentS) (l : List AgentS) : List AgentS :=
  l.map fun a => if a.id = id then f a else a

def apply (cfg : Cfg) (s : State) : Op → State × Option Err
  | .create ty attrs =>
    ({ s with agents := s.agents ++ [{ id := s.nextId, ty := ty, attrs := attrs }]
              types := if s.types.contains ty then s.types else s.types ++ [ty]
              nextId := s.nextId + 1 }, none)
  | .remove id => ({ s with agents := s.agents.filter (·.id != id) }, none)   -- a second `remove()` is a no-op
  | .step => ({ s with steps := s.steps + 1 }, none)
  | .mset a v => ({ s with attrs := setKey a v s.attrs }, none)
  | .mapp a x =>
    match s.attrs.lookup a with
    | some (.list xs) => ({ s with attrs := setKey a (.list (xs ++ [x])) s.attrs }, none)
    | _ => (s, some .attr)
  | .mdel a =>
    if (s.attrs.lookup a).isSome then ({ s with attrs := delKey a s.attrs }, none) else (s, some .attr)
  | .aset id a v => ({ s with agents := updAgent id (fun ag => { ag with attrs := setKey a v ag.attrs }) s.agents }, none)
  | .adel id a => ({ s with agents := updAgent id (fun ag => { ag with attrs := delKey a ag.attrs }) s.agents }, none)
  | .collect => collect cfg s
  | .row t r ign => addTableRow s t r ign
  | .stopAt k => ({ s with running := if s.steps ≥ k then false else s.running }, none)
  | .reorder k => ({ s with agents := reorderList k s.agents }, none)

/-- a history; a call that raises is caught by the caller and the history goes on -/
def run (cfg : Cfg) (s : State) (ops : List Op) : State := ops.foldl (fun s op => (apply cfg s op).1) s

/-! ### the frames (what the `get_*_dataframe` methods hand to pandas) -/

/-- `pd.DataFrame(dict of lists)`: index `0..n-1`, one column per key; pandas refuses ragged input -/
def rect (cols : List (List Val)) : Option Nat :=
  match cols with
  | [] => some 0
  | c :: rest => if rest.all (·.length == c.length) then some c.length else none

/-- `get_model_vars_dataframe`: `(number of rows, columns)` -/
def modelFrame (cfg : Cfg) (s : State) : Except Err (Nat × List (List Val)) :=
  if cfg.mreps.isEmpty then .error .warn
  else match rect s.modelVars with
    | some n => .ok (n, s.modelVars)
    | none => .error .value

/-- `get_agent_vars_dataframe`: the rows in dict order; index `(Step, AgentID)` -/
def agentFrame (cfg : Cfg) (s : State) : Except Err (List Row) :=
  if cfg.areps.isEmpty then .error .warn else .ok (s.records.flatMap (·.2))

/-- `get_agenttype_vars_dataframe(T)`; `none` = the empty frame returned for an unknown key -/
def typeFrame (cfg : Cfg) (s : State) (T : Nat) : Option (List Row) :=
  if (cfg.treps.lookup T).isNone then none
  else some (s.typeRecords.flatMap fun (_, d) => (d.lookup T).getD [])

/-- `get_table_dataframe` -/
def tableFrame (s : State) (t : Nat) : Except Err (Nat × Table) :=
  match s.tables.lookup t with
  | none => .error .unknown
  | some tab => match rect (tab.map (·.2)) with
    | some n => .ok (n, tab)
    | none => .error .value

end Mesa.Collect
