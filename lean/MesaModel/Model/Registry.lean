import MesaModel.Base.Rng
import MesaModel.Base.ListOps
/-
Model of the agent registry of mesa/model.py + mesa/agent.py (properties C02, C04).

An agent is named by its global creation serial `Aid` (what the harness calls it); `Info`
records what never changes about it (its model, its exact class, its `unique_id`).  A model's
registry is the three structures of `Model.__init__`:

  hard    `Model._agents`          dict of hard references, insertion order
  all     `Model._all_agents`      AgentSet (weak-keyed, insertion ordered; may be reordered in place)
  byType  `Model._agents_by_type`  insertion-ordered dict  class → AgentSet

plus `nextId` (`Agent._ids[model]`, an `itertools.count(1)`) and the model's stdlib generator
(`model.random`, a scripted `Rng`).  `held` is the set of agents the *program* keeps a strong
reference to; an agent is alive iff its model still registers it (hard reference) or the
program holds it (CPython refcounting: trusted runtime fact).  AgentSets hold weak references:
what a set shows is its raw key list filtered by `alive`.
`removedLog` is ghost state: the targets of all `Agent.remove()` calls, in call order.
-/
namespace Mesa.Agents

abbrev Aid := Nat
abbrev Ty := Nat

/-- a value an agent's constructor receives: an int, or a whole sequence (a `create_agents` argument that
    was not split) -/
inductive Val where
  | int (v : Int)
  | seq (l : List Int)
deriving Repr, DecidableEq, Inhabited

/-- the constructor arguments of an agent after `model`, positional and keyword alike, in parameter order -/
abbrev Payload := List Val

structure Info where
  model : Nat
  ty : Ty
  uid : Nat
  x : Payload      -- what the agent's constructor received (`cls(model, *x)`)
deriving Repr, DecidableEq, Inhabited

structure Reg where
  hard : List Aid
  all : List Aid
  byType : List (Ty × List Aid)
  nextId : Nat
  rng : Rng
deriving Repr, DecidableEq, Inhabited

structure World where
  regs : List Reg
  info : List Info                 -- index = Aid: every agent ever created
  held : List Aid
  sets : List (Nat × List Aid)     -- program-made AgentSets: (model whose generator they carry, raw keys)
  log : List (Aid × Nat)           -- callback invocations (agent, argument), oldest first
  removedLog : List Aid            -- ghost: targets of Agent.remove() calls
deriving Repr, DecidableEq, Inhabited

def World.empty : World :=
  { regs := [], info := [], held := [], sets := [], log := [], removedLog := [] }

/-- `Model.__init__` (registry part): empty structures, ids start at 1 -/
def Reg.new (rng : Rng) : Reg := { hard := [], all := [], byType := [], nextId := 1, rng := rng }

def newModel (w : World) (rng : Rng) : World := { w with regs := w.regs ++ [Reg.new rng] }

/-- `try: by_type[cls].add(agent)  except KeyError: by_type[cls] = AgentSet([agent])` -/
def byTypeAdd : List (Ty × List Aid) → Ty → Aid → List (Ty × List Aid)
  | [], ty, a => [(ty, [a])]
  | (t, s) :: rest, ty, a =>
    if t = ty then (t, addKey s a) :: rest else (t, s) :: byTypeAdd rest ty a

/-- `by_type[cls].remove(agent)` when the class and the agent are present -/
def byTypeErase : List (Ty × List Aid) → Ty → Aid → List (Ty × List Aid)
  | [], _, _ => []
  | (t, s) :: rest, ty, a =>
    if t = ty then (t, s.erase a) :: rest else (t, s) :: byTypeErase rest ty a

/-- `Model.register_agent` -/
def Reg.register (r : Reg) (a : Aid) (ty : Ty) : Reg :=
  { r with hard := addKey r.hard a, byType := byTypeAdd r.byType ty a, all := addKey r.all a }

/-- `Model.deregister_agent` under `contextlib.suppress(KeyError)` (`Agent.remove`):
    each of the three deletions may raise `KeyError`, which ends the call silently. -/
def Reg.deregister (r : Reg) (a : Aid) (ty : Ty) : Reg :=
  if a ∈ r.hard then
    let r1 := { r with hard := r.hard.erase a }
    match r.byType.lookup ty with
    | none => r1
    | some s =>
      if a ∈ s then
        let r2 := { r1 with byType := byTypeErase r.byType ty a }
        if a ∈ r2.all then { r2 with all := r2.all.erase a } else r2
      else r1
  else r

/-- `Agent.__init__`: draw the next id of this model, register.  `hold` = the program keeps
    a reference to the new agent.  An unknown model index cannot be expressed by a program. -/
def createAgent (w : World) (m : Nat) (ty : Ty) (hold : Bool) (x : Payload := []) : World :=
  match w.regs[m]? with
  | none => w
  | some r =>
    let a := w.info.length
    { w with
      regs := w.regs.set m { r.register a ty with nextId := r.nextId + 1 }
      info := w.info ++ [{ model := m, ty := ty, uid := r.nextId, x := x }]
      held := if hold then w.held ++ [a] else w.held }

/-- the loop of `Agent.create_agents`: one constructor call per agent, `xs[i]` = the arguments of the i-th -/
def createN (w : World) (m : Nat) (ty : Ty) (hold : Bool) (xs : List Payload) : World :=
  xs.foldl (fun w x => createAgent w m ty hold x) w

/-- an argument (positional or keyword) handed to `create_agents`: a single object, or a list / tuple /
    ndarray of any length -/
inductive Arg where
  | scalar (v : Int)
  | seq (l : List Int)
deriving Repr, DecidableEq

/-- what the i-th of n agents receives for one argument:
    `if isinstance(arg, (list | np.ndarray | tuple)) and len(arg) == n: arg[i]` else the argument itself
    (`ListLike(arg)[i]`) — a sequence of any other length is **not** split -/
def Arg.at (n i : Nat) : Arg → Val
  | .scalar v => .int v
  | .seq l => if l.length = n then (match l[i]? with | some v => .int v | none => .seq l) else .seq l

/-- `instance_args = [arg[i] for arg in listlike_args]` (+ the same for the keyword arguments), i = 0 … n-1 -/
def splitArgs (n : Nat) (args : List Arg) : List Payload :=
  (List.range n).map fun i => args.map (Arg.at n i)

/-- `Agent.create_agents(model, n, *args, **kwargs)` -/
def createAgents (w : World) (m : Nat) (ty : Ty) (hold : Bool) (n : Nat) (args : List Arg) : World :=
  createN w m ty hold (splitArgs n args)

/-- `Agent.remove()` -/
def removeAgent (w : World) (a : Aid) : World :=
  match w.info[a]? with
  | none => w
  | some i =>
    match w.regs[i.model]? with
    | none => w
    | some r => { w with regs := w.regs.set i.model (r.deregister a i.ty), removedLog := w.removedLog ++ [a] }

/-- `model.register_agent(agent)` called **directly** by the program, on an agent it can reach (`Agent.__init__` has
    already registered it once; some user code does it again) -/
def registerAgain (w : World) (a : Aid) : World :=
  match w.info[a]? with
  | none => w
  | some i =>
    match w.regs[i.model]? with
    | none => w
    | some r => { w with regs := w.regs.set i.model (r.register a i.ty) }

/-- `model.deregister_agent(agent)` called **directly**: there is no `suppress(KeyError)` around it — `none` = the
    `KeyError` of `del self._agents[agent]` for an agent that is not registered (nothing was changed before it) -/
def deregisterDirect (w : World) (a : Aid) : Option World :=
  match w.info[a]? with
  | none => none
  | some i =>
    match w.regs[i.model]? with
    | none => none
    | some r => if a ∈ r.hard then some (removeAgent w a) else none

/-- `Model.remove_all_agents`: `for agent in list(self._agents.keys()): agent.remove()` -/
def removeAll (w : World) (m : Nat) : World :=
  match w.regs[m]? with
  | none => w
  | some r => r.hard.foldl removeAgent w

/-- the program drops its reference to `a` -/
def unhold (w : World) (a : Aid) : World := { w with held := w.held.filter (· ≠ a) }

def registered (w : World) (a : Aid) : Bool :=
  match w.info[a]? with
  | none => false
  | some i =>
    match w.regs[i.model]? with
    | none => false
    | some r => r.hard.contains a

/-- refcounting: an agent that was created is alive iff it is registered (hard reference in
    `Model._agents`) or held by the program -/
def alive (w : World) (a : Aid) : Bool :=
  decide (a < w.info.length) && (registered w a || w.held.contains a)

def uidOf (w : World) (a : Aid) : Nat := match w.info[a]? with | some i => i.uid | none => 0
def tyOf (w : World) (a : Aid) : Ty := match w.info[a]? with | some i => i.ty | none => 0

/-! ### AgentSets of the world: `model.agents`, `model.agents_by_type[T]`, program-made sets -/

inductive Target where
  | all (m : Nat)
  | byType (m : Nat) (ty : Ty)
  | set (k : Nat)
deriving Repr, DecidableEq

/-- does the expression denote an AgentSet? (`agents_by_type[T]` raises `KeyError` otherwise) -/
def Target.exists? (w : World) : Target → Bool
  | .all m => m < w.regs.length
  | .byType m ty => match w.regs[m]? with | some r => (r.byType.lookup ty).isSome | none => false
  | .set k => match w.sets[k]? with | some (m, _) => m < w.regs.length | none => false

/-- raw key list of the weak dictionary -/
def rawMembers (w : World) : Target → List Aid
  | .all m => match w.regs[m]? with | some r => r.all | none => []
  | .byType m ty => match w.regs[m]? with | some r => (r.byType.lookup ty).getD [] | none => []
  | .set k => match w.sets[k]? with | some (_, l) => l | none => []

/-- what iteration / `keyrefs()` shows: the keys whose referent is alive -/
def members (w : World) (t : Target) : List Aid := (rawMembers w t).filter (alive w)

/-- the model whose generator the set carries -/
def Target.model (w : World) : Target → Nat
  | .all m => m
  | .byType m _ => m
  | .set k => match w.sets[k]? with | some (m, _) => m | none => 0

def rngOf (w : World) (t : Target) : Rng :=
  match w.regs[t.model w]? with | some r => r.rng | none => ⟨[]⟩

def setRng (w : World) (m : Nat) (g : Rng) : World :=
  match w.regs[m]? with
  | none => w
  | some r => { w with regs := w.regs.set m { r with rng := g } }

def byTypeSet : List (Ty × List Aid) → Ty → List Aid → List (Ty × List Aid)
  | [], _, _ => []
  | (t, s) :: rest, ty, l => if t = ty then (t, l) :: rest else (t, s) :: byTypeSet rest ty l

/-- rebuild the key dictionary of a set (`self._agents.data = {…}` / `_update`) -/
def setRaw (w : World) (t : Target) (l : List Aid) : World :=
  match t with
  | .all m => match w.regs[m]? with
    | some r => { w with regs := w.regs.set m { r with all := l } } | none => w
  | .byType m ty => match w.regs[m]? with
    | some r => { w with regs := w.regs.set m { r with byType := byTypeSet r.byType ty l } } | none => w
  | .set k => match w.sets[k]? with
    | some (m, _) => { w with sets := w.sets.set k (m, l) } | none => w

/-- `AgentSet.shuffle(inplace=True)` -/
def shuffleInPlace (w : World) (t : Target) : World :=
  let m := t.model w
  let (l, g) := Rng.shuffle (members w t) (rngOf w t)
  setRng (setRaw w t l) m g

/-- `AgentSet.sort("unique_id", ascending, inplace=True)`; `sorted(reverse=True)` keeps the
    original order among equal keys, as does `mergeSort` with `≥` -/
def sortInPlace (w : World) (t : Target) (asc : Bool) : World :=
  let le := fun a b => if asc then decide (uidOf w a ≤ uidOf w b) else decide (uidOf w b ≤ uidOf w a)
  setRaw w t ((members w t).mergeSort le)

/-- `AgentSet(agents, random=model_m.random)` over the listed agents the program can still reach -/
def mkSet (w : World) (m : Nat) (l : List Aid) : World :=
  { w with sets := w.sets ++ [(m, dedup (l.filter (alive w)))] }

/-- `set.select()` without criteria (= `copy.copy(set)`: `__getstate__` lists the members, `__setstate__` builds a new weak
    dictionary over them and takes the generator along): a new program-made set; the original is not touched and shares
    nothing with the copy -/
def copySet (w : World) (t : Target) : World := mkSet w (t.model w) (members w t)

/-- `AgentSet.__getitem__`: `list(self._agents.keys())[i]` — the live keys listed anew on every access; reading every
    position (or the full slice) shows exactly what iteration shows -/
def itemsOf (w : World) (t : Target) : List Aid := members w t

end Mesa.Agents
