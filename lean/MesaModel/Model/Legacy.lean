/-
Model of the legacy grids of mesa/space.py: `_Grid`, `_PropertyGrid`, `SingleGrid`, `MultiGrid`
(and their hex variants, which only differ in the neighbourhood queries, see LegacyNbhd.lean).
Properties C08, C09, C18-legacy.

* a cell's content is a list of agent ids (`SingleGrid`: `None` = `[]`, an agent = `[a]`);
* `agent.pos` is `pos : Aid → Option Coord`;
* the lazily built `_empties` set is `empties : Option (List Coord)`: `none` = `_empties_built`
  is false; a Python set of coordinates is kept as a strictly sorted list (`sadd`/`sdiscard`),
  so `sorted(self.empties)` is the list itself;
* `_empty_mask` is `mask : Coord → Bool`;
* every mutating call returns the state it leaves behind *and* its result, so that a call that
  raises half-way (the S2 defect before its repair) is expressible: `Grid × Res`.
* `agent.random` is a script of raw draws: `_randbelow(n)` = next draw `% n`; an exhausted
  script raises (`Err.script`).

* the reads that index `_grid[x][y]` directly (`is_cell_empty`, `grid[x]`, `get_cell_list_contents`) follow Python
  list indexing for arbitrary ints (`pyIndex`); `grid[ix, iy]` takes ints through `torus_adj` and slices
  through `sliceIndices` (CPython's `PySlice_AdjustIndices` + `range`).

Not modelled: `place_agent` with coordinates outside the grid (outside C08's quantifier: the aliasing
leaves `pos` outside the grid; the protocol only sends in-grid coordinates to it), warnings, property
layers (they do not interact with these calls).
-/
namespace Mesa.Legacy

abbrev Coord := Int × Int
abbrev Aid := Nat

inductive Err where
  | full      -- Exception("Cell not empty")
  | oob       -- Exception("Point out of bounds, and space non-toroidal.") / "The `pos` tuple passed is out of bounds."
  | type      -- TypeError (unpacking `None`)
  | value     -- ValueError
  | noPos     -- Exception("… - not on the grid")
  | noEmpty   -- Exception("ERROR: No empty cells")
  | script    -- the scripted random generator ran out of draws
  | key       -- KeyError (NetworkGrid)
  | index     -- IndexError (Python list indexing outside `-len .. len-1`)
  | noNode    -- networkx NetworkXError / NodeNotFound (neighbourhood of a node that is not in the graph)
deriving Repr, DecidableEq

inductive Res where
  | ok
  | err (e : Err)
deriving Repr, DecidableEq

/-- Python tuple order on coordinates -/
def clt (a b : Coord) : Bool := a.1 < b.1 || (a.1 == b.1 && a.2 < b.2)

/-- `set.add` on a set kept as a strictly sorted list -/
def sadd (p : Coord) : List Coord → List Coord
  | [] => [p]
  | q :: qs => if clt p q then p :: q :: qs else if p = q then q :: qs else q :: sadd p qs

/-- `set.discard` -/
def sdiscard (p : Coord) (l : List Coord) : List Coord := l.filter (fun q => q != p)

def upd {β : Type} (f : Coord → β) (p : Coord) (v : β) : Coord → β := fun q => if q = p then v else f q
def updA {β : Type} (f : Aid → β) (a : Aid) (v : β) : Aid → β := fun b => if b = a then v else f b

structure Grid where
  w : Int
  h : Int
  torus : Bool
  multi : Bool                      -- MultiGrid (cells are lists) / SingleGrid (cells are None or an agent)
  cutoff : Nat                      -- ⌊cutoff_empties⌋ = ⌊7.953 · (w·h)^0.384⌋ (float formula: trusted, read from the grid)
  content : Coord → List Aid        -- `_grid[x][y]`
  pos : Aid → Option Coord          -- `agent.pos`
  empties : Option (List Coord)     -- `_empties` once `_empties_built`
  mask : Coord → Bool               -- `_empty_mask`

def init (w h : Int) (torus multi : Bool) (cutoff : Nat) : Grid :=
  { w := w, h := h, torus := torus, multi := multi, cutoff := cutoff,
    content := fun _ => [], pos := fun _ => none, empties := none, mask := fun _ => true }

namespace Grid

/-- `out_of_bounds` -/
def oob (g : Grid) (p : Coord) : Bool := decide (p.1 < 0) || decide (p.1 ≥ g.w) || decide (p.2 < 0) || decide (p.2 ≥ g.h)

/-- `itertools.product(range(width), range(height))` -/
def allCells (g : Grid) : List Coord :=
  (List.range g.w.toNat).flatMap fun (x : Nat) => (List.range g.h.toNat).map fun (y : Nat) => (Int.ofNat x, Int.ofNat y)

/-- `is_cell_empty`: `_grid[x][y] == default_val()` -/
def isCellEmpty (g : Grid) (p : Coord) : Bool := (g.content p).isEmpty

/-- `build_empties` -/
def buildEmpties (g : Grid) : List Coord := g.allCells.filter g.isCellEmpty

/-- the `empties` property: builds the set on first use -/
def readEmpties (g : Grid) : Grid × List Coord :=
  match g.empties with
  | some e => (g, e)
  | none => let e := g.buildEmpties; ({ g with empties := some e }, e)

/-- `exists_empty_cells` -/
def existsEmpty (g : Grid) : Grid × Bool :=
  let r := g.readEmpties
  (r.1, decide (r.2.length > 0))

/-- `torus_adj` -/
def torusAdj (g : Grid) (p : Coord) : Except Err Coord :=
  if !g.oob p then .ok p
  else if !g.torus then .error .oob
  else .ok (p.1 % g.w, p.2 % g.h)

/-- `SingleGrid.place_agent` / `MultiGrid.place_agent` (after the S1 repair) -/
def place (g : Grid) (a : Aid) (p : Coord) : Grid × Res :=
  if g.multi then
    if g.pos a = none ∨ a ∉ g.content p then
      ({ g with content := upd g.content p (g.content p ++ [a]), pos := updA g.pos a (some p),
                empties := g.empties.map (sdiscard p), mask := upd g.mask p false }, .ok)
    else (g, .ok)
  else if g.isCellEmpty p then
    ({ g with content := upd g.content p [a], empties := g.empties.map (sdiscard p),
              mask := upd g.mask p false, pos := updA g.pos a (some p) }, .ok)
  else (g, .err .full)

/-- `SingleGrid.remove_agent` / `MultiGrid.remove_agent` (after the S1 repair) -/
def remove (g : Grid) (a : Aid) : Grid × Res :=
  match g.pos a with
  | none => if g.multi then (g, .err .type) else (g, .ok)
  | some p =>
    if g.multi then
      if a ∈ g.content p then
        let c := (g.content p).erase a
        if c.isEmpty then
          ({ g with content := upd g.content p c, empties := g.empties.map (sadd p),
                    mask := upd g.mask p true, pos := updA g.pos a none }, .ok)
        else ({ g with content := upd g.content p c, pos := updA g.pos a none }, .ok)
      else (g, .err .value)
    else
      ({ g with content := upd g.content p [], empties := g.empties.map (sadd p),
                mask := upd g.mask p true, pos := updA g.pos a none }, .ok)

/-- `_Grid.move_agent`: `torus_adj`, `remove_agent`, `place_agent` -/
def moveBase (g : Grid) (a : Aid) (p : Coord) : Grid × Res :=
  match g.torusAdj p with
  | .error e => (g, .err e)
  | .ok q =>
    match g.remove a with
    | (g1, .err e) => (g1, .err e)
    | (g1, .ok) => g1.place a q

/-- `move_agent` as the classes have it: `SingleGrid.move_agent` (S2 repair) validates the target
    before delegating to `_Grid.move_agent`; `MultiGrid` inherits `_Grid.move_agent` -/
def move (g : Grid) (a : Aid) (p : Coord) : Grid × Res :=
  if g.multi then g.moveBase a p
  else
    match g.torusAdj p with
    | .error e => (g, .err e)
    | .ok q =>
      if !g.isCellEmpty q && g.content q != [a] then (g, .err .full)
      else g.moveBase a q

/-- `swap_pos` -/
def swap (g : Grid) (a b : Aid) : Grid × Res :=
  match g.pos a, g.pos b with
  | some pa, some pb =>
    if pa = pb then (g, .ok)
    else
      match g.remove a with
      | (g1, .err e) => (g1, .err e)
      | (g1, .ok) =>
        match g1.remove b with
        | (g2, .err e) => (g2, .err e)
        | (g2, .ok) =>
          match g2.place a pb with
          | (g3, .err e) => (g3, .err e)
          | (g3, .ok) => g3.place b pa
  | _, _ => (g, .err .noPos)

/-! ### random movers -/

abbrev Script := List Nat

/-- `random._randbelow(n)` of the scripted generator -/
def below (s : Script) (n : Nat) : Option (Nat × Script) :=
  match s with
  | [] => none
  | x :: xs => some (x % n, xs)

/-- `while True: new_pos = (randrange(width), randrange(height)); if is_cell_empty(new_pos): break` -/
def pickLoop (g : Grid) : Script → Option Coord
  | x :: y :: rest =>
    let p : Coord := ((x : Int) % g.w, (y : Int) % g.h)
    if g.isCellEmpty p then some p else pickLoop g rest
  | _ => none

/-- `move_to_empty` -/
def moveToEmpty (g : Grid) (a : Aid) (s : Script) : Grid × Res :=
  let (g0, es) := g.readEmpties
  if es.length = 0 then (g0, .err .noEmpty)
  else
    let target : Option Coord :=
      if es.length > g0.cutoff then g0.pickLoop s
      else match below s es.length with
        | none => none
        | some (i, _) => es[i]?
    match target with
    | none => (g0, .err .script)
    | some q =>
      match g0.remove a with
      | (g1, .err e) => (g1, .err e)
      | (g1, .ok) => g1.place a q

def iabs (z : Int) : Int := if 0 ≤ z then z else -z

/-- `_distance_squared` (after the N1 repair: the offsets are reduced modulo the size first) -/
def distSq (g : Grid) (p q : Coord) : Int :=
  let dx := iabs (p.1 - q.1)
  let dy := iabs (p.2 - q.2)
  if g.torus then
    let dx := dx % g.w
    let dy := dy % g.h
    let dx := min dx (g.w - dx)
    let dy := min dy (g.h - dy)
    dx * dx + dy * dy
  else dx * dx + dy * dy

/-- CPython `Random.shuffle`: `for i in reversed(range(1, len(x))): j = randbelow(i+1); x[i], x[j] = x[j], x[i]` -/
def shuffleAux {α : Type} : Nat → Array α → Script → Option (Array α × Script)
  | 0, a, s => some (a, s)
  | i+1, a, s =>
    match below s (i+2) with
    | none => none
    | some (j, s') => shuffleAux i (a.swapIfInBounds (i+1) j) s'

def shuffle {α : Type} (l : List α) (s : Script) : Option (List α × Script) :=
  match shuffleAux (l.length - 1) l.toArray s with
  | none => none
  | some (a, s') => some (a.toList, s')

/-- the scan of `move_agent_to_one_of(selection="closest")`: `m` is `min_distance` (`none` = inf),
    `acc` is `closest_pos` -/
def closestScan (g : Grid) (cur : Coord) : List Coord → Option Int → List Coord → List Coord
  | [], _, acc => acc
  | p :: ps, m, acc =>
    let d := g.distSq p cur
    match m with
    | none => closestScan g cur ps (some d) [p]
    | some md =>
      if d < md then closestScan g cur ps (some d) [p]
      else if d = md then closestScan g cur ps m (acc ++ [p])
      else closestScan g cur ps m acc

inductive Selection where | random | closest | other
deriving Repr, DecidableEq

inductive HandleEmpty where | none | warning | error
deriving Repr, DecidableEq

/-- `random.choice(l)` for non-empty `l` -/
def choice {α : Type} (l : List α) (s : Script) : Option (α × Script) :=
  match below s l.length with
  | none => none
  | some (i, s') => match l[i]? with
    | none => none
    | some x => some (x, s')

/-- which of the offered positions `move_agent_to_one_of` picks (the part before `move_agent`) -/
def chooseOneOf (g : Grid) (a : Aid) (ps : List Coord) (sel : Selection) (s : Script) : Except Err Coord :=
  match sel with
  | .random => match choice ps s with
    | none => .error .script
    | some (q, _) => .ok q
  | .closest =>
    match shuffle ps s with
    | none => .error .script
    | some (ps', s') =>
      match g.pos a with
      | none => .error .type            -- `_distance_squared(p, None)`
      | some cur =>
        match choice (g.closestScan cur ps' none []) s' with
        | none => .error .script
        | some (q, _) => .ok q
  | .other => .error .value

/-- `move_agent_to_one_of` -/
def moveToOneOf (g : Grid) (a : Aid) (ps : List Coord) (sel : Selection) (he : HandleEmpty) (s : Script) : Grid × Res :=
  if ps.isEmpty then
    match he with
    | .error => (g, .err .value)
    | _ => (g, .ok)
  else
    match g.chooseOneOf a ps sel s with
    | .error e => (g, .err e)
    | .ok q => g.move a q

/-! ### reads -/

/-- Python list indexing with an int, `l[i]` for `len(l) = n`: negative indices count from the end -/
def pyIndex (n i : Int) : Except Err Int :=
  if 0 ≤ i ∧ i < n then .ok i else if -n ≤ i ∧ i < 0 then .ok (i + n) else .error .index

/-- the cell `self._grid[x][y]` denotes for arbitrary ints (no `torus_adj`, no bounds check: Python's
    negative-index aliasing) -/
def rawCell (g : Grid) (p : Coord) : Except Err Coord :=
  match pyIndex g.w p.1 with
  | .error e => .error e
  | .ok x =>
    match pyIndex g.h p.2 with
    | .error e => .error e
    | .ok y => .ok (x, y)

/-- `is_cell_empty(pos)` for arbitrary integer coordinates -/
def isCellEmptyRaw (g : Grid) (p : Coord) : Except Err Bool :=
  match g.rawCell p with
  | .error e => .error e
  | .ok c => .ok (g.isCellEmpty c)

/-- the cells `iter_cell_list_contents` / `get_cell_list_contents` read for arbitrary integer coordinates
    (the generator is consumed to the end: an IndexError anywhere means no result) -/
def rawCells (g : Grid) : List Coord → Except Err (List Coord)
  | [] => .ok []
  | p :: ps =>
    match g.rawCell p with
    | .error e => .error e
    | .ok c =>
      match rawCells g ps with
      | .error e => .error e
      | .ok cs => .ok (c :: cs)

/-- a Python `slice(start, stop, step)`; `none` = `None` -/
structure PySlice where
  start : Option Int
  stop : Option Int
  step : Option Int
deriving Repr, DecidableEq

/-- `list(range(start, stop, step))` for `step ≠ 0` -/
def pyRange (start stop step : Int) : List Int :=
  if step > 0 then (List.range ((stop - start + step - 1) / step).toNat).map fun (k : Nat) => start + (k : Int) * step
  else (List.range ((start - stop + (-step) - 1) / (-step)).toNat).map fun (k : Nat) => start + (k : Int) * step

/-- CPython `PySlice_AdjustIndices` for one bound: `lo` / `hi` are the clamps (`0, n` for a positive step,
    `-1, n-1` for a negative one) -/
def adjBound (n lo hi v : Int) : Int :=
  let v' := if v < 0 then v + n else v
  if v < 0 then (if v' < 0 then lo else v') else if v ≥ n then hi else v

/-- the indices a slice selects from a list of length `n` (`slice.indices(n)` expanded); a zero step raises
    ValueError -/
def sliceIndices (n : Int) (s : PySlice) : Except Err (List Int) :=
  let step := s.step.getD 1
  if step = 0 then .error .value
  else if step > 0 then
    let start := match s.start with | none => 0 | some v => adjBound n 0 n v
    let stop := match s.stop with | none => n | some v => adjBound n 0 n v
    .ok (pyRange start stop step)
  else
    let start := match s.start with | none => n - 1 | some v => adjBound n (-1) (n - 1) v
    let stop := match s.stop with | none => -1 | some v => adjBound n (-1) (n - 1) v
    .ok (pyRange start stop step)

/-- one component of a 2-tuple index: an int or a slice -/
inductive Ix where
  | int (i : Int)
  | slice (s : PySlice)
deriving Repr, DecidableEq

/-- `grid[x]` (an int index): the cells of column `x`, Python list indexing -/
def getColumn (g : Grid) (i : Int) : Except Err (List Coord) :=
  match pyIndex g.w i with
  | .error e => .error e
  | .ok x => .ok ((List.range g.h.toNat).map fun (y : Nat) => (x, (y : Int)))

/-- `map(self.torus_adj, index)` consumed by the list comprehension -/
def adjAll (g : Grid) : List Coord → Except Err (List Coord)
  | [] => .ok []
  | p :: ps =>
    match g.torusAdj p with
    | .error e => .error e
    | .ok c =>
      match adjAll g ps with
      | .error e => .error e
      | .ok cs => .ok (c :: cs)

/-- `grid[(x1, y1), (x2, y2), …]`: the cells read (the empty tuple fails at `index[0]`) -/
def getMany (g : Grid) (ps : List Coord) : Except Err (List Coord) :=
  if ps.isEmpty then .error .index else g.adjAll ps

/-- `grid[ix, iy]` with ints and slices: the cells whose contents are returned, in order.
    int/slice: `torus_adj((x, 0))` first, then the column is sliced; slice/int likewise; slice/slice: the
    columns are sliced first and the rows only if a column was selected (so `grid[5:5, ::0]` is `[]`) -/
def getItem2 (g : Grid) (ix iy : Ix) : Except Err (List Coord) :=
  match ix, iy with
  | .int x, .int y =>
    match g.torusAdj (x, y) with
    | .error e => .error e
    | .ok c => .ok [c]
  | .int x, .slice sy =>
    match g.torusAdj (x, 0) with
    | .error e => .error e
    | .ok c =>
      match sliceIndices g.h sy with
      | .error e => .error e
      | .ok ys => .ok (ys.map fun y => (c.1, y))
  | .slice sx, .int y =>
    match g.torusAdj (0, y) with
    | .error e => .error e
    | .ok c =>
      match sliceIndices g.w sx with
      | .error e => .error e
      | .ok xs => .ok (xs.map fun x => (x, c.2))
  | .slice sx, .slice sy =>
    match sliceIndices g.w sx with
    | .error e => .error e
    | .ok xs =>
      if xs.isEmpty then .ok []
      else
        match sliceIndices g.h sy with
        | .error e => .error e
        | .ok ys => .ok (xs.flatMap fun x => ys.map fun y => (x, y))

/-- `AgentSet(agents)`: a dict keyed by agent keeps the first occurrence of each, in order -/
def dedup (l : List Aid) : List Aid := l.foldl (fun acc x => if x ∈ acc then acc else acc ++ [x]) []

/-- `grid.agents`: the cells flattened (columns x = 0.., then y = 0..) into an `AgentSet` -/
def agentsList (g : Grid) : List Aid := dedup (g.allCells.flatMap g.content)

/-- `grid[x, y]` -/
def getItem (g : Grid) (p : Coord) : Except Err (List Aid) :=
  match g.torusAdj p with
  | .error e => .error e
  | .ok q => .ok (g.content q)

end Grid

/-- another space's `place_agent` wrote `agent.pos` of an agent that is not on this grid (outside C08's
    quantifier — an agent shared between two spaces; kept for the tie and for `C08_remove_foreign_agent`) -/
def Grid.foreignPos (g : Grid) (a : Aid) (p : Coord) : Grid := { g with pos := updA g.pos a (some p) }

/-! ### histories -/

inductive Op where
  | place (a : Aid) (p : Coord)
  | remove (a : Aid)
  | move (a : Aid) (p : Coord)
  | swap (a b : Aid)
  | moveToEmpty (a : Aid) (s : Grid.Script)
  | moveToOneOf (a : Aid) (ps : List Coord) (sel : Grid.Selection) (he : Grid.HandleEmpty) (s : Grid.Script)
  | readEmpties           -- `grid.empties` / `exists_empty_cells()`: switches the lazily built set on

def step (g : Grid) : Op → Grid × Res
  | .place a p => g.place a p
  | .remove a => g.remove a
  | .move a p => g.move a p
  | .swap a b => g.swap a b
  | .moveToEmpty a s => g.moveToEmpty a s
  | .moveToOneOf a ps sel he s => g.moveToOneOf a ps sel he s
  | .readEmpties => (g.readEmpties.1, .ok)

/-- a history; a call that raises is caught by the caller, who goes on with the state left behind -/
def run (g : Grid) : List Op → Grid
  | [] => g
  | op :: ops => run (step g op).1 ops

end Mesa.Legacy
