import MesaModel.Model.VizSize
/-!
Model of `draw_network` with a layout given by the caller (`layout_alg` a callable, `layout_kwargs` its keywords;
mesa/visualization/mpl_space_drawing.py): the layout is a table node label ↦ position.  The position of an agent's
marker is looked up under the *label* of its node (fix V6), a node the layout does not know raises KeyError for the
first agent standing on it, an empty layout raises ValueError before the agents are looked at, the default size is
`(180 / (extent or 1))²` of the layout's bounding box (fix V12).  The edges are not drawn (`draw_grid=False`).
-/
namespace Mesa.Viz

/-- what `layout_alg(graph, **layout_kwargs)` returns: node label ↦ position -/
abbrev Layout := List (Int × Loc)

inductive NetErr where
  | value                 -- `x, y = list(zip(*pos.values()))` on an empty layout
  | noPosition            -- AttributeError: an agent without position
  | key (node : Int)      -- `pos[node]`: the layout has no entry for the node of an agent
deriving DecidableEq, Repr

/-- `(180 / (max(width, height) or 1)) ** 2` over the layout's positions -/
def layoutSize (ly : Layout) : SizeDefault :=
  let e := max (spread (ly.map (·.2.x))) (spread (ly.map (·.2.y)))
  sizeOfExtent (if e = 0 then 1 else e)

/-- `[pos[node] for node in arguments["loc"]]`: the entries moved to the layout positions of their nodes -/
def relocate (ly : Layout) : List Entry → Except NetErr (List Entry)
  | [] => .ok []
  | e :: es =>
    match ly.lookup e.loc.x with
    | none => .error (.key e.loc.x)
    | some pos =>
      match relocate ly es with
      | .error err => .error err
      | .ok es' => .ok ({ e with loc := pos } :: es')

structure NetDrawing where
  groups : List Group
  size : SizeDefault
deriving DecidableEq, Repr

/-- `draw_network(space, agent_portrayal, ax, draw_grid=False, layout_alg=λ g, **kw: ly, layout_kwargs={})` -/
def drawNetwork (sp : Space) (heap : Heap) (p : Portrayal) (ly : Layout) : Except NetErr NetDrawing :=
  if ly.isEmpty then .error .value
  else match collectAgentData drawDefaults heap p (spaceAgents sp) with
    | none => .error .noPosition
    | some es =>
      match relocate ly es with
      | .error err => .error err
      | .ok es' => .ok ⟨scatter es', layoutSize ly⟩

end Mesa.Viz
