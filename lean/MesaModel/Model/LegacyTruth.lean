import MesaModel.Model.LegacyNbhd
/-
Agents are ordinary Python objects: a subclass may give them a truth value (`__bool__`, else `__len__() != 0`).
An agent whose truth value is False still occupies its cell.  A reader of the grid has to tell an empty cell from an occupied
one, and there are two ways to write that test (`EmptyTest`): compare the stored object with the empty value (`!= default_val()`,
`is None`; `Agent` defines no `__eq__`, so an agent is never equal to `None`) or take its truth value (`if cell`, `if not entry`).
On a single-occupancy grid the stored object is the agent itself, so the second way loses a falsy agent.  Which way the readers of
mesa/space.py go is *generated*: `Gen.contentsReadTruth` (`iter_neighbors` / `get_neighbors` / `iter_cell_list_contents` /
`get_cell_list_contents`) and `Gen.agentsReadTruth` (`_Grid.agents`) are found by probing the four classes with a falsy agent on
every run; the readers of the model below take the test the table names.
-/
namespace Mesa.Legacy

/-- the agents whose truth value is currently False -/
abbrev Falsy := List Aid

/-- protocol op `truth a …`: the agent's `__bool__` / `__len__` now answers so that `bool(agent) = truthy` -/
def setTruth (fz : Falsy) (a : Aid) (truthy : Bool) : Falsy :=
  if truthy then fz.filter (fun b => b != a) else if a ∈ fz then fz else a :: fz

/-- how a reader tells an empty cell from an occupied one -/
inductive EmptyTest where
  /-- `cell != self.default_val()` / `entry is None` -/
  | eqDefault
  /-- `if cell` / `if not entry` -/
  | truthy
deriving DecidableEq, Repr

/-- does the test take the stored value for "empty"?  A MultiGrid cell is a list (falsy iff empty, equal to `[]` iff empty); a
    SingleGrid cell is `None` or the agent object, whose truth value is its own -/
def cellEmptyBy (t : EmptyTest) (multi : Bool) (fz : Falsy) (cell : List Aid) : Bool :=
  match t with
  | .eqDefault => cell.isEmpty
  | .truthy =>
    if multi then cell.isEmpty
    else match cell.head? with
      | none => true
      | some a => fz.contains a

/-- `iter_neighbors` / `iter_cell_list_contents` with the emptiness test as a parameter (`cellsContents` of Model/LegacyNbhd.lean
    is the `eqDefault` instance: `LegacyTruth.cellsContentsBy_eqDefault`) -/
def cellsContentsBy (t : EmptyTest) (fz : Falsy) (g : Grid) (cells : List Coord) : List Aid :=
  if g.multi then (cells.filter fun c => !cellEmptyBy t true fz (g.content c)).flatMap g.content
  else cells.filterMap fun c => if cellEmptyBy t false fz (g.content c) then none else (g.content c).head?

/-- `_Grid.agents` with the emptiness test as a parameter: the entries that are not "empty", flattened into an `AgentSet` -/
def Grid.agentsBy (t : EmptyTest) (fz : Falsy) (g : Grid) : List Aid :=
  Grid.dedup ((g.allCells.filter fun c => !cellEmptyBy t g.multi fz (g.content c)).flatMap g.content)

def readerTest (readsTruth : Bool) : EmptyTest := if readsTruth then .truthy else .eqDefault

/-- the test the content readers of the code use (generated) -/
def contentsTest : EmptyTest := readerTest Gen.contentsReadTruth
/-- the test `_Grid.agents` uses (generated) -/
def agentsTest : EmptyTest := readerTest Gen.agentsReadTruth

/-- the readers as the driver calls them -/
def cellsContentsT (fz : Falsy) (g : Grid) (cells : List Coord) : List Aid := cellsContentsBy contentsTest fz g cells

def hexNeighborsT (fz : Falsy) (g : Grid) (cells : List Coord) : Except Err (List Aid) :=
  match g.rawCells cells with
  | .error e => .error e
  | .ok cs => .ok (cellsContentsT fz g cs)

/-- `grid.agents` -/
def Grid.agentsListT (g : Grid) (fz : Falsy) : List Aid := g.agentsBy agentsTest fz

end Mesa.Legacy
