import MesaModel.Model.LegacyNbhd
/-
Agents are ordinary Python objects: a subclass may give them a truth value (`__bool__`, else `__len__() != 0`).
An agent whose truth value is False still occupies its cell.  The code tells an empty cell from an occupied one by
comparing the stored object with `default_val()` (`None` resp. `[]`; `Agent` defines no `__eq__`, so an agent is never
equal to `None`), so `iter_neighbors` / `iter_cell_list_contents` / `is_cell_empty` never consult the truth value:
`cellsContents` (Model/LegacyNbhd.lean) has no such argument.  The one place that does is `_Grid.agents`
(`for entry in self: if not entry: continue`), where on a single-occupancy grid the entry is the agent object itself.
-/
namespace Mesa.Legacy

/-- the agents whose truth value is currently False -/
abbrev Falsy := List Aid

/-- protocol op `truth a …`: the agent's `__bool__` / `__len__` now answers so that `bool(agent) = truthy` -/
def setTruth (fz : Falsy) (a : Aid) (truthy : Bool) : Falsy :=
  if truthy then fz.filter (fun b => b != a) else if a ∈ fz then fz else a :: fz

/-- `_Grid.agents` as written: `if not entry: continue` skips an empty cell — and, on a SingleGrid / HexSingleGrid, a cell
    whose occupant is falsy (the entry is the agent); a MultiGrid entry is the cell's list, truthy as soon as it is non-empty -/
def Grid.agentsListT (g : Grid) (fz : Falsy) : List Aid :=
  if g.multi then g.agentsList else Grid.dedup ((g.allCells.flatMap g.content).filter fun a => !(fz.contains a))

end Mesa.Legacy
