import MesaModel.Model.Viz
/-!
Model of `draw_property_layers` (mesa/visualization/mpl_space_drawing.py) beyond the orientation:
which of the requested layers are drawn, the value range `[vmin, vmax]` (given or the layer's own minimum /
maximum), the normalisation of a cell's value to a level in `[0, 1]`, the opacity `alpha`, the two drawing
modes (`"color"`: one colour whose opacity is the level; `"colormap"`: the level picks the colour), the
colour bar, and the errors.  Follows the code after fix V13 (a range without extent is drawn at level 0).

Values are integers, `alpha` is in percent, levels are exact fractions (`Frac`, unreduced).  What matplotlib
does with a level (colormap lookup, `imshow`'s own `Normalize`) is not modelled: for `imshow(data.T, cmap=…,
vmin=…, vmax=…)` the model records the arguments.
-/
namespace Mesa.Viz

/-- `num / den`, unreduced; `den > 0` wherever the model builds one -/
structure Frac where
  num : Int
  den : Nat
deriving DecidableEq, Repr

/-- `np.clip(a, lo, hi)` -/
def clamp (a lo hi : Int) : Int := min (max a lo) hi

inductive LayerMode where
  | color (c : Val)          -- `"color" in portrayal` (looked at first)
  | colormap (name : Val)    -- `"colormap" in portrayal`
  | neither
deriving DecidableEq, Repr

/-- the inner dict of `propertylayer_portrayal` -/
structure LayerPortrayal where
  mode : LayerMode
  alpha : Nat := 100               -- `portrayal.get("alpha", 1)`, percent
  vmin : Option Int := none        -- `portrayal.get("vmin", np.min(data))`
  vmax : Option Int := none        -- `portrayal.get("vmax", np.max(data))`
  colorbar : Bool := true          -- `portrayal.get("colorbar", True)`
deriving DecidableEq, Repr

/-- `np.min(data)`; `none`: zero-size array (ValueError) -/
def minOf : List Int → Option Int
  | [] => none
  | x :: xs => some (xs.foldl min x)

/-- `np.max(data)` -/
def maxOf : List Int → Option Int
  | [] => none
  | x :: xs => some (xs.foldl max x)

/-- `np.clip(Normalize(vmin, vmax)(v), 0, 1)` for `vmin ≤ vmax`: `(v - vmin) / (vmax - vmin)` cut to `[0, 1]`;
    a range without extent maps everything to 0.  Cutting the quotient to `[0, 1]` is cutting the numerator
    to `[0, span]`. -/
def normLevel (v vmin vmax : Int) : Frac :=
  if vmax - vmin = 0 then ⟨0, 1⟩
  else ⟨clamp (v - vmin) 0 (vmax - vmin), (vmax - vmin).toNat⟩

/-- hex grids, colour mode: `rgba[:, 3] = np.clip(norm(colors), 0, 1) * alpha` -/
def hexShade (alpha : Nat) (v vmin vmax : Int) : Frac :=
  let l := normLevel v vmin vmax
  ⟨l.num * alpha, l.den * 100⟩

/-- orthogonal grids, colour mode (fix V13):
    `normalized = (data - vmin) / span if span != 0 else 0`; `rgba[..., 3] *= normalized * alpha`; `np.clip(rgba, 0, 1)`
    — the product is cut, not the level; an inverted range divides by a negative span -/
def orthoShade (alpha : Nat) (v vmin vmax : Int) : Frac :=
  let span := vmax - vmin
  if span = 0 then ⟨0, 1⟩
  else if 0 < span then ⟨clamp ((v - vmin) * alpha) 0 (span * 100), (span * 100).toNat⟩
  else ⟨clamp ((vmin - v) * alpha) 0 (-span * 100), (-span * 100).toNat⟩

/-- what is put on the Axes for one layer -/
inductive Picture where
  /-- `imshow(rgba, origin="lower")`: the colour and, row by row from the bottom, the opacity of each pixel -/
  | imgRgba (color : Val) (rows : List (List (Option Frac)))
  /-- `imshow(data.T, cmap=cmap, alpha=alpha, vmin=vmin, vmax=vmax, origin="lower")` -/
  | imgCmap (cmap : Val) (alpha : Nat) (vmin vmax : Int) (rows : List (List (Option Int)))
  /-- `PolyCollection(hexagons, facecolors=…, zorder=-1)`, colour mode: the opacity of hexagon `k` (column `k % w`, row `k / w`) -/
  | hexRgba (color : Val) (cells : List (Option Frac))
  /-- the same in colormap mode: the level handed to the colormap, and the opacity all hexagons get -/
  | hexCmap (cmap : Val) (alpha : Nat) (cells : List (Option Frac))
deriving DecidableEq, Repr

structure DrawnLayer where
  name : String
  pic : Picture
  /-- the colour bar: `Normalize(vmin, vmax)` and the layer's name as label; `none`: no bar -/
  cbar : Option (Int × Int)
deriving DecidableEq, Repr

inductive LayerErr where
  | attribute   -- AttributeError: the space has neither `properties` nor `_mesa_property_layers`
  | value       -- ValueError: neither "color" nor "colormap"; `Normalize` with vmin > vmax; min of nothing
deriving DecidableEq, Repr

/-- one layer of the request that the space has -/
def drawLayer (fam : Family) (name : String) (L : Layer) (pt : LayerPortrayal) : Except LayerErr DrawnLayer :=
  match minOf L.vals, maxOf L.vals with
  | some lo, some hi =>
    let vmin := pt.vmin.getD lo
    let vmax := pt.vmax.getD hi
    let cbar := if pt.colorbar then some (vmin, vmax) else none
    match pt.mode with
    | .neither => .error .value
    | .color c =>
      if fam.isHex then
        if vmax < vmin then .error .value
        else .ok ⟨name, .hexRgba c ((hexColors L).map (·.map fun v => hexShade pt.alpha v vmin vmax)), cbar⟩
      else .ok ⟨name, .imgRgba c ((imshowRows L).map (·.map (·.map fun v => orthoShade pt.alpha v vmin vmax))), cbar⟩
    | .colormap cm =>
      if fam.isHex then
        if vmax < vmin then .error .value
        else .ok ⟨name, .hexCmap cm pt.alpha ((hexColors L).map (·.map fun v => normLevel v vmin vmax)), cbar⟩
      else .ok ⟨name, .imgCmap cm pt.alpha vmin vmax (imshowRows L), cbar⟩
  | _, _ => .error .value

/-- the loop over `propertylayer_portrayal.items()`: names the space has no layer for are skipped,
    the first error ends the call -/
def drawLayersLoop (fam : Family) (layers : List (String × Layer)) :
    List (String × LayerPortrayal) → Except LayerErr (List DrawnLayer)
  | [] => .ok []
  | (name, pt) :: rest =>
    match layers.lookup name with
    | none => drawLayersLoop fam layers rest
    | some L =>
      match drawLayer fam name L pt with
      | .error e => .error e
      | .ok d =>
        match drawLayersLoop fam layers rest with
        | .error e => .error e
        | .ok ds => .ok (d :: ds)

/-- `draw_property_layers(space, propertylayer_portrayal, ax)`.  `layers`: the property layers of the space by
    name.  Only grids have them: the other classes have neither `properties` nor `_mesa_property_layers`. -/
def drawLayers (fam : Family) (layers : List (String × Layer)) (ports : List (String × LayerPortrayal)) :
    Except LayerErr (List DrawnLayer) :=
  if fam.isOrthogonal || fam.isHex then drawLayersLoop fam layers ports else .error .attribute

inductive FullErr where
  | agents (e : Err)         -- raised while the agents are drawn
  | layers (e : LayerErr)    -- raised afterwards, by `draw_property_layers`
deriving DecidableEq, Repr

/-- `draw_space(space, agent_portrayal, propertylayer_portrayal, ax)`: the agents, then — `if propertylayer_portrayal:`,
    so not for an empty request, whatever the class — the property layers on the same Axes -/
def drawSpaceFull (sp : Space) (heap : Heap) (p : Portrayal) (layers : List (String × Layer))
    (ports : List (String × LayerPortrayal)) : Except FullErr (List Group × List DrawnLayer) :=
  match drawSpace sp heap p with
  | .error e => .error (.agents e)
  | .ok gs =>
    if ports.isEmpty then .ok (gs, [])
    else match drawLayers sp.fam layers ports with
      | .error e => .error (.layers e)
      | .ok ds => .ok (gs, ds)

end Mesa.Viz
