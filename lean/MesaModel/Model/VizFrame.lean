import MesaModel.Model.VizSize
/-!
Model of the axis limits the `draw_*` functions set (mesa/visualization/mpl_space_drawing.py), i.e. the part of the plane
the picture shows: `set_xlim` / `set_ylim` of `draw_orthogonal_grid` (half a cell around the grid), `draw_hex_grid`
(the hexagon mesh with its padding), `draw_continuous_space` (the space plus a twentieth of its size on each side) and
`draw_voronoi_grid` (the centroids' bounding box plus a twentieth).  Limits are exact: numerators over the common
denominator `den`; hex grids in the units of `transform` (√3/2 horizontally, 1/2 vertically).  Continuous spaces are
taken relative to their origin (`x_min`, `y_min`).  Networks (their layout's box) are not modelled here.
-/
namespace Mesa.Viz

structure Frame where
  den : Nat
  xlo : Int
  xhi : Int
  ylo : Int
  yhi : Int
deriving DecidableEq, Repr

/-- the limits `draw_space` leaves on the Axes; `none`: a network -/
def frameOf (sp : Space) : Option Frame :=
  match sp.fam with
  | .netgrid | .net => none
  | .vor =>
    -- x_min - width / 20 … x_max + width / 20 over the centroids
    match minOf (sp.cells.map (·.x)), maxOf (sp.cells.map (·.x)), minOf (sp.cells.map (·.y)), maxOf (sp.cells.map (·.y)) with
    | some x0, some x1, some y0, some y1 =>
      some ⟨20, 20 * x0 - (x1 - x0), 20 * x1 + (x1 - x0), 20 * y0 - (y1 - y0), 20 * y1 + (y1 - y0)⟩
    | _, _, _, _ => none
  | .cs | .xcs =>
    -- space.x_min - width / 20 … space.x_max + width / 20, relative to the origin
    some ⟨20, -(sp.w : Int), 21 * sp.w, -(sp.h : Int), 21 * sp.h⟩
  | .hexs | .hexm | .hex =>
    -- (-2·x_padding, x_max + x_padding) with x_padding = √3/2 = 1 unit, x_max = w·√3 + (h % 2)·√3/2;
    -- (-2·y_padding, y_max + y_padding) with y_padding = 1 = 2 units, y_max = 1.5·h
    some ⟨1, -2, 2 * sp.w + (sp.h % 2 : Nat) + 1, -4, 3 * sp.h + 2⟩
  | _ =>
    -- (-0.5, width - 0.5), (-0.5, height - 0.5)
    some ⟨2, -1, 2 * sp.w - 1, -1, 2 * sp.h - 1⟩

/-- the point lies strictly inside the limits -/
def Frame.shows (f : Frame) (p : Loc) : Prop :=
  f.xlo < f.den * p.x ∧ f.den * p.x < f.xhi ∧ f.ylo < f.den * p.y ∧ f.den * p.y < f.yhi

/-- the point lies inside the limits or on them -/
def Frame.touches (f : Frame) (p : Loc) : Prop :=
  f.xlo ≤ f.den * p.x ∧ f.den * p.x ≤ f.xhi ∧ f.ylo ≤ f.den * p.y ∧ f.den * p.y ≤ f.yhi

instance (f : Frame) (p : Loc) : Decidable (f.shows p) := by unfold Frame.shows; exact inferInstance

end Mesa.Viz
