import MesaModel.Model.Signals
/-!
`extend(src)` / `lst += src` of a `SignalingList` where `src` is an iterable that raises part-way (a generator whose
source breaks after some items).  `SignalingList` inherits `MutableSequence.extend`: `for v in values: self.append(v)` —
an item is asked for, appended and announced before the next one is asked for, so when the iterable raises, the items
consumed so far are in the list *and have been announced*; the exception of the iterable comes out of `extend` / `+=`
(for `+=` the descriptor's `__set__` is then not reached: no `change`).
-/
namespace Mesa.Signals

/-- `extend(src)` on the data `d`, `src` yielding `vs[0]`, …, `vs[k-1]` and raising when asked for the next item
    (`k ≥ len(vs)`: it just ends).  Result: the data, the signals emitted (after `acc`), and whether the exception of
    the iterable came out. -/
def mExtendSrc (n : Nat) : List Int → List Int → Nat → List Sig → (List Int × List Sig) × Bool
  | d, [], _, acc => ((d, acc), false)
  | d, _ :: _, 0, acc => ((d, acc), true)
  | d, v :: vs, k + 1, acc =>
    let res := pAppend n d v
    mExtendSrc n res.1 vs k (acc ++ [res.2])

/-- the operation on the machine (re-entrant handlers as in `stepR`).  `iadd`: it is `lst += src`, i.e.
    `x = obj.lst; x += src; obj.lst = x` — if the iterable does not raise, the descriptor's `__set__` follows
    (`change`, old = new = the extended list), exactly `Op.liadd`.  The third component: the iterable's exception came
    out of the call (the signals before it were delivered all the same). -/
def stepSrcR (progs : Nat → List Act) (s : St) (iadd : Bool) (n : Nat) (vs : List Int) (k : Nat) : St × Out × Bool :=
  match s.lists n with
  | none => (s, .err .attr, false)
  | some d =>
    let res := mExtendSrc n d vs k []
    if iadd && !res.2 then
      let r := stepR progs s (.liadd n vs)
      (r.1, r.2, false)
    else
      let r := notifyAllR progs s res.1.2
      ({ r.1 with lists := fun m => if m = n then some res.1.1 else r.1.lists m }, .ok r.2, res.2)

/-! ### histories that contain such calls -/

/-- an operation of a history: one of `Op`, or `extend(src)` / `lst += src` (`iadd`) from an iterable that yields
    `vs[0..k)` and then raises (`k ≥ len(vs)`: it just ends) -/
inductive OpS where
  | op (o : Op)
  | src (iadd : Bool) (n : Nat) (vs : List Int) (k : Nat)
deriving Repr, DecidableEq

def stepS (progs : Nat → List Act) (s : St) : OpS → St × Out × Bool
  | .op o => let r := stepR progs s o; (r.1, r.2, false)
  | .src iadd n vs k => stepSrcR progs s iadd n vs k

/-- state, outputs and, per operation, whether the exception of an iterable came out of it -/
def runS (progs : Nat → List Act) (s : St) : List OpS → St × List Out × List Bool
  | [] => (s, [], [])
  | o :: os =>
    let r := stepS progs s o
    let rest := runS progs r.1 os
    (rest.1, r.2.1 :: rest.2.1, r.2.2 :: rest.2.2)

end Mesa.Signals
