import MesaModel.Model.Viz
/-!
Model of the measure plots (`make_plot_component` / `make_mpl_plot_component` / `PlotMatplotlib`,
mesa/visualization/components): which lines are drawn for a measure given as a string, a dict measure ↦ colour, a list
or a tuple of measures — one `ax.plot(df.loc[:, m])` per requested measure, in the order of the request, a missing
measure being a KeyError —, the y label / legend, and the backend dispatch of `make_plot_component`.  The table is
`model.datacollector.get_model_vars_dataframe()`: measure ↦ the values collected so far.
-/
namespace Mesa.Viz

inductive MeasureSpec where
  | str (m : String)
  | dict (ms : List (String × String))     -- measure ↦ colour, in the dict's order
  | list (ms : List String)
  | tuple (ms : List String)
  | other                                  -- anything else (None, a set, a number): nothing is plotted
deriving DecidableEq, Repr

structure PlotLine where
  label : Option String      -- `label=m`; a line plotted without one keeps matplotlib's hidden label
  color : Option String      -- `color=…`; `none`: the next colour of the cycle
  ys : List Int
deriving DecidableEq, Repr

structure Plot where
  lines : List PlotLine
  ylabel : Option String
  legend : Bool
deriving DecidableEq, Repr

abbrev Table := List (String × List Int)

/-- the lines of `for m … : ax.plot(df.loc[:, m], …)`; `.error m`: `KeyError: m`, raised at the first measure the
    table does not have (the lines before it are already on the Axes, but the component fails as a whole) -/
def plotLines (t : Table) : List (String × Option String × Option String) → Except String (List PlotLine)
  | [] => .ok []
  | (m, label, color) :: rest =>
    match t.lookup m with
    | none => .error m
    | some ys =>
      match plotLines t rest with
      | .error e => .error e
      | .ok ls => .ok (⟨label, color, ys⟩ :: ls)

/-- what is asked of the table: (measure, label, colour) per line -/
def MeasureSpec.requests : MeasureSpec → List (String × Option String × Option String)
  | .str m => [(m, none, none)]
  | .dict ms => ms.map fun mc => (mc.1, some mc.1, some mc.2)
  | .list ms => ms.map fun m => (m, some m, none)
  | .tuple ms => ms.map fun m => (m, some m, none)
  | .other => []

/-- `PlotMatplotlib(model, measure)` up to the `post_process` hook -/
def plotMeasure (t : Table) (spec : MeasureSpec) : Except String Plot :=
  match plotLines t spec.requests with
  | .error m => .error m
  | .ok ls =>
    .ok { lines := ls,
          ylabel := match spec with | .str m => some m | _ => none,
          legend := match spec with | .dict _ | .list _ | .tuple _ => true | _ => false }

inductive BackendErr where
  | notImplemented     -- backend "altair": "altair line plots are not yet implemented"
  | value              -- any other backend name
deriving DecidableEq, Repr

/-- `make_plot_component(measure, backend=…)` -/
def plotBackend (backend : String) : Except BackendErr Unit :=
  if backend = "matplotlib" then .ok () else if backend = "altair" then .error .notImplemented else .error .value

end Mesa.Viz
