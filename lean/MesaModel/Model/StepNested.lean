import MesaModel.Model.StepCounter
/-
Nested step calls across model instances (property C05: "all interleavings of step calls on several
model instances").

A step body may itself call the `step()` of *another* model (a driver model stepping a sub-model,
coupled models).  `links[i] = some j` says: every body execution of instance `i` — after it has made its
record — calls `model_j.step()` (no arguments) before it goes on to `super().step(...)`.  Links only
point to instances created later (`i < j`), so nesting is finite and no instance is re-entered while
one of its own calls is in progress.

The wrapper of `mesa/model.py` keeps no state outside the instance, so a nested call is an ordinary
call: `stepNested` spells the nesting out (who is called when), and `Props/C05.lean` proves that the
outcome is that of the same calls made one after the other at top level.
-/
namespace Mesa.Steps

/-- one `step()` call as it happened: the instance, the arguments, the records its bodies made, and
    whether it returned normally (`false` = `TypeError`) -/
structure Call where
  inst : Nat
  args : List Int
  entries : List Entry
  ok : Bool
deriving Repr, DecidableEq

/-- the call seen as a top-level operation -/
def Call.toOp (c : Call) : Op := .step c.inst c.args

/-- `model_i.step(*args)` with nesting; returns the calls in the order they *start* (fuel: nesting depth) -/
def stepNested (links : List (Option Nat)) : Nat → List Inst → Nat → List Int → List Inst × List Call
  | 0, w, _, _ => (w, [])
  | f + 1, w, i, args =>
    match w[i]? with
    | none => (w, [])
    | some x =>
      let r := callStep x args
      let w1 := w.set i r.1
      match links[i]?.join with
      | none => (w1, [⟨i, args, r.2.1, r.2.2⟩])
      | some j =>
        -- after each body of this call the linked instance takes a full step of its own
        let res := r.2.1.foldl
          (fun (acc : List Inst × List Call) _ => let n := stepNested links f acc.1 j []; (n.1, acc.2 ++ n.2))
          (w1, [])
        (res.1, ⟨i, args, r.2.1, r.2.2⟩ :: res.2)

/-- `model_i.run_model()` with nesting (`none` = does not terminate within the fuel) -/
def runNested (links : List (Option Nat)) : Nat → List Inst → Nat → Option (List Inst × List Call)
  | 0, _, _ => none
  | f + 1, w, i =>
    match w[i]? with
    | none => some (w, [])
    | some x =>
      if !x.running then some (w, [])
      else
        let r := stepNested links (w.length + 1) w i []
        match runNested links f r.1 i with
        | none => none
        | some (w', cs) => some (w', r.2 ++ cs)

end Mesa.Steps
