import MesaModel.Model.Collect
/-
Model of mesa/batchrunner.py (property C13), on top of the DataCollector model.

`κ` is the type of parameter values (opaque to `batch_run`).  A *model class* is a function
from the constructor's keyword arguments to a `Prog`: reporter dictionaries, tables, the
constructor body and the body of the user's `step`, both histories of `Collect.Op`s (so
"stepping the same model by hand" is `Collect.run`, by construction).  Parallel execution is
`batchOrder` on an arbitrary permutation of the run list (`imap_unordered` hands the
per-run row lists back in completion order; `results.extend` concatenates them).
-/
namespace Mesa.Batch
open Mesa.Collect

/-- a parameter value as `_make_model_kwargs` classifies it -/
inductive PVal (κ : Type) where
  | str (v : κ)            -- `isinstance(values, str)`: one value
  | sized (vs : List κ)    -- list | tuple | set: iterated, empty → ValueError
  | iter (vs : List κ)     -- any other re-iterable (range, dict): iterated, may be empty
  | scalar (v : κ)         -- iteration raises TypeError: one value
  | once (vs : List κ)     -- a one-shot iterator (generator, `iter(...)`, `map`): yields `vs` the first time it
                           -- is iterated and nothing afterwards
deriving Repr, DecidableEq

def PVal.values : PVal κ → Except Err (List κ)
  | .str v => .ok [v]
  | .sized [] => .error .value
  | .sized vs => .ok vs
  | .iter vs => .ok vs
  | .scalar v => .ok [v]
  | .once vs => .ok vs

/-- the parameter value after `_make_model_kwargs` has iterated it once -/
def PVal.spent : PVal κ → PVal κ
  | .once _ => .once []
  | pv => pv

abbrev Kwargs (κ : Type) := List (Nat × κ)

/-- `itertools.product(*parameter_list)` followed by `dict(...)`: first parameter slowest -/
def product : List (Nat × List κ) → List (Kwargs κ)
  | [] => [[]]
  | (n, vs) :: rest => vs.flatMap fun v => (product rest).map fun kw => (n, v) :: kw

def paramLists : List (Nat × PVal κ) → Except Err (List (Nat × List κ))
  | [] => .ok []
  | (n, pv) :: rest =>
    match pv.values with
    | .error e => .error e
    | .ok vs => match paramLists rest with
      | .error e => .error e
      | .ok ls => .ok ((n, vs) :: ls)

/-- `_make_model_kwargs` -/
def makeKwargs (params : List (Nat × PVal κ)) : Except Err (List (Kwargs κ)) :=
  match paramLists params with
  | .error e => .error e
  | .ok ls => .ok (product ls)

structure Run (κ : Type) where
  runId : Nat
  iteration : Nat
  kwargs : Kwargs κ
deriving Repr, DecidableEq

/-- `run_id` counts up over the work list -/
def number : Nat → List (Nat × Kwargs κ) → List (Run κ)
  | _, [] => []
  | i, (it, kw) :: rest => { runId := i, iteration := it, kwargs := kw } :: number (i + 1) rest

/-- `runs_list`: iterations outermost, every kwargs dict once per iteration -/
def runList (kws : List (Kwargs κ)) (iterations : Nat) : List (Run κ) :=
  number 0 ((List.range iterations).flatMap fun it => kws.map fun kw => (it, kw))

/-- `for iteration in range(iterations): for kwargs in _make_model_kwargs(parameters): …` — `_make_model_kwargs`
    is called afresh in every iteration (`n` iterations to go, the next one numbered `it`), and every call
    iterates the parameter values: one-shot iterators are spent after the first -/
def iterLoop : Nat → Nat → List (Nat × PVal κ) → Except Err (List (Nat × Kwargs κ))
  | 0, _, _ => .ok []
  | n + 1, it, params =>
    match makeKwargs params with
    | .error e => .error e
    | .ok kws =>
      match iterLoop n (it + 1) (params.map fun p => (p.1, p.2.spent)) with
      | .error e => .error e
      | .ok rest => .ok (kws.map (fun kw => (it, kw)) ++ rest)

structure Prog where
  cfg : Cfg
  tables : List (Nat × List Nat)
  init : List Op        -- what the constructor does after `super().__init__()`
  body : List Op        -- what the user's `step` does

/-- `model_cls(**kwargs)` -/
def construct (p : Prog) : State := run p.cfg (Collect.init p.cfg p.tables) p.init

/-- `model.step()`: the wrapper increments `steps`, then the user's body runs -/
def stepOnce (p : Prog) (s : State) : State := run p.cfg { s with steps := s.steps + 1 } p.body

/-- `while model.running and model.steps < max_steps: model.step()` with explicit fuel -/
def loop (p : Prog) (maxSteps : Nat) : Nat → State → State
  | 0, s => s
  | f + 1, s => if s.running && s.steps < maxSteps then loop p maxSteps f (stepOnce p s) else s

/-- fuel `maxSteps` is always enough (`Proofs/Batch.lean: loop_done`) -/
def runModel (p : Prog) (maxSteps : Nat) : State := loop p maxSteps maxSteps (construct p)

/-- positions of the collections to report: every `period`-th and always the last one -/
def picks (n : Nat) (period : Int) : Except Err (List Nat) :=
  if period = 0 then .error .value      -- `range(0, n, 0)`
  else
    let base := if period < 0 then [] else (List.range n).filter fun i => i % period.toNat = 0
    .ok (if n ≠ 0 ∧ base.getLast? ≠ some (n - 1) then base ++ [n - 1] else base)

structure BRow (κ : Type) where
  runId : Nat
  iteration : Nat
  step : Nat
  kwargs : Kwargs κ
  model : List Val                    -- one value per model reporter
  agent : Option (Nat × List Val)     -- AgentID and one value per agent reporter
deriving Repr, DecidableEq

/-- `_collect_data(model, index)` together with the label `collected[index]` -/
def collectData (s : State) (i : Nat) : Except Err (Nat × List Val × List Row) :=
  match s.collSteps[i]?, s.modelVars.mapM (·[i]?) with
  | some st, some mv => .ok (st, mv, (s.records.lookup st).getD [])
  | _, _ => .error .index

def rowsAt (r : Run κ) (s : State) (i : Nat) : Except Err (List (BRow κ)) :=
  match collectData s i with
  | .error e => .error e
  | .ok (st, mv, ags) =>
    .ok (if ags.isEmpty then
           [{ runId := r.runId, iteration := r.iteration, step := st, kwargs := r.kwargs, model := mv, agent := none }]
         else ags.map fun row =>
           { runId := r.runId, iteration := r.iteration, step := st, kwargs := r.kwargs, model := mv,
             agent := some (row.id, row.vals) })

def mapME (f : α → Except Err β) : List α → Except Err (List β)
  | [] => .ok []
  | x :: xs => match f x with
    | .error e => .error e
    | .ok y => match mapME f xs with
      | .error e => .error e
      | .ok ys => .ok (y :: ys)

/-- `_model_run_func` -/
def runRows (cls : Kwargs κ → Prog) (maxSteps : Nat) (period : Int) (r : Run κ) : Except Err (List (BRow κ)) :=
  let s := runModel (cls r.kwargs) maxSteps
  match picks s.collSteps.length period with
  | .error e => .error e
  | .ok ps => match mapME (rowsAt r s) ps with
    | .error e => .error e
    | .ok rows => .ok rows.flatten

/-- the rows of the runs, concatenated in the order in which the runs are handed back -/
def batchOrder (cls : Kwargs κ → Prog) (maxSteps : Nat) (period : Int) (order : List (Run κ)) :
    Except Err (List (BRow κ)) :=
  match mapME (runRows cls maxSteps period) order with
  | .error e => .error e
  | .ok rows => .ok rows.flatten

/-- `batch_run(..., number_processes=1)` (`display_progress` only drives the tqdm bar) -/
def batchRun (cls : Kwargs κ → Prog) (params : List (Nat × PVal κ)) (iterations maxSteps : Nat) (period : Int) :
    Except Err (List (BRow κ)) :=
  match iterLoop iterations 0 params with
  | .error e => .error e
  | .ok work => batchOrder cls maxSteps period (number 0 work)

/-- A worker completion order other than the submission order (`runp … late=j`): the runs of the design point of the
    `j`-th run of the work list are handed back after all the others (their worker is slow); no such run ⇒ the
    submission order. -/
def lateOrder [DecidableEq κ] (j : Nat) (runs : List (Run κ)) : List (Run κ) :=
  match runs[j]? with
  | none => runs
  | some r => runs.filter (fun x => !(decide (x.kwargs = r.kwargs))) ++ runs.filter (fun x => decide (x.kwargs = r.kwargs))

/-- what an observer does with a parallel result: the runs' chunks ordered by RunId (rows of one run keep their order) -/
def byRunId (n : Nat) (rows : List (BRow κ)) : List (BRow κ) :=
  (List.range n).flatMap fun i => rows.filter (fun b => b.runId == i)

/-- `batch_run(..., number_processes > 1)` with the completion order `lateOrder j`, chunks then ordered by RunId -/
def batchRunLate [DecidableEq κ] (cls : Kwargs κ → Prog) (params : List (Nat × PVal κ)) (iterations maxSteps : Nat)
    (period : Int) (j : Nat) : Except Err (List (BRow κ)) :=
  match iterLoop iterations 0 params with
  | .error e => .error e
  | .ok work =>
    match batchOrder cls maxSteps period (lateOrder j (number 0 work)) with
    | .error e => .error e
    | .ok rows => .ok (byRunId work.length rows)

end Mesa.Batch
