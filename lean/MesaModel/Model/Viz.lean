/-
Model of mesa/visualization  (property C20)

  mpl_space_drawing.py      collect_agent_data, _scatter, draw_space + the per-space functions,
                            draw_property_layers (orientation only)
  components/altair_components.py   _get_agent_data_*  and the part of _draw_grid that reads the rows
  solara_viz.py             _check_model_params, split_model_params, check_param_is_fixed,
                            the call of the check in ModelCreator

The model follows the code after the `fix:` commits V3, V5, V6, V7, V8, V9, V10, V11, P1, P2
(known_findings.d/C20.txt).

Values of a portrayal are opaque tokens (`String`): colour names, marker symbols, decimal integers.
Portrayal dictionaries live in a tiny heap and the portrayal function returns *references*, so that two
agents can be handed the very same dict object (V3).  matplotlib / Altair rendering, colour conversion
and the networkx layout are not modelled (trusted, see harness/c20.py TRUSTED): a marker is the tuple
handed to `Axes.scatter`; positions are kept in exact integer units (hex grids: x in units of √3/2,
y in units of 1/2; networks: the node label stands for the layout position of that node).
-/
namespace Mesa.Viz

/-! ## Python dicts: insertion-ordered association lists with unique keys -/

abbrev Key := String
abbrev Val := String
abbrev Dict := List (Key × Val)

namespace Dict

/-- `d.get(k)` -/
def get? (d : Dict) (k : Key) : Option Val := List.lookup k d

/-- `del d[k]` if present -/
def erase (d : Dict) (k : Key) : Dict := d.filter (fun kv => kv.1 != k)

/-- `d.pop(k, dflt)`: the value and the dict afterwards -/
def pop (d : Dict) (k : Key) (dflt : Val) : Val × Dict := ((get? d k).getD dflt, erase d k)

/-- `d.pop(k, None)` -/
def pop? (d : Dict) (k : Key) : Option Val × Dict := (get? d k, erase d k)

def hasKey (d : Dict) (k : Key) : Bool := d.any (fun kv => kv.1 == k)

/-- `d[k] = v`: in place if the key exists, appended otherwise -/
def set (d : Dict) (k : Key) (v : Val) : Dict :=
  if hasKey d k then d.map (fun kv => if kv.1 == k then (k, v) else kv) else d ++ [(k, v)]

def keys (d : Dict) : List Key := d.map (·.1)

/-- a dict display `{k1: v1, k2: v2, …}` (later duplicates overwrite) -/
def ofList (kvs : List (Key × Val)) : Dict := kvs.foldl (fun d kv => set d kv.1 kv.2) []

end Dict

/-! ## the heap of portrayal dicts and the portrayal function -/

abbrev Ref := Nat
abbrev Heap := List Dict

/-- what the portrayal callable returns for an agent: a reference to a dict it keeps (`some r`),
    or a freshly built empty dict (`none`) -/
abbrev Portrayal := Nat → Option Ref

/-- the dict the drawing code works on: `dict(agent_portrayal(agent))` — a copy (fix V3), so nothing the
    drawing code does to it reaches the heap -/
def portrayed (heap : Heap) (p : Portrayal) (a : Nat) : Dict :=
  match p a with
  | none => []
  | some r => heap.getD r []

/-! ## spaces and agents -/

structure Loc where
  x : Int
  y : Int
deriving DecidableEq, Repr, Inhabited

structure Agent where
  id : Nat
  pos : Option Loc      -- `agent.pos`: mesa.space grids / networks / continuous spaces
  cell : Option Loc     -- `agent.cell.coordinate`: mesa.discrete_space
deriving DecidableEq, Repr

/-- `loc = agent.pos; if loc is None: loc = agent.cell.coordinate` -/
def Agent.location (a : Agent) : Option Loc :=
  match a.pos with
  | some p => some p
  | none => a.cell

inductive Family where
  | single | multi | hexs | hexm          -- mesa.space: SingleGrid, MultiGrid, HexSingleGrid, HexMultiGrid
  | moore | vn | hex                      -- mesa.discrete_space: OrthogonalMooreGrid, OrthogonalVonNeumannGrid, HexGrid
  | netgrid | net                         -- mesa.space.NetworkGrid, mesa.discrete_space.Network
  | vor                                   -- mesa.discrete_space.VoronoiGrid
  | cs | xcs                              -- mesa.space.ContinuousSpace, mesa.experimental.continuous_space.ContinuousSpace
deriving DecidableEq, Repr

namespace Family

/-- the space is a collection of cells / nodes that hold agents (everything but the continuous spaces) -/
def cellular : Family → Bool
  | cs | xcs => false
  | _ => true

/-- agents of the space carry `cell` (and `pos is None`) -/
def newStyle : Family → Bool
  | moore | vn | hex | net | vor => true
  | _ => false

/-- at most one agent per cell -/
def exclusive : Family → Bool
  | single | hexs => true
  | _ => false

def isHex : Family → Bool
  | hexs | hexm | hex => true
  | _ => false

def isOrthogonal : Family → Bool
  | single | multi | moore | vn => true
  | _ => false

end Family

/-- cells of a `w × h` grid in the order every grid class enumerates them
    (`itertools.product(range(w), range(h))`, `for row in self._grid`, `coord_iter`) -/
def gridCells (w h : Nat) : List Loc :=
  (List.range w).flatMap fun x => (List.range h).map fun y => Loc.mk (Int.ofNat x) (Int.ofNat y)

structure Space where
  fam : Family
  w : Nat
  h : Nat
  /-- cells / nodes / centroids in the space's own iteration order (`[]` for continuous spaces).
      Networks: `⟨label, 0⟩` in `G.nodes` order; Voronoi: the centroid coordinates by index. -/
  cells : List Loc
  /-- agents in the space: cellular spaces in arrival order (a move is a departure and an arrival),
      continuous spaces in slot order (`_agent_to_index` / `active_agents`) -/
  placed : List Agent
deriving DecidableEq, Repr

/-- the cells of a fresh space; `extra` lists the network nodes / Voronoi centroids -/
def initCells (fam : Family) (w h : Nat) (extra : List Loc) : List Loc :=
  match fam with
  | .netgrid | .net | .vor => extra
  | .cs | .xcs => []
  | _ => gridCells w h

/-- what the constructors refuse: the `discrete_space` grids a dimension 0 ("Dimensions must be a list of positive
    integers"), `VoronoiGrid` an empty list of centroids (IndexError).  The `mesa.space` grids and continuous
    spaces accept size 0, the networks an empty graph. -/
def constructible (fam : Family) (w h : Nat) (extra : List Loc) : Bool :=
  match fam with
  | .moore | .vn | .hex => decide (0 < w) && decide (0 < h)
  | .vor => !extra.isEmpty
  | _ => true

/-- a fresh space.  Duplicated nodes / centroids are refused. -/
def Space.init? (fam : Family) (w h : Nat) (extra : List Loc) : Option Space :=
  if constructible fam w h extra = true ∧ (initCells fam w h extra).Nodup then
    some { fam, w, h, cells := initCells fam w h extra, placed := [] }
  else none

def mkAgent (fam : Family) (id : Nat) (l : Loc) : Agent :=
  if fam.newStyle then { id, pos := none, cell := some l } else { id, pos := some l, cell := none }

def Space.has (sp : Space) (a : Nat) : Bool := sp.placed.any (·.id == a)

def Space.occupied (sp : Space) (l : Loc) : Bool := sp.placed.any (·.location == some l)

/-- may an agent be put at `l` -/
def Space.validLoc (sp : Space) (l : Loc) : Bool :=
  if sp.fam.cellular then
    decide (l ∈ sp.cells) && (!sp.fam.exclusive || !sp.occupied l)
  else
    decide (0 ≤ l.x) && decide (l.x < sp.w) && decide (0 ≤ l.y) && decide (l.y < sp.h)

def Space.place (sp : Space) (a : Nat) (l : Loc) : Option Space :=
  if sp.has a || !sp.validLoc l then none
  else some { sp with placed := sp.placed ++ [mkAgent sp.fam a l] }

def Space.remove (sp : Space) (a : Nat) : Option Space :=
  if sp.has a then some { sp with placed := sp.placed.filter (·.id != a) } else none

/-- cellular spaces: leave the old cell, arrive (last) in the new one; continuous spaces: the slot stays -/
def Space.move (sp : Space) (a : Nat) (l : Loc) : Option Space :=
  if sp.fam.cellular then
    match sp.remove a with
    | none => none
    | some sp' => sp'.place a l
  else if sp.has a && sp.validLoc l then
    some { sp with placed := sp.placed.map fun g => if g.id == a then mkAgent sp.fam a l else g }
  else none

/-- `space.agents`: cell by cell in the space's order, inside a cell in arrival order;
    continuous spaces: slot order -/
def spaceAgents (sp : Space) : List Agent :=
  if sp.fam.cellular then sp.cells.flatMap fun c => sp.placed.filter fun a => a.location == some c
  else sp.placed

/-! ## collect_agent_data -/

structure Defaults where
  color : Val
  size : Val
  marker : Val
  zorder : Val
deriving Repr

/-- the defaults in the signature of `collect_agent_data` -/
def libDefaults : Defaults := { color := "tab:blue", size := "25", marker := "o", zorder := "1" }

/-- the defaults the `draw_*` functions use: `size=s_default` (written `D`), the rest as above -/
def drawDefaults : Defaults := { libDefaults with size := "D" }

/-- one agent's share of the `arguments` dict -/
structure Entry where
  loc : Loc
  s : Val
  c : Val
  marker : Val
  zorder : Val
  alpha : Option Val
  edgecolors : Option Val
  linewidths : Option Val
  ignored : List Key        -- keys left over → the "fields are not used" warning
deriving DecidableEq, Repr

/-- the body of the loop, pop by pop, on the copied dict -/
def collectOne (df : Defaults) (loc : Loc) (d : Dict) : Entry :=
  let (s, d) := Dict.pop d "size" df.size
  let (c, d) := Dict.pop d "color" df.color
  let (m, d) := Dict.pop d "marker" df.marker
  let (z, d) := Dict.pop d "zorder" df.zorder
  let (al, d) := Dict.pop? d "alpha"
  let (ec, d) := Dict.pop? d "edgecolors"
  let (lw, d) := Dict.pop? d "linewidths"
  { loc, s, c, marker := m, zorder := z, alpha := al, edgecolors := ec, linewidths := lw,
    ignored := Dict.keys d }

/-- `collect_agent_data(space, agent_portrayal, color, size, marker, zorder)` over `space.agents`;
    `none`: an agent with neither `pos` nor `cell` (AttributeError) -/
def collectAgentData (df : Defaults) (heap : Heap) (p : Portrayal) : List Agent → Option (List Entry)
  | [] => some []
  | a :: as =>
    match a.location with
    | none => none
    | some l => (collectAgentData df heap p as).map (collectOne df l (portrayed heap p a.id) :: ·)

/-- an optional per-agent array (`alpha`, `edgecolors`, `linewidths`) as `collect_agent_data` returns it
    (fix V7): one slot per agent — the value its portrayal returned, `None` (`none`) if it returned none —
    unless no agent returned the key: then the array stays empty -/
def optArray (f : Entry → Option Val) (es : List Entry) : List (Option Val) :=
  if es.all (fun e => (f e).isNone) then [] else es.map f

def alphas (es : List Entry) : List (Option Val) := optArray (·.alpha) es
def edgecolorss (es : List Entry) : List (Option Val) := optArray (·.edgecolors) es
def linewidthss (es : List Entry) : List (Option Val) := optArray (·.linewidths) es

/-! ## _scatter -/

inductive Err where
  | attribute         -- AttributeError (agent without pos and cell)
  | notImplemented    -- NotImplementedError
  | zeroDivision      -- ZeroDivisionError (a size computed for a space without extent)
  | value             -- ValueError (`x, y = zip(*pos.values())` for a network without nodes)
deriving DecidableEq, Repr

/-- `_fill_unspecified` for one optional key of one scatter call (`ms`: the agents the two masks select).
    `none`: no agent of the call specifies the key — it is deleted and left to `ax.scatter`.
    Otherwise one value per agent of the call: its own, or — written `none` — what `ax.scatter` uses by
    default for that agent (alpha: the alpha of its own colour; edgecolors: its own colour, i.e. "face";
    linewidths: the rcParams line width of the call's marker kind). -/
def fillKey (f : Entry → Option Val) (ms : List Entry) : Option (List (Option Val)) :=
  if ms.all (fun e => (f e).isNone) then none else some (ms.map f)

/-- what one scatter call is handed for an optional key: `_scatter` pops the key if the array of the
    whole space is empty; otherwise the masked array `v[logical]`, completed by `_fill_unspecified` -/
def passKey (f : Entry → Option Val) (es ms : List Entry) : Option (List (Option Val)) :=
  if (optArray f es).isEmpty then none else fillKey f ms

/-- one `ax.scatter` call: marker, z-order, the selected agents (x, y, s, c come from them one by one)
    and the optional keyword arrays (`none`: keyword not passed) -/
structure Group where
  marker : Val
  zorder : Val
  members : List Entry
  alpha : Option (List (Option Val))
  edgecolors : Option (List (Option Val))
  linewidths : Option (List (Option Val))
deriving DecidableEq, Repr

/-- the distinct values of an array (`set(marker)`, `np.unique(zorder)`; their order is not observable) -/
def distinct : List Val → List Val
  | [] => []
  | x :: xs => if (distinct xs).contains x then distinct xs else x :: distinct xs

/-- the scatter call for marker `m` and z-order `z`: `logical = mark_mask & zorder_mask` -/
def mkGroup (es : List Entry) (m z : Val) : Group :=
  let ms := es.filter fun e => e.marker == m && e.zorder == z
  { marker := m, zorder := z, members := ms,
    alpha := passKey (·.alpha) es ms, edgecolors := passKey (·.edgecolors) es ms,
    linewidths := passKey (·.linewidths) es ms }

/-- `_scatter(ax, arguments)`: one scatter call per (marker, zorder) pair of the distinct markers and the
    distinct z-orders that selects at least one agent (fix V11), with the agents selected by the two masks.
    Since fix V7 every optional array has one slot per agent, so the masks always fit. -/
def scatter (es : List Entry) : List Group :=
  if es.isEmpty then []                      -- fix V5: nothing to plot
  else
    let marks := distinct (es.map (·.marker))
    let zs := distinct (es.map (·.zorder))
    ((marks.flatMap fun m => zs.map fun z => mkGroup es m z).filter fun g => !g.members.isEmpty)

/-- matplotlib's side of one optional keyword (trusted, not mesa code): marker number `i` of the call gets
    slot `i` of the array; a keyword that is not passed leaves every marker at the default -/
def withKey (set : Entry → Option Val → Entry) (arg : Option (List (Option Val))) (ms : List Entry) : List Entry :=
  match arg with
  | none => ms.map (set · none)
  | some vs => List.zipWith set ms vs

/-- the markers of one scatter call as they end up on the Axes: position, size and colour of the selected
    agents, alpha / edge colour / line width as the keyword arrays say (`none`: matplotlib's default) -/
def Group.drawn (g : Group) : List Entry :=
  withKey (fun e v => { e with linewidths := v }) g.linewidths
    (withKey (fun e v => { e with edgecolors := v }) g.edgecolors
      (withKey (fun e v => { e with alpha := v }) g.alpha g.members))

/-! ## draw_space -/

/-- where `draw_*` puts the marker of an agent at `l`.
    Hex grids: `x·√3 + ((y-1) % 2)·√3/2 , y·1.5`, here in units of (√3/2, 1/2).
    Networks: the layout position of node `l.x` (fix V6: looked up by label) — kept symbolic. -/
def transform (fam : Family) (l : Loc) : Loc :=
  if fam.isHex then ⟨2 * l.x + (l.y - 1) % 2, 3 * l.y⟩ else l

/-- centre of the hexagon `_get_hexmesh` draws for column `col`, row `row` (same units) -/
def hexCenter (col row : Nat) : Loc :=
  ⟨2 * (col : Int) + (if row % 2 == 0 then 1 else 0), 3 * (row : Int)⟩

/-- What the `draw_*` function of the class raises before it looks at the agents: the default marker size
    `(180 / max(width, height)) ** 2` on a grid or continuous space of size 0 × 0 (ZeroDivisionError; only `mesa.space`
    classes can be built that small), `x, y = list(zip(*pos.values()))` on a network without nodes (ValueError).
    Such a space cannot hold an agent.  (A Voronoi grid with a single centroid — an extent of 0 — is sized like a single
    cell since fix V15, as a one-node network since V12.) -/
def drawRaises (sp : Space) : Option Err :=
  match sp.fam with
  | .netgrid | .net => if sp.cells.isEmpty then some .value else none
  | .vor => none
  | _ => if sp.w = 0 ∧ sp.h = 0 then some .zeroDivision else none

/-- the agents' part of `draw_*`: `collect_agent_data`, the location transform, `_scatter` -/
def drawAgents (sp : Space) (heap : Heap) (p : Portrayal) : Except Err (List Group) :=
  match collectAgentData drawDefaults heap p (spaceAgents sp) with
  | none => .error .attribute
  | some es => .ok (scatter (es.map fun e => { e with loc := transform sp.fam e.loc }))

/-- `draw_space(space, agent_portrayal)`: the scatter calls made on the Axes -/
def drawSpace (sp : Space) (heap : Heap) (p : Portrayal) : Except Err (List Group) :=
  match drawRaises sp with
  | some e => .error e
  | none => drawAgents sp heap p

/-! ## Altair -/

def altairSupported : Family → Bool
  | .netgrid | .net | .vor | .xcs => false
  | _ => true

/-- `agent_data = dict(agent_portrayal(agent)); agent_data["x"] = x; agent_data["y"] = y` -/
def altairRow (d : Dict) (l : Loc) : Dict :=
  Dict.set (Dict.set d "x" (toString l.x)) "y" (toString l.y)

def altairRowsOf (heap : Heap) (p : Portrayal) : List Agent → Option (List Dict)
  | [] => some []
  | a :: as =>
    match a.location with
    | none => none
    | some l => (altairRowsOf heap p as).map (altairRow (portrayed heap p a.id) l :: ·)

/-- the rows handed to `alt.Data(values=…)` by `_draw_grid` -/
def altairRows (sp : Space) (heap : Heap) (p : Portrayal) : Except Err (List Dict) :=
  if !altairSupported sp.fam then .error .notImplemented
  else match altairRowsOf heap p (spaceAgents sp) with
    | none => .error .attribute
    | some rows => .ok rows

/-- `has_color`, `has_size`: read off the first row (fix V5: of `{}` when there is none) -/
def altairEncodes (rows : List Dict) (k : Key) : Bool :=
  match rows with
  | [] => false
  | r :: _ => Dict.hasKey r k

/-! ## property layers (orientation only) -/

/-- `layer.data`, shape `(w, h)`, stored row-major as numpy does: `data[x, y] = vals[x*h + y]` -/
structure Layer where
  w : Nat
  h : Nat
  vals : List Int
deriving Repr

def Layer.wellFormed (L : Layer) : Bool := L.vals.length == L.w * L.h

def Layer.at (L : Layer) (x y : Nat) : Option Int := if x < L.w ∧ y < L.h then L.vals[x * L.h + y]? else none

/-- what orthogonal grids hand to `imshow(…, origin="lower")`: `data.T`, i.e. image row `r` (drawn at
    height `r`) is `[data[0, r], data[1, r], …]` -/
def imshowRows (L : Layer) : List (List (Option Int)) :=
  (List.range L.h).map fun r => (List.range L.w).map fun c => L.at c r

/-- hex grids: `data.T.ravel()` (fix V8), one colour per hexagon of `_get_hexmesh(w, h)`, which yields the
    hexagons row by row: hexagon number `k` is column `k % w`, row `k / w` -/
def hexColors (L : Layer) : List (Option Int) :=
  (List.range L.h).flatMap fun r => (List.range L.w).map fun c => L.at c r

/-- `_get_hexmesh(width, height)`: one hexagon per cell, `for row, col in itertools.product(range(height), range(width))`
    — row by row —, here the centre of each (`x = col·√3 + (row % 2 == 0)·√3/2`, `y = row·1.5` in the units of `hexCenter`) -/
def hexMesh (w h : Nat) : List Loc :=
  (List.range h).flatMap fun row => (List.range w).map fun col => hexCenter col row

/-! ## _check_model_params, split_model_params -/

inductive Kind where
  | posOnly | posOrKw | varPos | kwOnly | varKw
deriving DecidableEq, Repr

structure Param where
  name : String
  kind : Kind
  hasDefault : Bool
deriving DecidableEq, Repr

inductive CheckErr where
  | varPositional
  | noInstance
  | positionalOnly (name : String)
  | missing (name : String)
  | invalid (name : String)
deriving DecidableEq, Repr

def Kind.isPositional : Kind → Bool
  | .posOnly | .posOrKw => true
  | _ => false

def Kind.takesKeyword : Kind → Bool
  | .posOrKw | .kwOnly => true
  | _ => false

def hasVarPositional (sig : List Param) : Bool := sig.any (·.kind == .varPos)

/-- first loop: every parameter without a default must be supplied by keyword -/
def checkRequired (keys : List String) : List Param → Except CheckErr Unit
  | [] => .ok ()
  | p :: ps =>
    if p.kind == .varKw || p.hasDefault then checkRequired keys ps
    else if p.kind == .posOnly then .error (.positionalOnly p.name)
    else if !keys.contains p.name then .error (.missing p.name)
    else checkRequired keys ps

/-- second loop: every supplied name must have a taker -/
def checkKeys (inst : Param) (kwNames : List String) (hasVarKw : Bool) : List String → Except CheckErr Unit
  | [] => .ok ()
  | k :: ks =>
    let isInstance := inst.kind == .posOrKw && k == inst.name
    if isInstance || (!kwNames.contains k && !hasVarKw) then .error (.invalid k)
    else checkKeys inst kwNames hasVarKw ks

/-- `_check_model_params(init_func, model_params)` on the signature of the unbound `__init__` and the
    keys of `model_params` (fix P1: parameters are recognised by `Parameter.kind`) -/
def checkModelParams (sig : List Param) (keys : List String) : Except CheckErr Unit :=
  if hasVarPositional sig then .error .varPositional
  else match sig with
    | [] => .error .noInstance
    | inst :: rest =>
      if !inst.kind.isPositional then .error .noInstance
      else
        let hasVarKw := rest.any (·.kind == .varKw)
        let kwNames := (rest.filter (·.kind.takesKeyword)).map (·.name)
        match checkRequired keys rest with
        | .error e => .error e
        | .ok () => checkKeys inst kwNames hasVarKw keys

/-- `_check_model_params(init_func, model_params, extra_keywords)`: `extra` are the keywords the caller of the
    constructor passes anyway (`("simulator",)` under a `SimulatorController`, whose reset calls
    `Model(simulator=simulator, **model_parameters)`): a parameter of that name would be passed twice; apart from
    that they take part in the call like the parameters -/
def checkModelParamsExtra (sig : List Param) (extra keys : List String) : Except CheckErr Unit :=
  match extra.find? (keys.contains ·) with
  | some k => .error (.invalid k)
  | none => checkModelParams sig (extra ++ keys)

/-- the values of `model_params` as far as `check_param_is_fixed` looks at them -/
inductive PyVal where
  | slider                         -- a `Slider` instance
  | dict (keys : List String)      -- a dict with these keys
  | other                          -- anything else
deriving DecidableEq, Repr

/-- `check_param_is_fixed` (its `None` result counts as false) -/
def isFixed : PyVal → Bool
  | .slider => false
  | .dict ks => !ks.contains "type"
  | .other => true

/-- `split_model_params`: (user-adjustable, fixed) -/
def splitModelParams (ps : List (String × PyVal)) : List (String × PyVal) × List (String × PyVal) :=
  (ps.filter (fun kv => !isFixed kv.2), ps.filter (fun kv => isFixed kv.2))

/-- the check as `ModelCreator` runs it (fix P2): against `{**fixed_params, **user_params}`, together with the
    keywords `extra` the controller passes itself (fix P3) -/
def creatorCheck (sig : List Param) (ps : List (String × PyVal)) (extra : List String := []) : Except CheckErr Unit :=
  let (user, fixed) := splitModelParams ps
  checkModelParamsExtra sig extra (fixed.map (·.1) ++ user.map (·.1))

end Mesa.Viz
