import MesaModel.Model.Registry
/-
Model of AgentSet.do / shuffle_do / map and GroupBy.do / map (mesa/agent.py), property C04.

The callback is a *script*: what agent `a` does when it is invoked is `script a`, a list of
actions (remove itself, remove another agent, create agents, make the program drop a
reference, add an agent to / discard one from a program-made set — possibly the very set being
activated), after which the callback may raise (`walkX`).  An activation takes the snapshot `list(self._agents.keyrefs())` — the keys that
are alive when the call starts — and walks it; at each turn the weak reference is
dereferenced (`alive`), and only then is the callback invoked.
-/
namespace Mesa.Agents

inductive Action where
  | rmSelf
  | rm (b : Aid)
  | create (m : Nat) (ty : Ty) (n : Nat) (hold : Bool)
  | unhold (b : Aid)
  | addTo (k : Nat) (b : Aid)        -- `program_set_k.add(b)`: the callback edits a set, possibly the activated one
  | discardFrom (k : Nat) (b : Aid)  -- `program_set_k.discard(b)`
deriving Repr, DecidableEq

/-- `AgentSet.add(b)` on the program-made set `k`, by a program that can still reach `b` -/
def setAdd (w : World) (k : Nat) (b : Aid) : World :=
  match w.sets[k]? with
  | some (m, l) => if alive w b then { w with sets := w.sets.set k (m, addKey l b) } else w
  | none => w

/-- `AgentSet.discard(b)` on the program-made set `k` -/
def setDiscard (w : World) (k : Nat) (b : Aid) : World :=
  match w.sets[k]? with
  | some (m, l) => { w with sets := w.sets.set k (m, l.erase b) }
  | none => w

def runAction (self : Aid) (w : World) : Action → World
  | .rmSelf => removeAgent w self
  | .rm b => removeAgent w b
  | .create m ty n hold => createN w m ty hold (List.replicate n [.int 0])
  | .unhold b => unhold w b
  | .addTo k b => setAdd w k b
  | .discardFrom k b => setDiscard w k b

/-- the callback of agent `a` with argument `arg`: logged, then its script runs -/
def invoke (script : Aid → List Action) (arg : Nat) (w : World) (a : Aid) : World :=
  (script a).foldl (runAction a) { w with log := w.log ++ [(a, arg)] }

/-- one iteration of `for ref in refs: if (agent := ref()) is not None: method(agent, *args)` -/
def turn (script : Aid → List Action) (arg : Nat) (w : World) (a : Aid) : World :=
  if alive w a then invoke script arg w a else w

def walk (script : Aid → List Action) (arg : Nat) (w : World) (refs : List Aid) : World :=
  refs.foldl (turn script arg) w

/-- `AgentSet.do(method, arg)` -/
def doSet (script : Aid → List Action) (arg : Nat) (w : World) (t : Target) : World :=
  walk script arg w (members w t)

/-- `AgentSet.shuffle_do(method, arg)`: a private copy of the reference list is shuffled with
    the set's generator; the set itself is not touched -/
def shuffleDo (script : Aid → List Action) (arg : Nat) (w : World) (t : Target) : World :=
  let (refs, g) := Rng.shuffle (members w t) (rngOf w t)
  walk script arg (setRng w (t.model w) g) refs

/-- `AgentSet.map(method, arg)`: the same walk, collecting what the callback returns
    (`ret a arg`) -/
def walkMap (script : Aid → List Action) (arg : Nat) (ret : Aid → Nat → Nat) :
    World → List Aid → World × List Nat
  | w, [] => (w, [])
  | w, a :: rest =>
    if alive w a then
      let (w', rs) := walkMap script arg ret (invoke script arg w a) rest
      (w', ret a arg :: rs)
    else walkMap script arg ret w rest

def mapSet (script : Aid → List Action) (arg : Nat) (ret : Aid → Nat → Nat) (w : World) (t : Target) :
    World × List Nat :=
  walkMap script arg ret w (members w t)

/-! ### callbacks that raise

`raises a` = the callback of agent `a` raises an exception once its script has run.  Nothing in `do` /
`shuffle_do` / `map` / `GroupBy.do` / `GroupBy.map` catches it: the loop ends there and the exception leaves the
call (`true` in the second component); `map` then returns no list. -/

def walkX (script : Aid → List Action) (raises : Aid → Bool) (arg : Nat) : World → List Aid → World × Bool
  | w, [] => (w, false)
  | w, a :: rest =>
    if alive w a then
      if raises a then (invoke script arg w a, true)
      else walkX script raises arg (invoke script arg w a) rest
    else walkX script raises arg w rest

def doSetX (script : Aid → List Action) (raises : Aid → Bool) (arg : Nat) (w : World) (t : Target) : World × Bool :=
  walkX script raises arg w (members w t)

def shuffleDoX (script : Aid → List Action) (raises : Aid → Bool) (arg : Nat) (w : World) (t : Target) : World × Bool :=
  let (refs, g) := Rng.shuffle (members w t) (rngOf w t)
  walkX script raises arg (setRng w (t.model w) g) refs

/-- the list comprehension of `map`: `none` = the exception left the call, no list was built -/
def walkMapX (script : Aid → List Action) (raises : Aid → Bool) (arg : Nat) (ret : Aid → Nat → Nat) :
    World → List Aid → World × Option (List Nat)
  | w, [] => (w, some [])
  | w, a :: rest =>
    if alive w a then
      if raises a then (invoke script arg w a, none)
      else
        let (w', rs) := walkMapX script raises arg ret (invoke script arg w a) rest
        (w', rs.map (ret a arg :: ·))
    else walkMapX script raises arg ret w rest

def mapSetX (script : Aid → List Action) (raises : Aid → Bool) (arg : Nat) (ret : Aid → Nat → Nat) (w : World)
    (t : Target) : World × Option (List Nat) :=
  walkMapX script raises arg ret w (members w t)

/-! ### groupby -/

/-- the `by` functions the harness uses: the agent's class, or `unique_id % k` -/
inductive GroupKey where
  | ty
  | uidMod (k : Nat)
deriving Repr, DecidableEq

def GroupKey.eval (w : World) : GroupKey → Aid → Nat
  | .ty => tyOf w
  | .uidMod k => fun a => uidOf w a % k

/-- `set.groupby(by).do("do", method, arg)`: each group is an AgentSet (weak references);
    group after group, each with its own snapshot -/
def groupDo (script : Aid → List Action) (arg : Nat) (key : Aid → Nat) (w : World) (t : Target) : World :=
  (groupBy key (members w t)).foldl (fun w g => walk script arg w (g.2.filter (alive w))) w

/-- `set.groupby(by).map("map", method, arg)`: dict key → list of results -/
def groupMap (script : Aid → List Action) (arg : Nat) (ret : Aid → Nat → Nat) (key : Aid → Nat)
    (w : World) (t : Target) : World × List (Nat × List Nat) :=
  (groupBy key (members w t)).foldl
    (fun (acc : World × List (Nat × List Nat)) g =>
      let (w', rs) := walkMap script arg ret acc.1 (g.2.filter (alive acc.1))
      (w', acc.2 ++ [(g.1, rs)]))
    (w, [])

/-- `GroupBy.do` when callbacks may raise: the group loop is left with the first exception -/
def groupsX (script : Aid → List Action) (raises : Aid → Bool) (arg : Nat) : World → List (Nat × List Aid) → World × Bool
  | w, [] => (w, false)
  | w, g :: gs =>
    let (w', r) := walkX script raises arg w (g.2.filter (alive w))
    if r then (w', true) else groupsX script raises arg w' gs

def groupDoX (script : Aid → List Action) (raises : Aid → Bool) (arg : Nat) (key : Aid → Nat) (w : World) (t : Target) :
    World × Bool :=
  groupsX script raises arg w (groupBy key (members w t))

/-- `GroupBy.map` when callbacks may raise: the dict comprehension is left with the first exception -/
def groupsMapX (script : Aid → List Action) (raises : Aid → Bool) (arg : Nat) (ret : Aid → Nat → Nat) :
    World → List (Nat × List Aid) → World × Option (List (Nat × List Nat))
  | w, [] => (w, some [])
  | w, g :: gs =>
    match walkMapX script raises arg ret w (g.2.filter (alive w)) with
    | (w', none) => (w', none)
    | (w', some rs) =>
      let (w'', rest) := groupsMapX script raises arg ret w' gs
      (w'', rest.map ((g.1, rs) :: ·))

def groupMapX (script : Aid → List Action) (raises : Aid → Bool) (arg : Nat) (ret : Aid → Nat → Nat) (key : Aid → Nat)
    (w : World) (t : Target) : World × Option (List (Nat × List Nat)) :=
  groupsMapX script raises arg ret w (groupBy key (members w t))

/-! ### histories -/

inductive Op where
  | newModel (g : Rng)
  | create (m : Nat) (ty : Ty) (hold : Bool) (x : Payload)
  | createN (m : Nat) (ty : Ty) (hold : Bool) (xs : List Payload)
  | createAgents (m : Nat) (ty : Ty) (hold : Bool) (n : Nat) (args : List Arg)
  | remove (a : Aid)
  | removeAll (m : Nat)
  | unhold (a : Aid)
  | shuffle (t : Target)                 -- in place
  | sort (t : Target) (asc : Bool)       -- in place
  | mkSet (m : Nat) (l : List Aid)
  | doSet (script : Aid → List Action) (arg : Nat) (t : Target)
  | shuffleDo (script : Aid → List Action) (arg : Nat) (t : Target)
  | mapSet (script : Aid → List Action) (arg : Nat) (t : Target)
  | groupDo (script : Aid → List Action) (arg : Nat) (key : GroupKey) (t : Target)
  | groupMap (script : Aid → List Action) (arg : Nat) (key : GroupKey) (t : Target)
  -- the same five activations with callbacks that may raise (the exception ends the call)
  | doSetX (script : Aid → List Action) (raises : Aid → Bool) (arg : Nat) (t : Target)
  | shuffleDoX (script : Aid → List Action) (raises : Aid → Bool) (arg : Nat) (t : Target)
  | mapSetX (script : Aid → List Action) (raises : Aid → Bool) (arg : Nat) (t : Target)
  | groupDoX (script : Aid → List Action) (raises : Aid → Bool) (arg : Nat) (key : GroupKey) (t : Target)
  | groupMapX (script : Aid → List Action) (raises : Aid → Bool) (arg : Nat) (key : GroupKey) (t : Target)

def step (w : World) : Op → World
  | .newModel g => newModel w g
  | .create m ty hold x => createAgent w m ty hold x
  | .createN m ty hold xs => createN w m ty hold xs
  | .createAgents m ty hold n args => createAgents w m ty hold n args
  | .remove a => removeAgent w a
  | .removeAll m => removeAll w m
  | .unhold a => unhold w a
  | .shuffle t => shuffleInPlace w t
  | .sort t asc => sortInPlace w t asc
  | .mkSet m l => mkSet w m l
  | .doSet script arg t => doSet script arg w t
  | .shuffleDo script arg t => shuffleDo script arg w t
  | .mapSet script arg t => (mapSet script arg (fun _ _ => 0) w t).1
  | .groupDo script arg key t => groupDo script arg (key.eval w) w t
  | .groupMap script arg key t => (groupMap script arg (fun _ _ => 0) (key.eval w) w t).1
  | .doSetX script raises arg t => (doSetX script raises arg w t).1
  | .shuffleDoX script raises arg t => (shuffleDoX script raises arg w t).1
  | .mapSetX script raises arg t => (mapSetX script raises arg (fun _ _ => 0) w t).1
  | .groupDoX script raises arg key t => (groupDoX script raises arg (key.eval w) w t).1
  | .groupMapX script raises arg key t => (groupMapX script raises arg (fun _ _ => 0) (key.eval w) w t).1

def run (w : World) (ops : List Op) : World := ops.foldl step w

/-- The program drops model `m`: it forgets the model and every reference it holds to one of its agents; the model and
    its agents become garbage (reference cycle `model ↔ agents`, collected by the cycle collector: runtime fact, trusted).
    For everything the program can still observe - the other models, its own sets, which agents are alive - this is the
    history `remove_all_agents(m)` followed by dropping each held reference to an agent of `m`: no new primitive, so every
    theorem over `run World.empty ops` covers histories with dropped models.  The slot `m` stays (models are named by
    creation index) and is never addressed again (the driver answers `bad-op`). -/
def dropModelOps (w : World) (m : Nat) : List Op :=
  .removeAll m :: ((w.held.filter fun a => (w.info[a]?.map (·.model)) == some m).map .unhold)

def dropModel (w : World) (m : Nat) : World := run w (dropModelOps w m)

/-- an explicit in-place reordering of one of the registry's own sets -/
def Op.reordersRegistry : Op → Bool
  | .shuffle (.all _) | .shuffle (.byType _ _) | .sort (.all _) _ | .sort (.byType _ _) _ => true
  | _ => false

end Mesa.Agents
