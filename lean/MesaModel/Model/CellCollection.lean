import MesaModel.Model.CellSpace
/-!
Model of `mesa/discrete_space/cell_collection.py` (`CellCollection`) on top of the occupancy model
(properties C06; C01 relies on "which generator, how many draws, over which ordered population" for the two
random selections):

* a collection is the list of the keys of its `_cells` dict, in dict order; the dict's values are the cells'
  *live* `_agents` lists, so `agents`, `[cell]` show who is there now (`collAgents`, `collGet`);
* `cells`, `__iter__`, `__len__`, `in` (`collHas` — `__contains__` is not defined, Python falls back to iteration);
* `select(filter_func, at_most)` — `select`, `selGen` (the generator `cell_generator`), `AtMost.limit`
  (the `at_most` arithmetic: a float ≤ 1.0 is a fraction of the collection's length, rounded down);
* `select_random_cell` / `select_random_agent` — `pick` (`random.choice`: IndexError on an empty
  population without consuming a draw, else exactly one draw `d`, the element at `d % len`).

Where collections come from: `space.all_cells` (`sp.cells`), `space.empties` (`empties`), a cell's
(memoised) neighbourhood (`getNbhd`, `nbProp`), and `select` on any of these.
-/
namespace Mesa.Cells

/-- a `CellCollection`: the cells (keys of `_cells`) in dict order -/
abbrev Coll := List Cid

/-- `CellCollection.agents` / `list(coll.agents)`: the cells' agent lists chained, in cell order -/
def collAgents (s : State) (cells : Coll) : List Aid := cells.flatMap s.occ

/-- `coll[cell]`: the agents of `cell` (its live list); `none`: KeyError -/
def collGet (s : State) (cells : Coll) (c : Cid) : Option (List Aid) := if c ∈ cells then some (s.occ c) else none

/-- `cell in coll` -/
def collHas (cells : Coll) (c : Cid) : Bool := decide (c ∈ cells)

/-- the `at_most` argument of `select` -/
inductive AtMost where
  | inf                      -- `float("inf")` (the default)
  | int (n : Int)            -- an `int`
  | frac (num den : Nat)     -- the `float` num/den, `den ≥ 1`
deriving Repr, DecidableEq

/-- how many cells `select` yields at most (`none`: no bound), for a collection of `len` cells:
    `if at_most <= 1.0 and isinstance(at_most, float): at_most = int(len(self) * at_most)`, and the generator
    stops as soon as `count >= at_most` (so an int ≤ 0 yields nothing and a float > 1 is rounded up) -/
def AtMost.limit (len : Nat) : AtMost → Option Nat
  | .inf => none
  | .int n => some n.toNat
  | .frac num den => if num ≤ den then some (len * num / den) else some ((num + den - 1) / den)

/-- `cell_generator(filter_func, at_most)`:
    `for cell in self: if count >= at_most: break; if not filter_func or filter_func(cell): yield cell; count += 1` -/
def selGen (f : Cid → Bool) (limit : Option Nat) : Nat → List Cid → List Cid
  | _, [] => []
  | count, c :: cs =>
    if (match limit with | some l => decide (l ≤ count) | none => false) then []
    else if f c then c :: selGen f limit (count + 1) cs
    else selGen f limit count cs

/-- `coll.select(filter_func, at_most)`; `f = none`: no filter function.  Without filter and bound the code
    returns the collection itself (`selectIsSelf`). -/
def select (f : Option (Cid → Bool)) (am : AtMost) (cells : Coll) : Coll :=
  match f, am with
  | none, .inf => cells
  | _, _ => selGen (f.getD fun _ => true) (am.limit cells.length) 0 cells

/-- `coll.select(…) is coll` -/
def selectIsSelf (f : Option (Cid → Bool)) (am : AtMost) : Bool :=
  match f, am with
  | none, .inf => true
  | _, _ => false

/-- result of a random selection: the element, its position in the population, the number of draws consumed -/
inductive Pick (α : Type) where
  | err (e : Err)
  | ok (x : α) (pos used : Nat)
deriving Repr, DecidableEq

/-- `random.choice(seq)` with a scripted generator: IndexError on an empty sequence (no draw is made),
    otherwise one draw `d` and the element at `d % len(seq)` -/
def pick {α : Type} (seq : List α) (draws : List Nat) : Pick α :=
  if seq.isEmpty then .err .index
  else match draws with
    | [] => .err .script
    | d :: _ =>
      match seq[d % seq.length]? with
      | some x => .ok x (d % seq.length) 1
      | none => .err .index

/-- `coll.select_random_cell()`: `self.random.choice(self.cells)` -/
def selectRandomCell (cells : Coll) (draws : List Nat) : Pick Cid := pick cells draws

/-- `coll.select_random_agent()`: `self.random.choice(list(self.agents))` -/
def selectRandomAgent (s : State) (cells : Coll) (draws : List Nat) : Pick Aid := pick (collAgents s cells) draws

/-- the filter functions the line protocol can name (the code accepts any callable; the theorems are about any) -/
inductive Filt where
  | empty | occupied | full | notFull
deriving Repr, DecidableEq

/-- `lambda cell: cell.is_empty`, `not cell.is_empty`, `cell.is_full`, `not cell.is_full` at the current state -/
def Filt.eval (sp : Space) (s : State) : Filt → Cid → Bool
  | .empty, c => isEmpty s c
  | .occupied, c => !isEmpty s c
  | .full, c => isFull sp s c
  | .notFull, c => !isFull sp s c

end Mesa.Cells
