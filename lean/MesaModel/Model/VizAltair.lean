import MesaModel.Model.VizLayers
/-!
Model of what `_draw_grid` (mesa/visualization/components/altair_components.py) makes of the agent rows: the
encoding of the Altair chart.  The encoding is read off the *first* row (of `{}` when there is none, fix V5):
tooltips for its keys other than colour / size / position, a colour and a size channel if it has the key;
without a size channel the mark gets the default size `30000 / min(width, height)²`.
What Vega-Lite renders from the chart is not modelled.
-/
namespace Mesa.Viz

structure AltairChart where
  /-- `alt.Data(values=…)` -/
  rows : List Dict
  /-- the type of the x and y channels: `"nominal"` for `mesa.space.ContinuousSpace`, `"ordinal"` otherwise -/
  xyType : Val
  /-- the fields shown as tooltip, in the order of the first row's keys -/
  tooltip : List Key
  /-- `encoding["color"]` (nominal) is present -/
  color : Bool
  /-- `encoding["size"]` (quantitative) is present -/
  size : Bool
  /-- `mark_point(size=…)`: the default size of all marks; `none`: sizes come from the rows -/
  markSize : Option Frac
deriving DecidableEq, Repr

/-- `invalid_tooltips` -/
def invalidTooltips : List Key := ["color", "size", "x", "y"]

/-- the first row, `{}` for a space without agents -/
def firstRow (rows : List Dict) : Dict := rows.head?.getD []

/-- `_draw_grid(space, agent_portrayal)`: the chart -/
def altairChart (sp : Space) (heap : Heap) (p : Portrayal) : Except Err AltairChart :=
  match altairRows sp heap p with
  | .error e => .error e
  | .ok rows =>
    let first := firstRow rows
    let hasSize := Dict.hasKey first "size"
    -- `30000 / length**2` with `length = min(space.width, space.height)`: ZeroDivisionError on a space of width or height 0
    if !hasSize && min sp.w sp.h == 0 then .error .zeroDivision else
    .ok { rows,
          xyType := if sp.fam = .cs then "nominal" else "ordinal",
          tooltip := (Dict.keys first).filter fun k => !invalidTooltips.contains k,
          color := Dict.hasKey first "color",
          size := hasSize,
          markSize := if hasSize then none else some ⟨30000, (min sp.w sp.h) * (min sp.w sp.h)⟩ }

/-- the portrayal the Altair component uses when it is given none: `{"id": a.unique_id}`, a fresh dict per agent —
    as a heap with one dict per agent of the space and the portrayal that hands them out -/
def defaultAltairPortrayal (agents : List Agent) : Heap × Portrayal :=
  (agents.map fun a => [("id", toString a.id)], fun id => agents.findIdx? (·.id == id))

end Mesa.Viz
