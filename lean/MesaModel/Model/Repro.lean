/-
Model for property C01 (reproducibility): a generator is a fixed stream of raw draws plus a read position.
Everything stochastic Mesa does is a function of (its arguments, the draws it consumes from the generator
it was handed).  Python sets are lists in an *arbitrary* order (what PYTHONHASHSEED decides).
-/
namespace Mesa.Repro

/-- a seeded generator: `stream` is determined by the seed, `pos` by how many draws were consumed -/
structure Gen where
  stream : Nat → Nat
  pos : Nat

def Gen.seeded (stream : Nat → Nat) : Gen := ⟨stream, 0⟩

/-- `_randbelow(n)` -/
def Gen.below (g : Gen) (n : Nat) : Nat × Gen := (g.stream g.pos % n, { g with pos := g.pos + 1 })

/-- `reset_randomizer()` / `reset_rng()` without argument: back to the remembered initial state -/
def Gen.reset (g : Gen) : Gen := { g with pos := 0 }

/-- `n` successive draws below `k` -/
def Gen.draws (g : Gen) (k : Nat) : Nat → List Nat × Gen
  | 0 => ([], g)
  | n+1 => let (x, g') := g.below k; let (xs, g'') := g'.draws k n; (x :: xs, g'')

/-- CPython `Random.shuffle`: `for i in reversed(range(1, len(x))): j = randbelow(i+1); x[i], x[j] = x[j], x[i]` -/
def shuffleAux {α} : Nat → Array α → Gen → Array α × Gen
  | 0, a, g => (a, g)
  | i+1, a, g =>
    let (j, g') := g.below (i+2)
    shuffleAux i (a.swapIfInBounds (i+1) j) g'

def shuffle {α} (l : List α) (g : Gen) : List α × Gen :=
  let (a, g') := shuffleAux (l.toArray.size - 1) l.toArray g
  (a.toList, g')

/-- `random.choice(sorted(s))` for a Python set `s` given in some iteration order `elems`
    (`select_random_empty_cell` on grids, `move_to_empty`, hex neighbourhood construction) -/
def pickSorted {α} (le : α → α → Bool) (elems : List α) (g : Gen) : Option α × Gen :=
  let s := elems.mergeSort le
  if s.isEmpty then (none, g) else
  let (i, g') := g.below s.length
  (s[i]?, g')

/-- a derived collection (selection, shuffle result, group, neighbourhood, agents of a space): members + the
    generator handle it was given -/
structure Coll (α : Type) where
  members : List α
  genId : Nat

def Coll.select {α} (c : Coll α) (p : α → Bool) : Coll α := ⟨c.members.filter p, c.genId⟩
def Coll.shuffled {α} (c : Coll α) (g : Gen) : Coll α × Gen := let (l, g') := shuffle c.members g; (⟨l, c.genId⟩, g')
def Coll.groups {α} (c : Coll α) (key : α → Nat) (keys : List Nat) : List (Coll α) :=
  keys.map fun k => ⟨c.members.filter (fun a => key a == k), c.genId⟩

end Mesa.Repro
