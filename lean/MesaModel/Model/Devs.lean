/-
Model of mesa/experimental/devs/{eventlist,simulator}.py  (properties C14, C15, C18-devs).

Time is an `Int` in units of 1/1024 (the harness only uses ints and dyadic floats, for
which every `+`, `<`, `<=` the code performs is exact).  The event list is kept as a list
sorted by (time, priority, unique_id) with lazily deleted (cancelled) entries, as the code
does; CPython's `heapq` is abstracted by sorted insertion (trusted: heappop returns the
least element w.r.t. `__lt__`).  Callables are *programs* (lists of commands) named by a
small index; `dead` models a callable whose last strong reference was dropped.  A callable *object* has an identity
(`Ev.fn`): an ordinary scheduling call creates a fresh one (its id = the tag of that first event), `again` schedules a
further event with the SAME callable object (a bound method scheduled again and again); `Sim.fns` is the table of
callables the program still holds strongly; dropping a callable kills every pending event that shares it.
A callable (or the step body) may *raise*: command `raise x` sets `Sim.raised`, which turns the rest of the program into a no-op
and which `runUntil` / `runNext` find set after `exec`: they return at once (the exception propagates out of `event.execute()`,
out of the run method, to the program, which catches it — `caught` — and goes on).  The raising event was popped (consumed), the
clock is its time, everything still on the list stays there; for programs that do not raise all equations are as before.
-/
namespace Mesa.Devs

/-- one model time unit (a tick of the ABM simulator) in protocol units -/
def U : Int := 1024

structure Ev where
  time : Int
  prio : Nat
  id   : Nat          -- SimulationEvent.unique_id (relative order only)
  tag  : Nat          -- harness name of a user event (index of successful user scheduling)
  isStep : Bool       -- the event wraps `model.step`
  cancelled : Bool
  dead : Bool         -- weak reference to the callable is dead
  act  : Nat          -- which program the callable runs
  fn   : Nat          -- identity of the callable object (tag of the first event scheduled with it)
deriving Repr, DecidableEq, Inhabited

/-- `SimulationEvent.__lt__` -/
def Ev.lt (a b : Ev) : Bool :=
  a.time < b.time ||
    (a.time == b.time && (a.prio < b.prio || (a.prio == b.prio && a.id < b.id)))

def Ev.live (e : Ev) : Bool := !e.cancelled

/-- sorted insertion: abstracts `heappush` -/
def insert (e : Ev) : List Ev → List Ev
  | [] => [e]
  | x :: xs => if e.lt x then e :: x :: xs else x :: insert e xs

/-- `EventList.pop_event`: discard leading cancelled events, return the first live one.
    Also returns the ids that were discarded. -/
def popLive : List Ev → Option (Ev × List Ev)
  | [] => none
  | x :: xs => if x.cancelled then popLive xs else some (x, xs)

/-- the cancelled events `pop_event` throws away on its way to the first live one -/
def skipped (l : List Ev) : List Ev := l.takeWhile (·.cancelled)

/-- the exception kinds the harness lets a callable raise (`IndexError` is the one `run_until` itself catches around
    `pop_event`) -/
inductive Exc where | index | value | key
deriving Repr, DecidableEq

inductive Cmd where
  | schedAbs (t : Int) (prio : Nat) (act : Nat)
  | schedRel (d : Int) (prio : Nat) (act : Nat)
  | again (fn : Nat) (d : Int) (prio : Nat)   -- `schedule_event_relative` once more with the SAME callable object `fn`
  | cancel (tag : Nat)
  | drop (fn : Nat)       -- the program drops its last strong reference to the callable object `fn`
  | halt                  -- the program sets `model.running = False` (the simulators never look at it)
  | raise (x : Exc)       -- the callable raises: the commands after it do not run, the run method does not return normally
deriving Repr, DecidableEq

inductive Kind where | abm | devs
deriving Repr, DecidableEq

inductive LogEntry where
  | user (id : Nat) (tag : Nat) (clock : Int)
  | step (id : Nat) (clock : Int)
deriving Repr, DecidableEq

def LogEntry.id : LogEntry → Nat
  | .user i _ _ => i
  | .step i _ => i

def LogEntry.clock : LogEntry → Int
  | .user _ _ c => c
  | .step _ c => c

def LogEntry.isStep : LogEntry → Bool
  | .user _ _ _ => false
  | .step _ _ => true

inductive Err where | past | unit
deriving Repr, DecidableEq

structure Sim where
  kind : Kind
  now : Int
  pending : List Ev
  nextId : Nat
  nextTag : Nat
  steps : Nat                    -- model.steps
  log : List LogEntry            -- executions, oldest first
  gone : List Nat                -- ghost: ids popped without being executed (cancelled or dead)
  prog : Nat → List Cmd          -- what each user callable does
  stepProg : List Cmd            -- what the user's step body does
  fns : List (Nat × Nat)         -- callables the program holds strongly: (callable id, program it runs)
  raised : Option Exc            -- an exception raised by the executing callable, on its way to the caller of the run method

def init (k : Kind) (prog : Nat → List Cmd) (stepProg : List Cmd) : Sim :=
  { kind := k, now := 0, pending := [], nextId := 0, nextTag := 0, steps := 0, log := [], gone := [],
    prog := prog, stepProg := stepProg, fns := [], raised := none }

/-- `check_time_unit` -/
def okUnit (k : Kind) (t : Int) : Bool :=
  match k with
  | .devs => true
  | .abm => t % U == 0

/-- unconditional scheduling of a user event (`_schedule_event` after the checks).  `c = none`: the call is made with a
    fresh callable object (which the program keeps a reference to); `c = some k`: with the callable object `k` again. -/
def pushUser (s : Sim) (t : Int) (p a : Nat) (c : Option Nat := none) : Sim :=
  { s with
    pending := insert { time := t, prio := p, id := s.nextId, tag := s.nextTag, isStep := false,
                        cancelled := false, dead := false, act := a, fn := c.getD s.nextTag } s.pending
    nextId := s.nextId + 1
    nextTag := s.nextTag + 1
    fns := match c with
      | none => (s.nextTag, a) :: s.fns
      | some _ => s.fns }

/-- `schedule_event_next_tick(self.model.step, priority=HIGH)` -/
def pushStep (s : Sim) : Sim :=
  { s with
    pending := insert { time := s.now + U, prio := 1, id := s.nextId, tag := 0, isStep := true,
                        cancelled := false, dead := false, act := 0, fn := 0 } s.pending
    nextId := s.nextId + 1 }

/-- `schedule_event_absolute` -/
def schedAbs (s : Sim) (t : Int) (p a : Nat) (c : Option Nat := none) : Except Err Sim :=
  if t < s.now then .error .past
  else if !okUnit s.kind t then .error .unit
  else .ok (pushUser s t p a c)

/-- `schedule_event_relative` (with the negative-delta check of the D3 repair);
    `schedule_event_now` is `d = 0`, `schedule_event_next_tick` is `d = U`. -/
def schedRel (s : Sim) (d : Int) (p a : Nat) (c : Option Nat := none) : Except Err Sim :=
  if d < 0 then .error .past
  else if !okUnit s.kind (s.now + d) then .error .unit
  else .ok (pushUser s (s.now + d) p a c)

/-- the program calls `schedule_event_relative` once more with the callable object `k` it still holds
    (`none`: it holds no such callable — nothing is called) -/
def again (s : Sim) (k : Nat) (d : Int) (p : Nat) : Option (Except Err Sim) :=
  match s.fns.lookup k with
  | none => none
  | some a => some (schedRel s d p a (some k))

def cancelTag (s : Sim) (k : Nat) : Sim :=
  { s with pending := s.pending.map fun e =>
      if !e.isStep && e.tag == k then { e with cancelled := true } else e }

/-- the program drops its last strong reference to the callable object `k`: the weak reference of EVERY pending event
    scheduled with it is dead from now on, and the program cannot schedule it again -/
def dropFn (s : Sim) (k : Nat) : Sim :=
  { s with
    pending := s.pending.map fun e =>
      if !e.isStep && e.fn == k then { e with dead := true } else e
    fns := s.fns.filter fun x => x.1 != k }

/-- a command issued by the program; a rejected scheduling call is caught by the caller
    and leaves the simulator as it was -/
def doCmd1 (s : Sim) : Cmd → Sim
  | .schedAbs t p a => match schedAbs s t p a with | .ok s' => s' | .error _ => s
  | .schedRel d p a => match schedRel s d p a with | .ok s' => s' | .error _ => s
  | .again k d p => match again s k d p with | some (.ok s') => s' | _ => s
  | .cancel k => cancelTag s k
  | .drop k => dropFn s k
  | .halt => s
  | .raise x => { s with raised := some x }

/-- once the program has raised, the rest of it does not run -/
def doCmd (s : Sim) (c : Cmd) : Sim := if s.raised.isSome then s else doCmd1 s c

/-- the program catches the exception that came out of a run call, and goes on -/
def caught (s : Sim) : Sim := { s with raised := none }

/-- ABM simulator: keep `model.step` scheduled for the next tick; DEVS: nothing -/
def rearm (s : Sim) : Sim :=
  match s.kind with
  | .abm => pushStep s
  | .devs => s

/-- execution of a popped live event `e`; the clock has already been set to `e.time`.
    For the ABM simulator the step event is re-scheduled *before* it is executed. -/
def exec (s : Sim) (e : Ev) : Sim :=
  if e.dead then { s with gone := s.gone ++ [e.id] }
  else if e.isStep then
    s.stepProg.foldl doCmd { rearm s with steps := s.steps + 1, log := s.log ++ [.step e.id s.now] }
  else
    (s.prog e.act).foldl doCmd { s with log := s.log ++ [.user e.id e.tag s.now] }

/-- `run_until` with explicit fuel (`none` = fuel exhausted, the program does not terminate).  An exception raised by the
    executed event ends the run on the spot: clock at that event's time, the event consumed, nothing pushed back. -/
def runUntil : Nat → Sim → Int → Option Sim
  | 0, _, _ => none
  | f+1, s, T =>
    match popLive s.pending with
    | none => some { s with now := T, pending := [], gone := s.gone ++ (skipped s.pending).map (·.id) }
    | some (e, rest) =>
      let g := s.gone ++ (skipped s.pending).map (·.id)
      if e.time ≤ T then
        let s' := exec { s with now := e.time, pending := rest, gone := g } e
        if s'.raised.isSome then some s' else runUntil f s' T
      else some { s with now := T, pending := insert e rest, gone := g }

/-- `run_next_event` (ABM: with the re-scheduling of the D6 repair, which is in `exec`); an exception of the executed event
    is left in `raised` for the caller -/
def runNext (s : Sim) : Sim :=
  match popLive s.pending with
  | none => { s with pending := [], gone := s.gone ++ (skipped s.pending).map (·.id) }
  | some (e, rest) =>
    exec { s with now := e.time, pending := rest, gone := s.gone ++ (skipped s.pending).map (·.id) } e

/-- `run_for` -/
def runFor (f : Nat) (s : Sim) (d : Int) : Option Sim := runUntil f s (s.now + d)

/-- `ABMSimulator.setup` / `DEVSimulator.setup` -/
def setup (s : Sim) : Sim := rearm s

/-- `peak_ahead n` (with the D1 repair: execution order) -/
def peek (s : Sim) (n : Nat) : List Ev := (s.pending.filter Ev.live).take n

end Mesa.Devs
