import MesaModel.Model.StepCounter
/-
How the name `step` is bound on a model instance (mesa/model.py, property C05) — the mechanism the counter rests on:

    Model.__init__:   self._user_step = self.step          # attribute lookup: instance __dict__, then the class MRO
                      self.step = self._wrapped_step       # instance attribute, shadows the class from now on
    _wrapped_step:    self.steps += 1; self._user_step(*args, **kwargs)

`step` on the class is a plain function (a non-data descriptor), so an entry `step` in the instance `__dict__` wins the
lookup `model.step`; without one the class's `step` is found (the most derived definition along the MRO, `Model.step` last)
and called as a bound method — *without* the wrapper.  An object is therefore: the counter state, the `__dict__` entry
`step` (the wrapper, a function the program put there, or nothing) and `_user_step` (what `__init__` captured, or what the
program assigned later).  The program may

  * assign `self.step = f` in a subclass `__init__` *before* `super().__init__()`  (`construct … (some f)`),
  * re-bind `model.step = f` or `del model.step` after construction,
  * assign `model._user_step = f`.

Program functions are plain functions `f_k(*args, **kw)` that record (k, `model.steps` as they see it, their arguments);
those with `k ≥ 50` then raise a `RuntimeError` (user code that fails: the count must stand).
`Model.__init__` runs once per instance (ASSUMPTIONS of the check).
-/
namespace Mesa.Steps

/-- what `_user_step` refers to -/
inductive Target where
  | chain                -- the bound method found on the class along the MRO
  | fn (f : Nat)         -- program function f
deriving Repr, DecidableEq

/-- the entry `step` of the instance `__dict__` -/
inductive Slot where
  | wrapper              -- the bound method `self._wrapped_step`
  | fn (f : Nat)         -- program function f (called without `self`)
deriving Repr, DecidableEq

structure FnCall where
  f : Nat
  steps : Nat            -- `model.steps` as the function sees it
  args : List Int
deriving Repr, DecidableEq

structure Obj where
  inst : Inst
  dictStep : Option Slot
  userStep : Target
  raiser : Option Nat := none    -- the depth of the class level whose step body raises `RuntimeError` (`cutAt`), if any
deriving Repr, DecidableEq

/-- `object.__new__` + whatever the subclass `__init__` does before `super().__init__()`:
    possibly `self.step = f` -/
def Obj.alloc (h : Hier) (stopAt : Nat) (pre : Option Nat) (raiser : Option Nat := none) : Obj :=
  { inst := Inst.new h stopAt, dictStep := pre.map .fn, userStep := .chain, raiser := raiser }

/-- `Model.__init__` (the part C05 is about) -/
def Obj.init (o : Obj) : Obj :=
  { inst := { o.inst with steps := 0, running := true }
    -- `self._user_step = self.step`: the instance `__dict__` entry if there is one, else the class's step
    userStep := (match o.dictStep with | some (.fn f) => .fn f | _ => .chain)
    -- `self.step = self._wrapped_step`
    dictStep := some .wrapper
    raiser := o.raiser }

def Obj.construct (h : Hier) (stopAt : Nat) (pre : Option Nat) (raiser : Option Nat := none) : Obj :=
  (Obj.alloc h stopAt pre raiser).init

structure BResult where
  obj : Obj
  entries : List Entry       -- records of the class's step bodies
  fns : List FnCall          -- records of program functions
  ok : Bool                  -- false = an exception left the call (TypeError of the class chain, or a failing function)
deriving Repr, DecidableEq

/-- program functions numbered 50 and up raise (after making their record) -/
def raisesFn (f : Nat) : Bool := decide (50 ≤ f)

/-- the stop rule of the harness bodies: every body execution counts -/
def tick (i : Inst) (k : Nat) : Inst :=
  { i with execs := i.execs + k, running := i.running && !(k != 0 && decide (i.stopAt ≤ i.execs + k)) }

/-- `model.step(*args)`: look `step` up, call what is found -/
def Obj.call (o : Obj) (args : List Int) : BResult :=
  match o.dictStep with
  | some .wrapper =>
    -- `_wrapped_step`: `self.steps += 1`, then `self._user_step(*args)`
    match o.userStep with
    | .chain => let r := callStepR o.inst o.raiser args; ⟨{ o with inst := r.1 }, r.2.1, [], r.2.2⟩
    | .fn f => ⟨{ o with inst := { o.inst with steps := o.inst.steps + 1 } }, [], [⟨f, o.inst.steps + 1, args⟩], !raisesFn f⟩
  | some (.fn f) => ⟨o, [], [⟨f, o.inst.steps, args⟩], !raisesFn f⟩
  | none =>
    -- no instance attribute: the class's own `step`, called directly — nothing counts
    let r := cutAt o.raiser (runChain o.inst.hier 0 args o.inst.steps)
    ⟨{ o with inst := tick o.inst r.1.length }, r.1, [], r.2⟩

/-- did the call end in the raising class body (`RuntimeError`, as opposed to the `TypeError` of a signature mismatch)? -/
def BResult.bodyRaised (r : BResult) : Bool :=
  match r.obj.raiser with
  | some d => r.entries.any (·.depth == d)
  | none => false

inductive BOp where
  | call (args : List Int)
  | assign (f : Nat)       -- `model.step = f`
  | del                    -- `del model.step`
  | setUser (f : Nat)      -- `model._user_step = f`
deriving Repr, DecidableEq

/-- does the operation re-bind the name `step` on the instance? -/
def BOp.rebindsStep : BOp → Bool
  | .assign _ | .del => true
  | _ => false

def BOp.isCall : BOp → Bool
  | .call _ => true
  | _ => false

def Obj.apply (o : Obj) : BOp → Obj
  | .call args => (o.call args).obj
  | .assign f => { o with dictStep := some (.fn f) }
  | .del => { o with dictStep := none }       -- (`AttributeError`, nothing changed, if there is no instance attribute)
  | .setUser f => { o with userStep := .fn f }

def Obj.run (o : Obj) (ops : List BOp) : Obj := ops.foldl Obj.apply o

end Mesa.Steps
