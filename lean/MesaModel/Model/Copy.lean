/-
Identity-level model of how a cell space is copied (copy.deepcopy / pickle round trip), property C19.

What matters for "the copy's cells read and write the copy's own layers" is object identity: which
class object a cell has, which descriptor objects are installed on that class, and which layer object
(data array) a descriptor points to.  Values are irrelevant here (they are covered by the two-sided
correspondence of harness/c19.py), so the model tracks identities only.

Follows mesa/discrete_space/grid.py (`Grid.__init__`, `pickle_gridcell`, `unpickle_gridcell`,
`Grid.__setstate__` after the S21/S22 repairs) and property_layer.py (`add_property_layer`,
`remove_property_layer`, `PropertyDescriptor`).
-/
namespace Mesa.Copy

-- identities are plain numbers: ClassId, LayerId (a PropertyLayer object and its data array), SpaceId
local notation "ClassId" => Nat
local notation "LayerId" => Nat
local notation "SpaceId" => Nat

structure CellObj where
  coord : List Int
  klass : ClassId
deriving DecidableEq, Repr

structure SpaceObj where
  cellKlass : ClassId
  cells : List CellObj
  layers : List (String × LayerId)      -- `_mesa_property_layers`: name ↦ layer object
deriving Repr

structure World where
  nextClass : Nat
  nextLayer : Nat
  nextSpace : Nat
  /-- descriptor installed on a class: class → attribute name → layer object -/
  descr : ClassId → String → Option LayerId
  spaces : SpaceId → Option SpaceObj

def World.empty : World := ⟨0, 0, 0, fun _ _ => none, fun _ => none⟩

/-- attribute access on a cell object: the descriptor found on the cell's class -/
def resolve (w : World) (c : CellObj) (name : String) : Option LayerId := w.descr c.klass name

/-- fresh layer objects for a list of names, starting at id `n` -/
def freshLayers : List String → Nat → List (String × LayerId)
  | [], _ => []
  | nm :: rest, n => (nm, n) :: freshLayers rest (n + 1)

/-- install one descriptor per layer on a (new) class -/
def installAll (d : ClassId → String → Option LayerId) (k : ClassId) (ls : List (String × LayerId)) :
    ClassId → String → Option LayerId :=
  fun k' nm => if k' = k then ls.lookup nm else d k' nm

/-- `Grid.__init__`: one dynamically created cell class, all cells instances of it, the built-in `empty`
    layer with its descriptor -/
def newGrid (w : World) (coords : List (List Int)) : World :=
  let k := w.nextClass
  let ls := [("empty", w.nextLayer)]
  let sp : SpaceObj := { cellKlass := k, cells := coords.map (⟨·, k⟩), layers := ls }
  { nextClass := k + 1, nextLayer := w.nextLayer + 1, nextSpace := w.nextSpace + 1,
    descr := installAll w.descr k ls,
    spaces := fun i => if i = w.nextSpace then some sp else w.spaces i }

inductive Err where | exists_ | missing | noSpace
deriving DecidableEq, Repr

/-- `add_property_layer` (rejects a name that already exists; C18) -/
def addLayer (w : World) (sid : SpaceId) (name : String) : Except Err World :=
  match w.spaces sid with
  | none => .error .noSpace
  | some sp =>
    if (sp.layers.lookup name).isSome then .error .exists_
    else
      let l := w.nextLayer
      .ok { w with
            nextLayer := l + 1
            descr := fun k nm => if k = sp.cellKlass ∧ nm = name then some l else w.descr k nm
            spaces := fun i => if i = sid then some { sp with layers := sp.layers ++ [(name, l)] } else w.spaces i }

/-- `remove_property_layer`: forget the layer and delete the descriptor from the class -/
def removeLayer (w : World) (sid : SpaceId) (name : String) : Except Err World :=
  match w.spaces sid with
  | none => .error .noSpace
  | some sp =>
    if (sp.layers.lookup name).isNone then .error .missing
    else
      .ok { w with
            descr := fun k nm => if k = sp.cellKlass ∧ nm = name then none else w.descr k nm
            spaces := fun i => if i = sid then some { sp with layers := sp.layers.filter (·.1 ≠ name) } else w.spaces i }

/-- copy.deepcopy / pickle round trip of a grid.  Layers are copied (fresh layer objects, same names, same
    order); every cell comes back from `unpickle_gridcell` with a class of its own (ids `nextClass`,
    `nextClass+1`, …); `Grid.__setstate__` then takes the class of the first cell as the grid's class,
    re-classes all cells to it and installs one descriptor per copied layer on it. -/
def copiedSpace (w : World) (sp : SpaceObj) : SpaceObj :=
  { cellKlass := w.nextClass
    cells := sp.cells.map fun c => { c with klass := w.nextClass }
    layers := freshLayers (sp.layers.map (·.1)) w.nextLayer }

def copySpace (w : World) (sid : SpaceId) : Except Err World :=
  match w.spaces sid with
  | none => .error .noSpace
  | some sp =>
    .ok { nextClass := w.nextClass + max 1 sp.cells.length
          nextLayer := w.nextLayer + sp.layers.length
          nextSpace := w.nextSpace + 1
          descr := installAll w.descr w.nextClass (copiedSpace w sp).layers
          spaces := fun i => if i = w.nextSpace then some (copiedSpace w sp) else w.spaces i }

inductive Op where
  | newGrid (coords : List (List Int))
  | addLayer (sid : SpaceId) (name : String)
  | removeLayer (sid : SpaceId) (name : String)
  | copy (sid : SpaceId)
deriving Repr

/-- one program step; a rejected call leaves the world as it was -/
def step (w : World) : Op → World
  | .newGrid cs => newGrid w cs
  | .addLayer sid n => match addLayer w sid n with | .ok w' => w' | .error _ => w
  | .removeLayer sid n => match removeLayer w sid n with | .ok w' => w' | .error _ => w
  | .copy sid => match copySpace w sid with | .ok w' => w' | .error _ => w

def run (ops : List Op) : World := ops.foldl step World.empty

end Mesa.Copy
