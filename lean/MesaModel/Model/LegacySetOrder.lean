import MesaModel.Model.Legacy
import MesaModel.Model.LegacyNbhd
/-
Where the legacy grids draw from, or return, a population that comes from a Python *set* (property C01's hash-order clause, for
the legacy group): `move_to_empty` picks with `choice(sorted(self.empties))`, `_HexGrid.get_neighborhood` returns
`tuple(sorted(coordinates))`.  Elsewhere the model keeps such a set in its canonical form (a strictly sorted list).  Here the set
is a list in an *arbitrary* iteration order, exactly where the code has one, and `sorted(...)` is applied where the code applies it.
-/
namespace Mesa.Legacy

/-- `sorted(s)` for a set of coordinates listed in its (hash-dependent) iteration order -/
def sortedOf (l : List Coord) : List Coord := l.foldr sadd []

namespace Grid

/-- the sampling loop of `move_to_empty`, returning the draws that are left as well -/
def pickLoopS (g : Grid) : Script → Option (Coord × Script)
  | x :: y :: rest =>
    let p : Coord := ((x : Int) % g.w, (y : Int) % g.h)
    if g.isCellEmpty p then some (p, rest) else pickLoopS g rest
  | _ => none

/-- the cell `move_to_empty` picks and the generator state afterwards, with `self.empties` a set in iteration order `es`:
    `len(es)` selects the branch; at most `cutoff` empty cells: `choice(sorted(es))` -/
def pickEmpty (g : Grid) (es : List Coord) (s : Script) : Option (Coord × Script) :=
  if es.length > g.cutoff then g.pickLoopS s else choice (sortedOf es) s

end Grid

/-! `_HexGrid.get_neighborhood` with `coordinates` an arbitrary set representation: `ins c v` is `coordinates.add(c)` on the
representation `v` (any function that adds the member — wherever the implementation's hashing puts it) -/

def hexStepW (ins : Coord → List Coord → List Coord) (d : Dim) (more : Bool) (st : List Coord × List Coord) (x : Coord) :
    List Coord × List Coord :=
  let adj := hexFilter d st.2 (hexAdjacent x)
  (if more then st.1 ++ adj else st.1, adj.foldl (fun v c => ins c v) st.2)

def hexLevelsW (ins : Coord → List Coord → List Coord) (d : Dim) : Nat → List Coord → List Coord → List Coord
  | 0, _, v => v
  | r+1, q, v =>
    let st := q.foldl (hexStepW ins d (decide (r > 0))) ([], v)
    hexLevelsW ins d r st.1 st.2

/-- `coordinates.add(pos)` / `coordinates.discard(pos)`, then `tuple(sorted(coordinates))` -/
def hexComputeW (ins : Coord → List Coord → List Coord) (d : Dim) (pos : Coord) (ic : Bool) (r : Nat) : List Coord :=
  let v := hexLevelsW ins d r [pos] []
  sortedOf (if ic then ins pos v else v.filter (fun c => c != pos))

end Mesa.Legacy
