import MesaModel.Gen.LayersTables
/-
Model of the two property-layer implementations of mesa (property C11, C18-layers):

* `mesa/discrete_space/property_layer.py` (`PropertyLayer`, `HasPropertyLayers`, `PropertyDescriptor`),
  the parts of `grid.py` / `cell.py` / `cell_agent.py` that drive the built-in `empty` layer
  (`Grid.__init__`, `Cell.add_agent`, `Cell.remove_agent`, `HasCell.cell` setter);
* `mesa/space.py` (`PropertyLayer`, `_PropertyGrid`, and the `_empty_mask` writes of
  `SingleGrid` / `MultiGrid` `place_agent` / `remove_agent` / `move_agent`).

numpy arrays are objects with identity: the model keeps a small heap `ArrId → Arr` (array ids and layer ids are plain `Nat`s); a layer
*points* to its array.  `set_cells` (`np.copyto`) writes in place, `modify_cells`
(`self.data = np.where(...)`) allocates a new array and re-points the layer, so a reference
to `layer.data` taken earlier (a *handle*) goes stale exactly when the code's does.  A cell
attribute (`PropertyDescriptor`) reads and writes `layer.data[cell.coordinate]` through the
*layer*, so it follows re-pointing.

Every array has an element type (`DType`: numpy `bool_`, `int64`, `float64`) fixed when it is allocated;
its entries are `Int`s in the encoding of that type (bool: 0/1; int: the integer; float: the number
in quarters — the harness uses multiples of 1/4, exact in binary64).  A write of a Python scalar of
another type is cast the way numpy does it (`castTo`: assignment truncates a float into an int array
toward zero and turns anything into its truth value in a bool array; `np.copyto` — `set_cells` — refuses
casts that are not `same_kind`); `modify_cells` allocates an array of the *promoted* type
(`np.where(cond, modified, data)`), so a layer's dtype can change when it is re-pointed, and later
writes are cast by the new type.  Element-wise operations and conditions are arbitrary functions
`Int → Int` / `Int → Bool` on encoded entries (`UOp` gives numpy's own arithmetic / logical ufuncs with
their result types); numpy's broadcasting of a scalar and `np.vectorize` are trusted to apply them
point-wise.

Occupancy is minimal: a list of placed agents with their coordinate — just enough to drive
the emptiness layer / mask the way the code does.
-/
namespace Mesa.Layers

abbrev Coord := List Nat
abbrev Arr := Coord → Int

/-- `new` = `mesa.discrete_space` grids; `single` / `multi` = legacy `SingleGrid` / `MultiGrid` -/
inductive Impl where | new | single | multi
deriving Repr, DecidableEq

/-- all coordinates of an n-dimensional grid in row-major order (`itertools.product`, `np.where`) -/
def cells : List Nat → List Coord
  | [] => [[]]
  | d :: ds => (List.range d).flatMap fun i => (cells ds).map (i :: ·)

/-- a full-length index inside the array's shape -/
def inBounds : List Nat → Coord → Bool
  | [], [] => true
  | d :: ds, i :: c => decide (i < d) && inBounds ds c
  | _, _ => false

/-- `a[c] = v` -/
def Arr.set (a : Arr) (c : Coord) (v : Int) : Arr := fun c' => if c' = c then v else a c'

/-! ### element types, Python scalars and numpy's casts -/

/-- element type of an array: numpy `bool_`, `int64`, `float64` -/
inductive DType where | bool | int | float
deriving Repr, DecidableEq

def DType.rank : DType → Nat
  | .bool => 0
  | .int => 1
  | .float => 2

/-- `np.result_type` on {bool_, int64, float64}, also for an array combined with a Python scalar
    (NEP 50: the scalar is weak but its *kind* counts): the larger of the two -/
def DType.join (a b : DType) : DType := if a.rank ≤ b.rank then b else a

/-- a Python scalar handed to the API: its type and its value in that type's encoding
    (`True` = ⟨bool, 1⟩, `3` = ⟨int, 3⟩, `2.5` = ⟨float, 10⟩) -/
structure Val where
  ty : DType
  raw : Int
deriving Repr, DecidableEq

def boolInt (b : Bool) : Int := if b then 1 else 0

/-- the number an encoded entry stands for, in quarters -/
def quarters (d : DType) (v : Int) : Int :=
  match d with
  | .float => v
  | _ => 4 * v

/-- `arr[idx] = x` on an array of dtype `d` — numpy's assignment cast (`casting="unsafe"`): a float
    is truncated toward zero into an int array, anything becomes its truth value in a bool array,
    bools and ints enter a wider array exactly -/
def castTo (d : DType) (x : Val) : Int :=
  match d with
  | .bool => boolInt (x.raw != 0)
  | .int => match x.ty with
    | .float => x.raw.tdiv 4
    | _ => x.raw
  | .float => match x.ty with
    | .float => x.raw
    | _ => 4 * x.raw

/-- `np.copyto(arr, x)` (`set_cells`) casts with `casting="same_kind"`: bool → int → float only -/
def sameKind (src dst : DType) : Bool := decide (src.rank ≤ dst.rank)

/-- re-encoding of an entry when an array of dtype `d` is copied into one of dtype `d'` -/
def recode (d d' : DType) (v : Int) : Int := if d = d' then v else castTo d' ⟨d, v⟩

/-- a value handed to a single-cell or bulk write: already in the array's own encoding (`raw`: a value
    of the layer's dtype, whatever that is), or a Python scalar that numpy casts on the way in (`py`) -/
inductive WVal where
  | raw (v : Int)
  | py (x : Val)

instance : OfNat WVal n := ⟨.raw n⟩
instance : Coe Int WVal := ⟨.raw⟩

def WVal.resolve (d : DType) : WVal → Int
  | .raw v => v
  | .py x => castTo d x

/-- numpy's binary ufuncs used with `modify_cells(ufunc, value)` / the same operators in a Python function -/
inductive UOp where | add | sub | mul | max | min | land | lor | lxor
deriving Repr, DecidableEq

/-- dtype of `ufunc(array of dtype d, Python scalar of type t)`; `none`: numpy raises `TypeError`
    (boolean subtract).  Arithmetic promotes (on two bools `+`, `*`, max, min are or / and and stay
    bool); the logical ufuncs always give bool. -/
def UOp.result (op : UOp) (d t : DType) : Option DType :=
  match op with
  | .land | .lor | .lxor => some .bool
  | .sub => if d = .bool ∧ t = .bool then none else some (d.join t)
  | _ => some (d.join t)

/-- a number in quarters as an entry of dtype `rd` (exact whenever numpy's result is of that type) -/
def fromQuarters (rd : DType) (q : Int) : Int :=
  match rd with
  | .bool => boolInt (q != 0)
  | .int => q.tdiv 4
  | .float => q

/-- the element-wise function of `ufunc(·, x)` on an array of dtype `d`: from the array's encoding to the
    encoding of the result dtype -/
def UOp.apply (op : UOp) (d : DType) (x : Val) (v : Int) : Int :=
  let q := quarters d v
  let w := quarters x.ty x.raw
  let r : Int := match op with
    | .add => q + w
    | .sub => q - w
    | .mul => (q * w).tdiv 4
    | .max => Max.max q w
    | .min => Min.min q w
    | .land => 4 * boolInt (q != 0 && w != 0)
    | .lor => 4 * boolInt (q != 0 || w != 0)
    | .lxor => 4 * boolInt ((q != 0) != (w != 0))
  fromQuarters ((op.result d x.ty).getD .bool) r

/-- a `PropertyLayer` object -/
structure Layer where
  name : String
  dims : List Nat
  data : Nat

inductive Why where | dims | exists | clash | ufunc | mode | empty | radius | size0
deriving Repr, DecidableEq

inductive Err where
  | value (w : Why)    -- ValueError
  | key                -- KeyError
  | attr               -- AttributeError
  | index              -- IndexError / cell lookup outside the grid / point out of bounds
  | type               -- TypeError: numpy refuses the cast (`np.copyto`, same_kind) or the operation (bool - bool)
  | full               -- target cell full (protocol precondition for moves, see harness)
  | placed | notPlaced -- protocol preconditions of the minimal occupancy model
  | noLayer | noHandle | noMask | impl   -- protocol errors: unknown id / op of the other implementation
  | shadowed           -- `grid.<name>` is an attribute the user gave the grid object itself, not a layer
deriving Repr, DecidableEq

inductive Out where
  | ok
  | id (n : Nat)
  | val (v : Int)
  | arr (vs : List Int)
  | sel (list : List Coord) (mask : List Bool)
  | emp (view : Option (List Int)) (actual : List Bool)
  | dt (d : DType)
  | err (e : Err)
deriving Repr, DecidableEq

/-- every attribute of `Cell` / the dynamic `GridCell` class: `add_property_layer` refuses these names
    (`hasattr(self.cell_klass, layer.name)`).  The list is not written by hand: it is the union of the names
    the *source* gives the class (`Gen/LayersTables.lean`, extracted from `cell.py` / `grid.py` on every check:
    `Cell.__slots__`, its methods, properties and class attributes, the dict of the dynamic `GridCell` class)
    and of what Python gives any class; `Props/C11.lean` proves it equal to `dir(grid.cell_klass)` of the
    running code. -/
def reservedNames : List String :=
  Gen.cellSlots ++ Gen.cellMethods ++ Gen.cellProperties ++ Gen.cellClassAttrs ++ Gen.gridCellDict ++
    Gen.pythonImplied

structure State where
  impl : Impl
  dims : List Nat
  /-- `new` only: cell capacity; `none` = unbounded (`capacity=None`).  A capacity of 0 is a capacity (repair SC3:
      `capacity is not None and n >= capacity`): such a cell takes nobody. -/
  cap : Option Nat
  heap : Nat → Arr
  /-- element type of every array; fixed at allocation (numpy arrays never change their dtype) -/
  adt : Nat → DType
  next : Nat
  layers : Nat → Layer
  nLayers : Nat
  /-- the grid's `_mesa_property_layers` / `properties` dict: name ↦ layer object -/
  attached : List (String × Nat)
  /-- `new` only: the `PropertyDescriptor`s on the grid's cell class (`setattr(self.cell_klass, name,
      PropertyDescriptor(layer))` / `delattr`): name ↦ the layer object the descriptor holds.  A registry of its own,
      written by separate statements of `add_property_layer` / `remove_property_layer`; the cell attribute goes through
      it, `grid.<name>` and `select_cells` through the dict (`C11_descriptors_are_the_layer_dict`: they never differ).
      (`cell_klass._mesa_properties`, the third registry, is only read by pickling: C19.) -/
  descr : List (String × Nat)
  /-- references to `layer.data` held by the user: handle ↦ (array, its shape) -/
  handles : List (Nat × (Nat × List Nat))
  /-- placed agents (insertion order) -/
  agents : List (Nat × Coord)
  /-- `new` only: instance-dict attributes of cells (written when no descriptor of that name exists) -/
  inst : List ((String × Coord) × Int)
  /-- masks returned by earlier mask-form selections and kept by the user -/
  masks : List (Nat × (Coord → Bool))
  /-- `new` only: names the user assigned on the grid object (`grid.<name> = x`: accepted only while no layer of
      that name is attached); such an instance attribute is found before `HasPropertyLayers.__getattr__` is asked -/
  gattrs : List String

def upd {α : Type} (f : Nat → α) (i : Nat) (x : α) : Nat → α := fun j => if j = i then x else f j

/-- Array 0 is the emptiness array in both implementations: the data of the built-in `empty`
    layer (`Grid.__init__`: `create_property_layer("empty", True, bool)`) resp. `_empty_mask`. -/
def init (impl : Impl) (dims : List Nat) (cap : Option Nat) : State :=
  { impl, dims, cap,
    heap := fun _ _ => 1, adt := fun _ => .bool, next := 1,
    layers := fun _ => ⟨"empty", dims, 0⟩,
    nLayers := if impl = .new then 1 else 0,
    attached := if impl = .new then [("empty", 0)] else [],
    descr := if impl = .new then [("empty", 0)] else [],
    handles := [], agents := [], inst := [], masks := [], gattrs := [] }

def State.layer? (s : State) (lid : Nat) : Option Layer :=
  if lid < s.nLayers then some (s.layers lid) else none

def State.named? (s : State) (name : String) : Option Nat := s.attached.lookup name

/-- the layer a cell attribute goes to: the descriptor's (new) / the `properties` entry (legacy) -/
def State.cellLayer? (s : State) (name : String) : Option Nat :=
  if s.impl = .new then s.descr.lookup name else s.attached.lookup name

/-- `setattr(cell_klass, name, PropertyDescriptor(layer))`: a class attribute is (re)bound -/
def setDescr (d : List (String × Nat)) (name : String) (lid : Nat) : List (String × Nat) :=
  (name, lid) :: d.filter (·.1 ≠ name)

/-- the dtype of the array layer `lid` currently points to (`layer.data.dtype`) -/
def State.dtypeOf (s : State) (lid : Nat) : DType := s.adt (s.layers lid).data

/-- the current array of the layer attached under `name` -/
def State.namedArr? (s : State) (name : String) : Option Arr :=
  (s.named? name).map fun l => s.heap (s.layers l).data

/-! ### creating, attaching, detaching layers -/

/-- `add_property_layer`: the checks, in the order of the code (`hasattr(self.cell_klass, name)`: an attribute of the
    cell class itself — a `PropertyDescriptor` left on the class would *not* count: read on the class it raises
    `AttributeError`, which `hasattr` takes for absence) -/
def attachCheck (s : State) (l : Layer) : Option Why :=
  match s.impl with
  | .new =>
    if l.dims ≠ s.dims then some .dims
    else if (s.named? l.name).isSome then some .exists
    else if l.name ∈ reservedNames then some .clash
    else none
  | _ =>
    if (s.named? l.name).isSome then some .exists
    else if l.dims ≠ s.dims then some .dims
    else none

/-- `PropertyLayer(name, dims, default, dtype)`: a fresh array of that dtype filled with the default
    (`np.full(dims, default, dtype)`; `default` here is the entry stored — `step` casts a Python scalar of
    another type like an assignment does, the constructor only warns about it) -/
def newLayer (s : State) (name : String) (dims : List Nat) (dt : DType) (default : Int) : State × Out :=
  if s.impl ≠ .new ∧ (dims.length ≠ 2 ∨ 0 ∈ dims) then (s, .err (.value .dims)) else
  ({ s with heap := upd s.heap s.next (fun _ => default), adt := upd s.adt s.next dt, next := s.next + 1,
            layers := upd s.layers s.nLayers ⟨name, dims, s.next⟩, nLayers := s.nLayers + 1 },
   .id s.nLayers)

/-- `add_property_layer(layer)` -/
def attach (s : State) (lid : Nat) : State × Out :=
  match s.layer? lid with
  | none => (s, .err .noLayer)
  | some l =>
    match attachCheck s l with
    | some w => (s, .err (.value w))
    | none => ({ s with attached := s.attached ++ [(l.name, lid)],
                        descr := if s.impl = .new then setDescr s.descr l.name lid else s.descr }, .ok)

/-- `create_property_layer(name, default, dtype)` (legacy: construct with the grid's shape, then add);
    a rejected call leaves no reachable object behind -/
def create (s : State) (name : String) (dt : DType) (default : Int) : State × Out :=
  match attachCheck s ⟨name, s.dims, s.next⟩ with
  | some w => (s, .err (.value w))
  | none =>
    ({ s with heap := upd s.heap s.next (fun _ => default), adt := upd s.adt s.next dt, next := s.next + 1,
              layers := upd s.layers s.nLayers ⟨name, s.dims, s.next⟩, nLayers := s.nLayers + 1,
              attached := s.attached ++ [(name, s.nLayers)],
              descr := if s.impl = .new then setDescr s.descr name s.nLayers else s.descr },
     .id s.nLayers)

/-- `remove_property_layer(name)`: `KeyError` (new) / `ValueError` (legacy) if absent; then the dict entry and (new) the
    descriptor go (`delattr` would raise if the descriptor were missing: `C11_descriptors_are_the_layer_dict` — it never is) -/
def detach (s : State) (name : String) : State × Out :=
  match s.named? name with
  | none => (s, .err (if s.impl = .new then .key else .value .exists))
  | some _ => ({ s with attached := s.attached.filter (·.1 ≠ name), descr := s.descr.filter (·.1 ≠ name) }, .ok)

/-! ### single-cell reads and writes through the two views -/

/-- `layer.data[c] = v` / legacy `layer.set_cell(c, v)` -/
def layerSet (s : State) (lid : Nat) (c : Coord) (v : Int) : State × Out :=
  match s.layer? lid with
  | none => (s, .err .noLayer)
  | some l =>
    if !inBounds l.dims c then (s, .err .index) else
    ({ s with heap := upd s.heap l.data ((s.heap l.data).set c v) }, .ok)

/-- `layer.data[c]` -/
def layerGet (s : State) (lid : Nat) (c : Coord) : Out :=
  match s.layer? lid with
  | none => .err .noLayer
  | some l => if !inBounds l.dims c then .err .index else .val (s.heap l.data c)

/-- the write performed by `setattr(cell, name, v)` for a cell of the grid (`new`):
    through the descriptor of that name on the cell class if there is one (`descriptor.layer.data[coordinate] = v`),
    else into the instance dict -/
def cellAttrWrite (s : State) (name : String) (c : Coord) (v : Int) : State :=
  match s.descr.lookup name with
  | some lid =>
    let l := s.layers lid
    { s with heap := upd s.heap l.data ((s.heap l.data).set c v) }
  | none => { s with inst := ((name, c), v) :: s.inst.filter (·.1 ≠ (name, c)) }

/-- `grid[c].<name> = v` (new)  /  `grid.properties[name].set_cell(c, v)` (legacy) -/
def cellSet (s : State) (name : String) (c : Coord) (v : Int) : State × Out :=
  match s.impl with
  | .new =>
    if !inBounds s.dims c then (s, .err .index)
    else if name ∈ reservedNames then (s, .err .attr)
    else (cellAttrWrite s name c v, .ok)
  | _ =>
    match s.named? name with
    | none => (s, .err .key)
    | some lid =>
      let l := s.layers lid
      if !inBounds l.dims c then (s, .err .index) else
      ({ s with heap := upd s.heap l.data ((s.heap l.data).set c v) }, .ok)

/-- `grid[c].<name>` (new)  /  `grid.properties[name].data[c]` (legacy) -/
def cellGet (s : State) (name : String) (c : Coord) : Out :=
  match s.impl with
  | .new =>
    if !inBounds s.dims c then .err .index
    else if name ∈ reservedNames then .err .attr
    else match s.descr.lookup name with
      | some lid => .val (s.heap (s.layers lid).data c)
      | none => match s.inst.lookup (name, c) with
        | some v => .val v
        | none => .err .attr
  | _ =>
    match s.named? name with
    | none => .err .key
    | some lid =>
      let l := s.layers lid
      if !inBounds l.dims c then .err .index else .val (s.heap l.data c)

/-! ### the same layer object on a second grid -/

/-- `g2 = OrthogonalMooreGrid(layer.dimensions); g2.add_property_layer(layer)`: a second grid of the layer's
    shape (no grid has a zero dimension: `ValueError`, a free-standing layer may) takes the layer exactly when the
    first would — not under the name of its own built-in `empty` layer, not under a name of the cell class — and
    its cells then have the attribute too.  `c` is one of its cells. -/
def otherGridCheck (s : State) (lid : Nat) (c : Coord) : Except Err Layer :=
  if s.impl ≠ .new then .error .impl else
  match s.layer? lid with
  | none => .error .noLayer
  | some l =>
    if 0 ∈ l.dims then .error (.value .dims)
    else if l.name = "empty" then .error (.value .exists)
    else if l.name ∈ reservedNames then .error (.value .clash)
    else if !inBounds l.dims c then .error .index
    else .ok l

/-- `g2[c].<layer.name>` on such a second grid: its descriptor reads the one array the layer points to -/
def cellGet2 (s : State) (lid : Nat) (c : Coord) : Out :=
  match otherGridCheck s lid c with
  | .error e => .err e
  | .ok l => .val (s.heap l.data c)

/-- `g2[c].<layer.name> = v` on such a second grid: a write into the layer's array (cast by its dtype) -/
def cellSet2 (s : State) (lid : Nat) (c : Coord) (w : WVal) : State × Out :=
  match otherGridCheck s lid c with
  | .error e => (s, .err e)
  | .ok _ => layerSet s lid c (w.resolve (s.dtypeOf lid))

/-! ### bulk operations -/

def condHolds (cond : Option (Int → Bool)) (x : Int) : Bool :=
  match cond with
  | none => true
  | some p => p x

/-- has layer `lid` an array without entries?  Only a free-standing `PropertyLayer` of the new implementation can
    (`np.full((0, 2), …)` is accepted; grids and legacy layers refuse a zero dimension). -/
def State.noEntries (s : State) (lid : Nat) : Bool :=
  match s.layer? lid with
  | some l => (cells l.dims).isEmpty
  | none => false

/-- `np.vectorize(g)(layer.data)` — how `set_cells` / `modify_cells` evaluate a condition and how `modify_cells`
    applies a Python function — refuses an array without entries (`ValueError: cannot call vectorize on size 0
    inputs`) before anything is written; `vectorizes` says whether the call gets that far (it has a condition, or
    its operation is a Python function and not a ufunc) -/
def vecGuard (s : State) (lid : Nat) (vectorizes : Bool) (k : State × Out) : State × Out :=
  if vectorizes && s.noEntries lid then (s, .err (.value .size0)) else k

/-- `set_cells(value, condition)`: `np.copyto(data, value[, where=cond(data)])` — in place -/
def setCells (s : State) (lid : Nat) (v : Int) (cond : Option (Int → Bool)) : State × Out :=
  match s.layer? lid with
  | none => (s, .err .noLayer)
  | some l =>
    let a := s.heap l.data
    ({ s with heap := upd s.heap l.data (fun c => if condHolds cond (a c) then v else a c) }, .ok)

/-- `modify_cells(operation, value, condition)`: `self.data = np.where(cond(data), op(data), data)` —
    a new array; the layer is re-pointed.  `f = none`: a ufunc without its second operand (`ValueError`). -/
def modifyCells (s : State) (lid : Nat) (f : Option (Int → Int)) (cond : Option (Int → Bool)) :
    State × Out :=
  match s.layer? lid with
  | none => (s, .err .noLayer)
  | some l =>
    match f with
    | none => (s, .err (.value .ufunc))
    | some f =>
      let a := s.heap l.data
      ({ s with heap := upd s.heap s.next (fun c => if condHolds cond (a c) then f (a c) else a c),
                adt := upd s.adt s.next (s.adt l.data),
                next := s.next + 1,
                layers := upd s.layers lid { l with data := s.next } }, .ok)

/-- `set_cells(x, condition)` with a Python scalar of any type: `np.copyto` refuses (`TypeError`, nothing
    written) a cast that is not `same_kind`; otherwise the value enters exactly -/
def setCellsV (s : State) (lid : Nat) (x : Val) (cond : Option (Int → Bool)) : State × Out :=
  match s.layer? lid with
  | none => (s, .err .noLayer)
  | some l =>
    if !sameKind x.ty (s.adt l.data) then (s, .err .type)
    else setCells s lid (castTo (s.adt l.data) x) cond

/-- `set_cells(arr, condition)` / `grid.set_property(name, arr, condition)` / `layer.data = arr` with an *array*
    value the user holds, of the layer's shape (another shape is a protocol error here: numpy would broadcast
    or raise): `np.copyto(data, arr[, where=cond(data)])` — in place, point-wise `arr[c]` where the old entry
    satisfies the condition (evaluated by `np.vectorize` first: `ValueError` on a layer without entries); the
    array's dtype must be `same_kind`-castable (`TypeError` otherwise) -/
def setFrom (s : State) (lid : Nat) (h : Nat) (cond : Option (Int → Bool)) : State × Out :=
  match s.layer? lid with
  | none => (s, .err .noLayer)
  | some l =>
    match s.handles.lookup h with
    | none => (s, .err .noHandle)
    | some (a, dims) =>
      if dims ≠ l.dims then (s, .err (.value .dims))
      else if cond.isSome && (cells l.dims).isEmpty then (s, .err (.value .size0))
      else if !sameKind (s.adt a) (s.adt l.data) then (s, .err .type)
      else
        let src := s.heap a
        let old := s.heap l.data
        ({ s with heap := upd s.heap l.data (fun c =>
              if condHolds cond (old c) then recode (s.adt a) (s.adt l.data) (src c) else old c) }, .ok)

/-- `modify_cells` whose operation yields entries of dtype `rd` (`f` maps an entry of the layer to an entry
    in `rd`'s encoding): `self.data = np.where(cond, modified, data)` is an array of the promoted dtype
    `join d rd`, into which both branches are re-encoded — exactly, promotion never loses a value -/
def modifyCellsT (s : State) (lid : Nat) (f : Option (Int → Int)) (cond : Option (Int → Bool)) (rd : DType) :
    State × Out :=
  match s.layer? lid with
  | none => (s, .err .noLayer)
  | some l =>
    match f with
    | none => (s, .err (.value .ufunc))
    | some f =>
      let a := s.heap l.data
      let d := s.adt l.data
      ({ s with heap := upd s.heap s.next (fun c => if condHolds cond (a c) then recode rd (d.join rd) (f (a c))
                                                    else recode d (d.join rd) (a c)),
                adt := upd s.adt s.next (d.join rd),
                next := s.next + 1,
                layers := upd s.layers lid { l with data := s.next } }, .ok)

/-- `modify_cells(np.add | … , x, condition)` (or the same operator in a Python function) with a Python
    scalar of any type: numpy's result type decides the dtype of the new array -/
def modifyU (s : State) (lid : Nat) (op : UOp) (x : Val) (cond : Option (Int → Bool)) : State × Out :=
  match s.layer? lid with
  | none => (s, .err .noLayer)
  | some l =>
    match op.result (s.adt l.data) x.ty with
    | none => (s, .err .type)
    | some rd => modifyCellsT s lid (some (op.apply (s.adt l.data) x)) cond rd

/-- legacy `modify_cell(position, operation, value)` — in place -/
def modifyCell (s : State) (lid : Nat) (c : Coord) (f : Option (Int → Int)) : State × Out :=
  if s.impl = .new then (s, .err .impl) else
  match s.layer? lid with
  | none => (s, .err .noLayer)
  | some l =>
    if !inBounds l.dims c then (s, .err .index) else
    match f with
    | none => (s, .err (.value .ufunc))
    | some f =>
      let a := s.heap l.data
      ({ s with heap := upd s.heap l.data (a.set c (f (a c))) }, .ok)

/-- legacy `modify_cell(position, ufunc | Python function, x)` with a Python scalar of any type:
    `self.data[position] = operation(current, x)` — numpy's result for the two scalars, then the assignment
    cast back into the array (an int layer keeps only the integer part of `3 + 0.5`, where `modify_cells`
    would have promoted the whole layer) -/
def modifyCellU (s : State) (lid : Nat) (c : Coord) (op : UOp) (x : Val) : State × Out :=
  if s.impl = .new then (s, .err .impl) else
  match s.layer? lid with
  | none => (s, .err .noLayer)
  | some l =>
    if !inBounds l.dims c then (s, .err .index) else
    match op.result (s.adt l.data) x.ty with
    | none => (s, .err .type)
    | some rd => modifyCell s lid c (some fun v => castTo (s.adt l.data) ⟨rd, op.apply (s.adt l.data) x v⟩)

/-! ### user-held array references -/

/-- `h = layer.data` -/
def grab (s : State) (h : Nat) (lid : Nat) : State × Out :=
  match s.layer? lid with
  | none => (s, .err .noLayer)
  | some l => ({ s with handles := (h, (l.data, l.dims)) :: s.handles }, .ok)

/-- legacy `h = grid.empty_mask`: the property hands out the live `_empty_mask` array (array 0), not a copy — the
    counterpart of `grab h 0` (`grid.empty.data`) on a cell space -/
def grabMask (s : State) (h : Nat) : State × Out :=
  if s.impl = .new then (s, .err .impl) else ({ s with handles := (h, (0, s.dims)) :: s.handles }, .ok)

/-- `PropertyLayer.from_data(name, arr)` (new implementation) for an array the user holds: a layer object
    of the array's shape and dtype (`__init__` with `default_value = arr[0, …, 0]`, `IndexError` for an empty
    array) holding a *copy* of it (`set_cells(arr)`): the layer never aliases the source -/
def fromData (s : State) (name : String) (h : Nat) : State × Out :=
  if s.impl ≠ .new then (s, .err .impl) else
  match s.handles.lookup h with
  | none => (s, .err .noHandle)
  | some (a, dims) =>
    if 0 ∈ dims then (s, .err .index) else
    ({ s with heap := upd s.heap s.next (s.heap a), adt := upd s.adt s.next (s.adt a), next := s.next + 1,
              layers := upd s.layers s.nLayers ⟨name, dims, s.next⟩, nLayers := s.nLayers + 1 },
     .id s.nLayers)

def hget (s : State) (h : Nat) (c : Coord) : Out :=
  match s.handles.lookup h with
  | none => .err .noHandle
  | some (a, dims) => if !inBounds dims c then .err .index else .val (s.heap a c)

def hset (s : State) (h : Nat) (c : Coord) (v : Int) : State × Out :=
  match s.handles.lookup h with
  | none => (s, .err .noHandle)
  | some (a, dims) =>
    if !inBounds dims c then (s, .err .index) else
    ({ s with heap := upd s.heap a ((s.heap a).set c v) }, .ok)

def hdump (s : State) (h : Nat) : Out :=
  match s.handles.lookup h with
  | none => .err .noHandle
  | some (a, dims) => .arr ((cells dims).map (s.heap a))

/-! ### whole-layer reads -/

def dump (s : State) (lid : Nat) : Out :=
  match s.layer? lid with
  | none => .err .noLayer
  | some l => .arr ((cells l.dims).map (s.heap l.data))

/-- `grid.<name> = x` for a plain object `x` (`HasPropertyLayers.__setattr__`): `AttributeError` while a layer is
    attached under that name, otherwise an ordinary instance attribute of the grid (the code's own note: the
    protection only works if the attribute comes after the layer) -/
def gridSet (s : State) (name : String) : State × Out :=
  if s.impl ≠ .new then (s, .err .impl)
  else if (s.named? name).isSome then (s, .err .attr)
  else ({ s with gattrs := name :: s.gattrs }, .ok)

/-- `grid.<name>.data` (new: the instance attribute if the user made one, else `__getattr__` = the attached layer)  /
    `grid.properties[name].data` (legacy) -/
def dumpName (s : State) (name : String) : Out :=
  if s.impl = .new ∧ name ∈ s.gattrs then .err .shadowed else
  match s.named? name with
  | none => .err (if s.impl = .new then .attr else .key)
  | some lid => let l := s.layers lid; .arr ((cells l.dims).map (s.heap l.data))

/-- `layer.select_cells(condition, return_list)`: both forms -/
def layerSelect (s : State) (lid : Nat) (p : Int → Bool) : Out :=
  match s.layer? lid with
  | none => .err .noLayer
  | some l =>
    let m := fun c => p (s.heap l.data c)
    .sel ((cells l.dims).filter m) ((cells l.dims).map m)

/-- `layer.data.dtype` -/
def dtypeRead (s : State) (lid : Nat) : Out :=
  match s.layer? lid with
  | none => .err .noLayer
  | some l => .dt (s.adt l.data)

inductive Agg where | sum | max | min
deriving Repr, DecidableEq

/-- maximum (`hi`) or minimum of a list; `none` for the empty list -/
def extremum (hi : Bool) : List Int → Option Int
  | [] => none
  | x :: xs =>
    match extremum hi xs with
    | none => some x
    | some y => some (if hi then (if x < y then y else x) else (if y < x then y else x))

/-- `layer.aggregate(np.sum | np.max | np.min)` -/
def aggregate (s : State) (lid : Nat) (k : Agg) : Out :=
  match s.layer? lid with
  | none => .err .noLayer
  | some l =>
    let vs := (cells l.dims).map (s.heap l.data)
    match k with
    | .sum => .val (vs.foldl (· + ·) 0)
    | .max => match extremum true vs with | some v => .val v | none => .err (.value .empty)
    | .min => match extremum false vs with | some v => .val v | none => .err (.value .empty)

/-! ### minimal occupancy and the emptiness layer / mask -/

def State.isEmptyCell (s : State) (c : Coord) : Bool := s.agents.all (·.2 ≠ c)

/-- number of agents other than `a` in cell `c` -/
def State.others (s : State) (a : Nat) (c : Coord) : Nat :=
  (s.agents.filter fun p => p.2 = c ∧ p.1 ≠ a).length

/-- would `a` be refused by cell `c`?  (`SingleGrid`: occupied; `Cell.add_agent`: `capacity is not None and n >= capacity`) -/
def State.fullFor (s : State) (a : Nat) (c : Coord) : Bool :=
  match s.impl with
  | .single => s.others a c ≥ 1
  | .multi => false
  | .new => match s.cap with
    | none => false
    | some k => decide (s.others a c ≥ k)

/-- the emptiness write done by the code: `cell.empty = v` (new, an ordinary attribute write on the
    cell) / `self._empty_mask[pos] = v` (legacy, array 0, in place) -/
def writeEmpty (s : State) (c : Coord) (v : Int) : State :=
  match s.impl with
  | .new => cellAttrWrite s "empty" c v
  | _ => { s with heap := upd s.heap 0 ((s.heap 0).set c v) }

/-- the part of `remove_agent` that concerns emptiness, after the agent left cell `c`:
    new: `self.empty = self.is_empty`; SingleGrid: `mask[pos] = True`;
    MultiGrid: `if is_cell_empty(pos): mask[pos] = True` -/
def afterLeave (s : State) (c : Coord) : State :=
  match s.impl with
  | .new => writeEmpty s c (boolInt (s.isEmptyCell c))
  | .single => writeEmpty s c 1
  | .multi => if s.isEmptyCell c then writeEmpty s c 1 else s

/-- place an unplaced agent: `agent.cell = grid[c]` / `grid.place_agent(agent, c)` -/
def place (s : State) (a : Nat) (c : Coord) : State × Out :=
  if (s.agents.lookup a).isSome then (s, .err .placed)
  else if !inBounds s.dims c then (s, .err .index)
  else if s.fullFor a c then (s, .err .full)
  else (writeEmpty { s with agents := s.agents ++ [(a, c)] } c 0, .ok)

/-- `agent.cell = None` / `grid.remove_agent(agent)` -/
def remove (s : State) (a : Nat) : State × Out :=
  match s.agents.lookup a with
  | none => (s, .err .notPlaced)
  | some c => (afterLeave { s with agents := s.agents.filter (·.1 ≠ a) } c, .ok)

/-- `agent.cell = grid[c]` for a placed agent / `grid.move_agent(agent, c)`:
    leave the old cell (emptiness write there), then enter the new one -/
def move (s : State) (a : Nat) (c : Coord) : State × Out :=
  match s.agents.lookup a with
  | none => (s, .err .notPlaced)
  | some c0 =>
    if !inBounds s.dims c then (s, .err .index)
    else if s.fullFor a c then (s, .err .full)
    else
      let s1 := afterLeave { s with agents := s.agents.filter (·.1 ≠ a) } c0
      (writeEmpty { s1 with agents := s1.agents ++ [(a, c)] } c 0, .ok)

/-- the emptiness view (`grid.empty.data` / `grid.empty_mask`) next to actual emptiness
    (`cell.is_empty` / `is_cell_empty`) -/
def empties (s : State) : Out :=
  let actual := (cells s.dims).map s.isEmptyCell
  match s.impl with
  | .new => .emp ((s.namedArr? "empty").map fun a => (cells s.dims).map a) actual
  | _ => .emp (some ((cells s.dims).map (s.heap 0))) actual

/-! ### `select_cells` of the grid: the sequential mask pipeline -/

/-- the array `only_empty` is AND-ed with: `_mesa_property_layers["empty"].data` (`KeyError` if the
    layer was removed) / `self.empty_mask` -/
def State.emptyArr? (s : State) : Option Arr :=
  match s.impl with
  | .new => s.namedArr? "empty"
  | _ => some (s.heap 0)

def applyMasks : List (Coord → Bool) → (Coord → Bool) → (Coord → Bool)
  | [], m => m
  | k :: ks, m => applyMasks ks (fun c => m c && k c)

def applyConds (s : State) : List (String × (Int → Bool)) → (Coord → Bool) → Except Err (Coord → Bool)
  | [], m => .ok m
  | (n, p) :: rest, m =>
    match s.namedArr? n with
    | none => .error .key
    | some a => applyConds s rest (fun c => m c && p (a c))

/-- one `extreme_values` entry: the target is the max / min of the property over the cells that are
    still selected (masked array); if none is selected the target is `masked` and nothing survives.
    mode: `some true` = "highest", `some false` = "lowest", `none` = anything else (`ValueError`) -/
def applyExtremes (s : State) : List (String × Option Bool) → (Coord → Bool) → Except Err (Coord → Bool)
  | [], m => .ok m
  | (n, mode) :: rest, m =>
    match s.namedArr? n with
    | none => .error .key
    | some a =>
      match mode with
      | none => .error (.value .mode)
      | some hi =>
        match extremum hi (((cells s.dims).filter m).map a) with
        | none => applyExtremes s rest (fun _ => false)
        | some t => applyExtremes s rest (fun c => m c && a c == t)

structure Query where
  masks : List (Coord → Bool)
  onlyEmpty : Bool
  conds : List (String × (Int → Bool))
  extremes : List (String × Option Bool)

/-- the `only_empty` stage: AND with the emptiness array (`KeyError` if the new grid lost its layer) -/
def emptyStage (s : State) (onlyEmpty : Bool) (m : Coord → Bool) : Except Err (Coord → Bool) :=
  if onlyEmpty then
    match s.emptyArr? with
    | none => .error .key
    | some e => .ok (fun c => m c && e c != 0)
  else .ok m

/-- the combined mask of `select_cells(conditions, extreme_values, masks, only_empty)`:
    masks, then only_empty, then conditions, then extreme values — in the order of the code -/
def selectMask (s : State) (q : Query) : Except Err (Coord → Bool) :=
  match emptyStage s q.onlyEmpty (applyMasks q.masks (fun _ => true)) with
  | .error e => .error e
  | .ok m1 =>
    match applyConds s q.conds m1 with
    | .error e => .error e
    | .ok m2 => applyExtremes s q.extremes m2

/-- both output forms: `list(zip(*np.where(mask)))` and the mask itself -/
def selectCells (s : State) (q : Query) : Out :=
  match selectMask s q with
  | .error e => .err e
  | .ok m => .sel ((cells s.dims).filter m) ((cells s.dims).map m)

/-! ### neighbourhood masks (`get_neighborhood_mask`) -/

/-- distance of two indices along an axis of length `n`; on a torus the shorter way round -/
def axisDist (torus : Bool) (n x y : Nat) : Nat :=
  let d := if x ≤ y then y - x else x - y
  if torus then min d (n - d) else d

def axisDists (torus : Bool) : List Nat → Coord → Coord → List Nat
  | n :: ns, x :: xs, y :: ys => axisDist torus n x y :: axisDists torus ns xs ys
  | _, _, _ => []

/-- is `c'` within `r` steps of `c`: king moves on a Moore grid (every axis distance ≤ r), rook steps on a
    von Neumann grid (the axis distances sum to ≤ r).  This is what `Cell.get_neighborhood(radius)` (recursion
    through `connections`) and legacy `_Grid.get_neighborhood(pos, moore, …, radius)` enumerate. -/
def withinRadius (moore torus : Bool) (dims : List Nat) (c : Coord) (r : Nat) (c' : Coord) : Bool :=
  let ds := axisDists torus dims c c'
  if moore then ds.all (fun d => decide (d ≤ r)) else decide (ds.foldl (· + ·) 0 ≤ r)

/-- `grid.get_neighborhood_mask(c, include_center, radius)` (new; `moore` is the grid class) /
    `grid.get_neighborhood_mask(c, moore, include_center, radius)` (legacy), kept by the user as mask `k`.
    `geom = none`: a hex grid, whose geometry this model does not have.  The centre is in the mask iff
    `include_center`.  A radius of 0 is a `ValueError` on the new grids; `c` must be a cell of the grid. -/
def nbhdMask (s : State) (k : Nat) (geom : Option Bool) (torus : Bool) (c : Coord) (ic : Bool) (r : Nat) :
    State × Out :=
  match geom with
  | none => (s, .err .impl)
  | some moore =>
    if !inBounds s.dims c then (s, .err .index)
    else if s.impl = .new ∧ r = 0 then (s, .err (.value .radius))
    else
      let m : Coord → Bool := fun c' =>
        inBounds s.dims c' && (if c' = c then ic else withinRadius moore torus s.dims c r c')
      ({ s with masks := (k, m) :: s.masks }, .sel ((cells s.dims).filter m) ((cells s.dims).map m))

/-! ### the op language and histories -/

inductive MaskRef where
  | lit (m : Coord → Bool)
  | saved (k : Nat)

/-- `vec` of `modifyCells` / `modifyU`: the operation is a Python function (applied through `np.vectorize`), not a ufunc;
    `modifyT` is always the Python-function form -/
inductive Op where
  | create (name : String) (dt : DType) (default : WVal)
  | newLayer (name : String) (dims : List Nat) (dt : DType) (default : WVal)
  | attach (lid : Nat)
  | detach (name : String)
  | layerSet (lid : Nat) (c : Coord) (v : WVal)
  | layerGet (lid : Nat) (c : Coord)
  | cellSet (name : String) (c : Coord) (v : WVal)
  | cellGet (name : String) (c : Coord)
  | cellSet2 (lid : Nat) (c : Coord) (v : WVal)
  | cellGet2 (lid : Nat) (c : Coord)
  | setCells (lid : Nat) (v : WVal) (cond : Option (Int → Bool))
  | setFrom (lid : Nat) (h : Nat) (cond : Option (Int → Bool))
  | modifyCells (lid : Nat) (vec : Bool) (f : Option (Int → Int)) (cond : Option (Int → Bool))
  | modifyT (lid : Nat) (f : Option (Int → Int)) (cond : Option (Int → Bool)) (rd : DType)
  | modifyU (lid : Nat) (vec : Bool) (op : UOp) (x : Val) (cond : Option (Int → Bool))
  | modifyCell (lid : Nat) (c : Coord) (f : Option (Int → Int))
  | modifyCellU (lid : Nat) (c : Coord) (op : UOp) (x : Val)
  | grab (h : Nat) (lid : Nat)
  | grabMask (h : Nat)
  | fromData (name : String) (h : Nat)
  | hget (h : Nat) (c : Coord)
  | hset (h : Nat) (c : Coord) (v : WVal)
  | hdump (h : Nat)
  | dump (lid : Nat)
  | dumpName (name : String)
  | gridSet (name : String)
  | dtype (lid : Nat)
  | layerSelect (lid : Nat) (p : Int → Bool)
  | aggregate (lid : Nat) (k : Agg)
  | place (a : Nat) (c : Coord)
  | move (a : Nat) (c : Coord)
  | remove (a : Nat)
  | empties
  | nbhdMask (k : Nat) (geom : Option Bool) (torus : Bool) (c : Coord) (ic : Bool) (r : Nat)
  | select (masks : List MaskRef) (onlyEmpty : Bool) (conds : List (String × (Int → Bool)))
      (extremes : List (String × Option Bool)) (save : Option Nat)

def resolveMasks (s : State) : List MaskRef → Option (List (Coord → Bool))
  | [] => some []
  | .lit m :: rest => (resolveMasks s rest).map (m :: ·)
  | .saved k :: rest =>
    match s.masks.lookup k with
    | none => none
    | some m => (resolveMasks s rest).map (m :: ·)

/-- the entry a single-cell write through the cell attribute stores: cast by the dtype of the layer attached
    under that name; without such a layer (`new`: the instance dict keeps the Python object itself) as is -/
def State.cellWVal (s : State) (name : String) : WVal → Int
  | .raw v => v
  | .py x => match s.cellLayer? name with
    | some lid => castTo (s.dtypeOf lid) x
    | none => x.raw

/-- the entry a write through a user-held reference stores -/
def State.handleWVal (s : State) (h : Nat) (w : WVal) : Int :=
  match s.handles.lookup h with
  | some (a, _) => w.resolve (s.adt a)
  | none => w.resolve .int

def step (s : State) : Op → State × Out
  | .create n dt d => create s n dt (d.resolve dt)
  | .newLayer n dims dt d => newLayer s n dims dt (d.resolve dt)
  | .attach l => attach s l
  | .detach n => detach s n
  | .layerSet l c w => layerSet s l c (w.resolve (s.dtypeOf l))
  | .layerGet l c => (s, layerGet s l c)
  | .cellSet n c w => cellSet s n c (s.cellWVal n w)
  | .cellGet n c => (s, cellGet s n c)
  | .cellSet2 l c w => cellSet2 s l c w
  | .cellGet2 l c => (s, cellGet2 s l c)
  | .setCells l (.raw v) cond => vecGuard s l cond.isSome (setCells s l v cond)
  | .setCells l (.py x) cond => vecGuard s l cond.isSome (setCellsV s l x cond)
  | .setFrom l h cond => setFrom s l h cond
  | .modifyCells l vec f cond => vecGuard s l (cond.isSome || vec) (modifyCells s l f cond)
  | .modifyT l f cond rd => vecGuard s l true (modifyCellsT s l f cond rd)
  | .modifyU l vec op x cond => vecGuard s l (cond.isSome || vec) (modifyU s l op x cond)
  | .modifyCell l c f => modifyCell s l c f
  | .modifyCellU l c op x => modifyCellU s l c op x
  | .grab h l => grab s h l
  | .grabMask h => grabMask s h
  | .fromData n h => fromData s n h
  | .hget h c => (s, hget s h c)
  | .hset h c w => hset s h c (s.handleWVal h w)
  | .hdump h => (s, hdump s h)
  | .dump l => (s, dump s l)
  | .dumpName n => (s, dumpName s n)
  | .gridSet n => gridSet s n
  | .dtype l => (s, dtypeRead s l)
  | .layerSelect l p => (s, layerSelect s l p)
  | .aggregate l k => (s, aggregate s l k)
  | .place a c => place s a c
  | .move a c => move s a c
  | .remove a => remove s a
  | .empties => (s, empties s)
  | .nbhdMask k geom torus c ic r => nbhdMask s k geom torus c ic r
  | .select ms oe conds exts save =>
    match resolveMasks s ms with
    | none => (s, .err .noMask)
    | some masks =>
      match selectMask s ⟨masks, oe, conds, exts⟩ with
      | .error e => (s, .err e)
      | .ok m =>
        let out := Out.sel ((cells s.dims).filter m) ((cells s.dims).map m)
        match save with
        | none => (s, out)
        | some k => ({ s with masks := (k, m) :: s.masks }, out)

/-! ### outside the op language: re-binding the array of a legacy layer

On the legacy implementation `layer.data` is a plain attribute: `l2.data = <an array>` re-binds it — nothing is copied — so
`l2.data = l1.data` makes two layer objects share one array (on the new implementation the same statement is
`set_cells(arr)`, a copy: `Op.setFrom`).  No mesa code does this; it is a transition of the model (the driver's `rebind`
line, compared with the real objects) but deliberately *not* an `Op`: `Reach` and every theorem over histories speak about
histories of `Op`s, in which no two layers ever share an array (`C11_layers_never_share_an_array`); what holds once they do
is `C11_rebound_layers_are_one_value` / `C11_write_frame_by_array`. -/

/-- legacy `layer.data = h` for an array the user holds, of the layer's shape (another shape: protocol error) and not the
    grid's own `_empty_mask` (array 0: kept out, the grid writes into it): the layer now points to that very array and
    has its dtype -/
def rebind (s : State) (lid : Nat) (h : Nat) : State × Out :=
  if s.impl = .new then (s, .err .impl) else
  match s.layer? lid with
  | none => (s, .err .noLayer)
  | some l =>
    match s.handles.lookup h with
    | none => (s, .err .noHandle)
    | some (a, dims) =>
      if dims ≠ l.dims then (s, .err (.value .dims))
      else if a = 0 then (s, .err .impl)
      else ({ s with layers := upd s.layers lid { l with data := a } }, .ok)

/-- run a history, collecting the outputs -/
def run (s : State) : List Op → State × List Out
  | [] => (s, [])
  | op :: ops =>
    let (s1, o) := step s op
    let (s2, os) := run s1 ops
    (s2, o :: os)

end Mesa.Layers
