import MesaModel.Model.Devs
/-!
The simulator object's *lifecycle* around the event core of `Model/Devs.lean`
(`mesa/experimental/devs/simulator.py`: `Simulator.__init__ / setup / reset` and the `self.model is None` guards of
`run_until`, `run_next_event`, `run_for` in both classes).

`up` is `simulator.model is not None`.  The start time is 0 (what both concrete classes pass to `Simulator.__init__`).

* `setup` is refused (ValueError, nothing changes) when the clock is not at the start time or the event list is not empty
  (`EventList.is_empty` is `len(self) == 0`: cancelled entries count); otherwise the model is attached and the ABM simulator
  schedules `model.step` for the next tick.
* the run methods are refused (Exception, nothing changes) while no model is attached;
* scheduling, cancelling and looking ahead work with or without a model (the code never looks at `self.model` there);
* `reset` clears the event list, forgets the model and puts the clock back to the start time; the harness's reset flow (that of
  the visualisation) continues with a fresh model, so the event core is back at `init`.
-/
namespace Mesa.Devs

structure Life where
  up : Bool
  sim : Sim

inductive LErr where | notSetup | notAtStart | hasEvents
deriving Repr, DecidableEq

/-- `Simulator.__init__` (through `ABMSimulator()` / `DEVSimulator()`) -/
def fresh (k : Kind) (prog : Nat → List Cmd) (stepProg : List Cmd) : Life :=
  { up := false, sim := init k prog stepProg }

/-- `Simulator.setup` / `ABMSimulator.setup`, the two guards included -/
def Life.setup (l : Life) : Except LErr Life :=
  if l.sim.now ≠ 0 then .error .notAtStart
  else if !l.sim.pending.isEmpty then .error .hasEvents
  else .ok { up := true, sim := Devs.setup l.sim }

/-- `Simulator.reset()` followed by a fresh model -/
def Life.reset (l : Life) : Life :=
  { up := false, sim := init l.sim.kind l.sim.prog l.sim.stepProg }

/-- `run_until` of both classes: refused while no model is attached -/
def Life.runUntil (f : Nat) (l : Life) (T : Int) : Except LErr (Option Life) :=
  if !l.up then .error .notSetup else .ok ((Devs.runUntil f l.sim T).map fun s => { l with sim := s })

/-- `run_for`: `end_time = self.time + time_delta; self.run_until(end_time)` -/
def Life.runFor (f : Nat) (l : Life) (d : Int) : Except LErr (Option Life) := l.runUntil f (l.sim.now + d)

/-- `run_next_event` of both classes -/
def Life.runNext (l : Life) : Except LErr Life :=
  if !l.up then .error .notSetup else .ok { l with sim := Devs.runNext l.sim }

/-- top-level scheduling / cancelling / dropping: the lifecycle does not matter -/
def Life.cmd (l : Life) (c : Cmd) : Life := { l with sim := doCmd l.sim c }

/-- the program catches what came out of a run call -/
def Life.caught (l : Life) : Life := { l with sim := Devs.caught l.sim }

/-- the operations of the lifecycle, as a program issues them (rejected ones included) -/
inductive LOp where
  | setup | reset | next | caught
  | until (f : Nat) (T : Int)
  | for (f : Nat) (d : Int)
  | cmd (c : Cmd)

/-- one operation: the new state and whether the call was refused.  A refused call returns the state it was given; a run
    whose fuel runs out (a program that does not terminate) has no successor state and is represented by staying put. -/
def Life.step (l : Life) : LOp → Life × Option LErr
  | .setup => match l.setup with | .ok l' => (l', none) | .error e => (l, some e)
  | .reset => (l.reset, none)
  | .next => match l.runNext with | .ok l' => (l', none) | .error e => (l, some e)
  | .caught => (l.caught, none)
  | .until f T => match l.runUntil f T with | .ok (some l') => (l', none) | .ok none => (l, none) | .error e => (l, some e)
  | .for f d => match l.runFor f d with | .ok (some l') => (l', none) | .ok none => (l, none) | .error e => (l, some e)
  | .cmd c => (l.cmd c, none)

def Life.run (l : Life) (ops : List LOp) : Life := ops.foldl (fun l o => (l.step o).1) l

end Mesa.Devs
