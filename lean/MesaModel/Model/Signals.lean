/-
Model of mesa/experimental/mesa_signals (properties C16, C18-signals; the registry part is
reused by the Computed model of C17).

* `Reg H`      : `HasObservables.observables` (declaration order; the iteration order π of each
                 signal-type *set* is the `types` list of the declaration) and
                 `HasObservables.subscribers` (name → type → list of handler references).
* `observe` / `unobserve` / `clearAll` / `deliver` follow the repaired code
  (G6: distinct inner loop variable; G1: validation before any subscription).
* `SignalingList` mutators: the four primitives of the class plus `append`, and the mixin
  methods exactly as `collections.abc.MutableSequence` derives them from the primitives
  (L1 repaired: `__delitem__` reports the removed item).
Handlers are weak references: `alive` says whether the referent still exists.  In the C16
state machine handlers are passive recorders named by small numbers.
-/
namespace Mesa.Signals

inductive SigType where
  | change | append | insert | remove | replace
deriving Repr, DecidableEq, Inhabited

inductive Kind where
  | obs | lst | comp
deriving Repr, DecidableEq, Inhabited

/-- the `signal_types` set of each descriptor class (as a duplicate-free list) -/
def Kind.types : Kind → List SigType
  | .lst => [.remove, .replace, .change, .insert, .append]
  | _ => [.change]

/-- one entry of `HasObservables.observables`; `types` is the set in the order Python iterates it -/
structure Decl where
  name : Nat
  kind : Kind
  types : List SigType
deriving Repr, DecidableEq, Inhabited

/-- a concrete name / signal type, or `All()` -/
inductive Sel (α : Type) where
  | all
  | one (a : α)
deriving Repr, DecidableEq

inductive Err where
  | value | key | index | attr | fuel
  | user        -- the function of a Computed raised on its own (C17; any exception that is not one of the above)
deriving Repr, DecidableEq, Inhabited

structure Reg (H : Type) where
  decls : List Decl
  subs : Nat → SigType → List H

namespace Reg
variable {H : Type}

def names (r : Reg H) : List Nat := r.decls.map (·.name)

/-- `self.observables[name]` -/
def typesOf (r : Reg H) (n : Nat) : Option (List SigType) :=
  (r.decls.find? (fun d => d.name == n)).map (·.types)

/-- `self.subscribers[name][signal_type].append(ref)` -/
def add (r : Reg H) (n : Nat) (t : SigType) (h : H) : Reg H :=
  { r with subs := fun n' t' => if n' = n ∧ t' = t then r.subs n' t' ++ [h] else r.subs n' t' }

def setSubs (r : Reg H) (n : Nat) (t : SigType) (l : List H) : Reg H :=
  { r with subs := fun n' t' => if n' = n ∧ t' = t then l else r.subs n' t' }

/-- the signal types subscribed for one name: `[signal_type]` or the whole set (in π order) -/
def selTypes (r : Reg H) (t : Sel SigType) (n : Nat) : List SigType :=
  match t with
  | .one ty => [ty]
  | .all => (r.typesOf n).getD []

/-- the names a call ranges over; `none` = the name is not a known observable -/
def selNames (r : Reg H) (n : Sel Nat) : Option (List Nat) :=
  match n with
  | .all => some r.names
  | .one a => if a ∈ r.names then some [a] else none

/-- `HasObservables.observe` (repaired: validate every name first, then subscribe) -/
def observe (r : Reg H) (n : Sel Nat) (t : Sel SigType) (h : H) : Except Err (Reg H) :=
  match r.selNames n with
  | none => .error .value
  | some ns =>
    let valid := match t with
      | .all => true
      | .one ty => ns.all fun a => ((r.typesOf a).getD []).contains ty
    if !valid then .error .value
    else .ok (ns.foldl (fun r a => (r.selTypes t a).foldl (fun r ty => r.add a ty h) r) r)

/-- what survives an `unobserve` in one subscriber list: live references to other handlers -/
def keep [DecidableEq H] (alive : H → Bool) (h : H) (l : List H) : List H :=
  l.filter fun x => alive x && decide (x ≠ h)

/-- `HasObservables.unobserve`: no validation; `self.observables[name]` raises `KeyError` for an
    unknown concrete name combined with `All()` as type -/
def unobserve [DecidableEq H] (r : Reg H) (alive : H → Bool) (n : Sel Nat) (t : Sel SigType) (h : H) :
    Except Err (Reg H) :=
  let ns := match n with | .all => r.names | .one a => [a]
  let bad := match t with
    | .all => ns.any fun a => (r.typesOf a).isNone
    | .one _ => false
  if bad then .error .key
  else .ok (ns.foldl (fun r a =>
      (r.selTypes t a).foldl (fun r ty => r.setSubs a ty (keep alive h (r.subs a ty))) r) r)

/-- `clear_all_subscriptions` -/
def clearAll (r : Reg H) (n : Sel Nat) : Reg H :=
  match n with
  | .all => { r with subs := fun _ _ => [] }
  | .one a => { r with subs := fun n' t' => if n' = a then [] else r.subs n' t' }

/-- `_mesa_notify`: the live observers of (name, type) in list order; dead references are pruned -/
def deliver (r : Reg H) (alive : H → Bool) (n : Nat) (t : SigType) : Reg H × List H :=
  let live := (r.subs n t).filter alive
  (r.setSubs n t live, live)

end Reg

/-! ### payloads -/

inductive Val where
  | none
  | int (i : Int)
  | list (l : List Int)
deriving Repr, DecidableEq, Inhabited

/-- a Python `slice(a, b, c)`; `none` = `None` (bound left out / step left out) -/
structure Slc where
  a : Option Int
  b : Option Int
  c : Option Int
deriving Repr, DecidableEq, Inhabited

inductive Idx where
  | none
  | int (i : Int)
  | slice (a b : Int)
  | sliceX (s : Slc)
deriving Repr, DecidableEq, Inhabited

/-- the `AttributeDict` handed to a handler (owner = the one instance of the scenario) -/
structure Sig where
  name : Nat
  type : SigType
  old : Val
  new : Val
  index : Idx
deriving Repr, DecidableEq, Inhabited

/-! ### Python list indexing -/

/-- `data[i]` for an int index: negative counts from the end; `none` = IndexError -/
def normIdx (len : Nat) (i : Int) : Option Nat :=
  let j : Int := if i < 0 then i + len else i
  if 0 ≤ j ∧ j < len then some j.toNat else none

/-- clamping of `list.insert` and of slice bounds (`slice.indices`, step 1) -/
def clampIdx (len : Nat) (i : Int) : Nat :=
  let j : Int := if i < 0 then i + len else i
  if j < 0 then 0 else if j > len then len else j.toNat

def insertAt (d : List Int) (j : Nat) (v : Int) : List Int := d.take j ++ v :: d.drop j

/-- `data[a:b]` -/
def getSlice (d : List Int) (a b : Int) : List Int :=
  let i := clampIdx d.length a
  let j := clampIdx d.length b
  (d.drop i).take (j - i)

/-- `data[a:b] = vs` -/
def setSlice (d : List Int) (a b : Int) (vs : List Int) : List Int :=
  let i := clampIdx d.length a
  let j := clampIdx d.length b
  d.take i ++ vs ++ d.drop (max i j)

/-- `del data[a:b]` -/
def delSlice (d : List Int) (a b : Int) : List Int := setSlice d a b []

/-! ### extended slices: open bounds, steps other than 1, negative steps (CPython `PySlice_AdjustIndices`) -/

/-- `slice.indices(len)`: (start, stop, step); `none` = step 0 (`ValueError`) -/
def Slc.adjust (s : Slc) (len : Nat) : Option (Int × Int × Int) :=
  let step := s.c.getD 1
  if step = 0 then none
  else
    let L : Int := len
    let adj (x : Option Int) (dflt : Int) : Int :=
      match x with
      | none => dflt
      | some x =>
        let x := if x < 0 then x + L else x
        if x < 0 then (if step < 0 then -1 else 0)
        else if x ≥ L then (if step < 0 then L - 1 else L)
        else x
    some (adj s.a (if step < 0 then L - 1 else 0), adj s.b (if step < 0 then -1 else L), step)

/-- how many items the slice selects -/
def sliceLen (start stop step : Int) : Nat :=
  if step < 0 then (if stop < start then ((start - stop - 1) / (-step) + 1).toNat else 0)
  else (if start < stop then ((stop - start - 1) / step + 1).toNat else 0)

/-- the positions the slice selects, in the order of the slice -/
def Slc.indices (s : Slc) (len : Nat) : Option (List Nat) :=
  (s.adjust len).map fun (start, stop, step) =>
    (List.range (sliceLen start stop step)).map fun (j : Nat) => (start + (j : Int) * step).toNat

/-- `data[slice]` -/
def getSliceX (d : List Int) (s : Slc) : Option (List Int) :=
  (s.indices d.length).map fun idx => idx.map fun j => d.getD j 0

/-- `data[slice] = vs`: step 1 splices (any number of items); another step needs exactly as many items as the slice
    selects (`ValueError` otherwise) and sets them position by position -/
def setSliceX (d : List Int) (s : Slc) (vs : List Int) : Option (List Int) :=
  match s.adjust d.length, s.indices d.length with
  | some (start, stop, step), some idx =>
    if step = 1 then some (d.take start.toNat ++ vs ++ d.drop (max start stop).toNat)
    else if vs.length ≠ idx.length then none
    else some ((idx.zip vs).foldl (fun d (p : Nat × Int) => d.set p.1 p.2) d)
  | _, _ => none

/-- `del data[slice]`: the selected positions go -/
def delSliceX (d : List Int) (s : Slc) : Option (List Int) :=
  (s.indices d.length).map fun idx => (d.zipIdx.filter fun p => !idx.contains p.2).map (·.1)

/-! ### SignalingList: primitives (each mutates, then notifies once) -/

/-- `__setitem__` with an int index -/
def pSet (n : Nat) (d : List Int) (i : Int) (v : Int) : Except Err (List Int × Sig) :=
  match normIdx d.length i with
  | none => .error .index
  | some j => .ok (d.set j v, ⟨n, .replace, .int (d.getD j 0), .int v, .int i⟩)

/-- `__setitem__` with a slice -/
def pSetSlice (n : Nat) (d : List Int) (a b : Int) (vs : List Int) : List Int × Sig :=
  (setSlice d a b vs, ⟨n, .replace, .list (getSlice d a b), .list vs, .slice a b⟩)

/-- `__delitem__` with an int index (L1 repaired: `old` is the removed item) -/
def pDel (n : Nat) (d : List Int) (i : Int) : Except Err (List Int × Sig) :=
  match normIdx d.length i with
  | none => .error .index
  | some j => .ok (d.eraseIdx j, ⟨n, .remove, .int (d.getD j 0), .none, .int i⟩)

/-- `__delitem__` with a slice -/
def pDelSlice (n : Nat) (d : List Int) (a b : Int) : List Int × Sig :=
  (delSlice d a b, ⟨n, .remove, .list (getSlice d a b), .none, .slice a b⟩)

/-- `__setitem__` with an extended slice: `old_value = self.data[index]` (step 0: `ValueError`), the assignment (wrong
    number of items: `ValueError`), then one `replace` signal carrying the slice -/
def pSetSliceX (n : Nat) (d : List Int) (s : Slc) (vs : List Int) : Except Err (List Int × Sig) :=
  match getSliceX d s, setSliceX d s vs with
  | some old, some d' => .ok (d', ⟨n, .replace, .list old, .list vs, .sliceX s⟩)
  | _, _ => .error .value

/-- `__delitem__` with an extended slice -/
def pDelSliceX (n : Nat) (d : List Int) (s : Slc) : Except Err (List Int × Sig) :=
  match getSliceX d s, delSliceX d s with
  | some old, some d' => .ok (d', ⟨n, .remove, .list old, .none, .sliceX s⟩)
  | _, _ => .error .value

/-- `insert` -/
def pInsert (n : Nat) (d : List Int) (i : Int) (v : Int) : List Int × Sig :=
  (insertAt d (clampIdx d.length i) v, ⟨n, .insert, .none, .int v, .int i⟩)

/-- `append` -/
def pAppend (n : Nat) (d : List Int) (v : Int) : List Int × Sig :=
  (d ++ [v], ⟨n, .append, .none, .int v, .int d.length⟩)

/-! ### the mixin methods of `MutableSequence`, as derived from the primitives -/

/-- `extend`: `for v in values: self.append(v)` -/
def mExtend (n : Nat) (d : List Int) (vs : List Int) : List Int × List Sig :=
  vs.foldl (fun (acc : List Int × List Sig) v =>
    let (d', s) := pAppend n acc.1 v
    (d', acc.2 ++ [s])) (d, [])

/-- `pop(i)`: `v = self[i]; del self[i]` -/
def mPop (n : Nat) (d : List Int) (i : Int) : Except Err (List Int × List Sig) :=
  match normIdx d.length i with
  | none => .error .index
  | some _ => (pDel n d i).map fun (d', s) => (d', [s])

/-- `remove(v)`: `del self[self.index(v)]` -/
def mRemove (n : Nat) (d : List Int) (v : Int) : Except Err (List Int × List Sig) :=
  match d.idxOf? v with
  | none => .error .value
  | some j => (pDel n d (j : Int)).map fun (d', s) => (d', [s])

/-- `reverse`: `for i in range(n//2): self[i], self[n-i-1] = self[n-i-1], self[i]` -/
def mReverse (n : Nat) (d : List Int) : List Int × List Sig :=
  (List.range (d.length / 2)).foldl (fun (acc : List Int × List Sig) i =>
    let cur := acc.1
    let k := cur.length - i - 1
    let x := cur.getD k 0
    let y := cur.getD i 0
    let d1 := cur.set i x
    let s1 : Sig := ⟨n, .replace, .int y, .int x, .int i⟩
    let d2 := d1.set k y
    let s2 : Sig := ⟨n, .replace, .int (d1.getD k 0), .int y, .int k⟩
    (d2, acc.2 ++ [s1, s2])) (d, [])

/-- `clear`: `while True: self.pop()` until `IndexError` -/
def mClear (n : Nat) : Nat → List Int → List Sig → List Int × List Sig
  | 0, d, acc => (d, acc)
  | f+1, d, acc =>
    match pDel n d (-1) with
    | .error _ => (d, acc)
    | .ok (d', s) => mClear n f d' (acc ++ [s])

/-! ### the C16 state machine -/

structure St where
  reg : Reg Nat
  dead : List Nat                       -- handlers whose last strong reference was dropped
  obsv : Nat → Val                      -- value behind each Observable (`none` = never assigned)
  lists : Nat → Option (List Int)       -- `SignalingList.data` behind each ObservableList

def St.alive (s : St) (h : Nat) : Bool := !s.dead.contains h

def init (decls : List Decl) : St :=
  { reg := { decls := decls, subs := fun _ _ => [] }, dead := [], obsv := fun _ => .none, lists := fun _ => none }

inductive Op where
  | observe (n : Sel Nat) (t : Sel SigType) (h : Nat)
  | unobserve (n : Sel Nat) (t : Sel SigType) (h : Nat)
  | clear (n : Sel Nat)
  | drop (h : Nat)
  | assign (n : Nat) (v : Int)
  | lassign (n : Nat) (vs : List Int)
  | lset (n : Nat) (i : Int) (v : Int)
  | lsetSlice (n : Nat) (a b : Int) (vs : List Int)
  | ldel (n : Nat) (i : Int)
  | ldelSlice (n : Nat) (a b : Int)
  | linsert (n : Nat) (i : Int) (v : Int)
  | lappend (n : Nat) (v : Int)
  | lpop (n : Nat) (i : Int)
  | lremove (n : Nat) (v : Int)
  | lextend (n : Nat) (vs : List Int)
  | liadd (n : Nat) (vs : List Int)
  | lreverse (n : Nat)
  | lclear (n : Nat)
  | lsetSliceX (n : Nat) (s : Slc) (vs : List Int)
  | ldelSliceX (n : Nat) (s : Slc)
deriving Repr, DecidableEq

inductive Out where
  | err (e : Err)
  | ok (deliveries : List (Nat × Sig))
deriving Repr, DecidableEq

/-- one `notify`: every live subscriber of (name, type) is called once with the signal -/
def notify (s : St) (sig : Sig) : St × List (Nat × Sig) :=
  let (r, live) := s.reg.deliver s.alive sig.name sig.type
  ({ s with reg := r }, live.map fun h => (h, sig))

def notifyAll (s : St) (sigs : List Sig) : St × List (Nat × Sig) :=
  sigs.foldl (fun (acc : St × List (Nat × Sig)) sig =>
    let (s', ds) := notify acc.1 sig
    (s', acc.2 ++ ds)) (s, [])

/-- what a list operation does to the data and which signals it emits, in order -/
def listOp (n : Nat) (d : List Int) : Op → Except Err (List Int × List Sig)
  | .lset _ i v => (pSet n d i v).map fun (d', s) => (d', [s])
  | .lsetSlice _ a b vs => let (d', s) := pSetSlice n d a b vs; .ok (d', [s])
  | .ldel _ i => (pDel n d i).map fun (d', s) => (d', [s])
  | .ldelSlice _ a b => let (d', s) := pDelSlice n d a b; .ok (d', [s])
  | .linsert _ i v => let (d', s) := pInsert n d i v; .ok (d', [s])
  | .lappend _ v => let (d', s) := pAppend n d v; .ok (d', [s])
  | .lpop _ i => mPop n d i
  | .lremove _ v => mRemove n d v
  | .lextend _ vs => .ok (mExtend n d vs)
  | .liadd _ vs =>
      -- `self.extend(values)`, then the descriptor's `__set__` is handed the same list object:
      -- `change` with old = new = the list, and a copy is stored
      let (d', ss) := mExtend n d vs
      .ok (d', ss ++ [⟨n, .change, .list d', .list d', .none⟩])
  | .lreverse _ => .ok (mReverse n d)
  | .lclear _ => .ok (mClear n (d.length + 1) d [])
  | .lsetSliceX _ s vs => (pSetSliceX n d s vs).map fun (d', sg) => (d', [sg])
  | .ldelSliceX _ s => (pDelSliceX n d s).map fun (d', sg) => (d', [sg])
  | _ => .error .attr

/-- the observable an operation works on (for the list operations) -/
def Op.listName : Op → Option Nat
  | .lset n .. | .lsetSlice n .. | .ldel n .. | .ldelSlice n .. | .linsert n .. | .lappend n ..
  | .lpop n .. | .lremove n .. | .lextend n .. | .liadd n .. | .lreverse n | .lclear n
  | .lsetSliceX n .. | .ldelSliceX n .. => some n
  | _ => none

def step (s : St) (op : Op) : St × Out :=
  match op with
  | .observe n t h =>
      match s.reg.observe n t h with
      | .ok r => ({ s with reg := r }, .ok [])
      | .error e => (s, .err e)
  | .unobserve n t h =>
      match s.reg.unobserve s.alive n t h with
      | .ok r => ({ s with reg := r }, .ok [])
      | .error e => (s, .err e)
  | .clear n => ({ s with reg := s.reg.clearAll n }, .ok [])
  | .drop h => ({ s with dead := h :: s.dead }, .ok [])
  | .assign n v =>
      -- `Observable.__set__`: store, then notify (old, new) (C17/G7 repaired); the handlers of this machine read no
      -- values, so the order cannot be observed here and the two updates are written in the old order
      let (s1, ds) := notify s ⟨n, .change, s.obsv n, .int v, .none⟩
      ({ s1 with obsv := fun m => if m = n then .int v else s1.obsv m }, .ok ds)
  | .lassign n vs =>
      -- `ObservableList.__set__`: notify (old list or the fallback `[]`, new), then store a SignalingList
      let (s1, ds) := notify s ⟨n, .change, .list ((s.lists n).getD []), .list vs, .none⟩
      ({ s1 with lists := fun m => if m = n then some vs else s1.lists m }, .ok ds)
  | op =>
      match op.listName with
      | none => (s, .err .attr)
      | some n =>
        match s.lists n with
        | none => (s, .err .attr)          -- the attribute was never assigned
        | some d =>
          match listOp n d op with
          | .error e => (s, .err e)
          | .ok (d', sigs) =>
            let (s1, ds) := notifyAll s sigs
            ({ s1 with lists := fun m => if m = n then some d' else s1.lists m }, .ok ds)

def run (s : St) : List Op → St × List Out
  | [] => (s, [])
  | op :: ops =>
    let (s1, o) := step s op
    let (s2, os) := run s1 ops
    (s2, o :: os)

/-! ### the listener's side: applying a signal to a copy -/

/-- what a listener does with a signal of the list `n`: `none` if the payload does not fit its copy
    (wrong `old`, index out of range) -/
def applySig (d : List Int) (sig : Sig) : Option (List Int) :=
  match sig.type, sig.old, sig.new, sig.index with
  | .change, .list o, .list l, .none => if o = d then some l else none
  | .append, .none, .int v, .int i => if i = d.length then some (d ++ [v]) else none
  | .insert, .none, .int v, .int i => some (insertAt d (clampIdx d.length i) v)
  | .remove, .int o, .none, .int i =>
      match normIdx d.length i with
      | some j => if d.getD j 0 = o then some (d.eraseIdx j) else none
      | none => none
  | .remove, .list o, .none, .slice a b => if getSlice d a b = o then some (delSlice d a b) else none
  | .replace, .int o, .int v, .int i =>
      match normIdx d.length i with
      | some j => if d.getD j 0 = o then some (d.set j v) else none
      | none => none
  | .replace, .list o, .list vs, .slice a b => if getSlice d a b = o then some (setSlice d a b vs) else none
  | .remove, .list o, .none, .sliceX s => if getSliceX d s = some o then delSliceX d s else none
  | .replace, .list o, .list vs, .sliceX s => if getSliceX d s = some o then setSliceX d s vs else none
  | _, _, _, _ => none

def replay (d : List Int) : List Sig → Option (List Int)
  | [] => some d
  | s :: ss => (applySig d s).bind fun d' => replay d' ss

/-! ### handlers that subscribe / unsubscribe / clear while they are being notified (re-entrancy)

`_mesa_notify` (G13 repaired) walks the subscriber list as it was when the signal was emitted; a reference whose
handler has died is skipped, and so is one that a handler called earlier in the same round has unsubscribed meanwhile
(`unobserve`, `clear_all_subscriptions`); a handler subscribed during the round is not called for the signal in flight.
Afterwards the dead references are dropped from the list *as it is then*: the round never writes the list it started
from back (that undid every `unobserve` / `clear_all_subscriptions` made by a handler). -/

/-- a call a handler makes on the registry while it is being notified -/
inductive Act where
  | observe (n : Sel Nat) (t : Sel SigType) (h : Nat)
  | unobserve (n : Sel Nat) (t : Sel SigType) (h : Nat)
  | clear (n : Sel Nat)
deriving Repr, DecidableEq

/-- the call is accepted (decided by the declarations alone); admitted handler programs consist of such calls -/
def Act.valid (r : Reg Nat) : Act → Bool
  | .observe n t h => match r.observe n t h with | .ok _ => true | .error _ => false
  | .unobserve n t h => match r.unobserve (fun _ => true) n t h with | .ok _ => true | .error _ => false
  | .clear _ => true

/-- one call; a rejected call changes nothing -/
def Reg.act (r : Reg Nat) (alive : Nat → Bool) : Act → Reg Nat
  | .observe n t h => match r.observe n t h with | .ok r' => r' | .error _ => r
  | .unobserve n t h => match r.unobserve alive n t h with | .ok r' => r' | .error _ => r
  | .clear n => r.clearAll n

def Reg.acts (r : Reg Nat) (alive : Nat → Bool) (as : List Act) : Reg Nat := as.foldl (fun r a => r.act alive a) r

/-- the loop of `_mesa_notify` over the snapshot: `called` = the handlers called so far, in order -/
def roundLoop (progs : Nat → List Act) (alive : Nat → Bool) (n : Nat) (t : SigType) :
    List Nat → Reg Nat → List Nat → Reg Nat × List Nat
  | [], r, called => (r, called)
  | h :: rest, r, called =>
    if alive h && (r.subs n t).contains h then
      roundLoop progs alive n t rest (r.acts alive (progs h)) (called ++ [h])
    else roundLoop progs alive n t rest r called

/-- `_mesa_notify` with handlers that run the registry calls `progs h` when they are called -/
def Reg.deliverR (progs : Nat → List Act) (r : Reg Nat) (alive : Nat → Bool) (n : Nat) (t : SigType) :
    Reg Nat × List Nat :=
  let res := roundLoop progs alive n t (r.subs n t) r []
  (res.1.setSubs n t ((res.1.subs n t).filter alive), res.2)

def notifyR (progs : Nat → List Act) (s : St) (sig : Sig) : St × List (Nat × Sig) :=
  let res := s.reg.deliverR progs s.alive sig.name sig.type
  ({ s with reg := res.1 }, res.2.map fun h => (h, sig))

def notifyAllR (progs : Nat → List Act) (s : St) (sigs : List Sig) : St × List (Nat × Sig) :=
  sigs.foldl (fun (acc : St × List (Nat × Sig)) sig =>
    let res := notifyR progs acc.1 sig
    (res.1, acc.2 ++ res.2)) (s, [])

/-- `step` with such handlers (`progs = fun _ => []`: the passive handlers of `step`) -/
def stepR (progs : Nat → List Act) (s : St) (op : Op) : St × Out :=
  match op with
  | .assign n v =>
      let res := notifyR progs s ⟨n, .change, s.obsv n, .int v, .none⟩
      ({ res.1 with obsv := fun m => if m = n then .int v else res.1.obsv m }, .ok res.2)
  | .lassign n vs =>
      let res := notifyR progs s ⟨n, .change, .list ((s.lists n).getD []), .list vs, .none⟩
      ({ res.1 with lists := fun m => if m = n then some vs else res.1.lists m }, .ok res.2)
  | .observe .. | .unobserve .. | .clear _ | .drop _ => step s op
  | op =>
      match op.listName with
      | none => (s, .err .attr)
      | some n =>
        match s.lists n with
        | none => (s, .err .attr)
        | some d =>
          match listOp n d op with
          | .error e => (s, .err e)
          | .ok (d', sigs) =>
            let res := notifyAllR progs s sigs
            ({ res.1 with lists := fun m => if m = n then some d' else res.1.lists m }, .ok res.2)

def runR (progs : Nat → List Act) (s : St) : List Op → St × List Out
  | [] => (s, [])
  | op :: ops =>
    let res := stepR progs s op
    let rest := runR progs res.1 ops
    (rest.1, res.2 :: rest.2)

end Mesa.Signals
