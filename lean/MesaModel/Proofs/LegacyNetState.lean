import MesaModel.Proofs.Legacy
import MesaModel.Proofs.LegacyNet
/-!
NetworkGrid as a space of its own: `pos` ↔ node lists agreement over all histories of
place / remove / move, what each call does, rejected calls change nothing (C08-style, C18, C09 agents).
-/
namespace Mesa.Legacy

open Grid

theorem netInv_init (n : Nat) (edges : List (Nat × Nat)) : NetInv (Net.init n edges) where
  pos_content := by intro a v; simp [Net.init]
  in_net := by intro v h; simp [Net.init] at h
  nodup := by intro v; simp [Net.init]

/-! ### place -/

theorem net_place_res (t : Net) (a : Aid) (v : Nat) :
    (v < t.n → (t.place a v).2 = .ok) ∧ (¬ v < t.n → t.place a v = (t, .err .key)) := by
  unfold Net.place
  constructor <;> intro h <;> simp [h]

theorem net_place_err (t : Net) (a : Aid) (v : Nat) (e : Err) (h : (t.place a v).2 = .err e) : (t.place a v).1 = t := by
  unfold Net.place at h ⊢
  split
  · rename_i hv; simp [hv] at h
  · rfl

theorem net_place_n (t : Net) (a : Aid) (v : Nat) : (t.place a v).1.n = t.n ∧ (t.place a v).1.edges = t.edges := by
  unfold Net.place; split <;> simp

theorem net_place_pos (t : Net) (a : Aid) (v : Nat) (hv : v < t.n) :
    (t.place a v).1.pos a = some v ∧ ∀ b, b ≠ a → (t.place a v).1.pos b = t.pos b := by
  unfold Net.place
  simp only [hv, if_true]
  exact ⟨by simp [updA], fun b hb => by simp [updA, hb]⟩

theorem net_place_content (t : Net) (a : Aid) (v : Nat) (hv : v < t.n) :
    (t.place a v).1.content v = t.content v ++ [a] ∧ ∀ u, u ≠ v → (t.place a v).1.content u = t.content u := by
  unfold Net.place
  simp only [hv, if_true]
  exact ⟨by simp, fun u hu => by simp [hu]⟩

theorem net_place_inv (t : Net) (a : Aid) (v : Nat) (hi : NetInv t) (hpos : t.pos a = none) : NetInv (t.place a v).1 := by
  by_cases hv : v < t.n
  · have hna : ∀ u, a ∉ t.content u := fun u hu => by
      have := (hi.pos_content a u).mpr hu
      rw [hpos] at this; cases this
    obtain ⟨hp1, hp2⟩ := net_place_pos t a v hv
    obtain ⟨hc1, hc2⟩ := net_place_content t a v hv
    refine ⟨?_, ?_, ?_⟩
    · intro b u
      by_cases hb : b = a
      · subst hb
        rw [hp1]
        by_cases hu : u = v
        · subst hu; rw [hc1]; simp
        · rw [hc2 u hu]
          constructor
          · intro h; exact absurd (Option.some.inj h).symm hu
          · intro h; exact absurd h (hna u)
      · rw [hp2 b hb]
        by_cases hu : u = v
        · subst hu; rw [hc1, hi.pos_content]; simp [hb]
        · rw [hc2 u hu, hi.pos_content]
    · intro u hne
      by_cases hu : u = v
      · subst hu; rw [(net_place_n t a u).1]; exact hv
      · rw [hc2 u hu] at hne; rw [(net_place_n t a v).1]; exact hi.in_net u hne
    · intro u
      by_cases hu : u = v
      · subst hu; rw [hc1]
        refine List.nodup_append.mpr ⟨hi.nodup u, List.pairwise_singleton _ a, ?_⟩
        intro x hx y hy hxy
        rw [List.mem_singleton] at hy
        subst hy; subst hxy
        exact hna u hx
      · rw [hc2 u hu]; exact hi.nodup u
  · rw [(net_place_res t a v).2 hv]; exact hi

/-! ### remove -/

theorem net_remove_err (t : Net) (a : Aid) (e : Err) (h : (t.remove a).2 = .err e) : (t.remove a).1 = t := by
  unfold Net.remove at h ⊢
  cases hp : t.pos a with
  | none => rfl
  | some v =>
    simp only [hp] at h ⊢
    by_cases hm : a ∈ t.content v
    · simp [hm] at h
    · simp [hm]

theorem net_remove_n (t : Net) (a : Aid) : (t.remove a).1.n = t.n ∧ (t.remove a).1.edges = t.edges := by
  unfold Net.remove
  split
  · simp
  · split <;> simp

/-- what `remove_agent` does to a placed agent -/
theorem net_remove_placed (t : Net) (hi : NetInv t) (a : Aid) (v : Nat) (hp : t.pos a = some v) :
    (t.remove a).2 = .ok ∧ (t.remove a).1.pos a = none ∧ (∀ b, b ≠ a → (t.remove a).1.pos b = t.pos b) ∧
    (t.remove a).1.content v = (t.content v).erase a ∧ ∀ u, u ≠ v → (t.remove a).1.content u = t.content u := by
  have hm : a ∈ t.content v := (hi.pos_content a v).mp hp
  unfold Net.remove
  simp only [hp, hm, if_true]
  exact ⟨trivial, by simp [updA], fun b hb => by simp [updA, hb], by simp, fun u hu => by simp [hu]⟩

theorem net_remove_unplaced (t : Net) (a : Aid) (hp : t.pos a = none) : t.remove a = (t, .err .key) := by
  unfold Net.remove; simp [hp]

theorem net_remove_inv (t : Net) (a : Aid) (hi : NetInv t) : NetInv (t.remove a).1 := by
  cases hp : t.pos a with
  | none => rw [net_remove_unplaced t a hp]; exact hi
  | some v =>
    obtain ⟨_, hp1, hp2, hc1, hc2⟩ := net_remove_placed t hi a v hp
    have hm : a ∈ t.content v := (hi.pos_content a v).mp hp
    refine ⟨?_, ?_, ?_⟩
    · intro b u
      by_cases hb : b = a
      · subst hb
        rw [hp1]
        by_cases hu : u = v
        · subst hu; rw [hc1]
          constructor
          · intro h; cases h
          · intro h; exact absurd ((hi.nodup u).mem_erase_iff.mp h).1 (by simp)
        · rw [hc2 u hu]
          constructor
          · intro h; cases h
          · intro h
            have := (hi.pos_content b u).mpr h
            rw [hp] at this; exact absurd (Option.some.inj this).symm hu
      · rw [hp2 b hb]
        by_cases hu : u = v
        · subst hu; rw [hc1, hi.pos_content, (hi.nodup u).mem_erase_iff]; simp [hb]
        · rw [hc2 u hu, hi.pos_content]
    · intro u hne
      rw [(net_remove_n t a).1]
      by_cases hu : u = v
      · subst hu; exact hi.in_net u (List.ne_nil_of_mem hm)
      · rw [hc2 u hu] at hne; exact hi.in_net u hne
    · intro u
      by_cases hu : u = v
      · subst hu; rw [hc1]; exact (hi.nodup u).erase a
      · rw [hc2 u hu]; exact hi.nodup u

/-! ### move -/

theorem net_move_missing (t : Net) (a : Aid) (v : Nat) (hv : ¬ v < t.n) : t.move a v = (t, .err .key) := by
  unfold Net.move; simp [hv]

theorem net_move_unplaced (t : Net) (a : Aid) (v : Nat) (hp : t.pos a = none) : t.move a v = (t, .err .key) := by
  unfold Net.move
  split
  · rw [net_remove_unplaced t a hp]
  · rfl

theorem net_move_eq (t : Net) (hi : NetInv t) (a : Aid) (u v : Nat) (hp : t.pos a = some u) (hv : v < t.n) :
    t.move a v = (t.remove a).1.place a v := by
  have hok := (net_remove_placed t hi a u hp).1
  unfold Net.move
  simp only [hv, if_true]
  rcases hr : t.remove a with ⟨t1, r⟩
  rw [hr] at hok
  simp only at hok
  subst hok
  rfl

theorem net_move_err (t : Net) (a : Aid) (v : Nat) (e : Err) (h : (t.move a v).2 = .err e) : (t.move a v).1 = t := by
  unfold Net.move at h ⊢
  split
  · rename_i hv
    rcases hr : t.remove a with ⟨t1, r⟩
    rw [hr] at h
    cases r with
    | ok =>
      simp only at h ⊢
      have hn : t1.n = t.n := by have := (net_remove_n t a).1; rw [hr] at this; exact this
      have := (net_place_res t1 a v).1 (by rw [hn]; exact hv)
      simp only [hv, if_true] at h
      rw [this] at h; cases h
    | err e' =>
      simp only
      have := net_remove_err t a e' (by rw [hr])
      rw [hr] at this; exact this
  · rfl

theorem net_move_inv (t : Net) (a : Aid) (v : Nat) (hi : NetInv t) : NetInv (t.move a v).1 := by
  by_cases hv : v < t.n
  · cases hp : t.pos a with
    | none => rw [net_move_unplaced t a v hp]; exact hi
    | some u =>
      rw [net_move_eq t hi a u v hp hv]
      exact net_place_inv _ a v (net_remove_inv t a hi) (net_remove_placed t hi a u hp).2.1
  · rw [net_move_missing t a v hv]; exact hi

/-- what `move_agent` does to a placed agent and an existing node: the agent leaves its node's list and is
    appended to the target's (also when both are the same node: it goes to the end) -/
theorem net_move_placed (t : Net) (hi : NetInv t) (a : Aid) (u v : Nat) (hp : t.pos a = some u) (hv : v < t.n) :
    (t.move a v).2 = .ok ∧ (t.move a v).1.pos a = some v ∧ (∀ b, b ≠ a → (t.move a v).1.pos b = t.pos b) ∧
    (t.move a v).1.content v = (t.content v).erase a ++ [a] ∧
    (u ≠ v → (t.move a v).1.content u = (t.content u).erase a) ∧
    ∀ x, x ≠ u → x ≠ v → (t.move a v).1.content x = t.content x := by
  obtain ⟨_, _, hp2, hc1, hc2⟩ := net_remove_placed t hi a u hp
  have hn : (t.remove a).1.n = t.n := (net_remove_n t a).1
  have hv' : v < (t.remove a).1.n := by rw [hn]; exact hv
  obtain ⟨hq1, hq2⟩ := net_place_pos (t.remove a).1 a v hv'
  obtain ⟨hd1, hd2⟩ := net_place_content (t.remove a).1 a v hv'
  rw [net_move_eq t hi a u v hp hv]
  refine ⟨(net_place_res _ a v).1 hv', hq1, fun b hb => by rw [hq2 b hb, hp2 b hb], ?_, ?_, ?_⟩
  · rw [hd1]
    by_cases huv : v = u
    · subst huv; rw [hc1]
    · rw [hc2 v huv]
      have : a ∉ t.content v := fun h => by
        have := (hi.pos_content a v).mpr h
        rw [hp] at this; exact huv (Option.some.inj this).symm
      rw [List.erase_of_not_mem this]
  · intro huv; rw [hd2 u huv, hc1]
  · intro x hxu hxv; rw [hd2 x hxv, hc2 x hxu]

/-! ### histories -/

theorem nstep_inv (t : Net) (op : NOp) (hi : NetInv t) (hok : NOpOk t op) : NetInv (nstep t op).1 := by
  cases op with
  | place a v => exact net_place_inv t a v hi hok
  | remove a => exact net_remove_inv t a hi
  | move a v => exact net_move_inv t a v hi

theorem nstep_n (t : Net) (op : NOp) : (nstep t op).1.n = t.n ∧ (nstep t op).1.edges = t.edges := by
  cases op with
  | place a v => exact net_place_n t a v
  | remove a => exact net_remove_n t a
  | move a v =>
    simp only [nstep]
    unfold Net.move
    split
    · rcases hr : t.remove a with ⟨t1, r⟩
      have h1 := net_remove_n t a
      rw [hr] at h1
      cases r with
      | ok => simp only; have h2 := net_place_n t1 a v; exact ⟨h2.1.trans h1.1, h2.2.trans h1.2⟩
      | err e => exact h1
    · exact ⟨rfl, rfl⟩

theorem nrun_inv (t : Net) (ops : List NOp) (hi : NetInv t) (hok : NHistOk t ops) : NetInv (nrun t ops) := by
  induction ops generalizing t with
  | nil => exact hi
  | cons op ops ih => exact ih _ (nstep_inv t op hi hok.1) hok.2

theorem nrun_n (t : Net) (ops : List NOp) : (nrun t ops).n = t.n ∧ (nrun t ops).edges = t.edges := by
  induction ops generalizing t with
  | nil => exact ⟨rfl, rfl⟩
  | cons op ops ih => have := ih (nstep t op).1; have h := nstep_n t op; exact ⟨this.1.trans h.1, this.2.trans h.2⟩

/-- a rejected call leaves the whole state as it was (no invariant needed) -/
theorem nstep_err (t : Net) (op : NOp) (e : Err) (h : (nstep t op).2 = .err e) : (nstep t op).1 = t := by
  cases op with
  | place a v => exact net_place_err t a v e h
  | remove a => exact net_remove_err t a e h
  | move a v => exact net_move_err t a v e h

theorem nrun_naccepted (t : Net) (ops : List NOp) (hok : NHistOk t ops) :
    nrun t (naccepted t ops) = nrun t ops ∧ NHistOk t (naccepted t ops) := by
  induction ops generalizing t with
  | nil => exact ⟨rfl, trivial⟩
  | cons op ops ih =>
    obtain ⟨h1, h2⟩ := ih _ hok.2
    unfold naccepted
    cases hr : (nstep t op).2 with
    | ok => simp only [nrun]; exact ⟨h1, hok.1, h2⟩
    | err e =>
      simp only [nrun]
      have he := nstep_err t op e hr
      rw [he] at h1 h2 ⊢
      exact ⟨h1, h2⟩

/-- the shortened history contains no rejected call -/
theorem naccepted_all_ok (t : Net) (ops : List NOp) :
    ∀ (pre : List NOp) (op : NOp) (post : List NOp), naccepted t ops = pre ++ op :: post → (nstep (nrun t pre) op).2 = .ok := by
  induction ops generalizing t with
  | nil => intro pre op post h; simp [naccepted] at h
  | cons o ops ih =>
    intro pre op post h
    unfold naccepted at h
    cases hr : (nstep t o).2 with
    | ok =>
      rw [hr] at h
      simp only at h
      cases pre with
      | nil => simp at h; rw [← h.1]; simpa [nrun] using hr
      | cons p pre' =>
        simp only [List.cons_append, List.cons.injEq] at h
        obtain ⟨hp, hrest⟩ := h
        subst hp
        simp only [nrun]
        exact ih _ pre' op post hrest
    | err e =>
      rw [hr] at h
      simp only at h
      have := nstep_err t o e hr
      rw [this] at h
      exact ih t pre op post h

/-! ### reads -/

theorem net_cellsContents_eq (t : Net) (nodes : List Nat) : t.cellsContents nodes = nodes.flatMap t.content :=
  flatMap_filter_nonempty t.content nodes

theorem net_flatMap_nodup (t : Net) (hi : NetInv t) (nodes : List Nat) (hnd : nodes.Nodup) : (nodes.flatMap t.content).Nodup := by
  unfold List.Nodup
  rw [List.pairwise_flatMap]
  refine ⟨fun c _ => hi.nodup c, ?_⟩
  refine List.Pairwise.imp ?_ hnd
  intro c c' hne x hx y hy hxy
  subst hxy
  have h1 := (hi.pos_content x c).mpr hx
  have h2 := (hi.pos_content x c').mpr hy
  rw [h1] at h2
  exact hne (Option.some.inj h2)

/-- the agents returned for a duplicate-free list of nodes are exactly the agents whose `pos` is one of them, each once -/
theorem net_cellsContents_spec (t : Net) (hi : NetInv t) (nodes : List Nat) (hnd : nodes.Nodup) :
    (t.cellsContents nodes).Nodup ∧ ∀ a, a ∈ t.cellsContents nodes ↔ ∃ u ∈ nodes, t.pos a = some u := by
  rw [net_cellsContents_eq]
  refine ⟨net_flatMap_nodup t hi nodes hnd, ?_⟩
  intro a
  simp only [List.mem_flatMap]
  constructor
  · rintro ⟨c, hc, ha⟩; exact ⟨c, hc, (hi.pos_content a c).mpr ha⟩
  · rintro ⟨c, hc, ha⟩; exact ⟨c, hc, (hi.pos_content a c).mp ha⟩

theorem net_all_spec (t : Net) (hi : NetInv t) :
    t.getAllCellContents.Nodup ∧ (∀ a, a ∈ t.getAllCellContents ↔ t.pos a ≠ none) ∧
    t.agentsList = t.getAllCellContents ∧ t.getAllCellContents = t.allNodes.flatMap t.content := by
  have hnd : t.allNodes.Nodup := by unfold Net.allNodes; exact List.nodup_range
  obtain ⟨h1, h2⟩ := net_cellsContents_spec t hi t.allNodes hnd
  refine ⟨h1, ?_, ?_, net_cellsContents_eq t _⟩
  · intro a
    rw [show t.getAllCellContents = t.cellsContents t.allNodes from rfl, h2]
    constructor
    · rintro ⟨u, _, hu⟩ h; rw [h] at hu; cases hu
    · intro h
      cases hp : t.pos a with
      | none => exact absurd hp h
      | some u =>
        refine ⟨u, ?_, rfl⟩
        unfold Net.allNodes
        exact List.mem_range.mpr (hi.in_net u (List.ne_nil_of_mem ((hi.pos_content a u).mp hp)))
  · unfold Net.agentsList Net.getAllCellContents dedup
    rw [net_cellsContents_eq]
    have := foldl_dedup_of_nodup (t.allNodes.flatMap t.content) [] (by simpa using net_flatMap_nodup t hi _ hnd)
    simpa using this

end Mesa.Legacy
