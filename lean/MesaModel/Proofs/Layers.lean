import MesaModel.Model.Layers
/-!
Helper lemmas for C11 / C18-layers: the structural invariant `WF` of the layer table and the heap
(every layer owns its array; attached names resolve to live layers of the grid's shape) and its
preservation by every op.
-/
namespace Mesa.Layers

/-! ### small list facts -/

theorem lookup_filter_ne {β : Type} (l : List (String × β)) (name n : String) (h : n ≠ name) :
    (l.filter (fun p => decide (p.1 ≠ name))).lookup n = l.lookup n := by
  induction l with
  | nil => rfl
  | cons p l ih =>
    obtain ⟨k, b⟩ := p
    by_cases hk : k = name
    · subst hk
      have h1 : (n == k) = false := by simpa using h
      have h2 : decide ((k, b).1 ≠ k) = false := by simp
      rw [List.filter_cons, if_neg (by simp), List.lookup_cons, h1]
      exact ih
    · have h2 : decide ((k, b).1 ≠ name) = true := by simpa using hk
      rw [List.filter_cons, if_pos h2, List.lookup_cons, List.lookup_cons, ih]

theorem lookup_filter_self {β : Type} (l : List (String × β)) (name : String) :
    (l.filter (fun p => decide (p.1 ≠ name))).lookup name = none := by
  induction l with
  | nil => rfl
  | cons p l ih =>
    obtain ⟨k, b⟩ := p
    by_cases hk : k = name
    · rw [List.filter_cons, if_neg (by simpa using hk)]
      exact ih
    · have h1 : (name == k) = false := by simpa using fun h => hk h.symm
      rw [List.filter_cons, if_pos (by simpa using hk), List.lookup_cons, h1]
      exact ih

@[simp] theorem upd_same {α : Type} (f : Nat → α) (i : Nat) (x : α) : upd f i x i = x := by simp [upd]

theorem upd_other {α : Type} (f : Nat → α) (i j : Nat) (x : α) (h : j ≠ i) : upd f i x j = f j := by
  simp [upd, h]

/-! ### the structural invariant -/

/-- Every layer object owns its array (no two layers share one, all arrays are allocated),
    every attached name resolves to a live layer that carries that name and has the grid's shape,
    and user-held references point to allocated arrays. -/
structure WF (s : State) : Prop where
  next_pos : 0 < s.next
  data_lt : ∀ l, l < s.nLayers → (s.layers l).data < s.next
  data_inj : ∀ l1 l2, l1 < s.nLayers → l2 < s.nLayers → (s.layers l1).data = (s.layers l2).data → l1 = l2
  att_lt : ∀ n l, s.attached.lookup n = some l → l < s.nLayers
  att_name : ∀ n l, s.attached.lookup n = some l → (s.layers l).name = n
  att_dims : ∀ n l, s.attached.lookup n = some l → (s.layers l).dims = s.dims
  handle_lt : ∀ h a d, s.handles.lookup h = some (a, d) → a < s.next
  legacy_data : s.impl ≠ .new → ∀ l, l < s.nLayers → (s.layers l).data ≠ 0
  /-- new grids: an attached name is not an attribute of the cell class -/
  att_free : s.impl = .new → ∀ n l, s.attached.lookup n = some l → n ∉ reservedNames
  /-- new grids: the descriptors on the cell class and the layer dict are the same map -/
  descr_eq : s.impl = .new → ∀ n, s.descr.lookup n = s.attached.lookup n

/-- two states with the same tables (they may differ in array contents, agents, instance
    attributes, saved masks) -/
structure SameShape (s s' : State) : Prop where
  impl : s'.impl = s.impl
  dims : s'.dims = s.dims
  cap : s'.cap = s.cap
  next : s'.next = s.next
  layers : s'.layers = s.layers
  nLayers : s'.nLayers = s.nLayers
  attached : s'.attached = s.attached
  handles : s'.handles = s.handles
  adt : s'.adt = s.adt
  descr : s'.descr = s.descr

theorem SameShape.refl (s : State) : SameShape s s := ⟨rfl, rfl, rfl, rfl, rfl, rfl, rfl, rfl, rfl, rfl⟩

theorem SameShape.trans {a b c : State} (h1 : SameShape a b) (h2 : SameShape b c) : SameShape a c :=
  ⟨h2.impl.trans h1.impl, h2.dims.trans h1.dims, h2.cap.trans h1.cap, h2.next.trans h1.next,
   h2.layers.trans h1.layers, h2.nLayers.trans h1.nLayers, h2.attached.trans h1.attached,
   h2.handles.trans h1.handles, h2.adt.trans h1.adt, h2.descr.trans h1.descr⟩

theorem WF.of_sameShape {s s' : State} (h : WF s) (e : SameShape s s') : WF s' := by
  obtain ⟨e1, e2, _, e3, e4, e5, e6, e7, _, e8⟩ := e
  constructor
  · rw [e3]; exact h.next_pos
  · rw [e3, e4, e5]; exact h.data_lt
  · rw [e4, e5]; exact h.data_inj
  · rw [e5, e6]; exact h.att_lt
  · rw [e4, e6]; exact h.att_name
  · rw [e2, e4, e6]; exact h.att_dims
  · rw [e3, e7]; exact h.handle_lt
  · rw [e1, e4, e5]; exact h.legacy_data
  · rw [e1, e6]; exact h.att_free
  · rw [e1, e6, e8]; exact h.descr_eq

theorem WF_init (impl : Impl) (dims : List Nat) (cap : Option Nat) : WF (init impl dims cap) := by
  constructor
  · simp [init]
  · intro l hl; simp [init]
  · intro l1 l2 h1 h2 _
    simp only [init] at h1 h2
    split at h1 <;> split at h2 <;> omega
  · intro n l h
    simp only [init] at h ⊢
    split at h
    · simp only [List.lookup_cons, List.lookup_nil] at h
      split at h <;> simp_all
    · simp at h
  · intro n l h
    simp only [init] at h ⊢
    split at h
    · simp only [List.lookup_cons, List.lookup_nil] at h
      split at h
      · next hb => simpa using (beq_iff_eq.mp hb).symm
      · simp at h
    · simp at h
  · intro n l h; simp [init]
  · intro h a d hh; simp [init] at hh
  · intro hi l hl
    simp only [init] at hl hi
    rw [if_neg hi] at hl
    omega
  · intro hi n l h
    simp only [init] at h
    split at h
    · simp only [List.lookup_cons, List.lookup_nil] at h
      split at h
      · next hb => rw [beq_iff_eq.mp hb]; decide
      · simp at h
    · simp at h
  · intro hi n
    simp [init]

/-! ### shape of the heap-only / table-free ops -/

theorem sameShape_cellAttrWrite (s : State) (n : String) (c : Coord) (v : Int) :
    SameShape s (cellAttrWrite s n c v) := by
  unfold cellAttrWrite
  split <;> exact ⟨rfl, rfl, rfl, rfl, rfl, rfl, rfl, rfl, rfl, rfl⟩

theorem sameShape_writeEmpty (s : State) (c : Coord) (v : Int) : SameShape s (writeEmpty s c v) := by
  unfold writeEmpty
  split
  · exact sameShape_cellAttrWrite ..
  · exact ⟨rfl, rfl, rfl, rfl, rfl, rfl, rfl, rfl, rfl, rfl⟩

theorem sameShape_afterLeave (s : State) (c : Coord) : SameShape s (afterLeave s c) := by
  unfold afterLeave
  split
  · exact sameShape_writeEmpty ..
  · exact sameShape_writeEmpty ..
  · split
    · exact sameShape_writeEmpty ..
    · exact SameShape.refl s

theorem sameShape_layerSet (s : State) (l : Nat) (c : Coord) (v : Int) :
    SameShape s (layerSet s l c v).1 := by
  unfold layerSet
  split
  · exact SameShape.refl s
  · split <;> exact ⟨rfl, rfl, rfl, rfl, rfl, rfl, rfl, rfl, rfl, rfl⟩

theorem sameShape_cellSet (s : State) (n : String) (c : Coord) (v : Int) :
    SameShape s (cellSet s n c v).1 := by
  unfold cellSet
  split
  · split
    · exact SameShape.refl s
    · split
      · exact SameShape.refl s
      · exact sameShape_cellAttrWrite ..
  · split
    · exact SameShape.refl s
    · simp only
      split <;> exact ⟨rfl, rfl, rfl, rfl, rfl, rfl, rfl, rfl, rfl, rfl⟩

theorem sameShape_cellSet2 (s : State) (l : Nat) (c : Coord) (w : WVal) :
    SameShape s (cellSet2 s l c w).1 := by
  unfold cellSet2
  split
  · exact SameShape.refl s
  · exact sameShape_layerSet ..

theorem sameShape_setCells (s : State) (l : Nat) (v : Int) (cond : Option (Int → Bool)) :
    SameShape s (setCells s l v cond).1 := by
  unfold setCells
  split <;> exact ⟨rfl, rfl, rfl, rfl, rfl, rfl, rfl, rfl, rfl, rfl⟩

theorem sameShape_setFrom (s : State) (l : Nat) (hd : Nat) (cond : Option (Int → Bool)) :
    SameShape s (setFrom s l hd cond).1 := by
  unfold setFrom
  split
  · exact SameShape.refl s
  · split
    · exact SameShape.refl s
    · split
      · exact SameShape.refl s
      · split
        · exact SameShape.refl s
        · split
          · exact SameShape.refl s
          · exact ⟨rfl, rfl, rfl, rfl, rfl, rfl, rfl, rfl, rfl, rfl⟩

/-! ### the `np.vectorize` guard of the bulk ops: the guarded call happens, or nothing does -/

theorem vecGuard_cases (s : State) (l : Nat) (b : Bool) (k : State × Out) :
    vecGuard s l b k = k ∨ vecGuard s l b k = (s, .err (.value .size0)) := by
  unfold vecGuard
  split
  · exact Or.inr rfl
  · exact Or.inl rfl

/-- whatever holds of the guarded call's state and of the unchanged state holds of the result -/
theorem vecGuard_fst {P : State → Prop} (s : State) (l : Nat) (b : Bool) (k : State × Out) (h1 : P k.1) (h2 : P s) :
    P (vecGuard s l b k).1 := by
  rcases vecGuard_cases s l b k with e | e <;> rw [e]
  · exact h1
  · exact h2

theorem sameShape_modifyCell (s : State) (l : Nat) (c : Coord) (f : Option (Int → Int)) :
    SameShape s (modifyCell s l c f).1 := by
  unfold modifyCell
  split
  · exact SameShape.refl s
  · split
    · exact SameShape.refl s
    · split
      · exact SameShape.refl s
      · split <;> exact ⟨rfl, rfl, rfl, rfl, rfl, rfl, rfl, rfl, rfl, rfl⟩

theorem sameShape_modifyCellU (s : State) (l : Nat) (c : Coord) (op : UOp) (x : Val) :
    SameShape s (modifyCellU s l c op x).1 := by
  unfold modifyCellU
  split
  · exact SameShape.refl s
  · split
    · exact SameShape.refl s
    · split
      · exact SameShape.refl s
      · split
        · exact SameShape.refl s
        · exact sameShape_modifyCell ..

theorem sameShape_hset (s : State) (h : Nat) (c : Coord) (v : Int) : SameShape s (hset s h c v).1 := by
  unfold hset
  split
  · exact SameShape.refl s
  · split <;> exact ⟨rfl, rfl, rfl, rfl, rfl, rfl, rfl, rfl, rfl, rfl⟩

theorem sameShape_place (s : State) (a : Nat) (c : Coord) : SameShape s (place s a c).1 := by
  unfold place
  split
  · exact SameShape.refl s
  · split
    · exact SameShape.refl s
    · split
      · exact SameShape.refl s
      · exact SameShape.trans (b := { s with agents := s.agents ++ [(a, c)] })
          ⟨rfl, rfl, rfl, rfl, rfl, rfl, rfl, rfl, rfl, rfl⟩ (sameShape_writeEmpty ..)

theorem sameShape_remove (s : State) (a : Nat) : SameShape s (remove s a).1 := by
  unfold remove
  split
  · exact SameShape.refl s
  · exact SameShape.trans (b := { s with agents := s.agents.filter (·.1 ≠ a) })
      ⟨rfl, rfl, rfl, rfl, rfl, rfl, rfl, rfl, rfl, rfl⟩ (sameShape_afterLeave ..)

theorem sameShape_move (s : State) (a : Nat) (c : Coord) : SameShape s (move s a c).1 := by
  unfold move
  split
  · exact SameShape.refl s
  · next c0 _ =>
    split
    · exact SameShape.refl s
    · split
      · exact SameShape.refl s
      · have h1 : SameShape s (afterLeave { s with agents := s.agents.filter (·.1 ≠ a) } c0) :=
          SameShape.trans (b := { s with agents := s.agents.filter (·.1 ≠ a) })
            ⟨rfl, rfl, rfl, rfl, rfl, rfl, rfl, rfl, rfl, rfl⟩ (sameShape_afterLeave ..)
        refine SameShape.trans h1 (SameShape.trans (b := { afterLeave { s with agents := s.agents.filter (·.1 ≠ a) } c0 with
          agents := (afterLeave { s with agents := s.agents.filter (·.1 ≠ a) } c0).agents ++ [(a, c)] }) ?_ (sameShape_writeEmpty ..))
        exact ⟨rfl, rfl, rfl, rfl, rfl, rfl, rfl, rfl, rfl, rfl⟩

/-! ### ops that change the tables -/

/-- allocate a fresh array and a new layer object owning it -/
theorem WF.alloc {s s' : State} (h : WF s) (L : Layer) (hL : L.data = s.next)
    (e1 : s'.impl = s.impl) (e2 : s'.dims = s.dims) (e3 : s'.next = s.next + 1)
    (e4 : s'.layers = upd s.layers s.nLayers L) (e5 : s'.nLayers = s.nLayers + 1)
    (e6 : s'.attached = s.attached) (e7 : s'.handles = s.handles) (e8 : s'.descr = s.descr := by rfl) : WF s' := by
  have hp := h.next_pos
  constructor
  · rw [e3]; omega
  · intro l hl
    rw [e5] at hl
    rw [e3, e4]
    simp only [upd]
    split
    · omega
    · have := h.data_lt l (by omega); omega
  · intro l1 l2 h1 h2 he
    rw [e5] at h1 h2
    rw [e4] at he
    simp only [upd] at he
    split at he <;> split at he
    · omega
    · have := h.data_lt l2 (by omega); omega
    · have := h.data_lt l1 (by omega); omega
    · exact h.data_inj l1 l2 (by omega) (by omega) he
  · intro n' l hl
    rw [e6] at hl
    have := h.att_lt n' l hl
    rw [e5]; omega
  · intro n' l hl
    rw [e6] at hl
    have := h.att_lt n' l hl
    rw [e4]
    simp only [upd]
    rw [if_neg (by omega)]
    exact h.att_name n' l hl
  · intro n' l hl
    rw [e6] at hl
    have := h.att_lt n' l hl
    rw [e4, e2]
    simp only [upd]
    rw [if_neg (by omega)]
    exact h.att_dims n' l hl
  · intro hh a dd hl
    rw [e7] at hl
    have := h.handle_lt hh a dd hl
    rw [e3]; omega
  · intro hi l hl
    rw [e1] at hi
    rw [e5] at hl
    rw [e4]
    simp only [upd]
    split
    · omega
    · exact h.legacy_data hi l (by omega)
  · rw [e1, e6]; exact h.att_free
  · rw [e1, e6, e8]; exact h.descr_eq

/-- register a live, well-shaped layer under its own (so far unused) name -/
theorem WF.attachName {s s' : State} (h : WF s) (lid : Nat) (hlt : lid < s.nLayers)
    (hdims : (s.layers lid).dims = s.dims) (hnone : s.attached.lookup (s.layers lid).name = none)
    (hfree : s.impl = .new → (s.layers lid).name ∉ reservedNames)
    (e1 : s'.impl = s.impl) (e2 : s'.dims = s.dims) (e3 : s'.next = s.next)
    (e4 : s'.layers = s.layers) (e5 : s'.nLayers = s.nLayers)
    (e6 : s'.attached = s.attached ++ [((s.layers lid).name, lid)]) (e7 : s'.handles = s.handles)
    (e8 : s'.descr = if s.impl = .new then setDescr s.descr (s.layers lid).name lid else s.descr) :
    WF s' := by
  have key : ∀ n' l', s'.attached.lookup n' = some l' →
      s.attached.lookup n' = some l' ∨ (n' = (s.layers lid).name ∧ l' = lid) := by
    intro n' l' hh
    rw [e6] at hh
    simp only [List.lookup_append] at hh
    cases h1 : s.attached.lookup n' with
    | some x => rw [h1] at hh; simp at hh; subst hh; exact Or.inl rfl
    | none =>
      rw [h1] at hh
      simp only [Option.none_or, List.lookup_cons, List.lookup_nil] at hh
      split at hh
      · next hb => simp at hh; exact Or.inr ⟨beq_iff_eq.mp hb, hh.symm⟩
      · simp at hh
  constructor
  · rw [e3]; exact h.next_pos
  · rw [e3, e4, e5]; exact h.data_lt
  · rw [e4, e5]; exact h.data_inj
  · intro n' l' hh
    rw [e5]
    rcases key n' l' hh with h1 | ⟨_, rfl⟩
    · exact h.att_lt n' l' h1
    · exact hlt
  · intro n' l' hh
    rw [e4]
    rcases key n' l' hh with h1 | ⟨rfl, rfl⟩
    · exact h.att_name n' l' h1
    · rfl
  · intro n' l' hh
    rw [e4, e2]
    rcases key n' l' hh with h1 | ⟨_, rfl⟩
    · exact h.att_dims n' l' h1
    · exact hdims
  · rw [e3, e7]; exact h.handle_lt
  · rw [e1, e4, e5]; exact h.legacy_data
  · intro hi n' l' hh
    rw [e1] at hi
    rcases key n' l' hh with h1 | ⟨rfl, _⟩
    · exact h.att_free hi n' l' h1
    · exact hfree hi
  · intro hi n'
    rw [e1] at hi
    rw [e8, e6, if_pos hi]
    unfold setDescr
    by_cases hn : n' = (s.layers lid).name
    · subst hn
      simp [List.lookup_append, hnone]
    · have hb : (n' == (s.layers lid).name) = false := by simpa using hn
      rw [List.lookup_cons, hb, lookup_filter_ne _ _ _ hn, h.descr_eq hi n', List.lookup_append]
      simp [List.lookup_cons, hb]

theorem WF_newLayer {s : State} (h : WF s) (n : String) (dims : List Nat) (dt : DType) (d : Int) :
    WF (newLayer s n dims dt d).1 := by
  unfold newLayer
  split
  · exact h
  · exact h.alloc ⟨n, dims, s.next⟩ rfl rfl rfl rfl rfl rfl rfl rfl

theorem attachCheck_none {s : State} {l : Layer} (h : attachCheck s l = none) :
    s.attached.lookup l.name = none ∧ l.dims = s.dims ∧ (s.impl = .new → l.name ∉ reservedNames) := by
  unfold attachCheck at h
  split at h
  · split at h
    · simp at h
    · split at h
      · simp at h
      · split at h
        · simp at h
        · next h1 h2 h3 =>
          simp only [State.named?, Option.isSome_iff_ne_none, ne_eq, Decidable.not_not] at h2
          exact ⟨h2, by simpa using h1, fun _ => h3⟩
  · next hi =>
    split at h
    · simp at h
    · split at h
      · simp at h
      · next h1 h2 =>
        simp only [State.named?, Option.isSome_iff_ne_none, ne_eq, Decidable.not_not] at h1
        exact ⟨h1, by simpa using h2, fun e => absurd e hi⟩

theorem WF_create {s : State} (h : WF s) (n : String) (dt : DType) (d : Int) : WF (create s n dt d).1 := by
  unfold create
  split
  · exact h
  · next hc =>
    obtain ⟨hnone, _, hfree⟩ := attachCheck_none hc
    simp only at hnone hfree
    -- first the allocation, then the registration
    let s1 : State := { s with heap := upd s.heap s.next (fun _ => d), adt := upd s.adt s.next dt, next := s.next + 1,
                                layers := upd s.layers s.nLayers ⟨n, s.dims, s.next⟩, nLayers := s.nLayers + 1 }
    have h1 : WF s1 := h.alloc ⟨n, s.dims, s.next⟩ rfl rfl rfl rfl rfl rfl rfl rfl
    have hl : s1.layers s.nLayers = ⟨n, s.dims, s.next⟩ := by simp [s1]
    refine h1.attachName s.nLayers (by simp [s1]) (by rw [hl]) (by rw [hl]; exact hnone)
      (by rw [hl]; exact hfree) rfl rfl rfl rfl rfl ?_ rfl ?_
    · rw [hl]
    · rw [hl]

theorem layer?_some {s : State} {lid : Nat} {l : Layer} (h : s.layer? lid = some l) :
    lid < s.nLayers ∧ l = s.layers lid := by
  unfold State.layer? at h
  split at h
  · next hlt => simp at h; exact ⟨hlt, h.symm⟩
  · simp at h

theorem WF_attach {s : State} (h : WF s) (lid : Nat) : WF (attach s lid).1 := by
  unfold attach
  split
  · exact h
  · next l hl =>
    obtain ⟨hlt, rfl⟩ := layer?_some hl
    split
    · exact h
    · next hc =>
      obtain ⟨hnone, hdims, hfree⟩ := attachCheck_none hc
      exact h.attachName lid hlt hdims hnone hfree rfl rfl rfl rfl rfl rfl rfl rfl

theorem WF_detach {s : State} (h : WF s) (n : String) : WF (detach s n).1 := by
  unfold detach
  split
  · exact h
  · have key : ∀ n' l', (s.attached.filter (fun p => decide (p.1 ≠ n))).lookup n' = some l' →
        s.attached.lookup n' = some l' := by
      intro n' l' hh
      by_cases hn : n' = n
      · subst hn; rw [lookup_filter_self] at hh; simp at hh
      · rwa [lookup_filter_ne _ _ _ hn] at hh
    constructor
    · exact h.next_pos
    · exact h.data_lt
    · exact h.data_inj
    · intro n' l' hh; exact h.att_lt n' l' (key n' l' hh)
    · intro n' l' hh; exact h.att_name n' l' (key n' l' hh)
    · intro n' l' hh; exact h.att_dims n' l' (key n' l' hh)
    · exact h.handle_lt
    · exact h.legacy_data
    · intro hi n' l' hh; exact h.att_free hi n' l' (key n' l' hh)
    · intro hi n'
      show (s.descr.filter (fun p => decide (p.1 ≠ n))).lookup n' = (s.attached.filter (fun p => decide (p.1 ≠ n))).lookup n'
      by_cases hn : n' = n
      · subst hn; rw [lookup_filter_self, lookup_filter_self]
      · rw [lookup_filter_ne _ _ _ hn, lookup_filter_ne _ _ _ hn]; exact h.descr_eq hi n'

/-- re-point layer `lid` to a freshly allocated array (whatever its contents and dtype) -/
theorem WF.repoint {s s' : State} (h : WF s) (lid : Nat) (hlt : lid < s.nLayers)
    (e1 : s'.impl = s.impl) (e2 : s'.dims = s.dims) (e3 : s'.next = s.next + 1)
    (e4 : s'.layers = upd s.layers lid { s.layers lid with data := s.next }) (e5 : s'.nLayers = s.nLayers)
    (e6 : s'.attached = s.attached) (e7 : s'.handles = s.handles) (e8 : s'.descr = s.descr := by rfl) : WF s' := by
  constructor
  · rw [e3]; omega
  · intro l hl
    rw [e5] at hl
    rw [e3, e4]
    simp only [upd]
    split
    · simp
    · have := h.data_lt l hl; omega
  · intro l1 l2 h1 h2 he
    rw [e5] at h1 h2
    rw [e4] at he
    simp only [upd] at he
    split at he <;> split at he
    · omega
    · have := h.data_lt l2 h2; simp at he; omega
    · have := h.data_lt l1 h1; simp at he; omega
    · exact h.data_inj l1 l2 h1 h2 he
  · rw [e5, e6]; exact h.att_lt
  · intro n' l' hh
    rw [e6] at hh
    rw [e4]
    simp only [upd]
    split
    · next he => subst he; exact h.att_name n' _ hh
    · exact h.att_name n' l' hh
  · intro n' l' hh
    rw [e6] at hh
    rw [e4, e2]
    simp only [upd]
    split
    · next he => subst he; exact h.att_dims n' _ hh
    · exact h.att_dims n' l' hh
  · intro hh a dd hl
    rw [e7] at hl
    have := h.handle_lt hh a dd hl
    rw [e3]
    omega
  · intro hi l hl
    rw [e1] at hi
    rw [e5] at hl
    rw [e4]
    simp only [upd]
    split
    · have := h.next_pos; simp; omega
    · exact h.legacy_data hi l hl
  · rw [e1, e6]; exact h.att_free
  · rw [e1, e6, e8]; exact h.descr_eq

theorem WF_modifyCells {s : State} (h : WF s) (lid : Nat) (f : Option (Int → Int))
    (cond : Option (Int → Bool)) : WF (modifyCells s lid f cond).1 := by
  unfold modifyCells
  split
  · exact h
  · next l hl =>
    obtain ⟨hlt, rfl⟩ := layer?_some hl
    split
    · exact h
    · exact h.repoint lid hlt rfl rfl rfl rfl rfl rfl rfl

theorem WF_modifyCellsT {s : State} (h : WF s) (lid : Nat) (f : Option (Int → Int))
    (cond : Option (Int → Bool)) (rd : DType) : WF (modifyCellsT s lid f cond rd).1 := by
  unfold modifyCellsT
  split
  · exact h
  · next l hl =>
    obtain ⟨hlt, rfl⟩ := layer?_some hl
    split
    · exact h
    · exact h.repoint lid hlt rfl rfl rfl rfl rfl rfl rfl

theorem WF_modifyU {s : State} (h : WF s) (lid : Nat) (op : UOp) (x : Val)
    (cond : Option (Int → Bool)) : WF (modifyU s lid op x cond).1 := by
  unfold modifyU
  split
  · exact h
  · split
    · exact h
    · exact WF_modifyCellsT h ..

theorem sameShape_setCellsV (s : State) (l : Nat) (x : Val) (cond : Option (Int → Bool)) :
    SameShape s (setCellsV s l x cond).1 := by
  unfold setCellsV
  split
  · exact SameShape.refl s
  · split
    · exact SameShape.refl s
    · exact sameShape_setCells ..

theorem WF_grab {s : State} (h : WF s) (hd : Nat) (lid : Nat) : WF (grab s hd lid).1 := by
  unfold grab
  split
  · exact h
  · next l hl =>
    obtain ⟨hlt, rfl⟩ := layer?_some hl
    constructor
    · exact h.next_pos
    · exact h.data_lt
    · exact h.data_inj
    · exact h.att_lt
    · exact h.att_name
    · exact h.att_dims
    · intro hh a dd hl
      simp only [List.lookup_cons] at hl
      split at hl
      · simp at hl; rw [← hl.1]; exact h.data_lt lid hlt
      · exact h.handle_lt hh a dd hl
    · exact h.legacy_data
    · exact h.att_free
    · exact h.descr_eq

theorem WF_grabMask {s : State} (h : WF s) (hd : Nat) : WF (grabMask s hd).1 := by
  unfold grabMask
  split
  · exact h
  · constructor
    · exact h.next_pos
    · exact h.data_lt
    · exact h.data_inj
    · exact h.att_lt
    · exact h.att_name
    · exact h.att_dims
    · intro hh a dd hl
      simp only [List.lookup_cons] at hl
      split at hl
      · simp at hl; rw [← hl.1]; exact h.next_pos
      · exact h.handle_lt hh a dd hl
    · exact h.legacy_data
    · exact h.att_free
    · exact h.descr_eq

theorem WF_fromData {s : State} (h : WF s) (n : String) (hd : Nat) : WF (fromData s n hd).1 := by
  unfold fromData
  split
  · exact h
  · split
    · exact h
    · next a dims _ =>
      split
      · exact h
      · exact h.alloc ⟨n, dims, s.next⟩ rfl rfl rfl rfl rfl rfl rfl rfl

theorem sameShape_nbhdMask (s : State) (k : Nat) (geom : Option Bool) (torus : Bool) (c : Coord) (ic : Bool)
    (r : Nat) : SameShape s (nbhdMask s k geom torus c ic r).1 := by
  unfold nbhdMask
  split
  · exact SameShape.refl s
  · split
    · exact SameShape.refl s
    · split
      · exact SameShape.refl s
      · exact ⟨rfl, rfl, rfl, rfl, rfl, rfl, rfl, rfl, rfl, rfl⟩

theorem sameShape_gridSet (s : State) (n : String) : SameShape s (gridSet s n).1 := by
  unfold gridSet
  split
  · exact SameShape.refl s
  · split
    · exact SameShape.refl s
    · exact ⟨rfl, rfl, rfl, rfl, rfl, rfl, rfl, rfl, rfl, rfl⟩

theorem WF_step {s : State} (h : WF s) (op : Op) : WF (step s op).1 := by
  cases op with
  | create n dt d => exact WF_create h n dt (d.resolve dt)
  | newLayer n dims dt d => exact WF_newLayer h n dims dt (d.resolve dt)
  | attach l => exact WF_attach h l
  | detach n => exact WF_detach h n
  | layerSet l c v => exact h.of_sameShape (sameShape_layerSet ..)
  | layerGet l c => exact h
  | cellSet n c v => exact h.of_sameShape (sameShape_cellSet ..)
  | cellGet n c => exact h
  | cellSet2 l c w => exact h.of_sameShape (sameShape_cellSet2 ..)
  | cellGet2 l c => exact h
  | setCells l w cond =>
    cases w with
    | raw v => exact vecGuard_fst (P := WF) _ _ _ _ (h.of_sameShape (sameShape_setCells ..)) h
    | py x => exact vecGuard_fst (P := WF) _ _ _ _ (h.of_sameShape (sameShape_setCellsV ..)) h
  | setFrom l hd cond => exact h.of_sameShape (sameShape_setFrom ..)
  | modifyCells l vec f cond => exact vecGuard_fst (P := WF) _ _ _ _ (WF_modifyCells h l f cond) h
  | modifyT l f cond rd => exact vecGuard_fst (P := WF) _ _ _ _ (WF_modifyCellsT h l f cond rd) h
  | modifyU l vec op x cond => exact vecGuard_fst (P := WF) _ _ _ _ (WF_modifyU h l op x cond) h
  | modifyCell l c f => exact h.of_sameShape (sameShape_modifyCell ..)
  | modifyCellU l c op x => exact h.of_sameShape (sameShape_modifyCellU ..)
  | grab hd l => exact WF_grab h hd l
  | grabMask hd => exact WF_grabMask h hd
  | fromData n hd => exact WF_fromData h n hd
  | hget hd c => exact h
  | hset hd c v => exact h.of_sameShape (sameShape_hset ..)
  | hdump hd => exact h
  | dump l => exact h
  | dumpName n => exact h
  | dtype l => exact h
  | layerSelect l p => exact h
  | aggregate l k => exact h
  | place a c => exact h.of_sameShape (sameShape_place ..)
  | move a c => exact h.of_sameShape (sameShape_move ..)
  | remove a => exact h.of_sameShape (sameShape_remove ..)
  | empties => exact h
  | nbhdMask k geom torus c ic r => exact h.of_sameShape (sameShape_nbhdMask ..)
  | gridSet n => exact h.of_sameShape (sameShape_gridSet ..)
  | select ms oe conds exts save =>
    simp only [step]
    split
    · exact h
    · split
      · exact h
      · split
        · exact h
        · exact h.of_sameShape ⟨rfl, rfl, rfl, rfl, rfl, rfl, rfl, rfl, rfl, rfl⟩

theorem WF_run {s : State} (h : WF s) (ops : List Op) : WF (run s ops).1 := by
  induction ops generalizing s with
  | nil => exact h
  | cons op ops ih =>
    simp only [run]
    exact ih (WF_step h op)

end Mesa.Layers
