import MesaModel.Model.CopySet
/-!
Helper lemmas for the AgentSet half of C19 (`Model/CopySet.lean`): well-formedness of worlds, the congruence of `view`
(what a set shows depends only on the records of `deps`), the frame lemma per operation, the copy lemmas.
-/
namespace Mesa.CopySet

/-! ### small list facts -/

theorem mem_dedup (x : Nat) : ∀ l : List Nat, x ∈ dedup l ↔ x ∈ l
  | [] => by simp [dedup]
  | y :: ys => by
    simp only [dedup, List.mem_cons, List.mem_filter, mem_dedup x ys]
    constructor
    · rintro (h | ⟨h, _⟩)
      · exact Or.inl h
      · exact Or.inr h
    · rintro (h | h)
      · exact Or.inl h
      · by_cases hxy : x = y
        · exact Or.inl hxy
        · exact Or.inr ⟨h, by simpa using hxy⟩

theorem mem_insertBy (key : Nat → Int) (x y : Nat) : ∀ l : List Nat, y ∈ insertBy key x l ↔ y = x ∨ y ∈ l
  | [] => by simp [insertBy]
  | z :: zs => by
    simp only [insertBy]
    split
    · simp
    · simp only [List.mem_cons, mem_insertBy key x y zs]
      constructor
      · rintro (h | h | h)
        · exact Or.inr (Or.inl h)
        · exact Or.inl h
        · exact Or.inr (Or.inr h)
      · rintro (h | h | h)
        · exact Or.inr (Or.inl h)
        · exact Or.inl h
        · exact Or.inr (Or.inr h)

theorem mem_sortBy (key : Nat → Int) (y : Nat) : ∀ l : List Nat, y ∈ sortBy key l ↔ y ∈ l
  | [] => by simp [sortBy]
  | z :: zs => by
    have ih := mem_sortBy key y zs
    simp only [sortBy, List.foldr_cons] at ih ⊢
    rw [mem_insertBy, ih]
    simp

/-! ### well-formedness: every identity that occurs is below `next` -/

structure WF (w : World) : Prop where
  agentsLt : ∀ i ar, w.agents i = some ar → i < w.next ∧ ar.model < w.next
  modelsLt : ∀ i mr, w.models i = some mr → i < w.next ∧ mr.gen < w.next ∧ ∀ a ∈ mr.reg, a < w.next
  setsLt : ∀ i r, w.sets i = some r → i < w.next ∧ r.gen < w.next ∧ (∀ a ∈ r.members, a < w.next) ∧ ∀ m ∈ r.owners, m < w.next
  setIdsLt : ∀ s ∈ w.setIds, s < w.next

theorem WF.init : WF Mesa.CopySet.init where
  agentsLt := fun i ar h => by simp [Mesa.CopySet.init] at h
  modelsLt := fun i mr h => by simp [Mesa.CopySet.init] at h
  setsLt := fun i r h => by simp [Mesa.CopySet.init] at h
  setIdsLt := fun s h => by simp [Mesa.CopySet.init] at h

theorem filterMap_congr' {α β} {f g : α → Option β} : ∀ {l : List α}, (∀ a ∈ l, f a = g a) → l.filterMap f = l.filterMap g
  | [], _ => rfl
  | x :: xs, h => by
    simp only [List.filterMap_cons, h x (List.mem_cons_self ..)]
    rw [filterMap_congr' (fun a ha => h a (List.mem_cons_of_mem _ ha))]

theorem any_congr' {α} {p q : α → Bool} : ∀ {l : List α}, (∀ a ∈ l, p a = q a) → l.any p = l.any q
  | [], _ => rfl
  | x :: xs, h => by
    simp only [List.any_cons, h x (List.mem_cons_self ..)]
    rw [any_congr' (fun a ha => h a (List.mem_cons_of_mem _ ha))]

theorem agentAlive_some {w : World} {a : Nat} (h : agentAlive w a = true) :
    ∃ ar mr, w.agents a = some ar ∧ w.models ar.model = some mr ∧ modelAlive w ar.model = true ∧ a ∈ mr.reg := by
  unfold agentAlive at h
  split at h
  · simp at h
  · rename_i ar har
    simp only [Bool.and_eq_true] at h
    obtain ⟨h1, h2⟩ := h
    split at h2
    · rename_i mr hmr
      exact ⟨ar, mr, har, hmr, h1, by simpa using h2⟩
    · simp at h2

theorem modelAlive_some {w : World} {m : Nat} (h : modelAlive w m = true) : ∃ mr, w.models m = some mr := by
  unfold modelAlive at h
  simp only [Bool.and_eq_true] at h
  exact Option.isSome_iff_exists.mp h.1

theorem deps_lt {w : World} (hw : WF w) {s : Nat} (hs : s < w.next) : ∀ x ∈ deps w s, x < w.next := by
  intro x hx
  unfold deps at hx
  split at hx
  · simp at hx; subst hx; exact hs
  · rename_i r hr
    obtain ⟨_, hg, hm, _⟩ := hw.setsLt s r hr
    simp only [List.mem_cons, List.mem_append, List.mem_filterMap] at hx
    rcases hx with rfl | rfl | h | ⟨a, _, h⟩
    · exact hs
    · exact hg
    · exact hm x h
    · cases har : w.agents a with
      | none => simp [har] at h
      | some ar =>
        simp [har] at h
        subst h
        exact (hw.agentsLt a ar har).2

/-! ### what a set shows depends only on the records of `deps` -/

/-- `w'` agrees with `w` on everything the view of `s` reads -/
structure Agree (w w' : World) (s : Nat) : Prop where
  set : w'.sets s = w.sets s
  gen : ∀ r, w.sets s = some r → w'.gens r.gen = w.gens r.gen
  agent : ∀ r, w.sets s = some r → ∀ a ∈ r.members, w'.agents a = w.agents a
  model : ∀ r, w.sets s = some r → ∀ a ∈ r.members, ∀ ar, w.agents a = some ar →
    w'.models ar.model = w.models ar.model ∧ w'.ids ar.model = w.ids ar.model ∧
    w'.heldM.contains ar.model = w.heldM.contains ar.model ∧ owned w' ar.model = owned w ar.model

theorem Agree.alive {w w' : World} {s : Nat} (h : Agree w w' s) {r : SetRec} (hr : w.sets s = some r) :
    ∀ a ∈ r.members, agentAlive w' a = agentAlive w a := by
  intro a ha
  unfold agentAlive
  rw [h.agent r hr a ha]
  cases har : w.agents a with
  | none => rfl
  | some ar =>
    obtain ⟨h1, h2, h3, h4⟩ := h.model r hr a ha ar har
    simp only [modelAlive, h1, h2, h3, h4]

theorem Agree.view_eq {w w' : World} {s : Nat} (h : Agree w w' s) : view w' s = view w s := by
  unfold view
  rw [h.set]
  cases hr : w.sets s with
  | none => rfl
  | some r =>
    simp only
    have hal : aliveMembers w' r = aliveMembers w r := by
      unfold aliveMembers
      exact List.filter_congr (fun a ha => h.alive hr a ha)
    rw [hal]
    unfold scriptOf
    rw [h.gen r hr]
    congr 2
    unfold itemsOf
    apply filterMap_congr'
    intro a ha
    have : a ∈ r.members := (List.mem_filter.mp ha).1
    rw [h.agent r hr a this]

theorem Agree.deps_eq {w w' : World} {s : Nat} (h : Agree w w' s) : deps w' s = deps w s := by
  unfold deps
  rw [h.set]
  cases hr : w.sets s with
  | none => rfl
  | some r =>
    simp only
    congr 3
    apply filterMap_congr'
    intro a ha
    rw [h.agent r hr a ha]

theorem Agree.refl (w : World) (s : Nat) : Agree w w s := by
  constructor <;> intros <;> simp

/-! ### `owned` only reads the owners of the listed sets -/

theorem owned_congr {w w' : World} {m : Nat} (extra : List Nat)
    (hids : w'.setIds = w.setIds ++ extra)
    (hold : ∀ t ∈ w.setIds, ownersOf w' t = ownersOf w t)
    (hnew : ∀ t ∈ extra, m ∉ ownersOf w' t) :
    owned w' m = owned w m := by
  unfold owned
  rw [hids, List.any_append]
  have h1 : (w.setIds.any fun t => (ownersOf w' t).contains m) = (w.setIds.any fun t => (ownersOf w t).contains m) := by
    apply any_congr'
    intro t ht
    rw [hold t ht]
  have h2 : (extra.any fun t => (ownersOf w' t).contains m) = false := by
    rw [List.any_eq_false]
    intro t ht
    simpa using hnew t ht
  rw [h1, h2, Bool.or_false]

@[simp] theorem upd_same {β} (f : Nat → Option β) (k : Nat) (v : β) : upd f k v k = some v := by simp [upd]

theorem upd_ne {β} (f : Nat → Option β) {k x : Nat} (v : β) (h : x ≠ k) : upd f k v x = f x := by simp [upd, h]

theorem contains_append_single {l : List Nat} {k x : Nat} (h : x ≠ k) : (l ++ [k]).contains x = l.contains x := by
  simp [h]

/-- same sets, same listing: same ownership -/
theorem owned_same {w w' : World} (h1 : w'.sets = w.sets) (h2 : w'.setIds = w.setIds) (m : Nat) : owned w' m = owned w m := by
  unfold owned ownersOf
  rw [h1, h2]

/-- field-wise agreement on `deps` gives `Agree` -/
theorem Agree.of_fields {w w' : World} {s : Nat}
    (hset : w'.sets s = w.sets s)
    (hgen : ∀ g ∈ deps w s, w'.gens g = w.gens g)
    (hag : ∀ a ∈ deps w s, w'.agents a = w.agents a)
    (hmod : ∀ m ∈ deps w s, w'.models m = w.models m ∧ w'.ids m = w.ids m ∧
      w'.heldM.contains m = w.heldM.contains m ∧ owned w' m = owned w m) : Agree w w' s := by
  constructor
  · exact hset
  · intro r hr
    apply hgen
    simp [deps, hr]
  · intro r hr a ha
    apply hag
    simp [deps, hr, ha]
  · intro r hr a ha ar har
    apply hmod
    simp only [deps, hr, List.mem_cons, List.mem_append, List.mem_filterMap]
    exact Or.inr (Or.inr (Or.inr ⟨a, ha, by simp [har]⟩))

theorem self_mem_deps (w : World) (s : Nat) : s ∈ deps w s := by
  unfold deps; split <;> simp

theorem gen_mem_deps {w : World} {s : Nat} {r : SetRec} (hr : w.sets s = some r) : r.gen ∈ deps w s := by
  simp [deps, hr]

end Mesa.CopySet
