import MesaModel.Proofs.LegacyCalls
import MesaModel.Proofs.LegacyHist
/-! When exactly the mutating calls of the legacy grids are rejected (the result of every call as a function of the state),
and the deletion of rejected calls followed by any later history (C18-legacy, round 3). -/
namespace Mesa.Legacy

open Grid

theorem remove_res (g : Grid) (hi : Inv g) (a : Aid) :
    (g.remove a).2 = if g.pos a = none ∧ g.multi = true then .err .type else .ok := by
  by_cases h : g.pos a = none ∧ g.multi = true
  · rw [if_pos h]; unfold remove; simp [h.1, h.2]
  · rw [if_neg h]
    apply remove_ok_of_inv g a hi
    by_cases hp : g.pos a = none
    · right
      cases hm : g.multi with
      | false => rfl
      | true => exact absurd ⟨hp, hm⟩ h
    · left; exact hp

/-- `remove_agent` then `place_agent` on `q` (the tail of `move_agent` and `move_to_empty`): rejected exactly for an unplaced
    agent on a MultiGrid (TypeError) and for a SingleGrid cell that holds somebody else (`Cell not empty`) -/
theorem removePlace_res (g : Grid) (hi : Inv g) (a : Aid) (q : Coord) :
    (removePlace g a q).2 =
      if g.pos a = none ∧ g.multi = true then .err .type
      else if g.multi = false ∧ g.content q ≠ [] ∧ g.content q ≠ [a] then .err .full else .ok := by
  by_cases h : g.pos a = none ∧ g.multi = true
  · rw [if_pos h]; unfold removePlace remove; simp [h.1, h.2]
  · rw [if_neg h]
    have hrem : (g.remove a).2 = .ok := by rw [remove_res g hi a, if_neg h]
    have hc := remove_cfg g a
    have hco := remove_content_other g a q
    have hps := remove_ok_pos g a
    have hinv1 := remove_inv g a hi
    have hother := fun x (hx : x ≠ a) => remove_pos_other g a x hx
    unfold removePlace
    rcases hr : g.remove a with ⟨g1, r⟩
    rw [hr] at hrem hc hco hps hinv1 hother
    simp only [] at hrem hco hps hinv1 hother
    subst hrem
    simp only []
    rw [place_res]
    have hm1 : g1.multi = g.multi := hc.2.2.2.1
    by_cases hocc : g.multi = false ∧ g.content q ≠ [] ∧ g.content q ≠ [a]
    · rw [if_pos hocc]
      have hpq : g.pos a ≠ some q := by
        intro hpq
        have ha := (hi.pos_content a q).mp hpq
        have hlen := hi.single hocc.1 q
        apply hocc.2.2
        cases hcq : g.content q with
        | nil => rw [hcq] at ha; cases ha
        | cons x xs =>
          rw [hcq] at ha hlen
          cases xs with
          | nil => simp only [List.mem_singleton] at ha; rw [ha]
          | cons y ys => simp at hlen
      have : g1.content q ≠ [] := by rw [hco hpq]; exact hocc.2.1
      rw [if_pos ⟨by rw [hm1]; exact hocc.1, this⟩]
    · rw [if_neg hocc]
      by_cases hm : g.multi = true
      · rw [if_neg (by rw [hm1, hm]; simp)]
      · have hmf : g.multi = false := by cases hx : g.multi <;> simp_all
        have hfree : g.content q = [] ∨ g.content q = [a] := by
          by_cases h1 : g.content q = []
          · exact Or.inl h1
          · by_cases h2 : g.content q = [a]
            · exact Or.inr h2
            · exact absurd ⟨hmf, h1, h2⟩ hocc
        have hempty : g1.content q = [] := by
          have hsub : ∀ x, x ∈ g1.content q → False := by
            intro x hx
            have hx' := (hinv1.pos_content x q).mpr hx
            by_cases hxa : x = a
            · subst hxa; rw [hps rfl] at hx'; cases hx'
            · rw [hother x hxa] at hx'
              have hmem := (hi.pos_content x q).mp hx'
              rcases hfree with hf | hf
              · rw [hf] at hmem; cases hmem
              · rw [hf] at hmem; simp at hmem; exact hxa hmem
          cases hcq : g1.content q with
          | nil => rfl
          | cons x xs => exact absurd (by rw [hcq]; simp) (hsub x)
        rw [if_neg (by simp [hempty])]

/-- **the result of `move_agent`, exactly** -/
theorem move_res (g : Grid) (hw : 0 < g.w) (hh : 0 < g.h) (hi : Inv g) (a : Aid) (p : Coord) :
    (g.move a p).2 =
      match g.torusAdj p with
      | .error e => .err e
      | .ok q =>
        if g.pos a = none ∧ g.multi = true then .err .type
        else if g.multi = false ∧ g.content q ≠ [] ∧ g.content q ≠ [a] then .err .full else .ok := by
  unfold move
  by_cases hm : g.multi = true
  · rw [if_pos hm, moveBase_eq]
    cases ht : g.torusAdj p with
    | error e => rfl
    | ok q => simp only []; exact removePlace_res g hi a q
  · rw [if_neg hm]
    have hmf : g.multi = false := by cases hx : g.multi <;> simp_all
    cases ht : g.torusAdj p with
    | error e => rfl
    | ok q =>
      simp only []
      have hq := (torusAdj_ok g hw hh p q ht).1
      have hno : ¬ (g.pos a = none ∧ g.multi = true) := fun h => hm h.2
      rw [if_neg hno]
      by_cases hocc : g.content q ≠ [] ∧ g.content q ≠ [a]
      · have hb : (!g.isCellEmpty q && g.content q != [a]) = true := by
          simp only [isCellEmpty, Bool.and_eq_true, Bool.not_eq_true', bne_iff_ne, ne_eq]
          exact ⟨by simpa using hocc.1, hocc.2⟩
        rw [if_pos hb, if_pos ⟨hmf, hocc⟩]
      · have hb : ¬ (!g.isCellEmpty q && g.content q != [a]) = true := by
          simp only [isCellEmpty, Bool.and_eq_true, Bool.not_eq_true', bne_iff_ne, ne_eq, not_and, Decidable.not_not]
          intro h1
          by_cases h2 : g.content q = [a]
          · exact h2
          · exact absurd ⟨by simpa using h1, h2⟩ hocc
        rw [if_neg hb, if_neg (fun h => hocc h.2), moveBase_eq, torusAdj_inGrid g q hq]
        simp only []
        rw [removePlace_res g hi a q, if_neg hno, if_neg (fun h => hocc h.2)]

/-- **the result of `swap_pos`, exactly** -/
theorem swap_res (g : Grid) (hi : Inv g) (a b : Aid) :
    (g.swap a b).2 = if g.pos a = none ∨ g.pos b = none then .err .noPos else .ok := by
  cases hpa : g.pos a with
  | none => simp [swap, hpa]
  | some pa =>
    cases hpb : g.pos b with
    | none => simp [swap, hpa, hpb]
    | some pb =>
      rw [if_neg (by simp)]
      exact (c08_swap_spec g hi a b pa pb hpa hpb).1

/-! ### deleting the rejected calls, followed by any later history -/

/-- the results of the calls of a history, in order -/
def results (g : Grid) : List Op → List Res
  | [] => []
  | op :: ops => (step g op).2 :: results (step g op).1 ops

theorem run_cong (later : List Op) : ∀ (g g' : Grid), 0 < g.w → 0 < g.h → Inv g → Inv g' → forget g' = forget g →
    HistOk g later →
    forget (run g' later) = forget (run g later) ∧ results g' later = results g later ∧ HistOk g' later := by
  induction later with
  | nil => intro g g' _ _ _ _ hgg _; exact ⟨hgg, rfl, trivial⟩
  | cons op ops ih =>
    intro g g' hw hh hi hi' hgg hok
    obtain ⟨hok1, hok2⟩ := hok
    obtain ⟨i1, c1⟩ := step_inv_cfg g op hw hh hi hok1
    have hw1 : 0 < (step g op).1.w := by rw [c1.1]; exact hw
    have hh1 : 0 < (step g op).1.h := by rw [c1.2.1]; exact hh
    have hok1' := opOk_forget hgg op hok1
    have hw' : 0 < g'.w := by rw [(forget_fields hgg).1]; exact hw
    have hh' : 0 < g'.h := by rw [(forget_fields hgg).2.1]; exact hh
    obtain ⟨i1', _⟩ := step_inv_cfg g' op hw' hh' hi' hok1'
    obtain ⟨hres, hst⟩ := step_cong op g g' hi hi' hgg
    obtain ⟨h1, h2, h3⟩ := ih (step g op).1 (step g' op).1 hw1 hh1 i1 i1' hst hok2
    exact ⟨h1, by simp only [results, hres, h2], hok1', h3⟩

end Mesa.Legacy
