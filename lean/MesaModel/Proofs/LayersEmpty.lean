import MesaModel.Proofs.Layers
/-!
Helper lemmas for C11: the emptiness array (array 0: data of the built-in `empty` layer of the new
grids / `_empty_mask` of the legacy grids) equals actual emptiness after every history in which the
user does not himself overwrite or remove the built-in layer.
-/
namespace Mesa.Layers

/-- The static part of safety: an op by which the *user* (not the grid) writes to, re-points or removes the built-in
    `empty` layer of a `new` grid (layer id 0, name "empty") through the layer or the cell attribute.  Taking a
    reference to its array (`grab h 0`; legacy: `grabMask h` = `grid.empty_mask`) and reading through it is safe;
    whether a *write* through a reference is safe depends on the state (`Op.safeAt`). -/
def Op.safe (impl : Impl) : Op → Bool
  | .layerSet l _ _ => impl != .new || l != 0
  | .setCells l _ _ => impl != .new || l != 0
  | .setFrom l _ _ => impl != .new || l != 0
  | .modifyCells l _ _ _ => impl != .new || l != 0
  | .modifyT l _ _ _ => impl != .new || l != 0
  | .modifyU l _ _ _ _ => impl != .new || l != 0
  | .modifyCell l _ _ => impl != .new || l != 0
  | .modifyCellU l _ _ _ => impl != .new || l != 0
  | .cellSet n _ _ => impl != .new || n != "empty"
  | .cellSet2 l _ _ => impl != .new || l != 0
  | .detach n => impl != .new || n != "empty"
  | _ => true

/-- Safety of an op in the state it is issued in: a write through a user-held reference (`h[c] = v`) is the user's own
    overwrite of the emptiness view exactly when the reference aliases the emptiness array (array 0: obtained by
    `grab h 0` on a cell space, `grabMask h` on a legacy grid); everything else is judged statically. -/
def Op.safeAt (s : State) : Op → Bool
  | .hset h _ _ => match s.handles.lookup h with
    | some (a, _) => a != 0
    | none => true
  | op => op.safe s.impl

/-- a history each of whose ops is safe in the state it is issued in -/
def safeHist : State → List Op → Prop
  | _, [] => True
  | s, op :: ops => op.safeAt s = true ∧ safeHist (step s op).1 ops

instance safeHist.dec : (s : State) → (ops : List Op) → Decidable (safeHist s ops)
  | _, [] => isTrue trivial
  | s, op :: ops => by
    unfold safeHist
    exact @instDecidableAnd _ _ _ (safeHist.dec (step s op).1 ops)

/-- `W`: the cells at which nothing is claimed (written by the user through a reference that aliases the emptiness
    array); `W = fun _ => False` for the histories without such writes -/
structure EmpInv (W : Coord → Prop) (s : State) : Prop where
  /-- new grids: the name "empty" is attached to layer 0, which still owns array 0 -/
  named : s.impl = .new → s.attached.lookup "empty" = some 0 ∧ (s.layers 0).data = 0 ∧ 0 < s.nLayers
  /-- new grids: the descriptor `empty` of the cell class holds layer 0 -/
  dnamed : s.impl = .new → s.descr.lookup "empty" = some 0
  /-- an agent is placed at most once -/
  keys : (s.agents.map (·.1)).Nodup
  /-- SingleGrid: at most one agent per cell -/
  single : s.impl = .single → (s.agents.map (·.2)).Nodup
  /-- array 0 is the indicator of emptiness (outside `W`) -/
  view : ∀ c, ¬ W c → s.heap 0 c = boolInt (s.isEmptyCell c)

variable {W : Coord → Prop}

theorem isEmptyCell_iff (s : State) (c : Coord) : s.isEmptyCell c = true ↔ ∀ p ∈ s.agents, p.2 ≠ c := by
  simp [State.isEmptyCell]

theorem EmpInv_init (impl : Impl) (dims : List Nat) (cap : Option Nat) : EmpInv W (init impl dims cap) := by
  constructor
  · intro h
    simp only [init] at h
    simp [init, h]
  · intro h
    simp only [init] at h
    simp [init, h]
  · simp [init]
  · intro _; simp [init]
  · intro c _; simp [init, State.isEmptyCell, boolInt]

/-- the array of a layer other than the built-in one is not array 0 -/
theorem data_ne_zero {s : State} (hw : WF s) (h : EmpInv W s) {l : Nat} (hl : l < s.nLayers)
    (h0 : s.impl = .new → l ≠ 0) : (s.layers l).data ≠ 0 := by
  by_cases hi : s.impl = .new
  · obtain ⟨_, hd, hp⟩ := h.named hi
    intro he
    exact h0 hi (hw.data_inj l 0 hl hp (he.trans hd.symm))
  · exact hw.legacy_data hi l hl

/-- a name other than "empty" is not attached to layer 0 of a new grid -/
theorem named_ne_zero {s : State} (hw : WF s) (h : EmpInv W s) (hi : s.impl = .new) {n : String} {l : Nat}
    (hn : s.attached.lookup n = some l) (hne : n ≠ "empty") : l ≠ 0 := by
  intro he
  subst he
  have h1 := hw.att_name n 0 hn
  have h2 := hw.att_name "empty" 0 (h.named hi).1
  exact hne (h1.symm.trans h2)

/-- transfer along an op that touches neither array 0, nor the agents, nor the built-in layer -/
theorem EmpInv.transfer {s s' : State} (h : EmpInv W s) (e1 : s'.impl = s.impl)
    (e2 : s.impl = .new → s'.attached.lookup "empty" = s.attached.lookup "empty")
    (e3 : s.impl = .new → s'.layers 0 = s.layers 0)
    (e4 : s.nLayers ≤ s'.nLayers)
    (e6 : s'.agents = s.agents) (e7 : s'.heap 0 = s.heap 0)
    (e8 : s.impl = .new → s'.descr.lookup "empty" = s.descr.lookup "empty" := by intros; rfl) : EmpInv W s' := by
  constructor
  · intro hi
    rw [e1] at hi
    obtain ⟨a, b, c⟩ := h.named hi
    exact ⟨(e2 hi).trans a, by rw [e3 hi]; exact b, by omega⟩
  · intro hi
    rw [e1] at hi
    exact (e8 hi).trans (h.dnamed hi)
  · rw [e6]; exact h.keys
  · rw [e1, e6]; exact h.single
  · intro c hW
    rw [e7]
    have : s'.isEmptyCell c = s.isEmptyCell c := by simp [State.isEmptyCell, e6]
    rw [this]
    exact h.view c hW

theorem upd_heap_zero (heap : Nat → Arr) (i : Nat) (x : Arr) (h : i ≠ 0) : upd heap i x 0 = heap 0 := by
  simp [upd, Ne.symm h]

/-! ### the grid's own emptiness writes -/

/-- what `writeEmpty` does when the built-in layer is in place: array 0, in place -/
theorem writeEmpty_eq {s : State}
    (hn : s.impl = .new → s.descr.lookup "empty" = some 0 ∧ (s.layers 0).data = 0)
    (c : Coord) (v : Int) :
    writeEmpty s c v = { s with heap := upd s.heap 0 ((s.heap 0).set c v) } := by
  unfold writeEmpty
  split
  · next hi =>
    obtain ⟨h1, h2⟩ := hn hi
    unfold cellAttrWrite
    simp only [h1, h2]
  · rfl

theorem isEmptyCell_append (s : State) (a : Nat) (c c' : Coord) :
    ({ s with agents := s.agents ++ [(a, c)] } : State).isEmptyCell c' = (s.isEmptyCell c' && decide (c ≠ c')) := by
  simp [State.isEmptyCell, List.all_append]

theorem mem_of_lookup {l : List (Nat × Coord)} {a : Nat} {c : Coord} (h : l.lookup a = some c) : (a, c) ∈ l := by
  induction l with
  | nil => simp at h
  | cons p l ih =>
    obtain ⟨k, b⟩ := p
    simp only [List.lookup_cons] at h
    split at h
    · next hb => simp at h; subst h; have := beq_iff_eq.mp hb; subst this; simp
    · exact List.mem_cons_of_mem _ (ih h)

theorem lookup_of_mem_nodup {l : List (Nat × Coord)} {a : Nat} {c : Coord} (hn : (l.map (·.1)).Nodup)
    (h : (a, c) ∈ l) : l.lookup a = some c := by
  induction l with
  | nil => simp at h
  | cons p l ih =>
    obtain ⟨k, b⟩ := p
    simp only [List.map_cons, List.nodup_cons] at hn
    simp only [List.lookup_cons]
    rcases List.mem_cons.mp h with he | ht
    · injection he with h1 h2; subst h1; subst h2; simp
    · have : a ≠ k := by
        intro he; subst he
        exact hn.1 (List.mem_map.mpr ⟨(a, c), ht, rfl⟩)
      have hb : (a == k) = false := by simpa using this
      rw [hb]
      exact ih hn.2 ht

/-- entering cell `c`: `agents ++ [(a, c)]`, then `empty[c] = False` -/
theorem EmpInv_enter {s : State} (h : EmpInv W s) (a : Nat) (c : Coord)
    (hk : a ∉ s.agents.map (·.1)) (hs : s.impl = .single → c ∉ s.agents.map (·.2)) :
    EmpInv W (writeEmpty { s with agents := s.agents ++ [(a, c)] } c 0) := by
  rw [writeEmpty_eq (s := { s with agents := s.agents ++ [(a, c)] }) (fun hi => ⟨h.dnamed hi, (h.named hi).2.1⟩)]
  constructor
  · exact h.named
  · exact h.dnamed
  · show ((s.agents ++ [(a, c)]).map (·.1)).Nodup
    rw [List.map_append, List.nodup_append]
    refine ⟨h.keys, by simp, ?_⟩
    intro x hx y hy
    simp at hy
    subst hy
    intro he; subst he
    exact hk hx
  · intro hi
    show ((s.agents ++ [(a, c)]).map (·.2)).Nodup
    rw [List.map_append, List.nodup_append]
    refine ⟨h.single hi, by simp, ?_⟩
    intro x hx y hy
    simp at hy
    subst hy
    intro he; subst he
    exact hs hi hx
  · intro c' hW
    show upd s.heap 0 ((s.heap 0).set c 0) 0 c' = boolInt (({ s with agents := s.agents ++ [(a, c)] } : State).isEmptyCell c')
    rw [isEmptyCell_append, upd_same]
    unfold Arr.set
    by_cases hc : c' = c
    · subst hc; simp [boolInt]
    · have : c ≠ c' := fun e => hc e.symm
      simp [hc, this, h.view c' hW]

/-- leaving cell `c0`: drop the agent, then the implementation's emptiness write for the left cell -/
theorem EmpInv_leave {s : State} (h : EmpInv W s) (a : Nat) (c0 : Coord) (hl : s.agents.lookup a = some c0) :
    EmpInv W (afterLeave { s with agents := s.agents.filter (·.1 ≠ a) } c0) := by
  have hmem := mem_of_lookup hl
  -- agents at other cells are untouched by the removal
  have hother : ∀ c', c' ≠ c0 →
      ({ s with agents := s.agents.filter (·.1 ≠ a) } : State).isEmptyCell c' = s.isEmptyCell c' := by
    intro c' hc'
    rw [Bool.eq_iff_iff, isEmptyCell_iff, isEmptyCell_iff]
    constructor
    · intro hh p hp
      by_cases hpa : p.1 = a
      · have : s.agents.lookup a = some p.2 := lookup_of_mem_nodup h.keys (by rw [← hpa]; exact hp)
        rw [hl] at this
        injection this with this
        rw [← this]; exact fun e => hc' e.symm
      · exact hh p (List.mem_filter.mpr ⟨hp, by simpa using hpa⟩)
    · intro hh p hp
      exact hh p (List.mem_filter.mp hp).1
  have hn : ({ s with agents := s.agents.filter (·.1 ≠ a) } : State).impl = .new →
      ({ s with agents := s.agents.filter (·.1 ≠ a) } : State).descr.lookup "empty" = some 0 ∧
      (({ s with agents := s.agents.filter (·.1 ≠ a) } : State).layers 0).data = 0 :=
    fun hi => ⟨h.dnamed hi, (h.named hi).2.1⟩
  have hkeys : ((s.agents.filter (·.1 ≠ a)).map (·.1)).Nodup :=
    List.Nodup.sublist (List.Sublist.map _ List.filter_sublist) h.keys
  have hsingle : s.impl = .single → ((s.agents.filter (·.1 ≠ a)).map (·.2)).Nodup :=
    fun hi => List.Nodup.sublist (List.Sublist.map _ List.filter_sublist) (h.single hi)
  -- the value array 0 must take at c0
  have hview0 : ∀ c', ¬ W c' → c' ≠ c0 → s.heap 0 c' =
      boolInt (({ s with agents := s.agents.filter (·.1 ≠ a) } : State).isEmptyCell c') := by
    intro c' hW hc'; rw [hother c' hc']; exact h.view c' hW
  -- common shape of the result once the written value is known to be right
  have finish : ∀ v : Int,
      v = boolInt (({ s with agents := s.agents.filter (·.1 ≠ a) } : State).isEmptyCell c0) →
      EmpInv W (writeEmpty { s with agents := s.agents.filter (·.1 ≠ a) } c0 v) := by
    intro v hv
    rw [writeEmpty_eq hn]
    refine ⟨h.named, h.dnamed, hkeys, hsingle, ?_⟩
    intro c' hW
    show upd s.heap 0 ((s.heap 0).set c0 v) 0 c' = _
    rw [upd_same]
    unfold Arr.set
    by_cases hc : c' = c0
    · subst hc; simp [hv]; rfl
    · simp only [hc, if_false]
      exact hview0 c' hW hc
  unfold afterLeave
  split
  · exact finish _ rfl
  · next hi =>
    -- SingleGrid: nobody else can be in c0
    apply finish
    have : ({ s with agents := s.agents.filter (·.1 ≠ a) } : State).isEmptyCell c0 = true := by
      rw [isEmptyCell_iff]
      intro p hp hpc
      obtain ⟨hp1, hp2⟩ := List.mem_filter.mp hp
      have hnd := h.single hi
      -- two entries with the same cell in a list whose cells are distinct
      have key : ∀ (l : List (Nat × Coord)), (l.map (·.2)).Nodup → ∀ p q, p ∈ l → q ∈ l → p.2 = q.2 → p = q := by
        intro l
        induction l with
        | nil => intro _ p q hp; simp at hp
        | cons x l ih =>
          intro hnd p q hp hq hpq
          simp only [List.map_cons, List.nodup_cons] at hnd
          rcases List.mem_cons.mp hp with rfl | hp' <;> rcases List.mem_cons.mp hq with rfl | hq'
          · rfl
          · exact absurd (List.mem_map.mpr ⟨q, hq', hpq.symm⟩) hnd.1
          · exact absurd (List.mem_map.mpr ⟨p, hp', hpq⟩) hnd.1
          · exact ih hnd.2 p q hp' hq' hpq
      have := key s.agents hnd p (a, c0) hp1 hmem hpc
      rw [this] at hp2
      simp at hp2
    rw [this]; rfl
  · split
    · next he =>
      apply finish
      rw [he]; rfl
    · next he =>
      -- MultiGrid, cell still occupied: no write, and array 0 already says "occupied"
      refine ⟨h.named, h.dnamed, hkeys, hsingle, ?_⟩
      intro c' hW
      show s.heap 0 c' = _
      by_cases hc : c' = c0
      · subst hc
        have h1 : s.isEmptyCell c' = false := by
          rw [Bool.eq_false_iff]
          intro hh
          exact (isEmptyCell_iff s c').mp hh (a, c') hmem rfl
        rw [h.view c' hW, h1]
        simp only [Bool.not_eq_true] at he
        rw [he]
      · exact hview0 c' hW hc


/-! ### every safe op preserves the invariant -/

theorem agents_cellAttrWrite (s : State) (n : String) (c : Coord) (v : Int) :
    (cellAttrWrite s n c v).agents = s.agents := by
  unfold cellAttrWrite; split <;> rfl

theorem agents_writeEmpty (s : State) (c : Coord) (v : Int) : (writeEmpty s c v).agents = s.agents := by
  unfold writeEmpty; split
  · exact agents_cellAttrWrite ..
  · rfl

theorem agents_afterLeave (s : State) (c : Coord) : (afterLeave s c).agents = s.agents := by
  unfold afterLeave
  split
  · exact agents_writeEmpty ..
  · exact agents_writeEmpty ..
  · split
    · exact agents_writeEmpty ..
    · rfl

theorem not_mem_keys_of_lookup_none {l : List (Nat × Coord)} {a : Nat} (h : l.lookup a = none) :
    a ∉ l.map (·.1) := by
  rw [List.lookup_eq_none_iff] at h
  intro hm
  obtain ⟨p, hp, rfl⟩ := List.mem_map.mp hm
  have := h p hp
  simp at this

/-- SingleGrid: if nobody else is in `c` and `a` itself is nowhere in `l`, no entry of `l` is in `c` -/
theorem cell_free_of_others_zero {l : List (Nat × Coord)} {a : Nat} {c : Coord}
    (ho : (l.filter fun p => p.2 = c ∧ p.1 ≠ a).length = 0) (hk : a ∉ l.map (·.1)) : c ∉ l.map (·.2) := by
  intro hm
  obtain ⟨p, hp, rfl⟩ := List.mem_map.mp hm
  have hne : p.1 ≠ a := fun e => hk (List.mem_map.mpr ⟨p, hp, e⟩)
  have : p ∈ l.filter fun q => q.2 = p.2 ∧ q.1 ≠ a := List.mem_filter.mpr ⟨hp, by simp [hne]⟩
  rw [List.length_eq_zero_iff.mp ho] at this
  simp at this

theorem EmpInv_place {s : State} (h : EmpInv W s) (a : Nat) (c : Coord) : EmpInv W (place s a c).1 := by
  unfold place
  split
  · exact h
  · next hp =>
    split
    · exact h
    · split
      · exact h
      · next hf =>
        have hnone : s.agents.lookup a = none := by
          cases hx : s.agents.lookup a with
          | none => rfl
          | some x => simp [hx] at hp
        have hk := not_mem_keys_of_lookup_none hnone
        refine EmpInv_enter h a c hk ?_
        intro hi
        have : s.others a c = 0 := by
          simp only [State.fullFor, hi] at hf
          simp only [ge_iff_le, decide_eq_true_eq] at hf
          omega
        exact cell_free_of_others_zero this hk

theorem EmpInv_remove {s : State} (h : EmpInv W s) (a : Nat) : EmpInv W (remove s a).1 := by
  unfold remove
  split
  · exact h
  · next c0 hl => exact EmpInv_leave h a c0 hl

theorem EmpInv_move {s : State} (h : EmpInv W s) (a : Nat) (c : Coord) : EmpInv W (move s a c).1 := by
  unfold move
  split
  · exact h
  · next c0 hl =>
    split
    · exact h
    · split
      · exact h
      · next hf =>
        have h1 := EmpInv_leave h a c0 hl
        have hag : (afterLeave { s with agents := s.agents.filter (·.1 ≠ a) } c0).agents
            = s.agents.filter (·.1 ≠ a) := agents_afterLeave ..
        have himpl : (afterLeave { s with agents := s.agents.filter (·.1 ≠ a) } c0).impl = s.impl :=
          (sameShape_afterLeave ..).impl
        have hk : a ∉ (s.agents.filter (·.1 ≠ a)).map (·.1) := by
          intro hm
          obtain ⟨p, hp, hpa⟩ := List.mem_map.mp hm
          have := (List.mem_filter.mp hp).2
          simp at this
          exact this hpa
        refine EmpInv_enter h1 a c (by rw [hag]; exact hk) ?_
        intro hi
        rw [himpl] at hi
        rw [hag]
        have ho : s.others a c = 0 := by
          simp only [State.fullFor, hi] at hf
          simp only [ge_iff_le, decide_eq_true_eq] at hf
          omega
        refine cell_free_of_others_zero ?_ hk
        unfold State.others at ho
        rw [List.length_eq_zero_iff] at ho ⊢
        rw [List.filter_filter]
        rw [List.filter_eq_nil_iff] at ho ⊢
        intro p hp
        have := ho p hp
        simp only [Bool.and_eq_true, not_and]
        intro h2 _
        exact this h2

theorem EmpInv_setCells {s : State} (hw : WF s) (h : EmpInv W s) (l : Nat) (v : Int)
    (cond : Option (Int → Bool)) (hs : s.impl = .new → l ≠ 0) : EmpInv W (setCells s l v cond).1 := by
  unfold setCells
  split
  · exact h
  · next L hl =>
    obtain ⟨hlt, rfl⟩ := layer?_some hl
    exact h.transfer rfl (fun _ => rfl) (fun _ => rfl) (Nat.le_refl _) rfl
      (upd_heap_zero _ _ _ (data_ne_zero hw h hlt hs))

theorem EmpInv_modifyCellsT {s : State} (hw : WF s) (h : EmpInv W s) (l : Nat) (f : Option (Int → Int))
    (cond : Option (Int → Bool)) (rd : DType) (hs : s.impl = .new → l ≠ 0) :
    EmpInv W (modifyCellsT s l f cond rd).1 := by
  have hnp := hw.next_pos
  unfold modifyCellsT
  split
  · exact h
  · next L hl =>
    obtain ⟨hlt, rfl⟩ := layer?_some hl
    split
    · exact h
    · refine h.transfer rfl (fun _ => rfl) ?_ (Nat.le_refl _) rfl
        (upd_heap_zero _ _ _ (by omega))
      intro hi
      exact upd_other _ _ _ _ (fun e => hs hi e.symm)

theorem EmpInv_modifyCell {s : State} (hw : WF s) (h : EmpInv W s) (l : Nat) (c : Coord) (f : Option (Int → Int))
    (hs : s.impl = .new → l ≠ 0) : EmpInv W (modifyCell s l c f).1 := by
  unfold modifyCell
  split
  · exact h
  · split
    · exact h
    · next L hl =>
      obtain ⟨hlt, rfl⟩ := layer?_some hl
      split
      · exact h
      · split
        · exact h
        · exact h.transfer rfl (fun _ => rfl) (fun _ => rfl) (Nat.le_refl _) rfl
            (upd_heap_zero _ _ _ (data_ne_zero hw h hlt hs))

/-- registering a descriptor under a name that is not attached leaves the descriptor `empty` alone -/
theorem descr_empty_setDescr {s : State} (h : EmpInv W s) (hi : s.impl = .new) {n : String} (lid : Nat)
    (hnone : s.attached.lookup n = none) :
    (if s.impl = .new then setDescr s.descr n lid else s.descr).lookup "empty" = s.descr.lookup "empty" := by
  have hne : "empty" ≠ n := by
    intro e; subst e
    rw [(h.named hi).1] at hnone
    simp at hnone
  rw [if_pos hi]
  unfold setDescr
  have hb : ("empty" == n) = false := by simpa using hne
  rw [List.lookup_cons, hb]
  exact lookup_filter_ne _ _ _ hne

theorem EmpInv_step {s : State} (hw : WF s) (h : EmpInv W s) (op : Op) (hs : op.safeAt s = true) :
    EmpInv W (step s op).1 := by
  have hnp := hw.next_pos
  cases op with
  | create n dt d =>
    simp only [step]
    unfold create
    split
    · exact h
    · next hchk =>
      refine h.transfer rfl ?_ ?_ (Nat.le_succ _) rfl (upd_heap_zero _ _ _ (by omega))
        (fun hi => descr_empty_setDescr h hi _ (attachCheck_none hchk).1)
      · intro hi
        show (s.attached ++ [(n, s.nLayers)]).lookup "empty" = _
        rw [List.lookup_append, (h.named hi).1]; rfl
      · intro hi
        exact upd_other _ _ _ _ (by have := (h.named hi).2.2; omega)
  | newLayer n dims dt d =>
    simp only [step]
    unfold newLayer
    split
    · exact h
    · refine h.transfer rfl (fun _ => rfl) ?_ (Nat.le_succ _) rfl (upd_heap_zero _ _ _ (by omega))
      intro hi
      exact upd_other _ _ _ _ (by have := (h.named hi).2.2; omega)
  | attach l =>
    simp only [step]
    unfold attach
    split
    · exact h
    · split
      · exact h
      · next l' _ _ hchk =>
        refine h.transfer rfl ?_ (fun _ => rfl) (Nat.le_refl _) rfl rfl
          (fun hi => descr_empty_setDescr h hi _ (attachCheck_none hchk).1)
        intro hi
        show (s.attached ++ [(l'.name, l)]).lookup "empty" = _
        rw [List.lookup_append, (h.named hi).1]; rfl
  | detach n =>
    simp only [step]
    unfold detach
    split
    · exact h
    · have hne : s.impl = .new → "empty" ≠ n := by
        intro hi
        simp only [Op.safeAt, Op.safe, hi, bne_self_eq_false, Bool.false_or, bne_iff_ne, ne_eq] at hs
        exact fun e => hs e.symm
      exact h.transfer rfl (fun hi => lookup_filter_ne _ _ _ (hne hi)) (fun _ => rfl) (Nat.le_refl _) rfl rfl
        (fun hi => lookup_filter_ne _ _ _ (hne hi))
  | layerSet l c v =>
    simp only [step]
    unfold layerSet
    split
    · exact h
    · next L hl =>
      obtain ⟨hlt, rfl⟩ := layer?_some hl
      split
      · exact h
      · refine h.transfer rfl (fun _ => rfl) (fun _ => rfl) (Nat.le_refl _) rfl
          (upd_heap_zero _ _ _ (data_ne_zero hw h hlt ?_))
        intro hi
        simpa [Op.safeAt, Op.safe, hi] using hs
  | layerGet l c => exact h
  | cellSet n c v =>
    simp only [step]
    unfold cellSet
    split
    · next hi =>
      split
      · exact h
      · split
        · exact h
        · unfold cellAttrWrite
          split
          · next lid hn =>
            have hne : n ≠ "empty" := by simpa [Op.safeAt, Op.safe, hi] using hs
            rw [hw.descr_eq hi n] at hn
            have hl0 := named_ne_zero hw h hi hn hne
            exact h.transfer rfl (fun _ => rfl) (fun _ => rfl) (Nat.le_refl _) rfl
              (upd_heap_zero _ _ _ (data_ne_zero hw h (hw.att_lt n lid hn) (fun _ => hl0)))
          · exact h.transfer rfl (fun _ => rfl) (fun _ => rfl) (Nat.le_refl _) rfl rfl
    · next hi =>
      split
      · exact h
      · next lid hn =>
        simp only
        split
        · exact h
        · have hi' : s.impl ≠ .new := hi
          exact h.transfer rfl (fun _ => rfl) (fun _ => rfl) (Nat.le_refl _) rfl
            (upd_heap_zero _ _ _ (data_ne_zero hw h (hw.att_lt n lid hn) (fun e => absurd e hi')))
  | cellGet n c => exact h
  | cellSet2 l c w =>
    simp only [step]
    unfold cellSet2
    split
    · exact h
    · unfold layerSet
      split
      · exact h
      · next L hl =>
        obtain ⟨hlt, rfl⟩ := layer?_some hl
        split
        · exact h
        · refine h.transfer rfl (fun _ => rfl) (fun _ => rfl) (Nat.le_refl _) rfl
            (upd_heap_zero _ _ _ (data_ne_zero hw h hlt ?_))
          intro hi
          simpa [Op.safeAt, Op.safe, hi] using hs
  | cellGet2 l c => exact h
  | setCells l w cond =>
    have hl0 : s.impl = .new → l ≠ 0 := fun hi => by simpa [Op.safeAt, Op.safe, hi] using hs
    cases w with
    | raw v => exact vecGuard_fst (P := EmpInv W) _ _ _ _ (EmpInv_setCells hw h l v cond hl0) h
    | py x =>
      simp only [step]
      refine vecGuard_fst (P := EmpInv W) _ _ _ _ ?_ h
      unfold setCellsV
      split
      · exact h
      · split
        · exact h
        · exact EmpInv_setCells hw h l _ cond hl0
  | setFrom l hd cond =>
    simp only [step]
    unfold setFrom
    split
    · exact h
    · next L hl =>
      obtain ⟨hlt, rfl⟩ := layer?_some hl
      split
      · exact h
      · split
        · exact h
        · split
          · exact h
          · split
            · exact h
            · refine h.transfer rfl (fun _ => rfl) (fun _ => rfl) (Nat.le_refl _) rfl
                (upd_heap_zero _ _ _ (data_ne_zero hw h hlt ?_))
              intro hi
              simpa [Op.safeAt, Op.safe, hi] using hs
  | modifyT l f cond rd =>
    exact vecGuard_fst (P := EmpInv W) _ _ _ _
      (EmpInv_modifyCellsT hw h l f cond rd (fun hi => by simpa [Op.safeAt, Op.safe, hi] using hs)) h
  | modifyU l vec op x cond =>
    simp only [step]
    refine vecGuard_fst (P := EmpInv W) _ _ _ _ ?_ h
    unfold modifyU
    split
    · exact h
    · split
      · exact h
      · exact EmpInv_modifyCellsT hw h l _ cond _ (fun hi => by simpa [Op.safeAt, Op.safe, hi] using hs)
  | modifyCells l vec f cond =>
    simp only [step]
    refine vecGuard_fst (P := EmpInv W) _ _ _ _ ?_ h
    unfold modifyCells
    split
    · exact h
    · next L hl =>
      obtain ⟨hlt, rfl⟩ := layer?_some hl
      split
      · exact h
      · refine h.transfer rfl (fun _ => rfl) ?_ (Nat.le_refl _) rfl
          (upd_heap_zero _ _ _ (by omega))
        intro hi
        have : l ≠ 0 := by simpa [Op.safeAt, Op.safe, hi] using hs
        exact upd_other _ _ _ _ (fun e => this e.symm)
  | modifyCell l c f =>
    simp only [step]
    unfold modifyCell
    split
    · exact h
    · split
      · exact h
      · next L hl =>
        obtain ⟨hlt, rfl⟩ := layer?_some hl
        split
        · exact h
        · split
          · exact h
          · refine h.transfer rfl (fun _ => rfl) (fun _ => rfl) (Nat.le_refl _) rfl
              (upd_heap_zero _ _ _ (data_ne_zero hw h hlt ?_))
            intro hi
            simpa [Op.safeAt, Op.safe, hi] using hs
  | modifyCellU l c op x =>
    simp only [step]
    unfold modifyCellU
    split
    · exact h
    · split
      · exact h
      · split
        · exact h
        · split
          · exact h
          · exact EmpInv_modifyCell hw h l c _ (fun hi => by simpa [Op.safeAt, Op.safe, hi] using hs)
  | fromData n hd =>
    simp only [step]
    unfold fromData
    split
    · exact h
    · split
      · exact h
      · split
        · exact h
        · refine h.transfer rfl (fun _ => rfl) ?_ (Nat.le_succ _) rfl (upd_heap_zero _ _ _ (by omega))
          intro hi
          exact upd_other _ _ _ _ (by have := (h.named hi).2.2; omega)
  | grab hd l =>
    simp only [step]
    unfold grab
    split
    · exact h
    · next L hl =>
      exact h.transfer rfl (fun _ => rfl) (fun _ => rfl) (Nat.le_refl _) rfl rfl
  | grabMask hd =>
    simp only [step]
    unfold grabMask
    split
    · exact h
    · exact h.transfer rfl (fun _ => rfl) (fun _ => rfl) (Nat.le_refl _) rfl rfl
  | hget hd c => exact h
  | hset hd c v =>
    simp only [step]
    unfold hset
    split
    · exact h
    · next a d hlk =>
      split
      · exact h
      · have ha : a ≠ 0 := by simpa [Op.safeAt, hlk] using hs
        exact h.transfer rfl (fun _ => rfl) (fun _ => rfl) (Nat.le_refl _) rfl
          (upd_heap_zero _ _ _ ha)
  | hdump hd => exact h
  | dump l => exact h
  | dumpName n => exact h
  | dtype l => exact h
  | layerSelect l p => exact h
  | aggregate l k => exact h
  | place a c => exact EmpInv_place h a c
  | move a c => exact EmpInv_move h a c
  | remove a => exact EmpInv_remove h a
  | empties => exact h
  | gridSet n =>
    simp only [step]
    unfold gridSet
    split
    · exact h
    · split
      · exact h
      · exact h.transfer rfl (fun _ => rfl) (fun _ => rfl) (Nat.le_refl _) rfl rfl
  | nbhdMask k geom torus c ic r =>
    simp only [step]
    unfold nbhdMask
    split
    · exact h
    · split
      · exact h
      · split
        · exact h
        · exact h.transfer rfl (fun _ => rfl) (fun _ => rfl) (Nat.le_refl _) rfl rfl
  | select ms oe conds exts save =>
    simp only [step]
    split
    · exact h
    · split
      · exact h
      · split
        · exact h
        · exact h.transfer rfl (fun _ => rfl) (fun _ => rfl) (Nat.le_refl _) rfl rfl

theorem step_impl (s : State) (op : Op) : (step s op).1.impl = s.impl := by
  cases op with
  | create n dt d => simp only [step]; unfold create; split <;> rfl
  | newLayer n dims dt d => simp only [step]; unfold newLayer; split <;> rfl
  | attach l =>
    simp only [step]; unfold attach
    split
    · rfl
    · split <;> rfl
  | detach n => simp only [step]; unfold detach; split <;> rfl
  | layerSet l c v => exact (sameShape_layerSet ..).impl
  | layerGet l c => rfl
  | cellSet n c v => exact (sameShape_cellSet ..).impl
  | cellGet n c => rfl
  | cellSet2 l c w => exact (sameShape_cellSet2 ..).impl
  | cellGet2 l c => rfl
  | setCells l w cond =>
    cases w with
    | raw v => exact vecGuard_fst (P := fun t => t.impl = s.impl) _ _ _ _ (sameShape_setCells ..).impl rfl
    | py x => exact vecGuard_fst (P := fun t => t.impl = s.impl) _ _ _ _ (sameShape_setCellsV ..).impl rfl
  | setFrom l hd cond => exact (sameShape_setFrom ..).impl
  | modifyCells l vec f cond =>
    simp only [step]
    refine vecGuard_fst (P := fun t => t.impl = s.impl) _ _ _ _ ?_ rfl
    unfold modifyCells
    split
    · rfl
    · split <;> rfl
  | modifyT l f cond rd =>
    simp only [step]
    refine vecGuard_fst (P := fun t => t.impl = s.impl) _ _ _ _ ?_ rfl
    unfold modifyCellsT
    split
    · rfl
    · split <;> rfl
  | modifyU l vec op x cond =>
    simp only [step]
    refine vecGuard_fst (P := fun t => t.impl = s.impl) _ _ _ _ ?_ rfl
    unfold modifyU
    split
    · rfl
    · split
      · rfl
      · unfold modifyCellsT
        split
        · rfl
        · split <;> rfl
  | modifyCell l c f => exact (sameShape_modifyCell ..).impl
  | modifyCellU l c op x => exact (sameShape_modifyCellU ..).impl
  | fromData n hd =>
    simp only [step]; unfold fromData
    split
    · rfl
    · split
      · rfl
      · split <;> rfl
  | grab hd l => simp only [step]; unfold grab; split <;> rfl
  | grabMask hd => simp only [step]; unfold grabMask; split <;> rfl
  | hget hd c => rfl
  | hset hd c v => exact (sameShape_hset ..).impl
  | hdump hd => rfl
  | dump l => rfl
  | dumpName n => rfl
  | dtype l => rfl
  | layerSelect l p => rfl
  | aggregate l k => rfl
  | place a c => exact (sameShape_place ..).impl
  | move a c => exact (sameShape_move ..).impl
  | remove a => exact (sameShape_remove ..).impl
  | empties => rfl
  | nbhdMask k geom torus c ic r => exact (sameShape_nbhdMask ..).impl
  | gridSet n => exact (sameShape_gridSet ..).impl
  | select ms oe conds exts save =>
    simp only [step]
    split
    · rfl
    · split
      · rfl
      · split <;> rfl

theorem Inv_run {s : State} (hw : WF s) (h : EmpInv W s) (ops : List Op)
    (hs : safeHist s ops) : EmpInv W (run s ops).1 := by
  induction ops generalizing s with
  | nil => exact h
  | cons op ops ih =>
    simp only [run]
    exact ih (WF_step hw op) (EmpInv_step hw h op hs.1) hs.2

/-! ### histories in which the user does write through an aliasing reference: wrong at most there -/

theorem EmpInv.mono {W' : Coord → Prop} {s : State} (h : EmpInv W s) (hsub : ∀ c, W c → W' c) : EmpInv W' s :=
  ⟨h.named, h.dnamed, h.keys, h.single, fun c hc => h.view c (fun hw => hc (hsub c hw))⟩

/-- the cells written through a reference that aliases the emptiness array (array 0), in the course of a history -/
def aliasWrites : State → List Op → Coord → Prop
  | _, [], _ => False
  | s, op :: ops, x =>
    (match op with
      | .hset h c _ => (∃ d, s.handles.lookup h = some (0, d)) ∧ x = c
      | _ => False) ∨ aliasWrites (step s op).1 ops x

/-- one write through a reference, aliasing or not: afterwards nothing is claimed at the written cell if it aliased -/
theorem EmpInv_hset {s : State} (h : EmpInv W s) (hd : Nat) (c : Coord) (v : Int) :
    EmpInv (fun x => W x ∨ ((∃ d, s.handles.lookup hd = some (0, d)) ∧ x = c)) (hset s hd c v).1 := by
  unfold hset
  split
  · exact h.mono fun _ hw => Or.inl hw
  · next a d hlk =>
    split
    · exact h.mono fun _ hw => Or.inl hw
    · by_cases ha : a = 0
      · subst ha
        refine ⟨h.named, h.dnamed, h.keys, h.single, ?_⟩
        intro c' hW
        show upd s.heap 0 ((s.heap 0).set c v) 0 c' = _
        rw [upd_same]
        unfold Arr.set
        have hne : c' ≠ c := fun e => hW (Or.inr ⟨⟨d, hlk⟩, e⟩)
        simp only [hne, if_false]
        exact h.view c' (fun hw => hW (Or.inl hw))
      · exact (h.transfer (s' := { s with heap := upd s.heap a ((s.heap a).set c v) }) rfl (fun _ => rfl) (fun _ => rfl)
          (Nat.le_refl _) rfl (upd_heap_zero _ _ _ ha)).mono fun _ hw => Or.inl hw

/-- Over a history whose ops are statically safe (no write to / re-pointing / removal of the built-in layer through the
    layer or the cell attribute) but which may write through references of any kind: the view is right everywhere except
    possibly at the cells written through a reference that aliased the emptiness array. -/
theorem Inv_run_alias {s : State} (hw : WF s) (h : EmpInv W s) (ops : List Op)
    (hs : ∀ op ∈ ops, op.safe s.impl = true) :
    EmpInv (fun x => W x ∨ aliasWrites s ops x) (run s ops).1 := by
  induction ops generalizing s W with
  | nil => exact h.mono fun _ hw' => Or.inl hw'
  | cons op ops ih =>
    simp only [run]
    have hrest : ∀ op' ∈ ops, op'.safe (step s op).1.impl = true := by
      intro op' hop'
      rw [step_impl]
      exact hs op' (List.mem_cons_of_mem _ hop')
    have hop := hs op (List.mem_cons_self ..)
    cases op
    case hset hd c v =>
      have h1 := EmpInv_hset h hd c (s.handleWVal hd v)
      refine (ih (WF_step hw _) h1 hrest).mono ?_
      rintro x ((hx | hx) | hx)
      · exact Or.inl hx
      · exact Or.inr (Or.inl hx)
      · exact Or.inr (Or.inr hx)
    all_goals
      refine (ih (WF_step hw _) (EmpInv_step hw h _ (by exact hop)) hrest).mono ?_
      rintro x (hx | hx)
      · exact Or.inl hx
      · exact Or.inr (Or.inr hx)

/-- a history of statically safe ops without writes through references is safe in every state -/
theorem safeHist_of_static (s : State) (ops : List Op) (h1 : ∀ op ∈ ops, op.safe s.impl = true)
    (h2 : ∀ op ∈ ops, ∀ h c v, op ≠ .hset h c v) : safeHist s ops := by
  induction ops generalizing s with
  | nil => trivial
  | cons op ops ih =>
    refine ⟨?_, ih _ (fun o ho => by rw [step_impl]; exact h1 o (List.mem_cons_of_mem _ ho))
      (fun o ho => h2 o (List.mem_cons_of_mem _ ho))⟩
    have := h1 op (List.mem_cons_self ..)
    cases op
    case hset hd c v => exact absurd rfl (h2 _ (List.mem_cons_self ..) hd c v)
    all_goals exact this

end Mesa.Layers
