import MesaModel.Proofs.LayersFrame
/-!
Helper lemmas for C11 (typed part): numpy's casts in numbers, exactness of promotion, and the dtype of a
layer over histories (it changes only when a promoting `modify_cells` re-points that very layer, and only
upwards).
-/
namespace Mesa.Layers

/-! ### casts -/

theorem tdiv4_trunc (q : Int) :
    (0 ≤ q → 4 * q.tdiv 4 ≤ q ∧ q < 4 * q.tdiv 4 + 4) ∧ (q ≤ 0 → q ≤ 4 * q.tdiv 4 ∧ 4 * q.tdiv 4 - 4 < q) := by
  constructor
  · intro h
    rw [Int.tdiv_eq_ediv_of_nonneg h]
    omega
  · intro h
    have h1 : q.tdiv 4 = -((-q) / 4) := by
      have := Int.neg_tdiv (-q) 4
      rw [Int.neg_neg] at this
      rw [this, Int.tdiv_eq_ediv_of_nonneg (by omega)]
    rw [h1]
    omega

theorem tdiv4_mul (v : Int) : (4 * v).tdiv 4 = v := by
  rw [Int.mul_tdiv_cancel_left _ (by decide)]

theorem DType.rank_join_left (d rd : DType) : d.rank ≤ (d.join rd).rank := by
  cases d <;> cases rd <;> decide

theorem DType.rank_join_right (d rd : DType) : rd.rank ≤ (d.join rd).rank := by
  cases d <;> cases rd <;> decide

@[simp] theorem DType.join_self (d : DType) : d.join d = d := by cases d <;> rfl

theorem DType.join_eq_of_le {d rd : DType} (h : rd.rank ≤ d.rank) : d.join rd = d := by
  cases d <;> cases rd <;> simp_all [DType.join, DType.rank]

@[simp] theorem recode_self (d : DType) (v : Int) : recode d d v = v := by simp [recode]

/-- re-encoding into a wider dtype keeps the number -/
theorem quarters_recode {d d' : DType} (h : d.rank ≤ d'.rank) (v : Int) :
    quarters d' (recode d d' v) = quarters d v := by
  cases d <;> cases d' <;> simp_all [recode, castTo, quarters, DType.rank]

/-- a Python bool is `False` or `True` -/
def Val.ok (x : Val) : Prop := x.ty = .bool → x.raw = 0 ∨ x.raw = 1

/-- a `same_kind` cast (`np.copyto`) keeps the number -/
theorem quarters_castTo_sameKind {d : DType} {x : Val} (hx : x.ok) (h : sameKind x.ty d = true) :
    quarters d (castTo d x) = quarters x.ty x.raw := by
  obtain ⟨ty, raw⟩ := x
  cases ty <;> cases d <;> simp_all [sameKind, castTo, quarters, DType.rank, Val.ok, boolInt]
  rcases hx with h | h <;> simp [h]

/-! ### the dtype of a layer over histories -/

/-- ops that may change the dtype of layer `l`: a `modify_cells` on it whose result is of another type -/
def Op.mayRetype (l : Nat) : Op → Prop
  | .modifyT l' _ _ _ => l' = l
  | .modifyU l' _ _ _ _ => l' = l
  | _ => False

theorem dtypeOf_sameShape {s s' : State} (e : SameShape s s') (l : Nat) : s'.dtypeOf l = s.dtypeOf l := by
  unfold State.dtypeOf
  rw [e.adt, e.layers]

theorem dtypeOf_alloc {s : State} (hw : WF s) {l : Nat} (hl : l < s.nLayers) (adt' : Nat → DType)
    (layers' : Nat → Layer) (dt : DType) (L : Layer) (e1 : adt' = upd s.adt s.next dt)
    (e2 : layers' = upd s.layers s.nLayers L) : adt' (layers' l).data = s.dtypeOf l := by
  have h1 : l ≠ s.nLayers := by omega
  have h2 : (s.layers l).data ≠ s.next := by have := hw.data_lt l hl; omega
  subst e1 e2
  simp [State.dtypeOf, upd, h1, h2]

theorem dtype_modifyCellsT {s : State} (hw : WF s) {l : Nat} (hl : l < s.nLayers) (l' : Nat)
    (f : Option (Int → Int)) (cond : Option (Int → Bool)) (rd : DType) :
    (modifyCellsT s l' f cond rd).1.dtypeOf l = s.dtypeOf l ∨
    (l' = l ∧ (modifyCellsT s l' f cond rd).1.dtypeOf l = (s.dtypeOf l).join rd) := by
  have hlt := hw.data_lt l hl
  unfold modifyCellsT
  split
  · exact Or.inl rfl
  · next L hL =>
    obtain ⟨hl', rfl⟩ := layer?_some hL
    split
    · exact Or.inl rfl
    · by_cases e : l' = l
      · subst e
        exact Or.inr ⟨rfl, by simp [State.dtypeOf, upd]⟩
      · have h1 : l ≠ l' := fun x => e x.symm
        have h2 : (s.layers l).data ≠ s.next := by omega
        exact Or.inl (by simp [State.dtypeOf, upd, h1, h2])

/-- one op: the dtype of an existing layer stays, unless the op is a (typed) `modify_cells` on that layer,
    which takes it to the join with the result type -/
theorem dtype_step {s : State} (hw : WF s) {l : Nat} (hl : l < s.nLayers) (op : Op) :
    (step s op).1.dtypeOf l = s.dtypeOf l ∨
    (op.mayRetype l ∧ ∃ rd, (step s op).1.dtypeOf l = (s.dtypeOf l).join rd) := by
  have hlt := hw.data_lt l hl
  cases op with
  | create n dt d =>
    left; simp only [step]; unfold create
    split
    · rfl
    · exact dtypeOf_alloc hw hl _ _ dt _ rfl rfl
  | newLayer n dims dt d =>
    left; simp only [step]; unfold newLayer
    split
    · rfl
    · exact dtypeOf_alloc hw hl _ _ dt _ rfl rfl
  | attach l' =>
    left; simp only [step]; unfold attach
    split
    · rfl
    · split <;> rfl
  | detach n => left; simp only [step]; unfold detach; split <;> rfl
  | layerSet l' c v => exact Or.inl (dtypeOf_sameShape (sameShape_layerSet ..) l)
  | layerGet l' c => exact Or.inl rfl
  | cellSet n c v => exact Or.inl (dtypeOf_sameShape (sameShape_cellSet ..) l)
  | cellGet n c => exact Or.inl rfl
  | cellSet2 l' c w => exact Or.inl (dtypeOf_sameShape (sameShape_cellSet2 ..) l)
  | cellGet2 l' c => exact Or.inl rfl
  | setCells l' w cond =>
    cases w with
    | raw v => exact Or.inl (vecGuard_fst (P := fun t => t.dtypeOf l = s.dtypeOf l) _ _ _ _ (dtypeOf_sameShape (sameShape_setCells ..) l) rfl)
    | py x => exact Or.inl (vecGuard_fst (P := fun t => t.dtypeOf l = s.dtypeOf l) _ _ _ _ (dtypeOf_sameShape (sameShape_setCellsV ..) l) rfl)
  | setFrom l' hd cond => exact Or.inl (dtypeOf_sameShape (sameShape_setFrom ..) l)
  | modifyCells l' vec f cond =>
    left; simp only [step]
    refine vecGuard_fst (P := fun t => t.dtypeOf l = s.dtypeOf l) _ _ _ _ ?_ rfl
    unfold modifyCells
    split
    · rfl
    · next L hL =>
      obtain ⟨hl', rfl⟩ := layer?_some hL
      split
      · rfl
      · by_cases e : l' = l
        · subst e; simp [State.dtypeOf, upd]
        · have h1 : l ≠ l' := fun x => e x.symm
          have h2 : (s.layers l).data ≠ s.next := by omega
          simp [State.dtypeOf, upd, h1, h2]
  | modifyT l' f cond rd =>
    simp only [step]
    refine vecGuard_fst (P := fun t => t.dtypeOf l = s.dtypeOf l ∨ (l' = l ∧ ∃ rd, t.dtypeOf l = (s.dtypeOf l).join rd)) _ _ _ _ ?_ (Or.inl rfl)
    rcases dtype_modifyCellsT hw hl l' f cond rd with h | ⟨h1, h2⟩
    · exact Or.inl h
    · exact Or.inr ⟨h1, rd, h2⟩
  | modifyU l' vec op x cond =>
    simp only [step]
    refine vecGuard_fst (P := fun t => t.dtypeOf l = s.dtypeOf l ∨ (l' = l ∧ ∃ rd, t.dtypeOf l = (s.dtypeOf l).join rd)) _ _ _ _ ?_ (Or.inl rfl)
    unfold modifyU
    split
    · exact Or.inl rfl
    · split
      · exact Or.inl rfl
      · next rd _ =>
        rcases dtype_modifyCellsT hw hl l' (some (op.apply (s.adt _) x)) cond rd with h | ⟨h1, h2⟩
        · exact Or.inl h
        · exact Or.inr ⟨h1, rd, h2⟩
  | modifyCell l' c f => exact Or.inl (dtypeOf_sameShape (sameShape_modifyCell ..) l)
  | modifyCellU l' c op x => exact Or.inl (dtypeOf_sameShape (sameShape_modifyCellU ..) l)
  | fromData n hd =>
    left; simp only [step]; unfold fromData
    split
    · rfl
    · split
      · rfl
      · split
        · rfl
        · exact dtypeOf_alloc hw hl _ _ _ _ rfl rfl
  | grab hd l' => left; simp only [step]; unfold grab; split <;> rfl
  | grabMask hd => left; simp only [step]; unfold grabMask; split <;> rfl
  | hget hd c => exact Or.inl rfl
  | hset hd c v => exact Or.inl (dtypeOf_sameShape (sameShape_hset ..) l)
  | hdump hd => exact Or.inl rfl
  | dump l' => exact Or.inl rfl
  | dumpName n => exact Or.inl rfl
  | dtype l' => exact Or.inl rfl
  | layerSelect l' p => exact Or.inl rfl
  | aggregate l' k => exact Or.inl rfl
  | place a c => exact Or.inl (dtypeOf_sameShape (sameShape_place ..) l)
  | move a c => exact Or.inl (dtypeOf_sameShape (sameShape_move ..) l)
  | remove a => exact Or.inl (dtypeOf_sameShape (sameShape_remove ..) l)
  | empties => exact Or.inl rfl
  | nbhdMask k geom torus c ic r => exact Or.inl (dtypeOf_sameShape (sameShape_nbhdMask ..) l)
  | gridSet n => exact Or.inl (dtypeOf_sameShape (sameShape_gridSet ..) l)
  | select ms oe conds exts save =>
    left; simp only [step]
    split
    · rfl
    · split
      · rfl
      · split <;> rfl

theorem dtype_mono_run {s : State} (hw : WF s) {l : Nat} (hl : l < s.nLayers) (ops : List Op) :
    (s.dtypeOf l).rank ≤ ((run s ops).1.dtypeOf l).rank := by
  induction ops generalizing s with
  | nil => exact Nat.le_refl _
  | cons op ops ih =>
    simp only [run]
    have hl' : l < (step s op).1.nLayers := Nat.lt_of_lt_of_le hl (nLayers_step s op)
    refine Nat.le_trans ?_ (ih (WF_step hw op) hl')
    rcases dtype_step hw hl op with h | ⟨_, rd, h⟩
    · rw [h]; exact Nat.le_refl _
    · rw [h]; exact DType.rank_join_left _ _

/-- a history none of whose ops may re-type layer `l` -/
def noRetype (l : Nat) (ops : List Op) : Prop := ∀ op ∈ ops, ¬ op.mayRetype l

theorem dtype_stable_run {s : State} (hw : WF s) {l : Nat} (hl : l < s.nLayers) (ops : List Op)
    (hn : noRetype l ops) : (run s ops).1.dtypeOf l = s.dtypeOf l := by
  induction ops generalizing s with
  | nil => rfl
  | cons op ops ih =>
    simp only [run]
    have hl' : l < (step s op).1.nLayers := Nat.lt_of_lt_of_le hl (nLayers_step s op)
    rw [ih (WF_step hw op) hl' (fun o ho => hn o (List.mem_cons_of_mem _ ho))]
    rcases dtype_step hw hl op with h | ⟨h, _⟩
    · exact h
    · exact absurd h (hn op (List.mem_cons_self ..))

/-! ### coded arguments of the generated numpy tables (`Gen/NumpyTables.lean`) -/

/-- the dtype coded by its rank in the generated numpy tables -/
def DType.ofCode : Nat → Option DType
  | 0 => some .bool
  | 1 => some .int
  | 2 => some .float
  | _ => none

/-- the protocol's (and the generated tables') name of a ufunc -/
def UOp.name : UOp → String
  | .add => "add" | .sub => "sub" | .mul => "mul" | .max => "max" | .min => "min"
  | .land => "and" | .lor => "or" | .lxor => "xor"

def UOp.ofName (n : String) : Option UOp :=
  [UOp.add, .sub, .mul, .max, .min, .land, .lor, .lxor].find? (·.name == n)

/-- the model's assignment cast on coded arguments -/
def castCode (d t : Nat) (raw : Int) : Option Int := do
  let d ← DType.ofCode d
  let t ← DType.ofCode t
  pure (castTo d ⟨t, raw⟩)

/-- the model's ufunc value on coded arguments -/
def applyCode (op : String) (d : Nat) (v : Int) (t : Nat) (raw : Int) : Option Int := do
  let op ← UOp.ofName op
  let d ← DType.ofCode d
  let t ← DType.ofCode t
  pure (op.apply d ⟨t, raw⟩ v)

end Mesa.Layers
