import MesaModel.Proofs.LegacyDefs
/-! Python sets of coordinates as strictly sorted lists: `sadd` / `sdiscard` are set add / discard. -/
namespace Mesa.Legacy

theorem clt_irrefl (a : Coord) : clt a a = false := by
  simp [clt]

theorem clt_trans {a b c : Coord} (h1 : clt a b = true) (h2 : clt b c = true) : clt a c = true := by
  simp only [clt, Bool.or_eq_true, decide_eq_true_eq, Bool.and_eq_true, beq_iff_eq] at *
  omega

theorem clt_total {a b : Coord} (h1 : clt a b = false) (h2 : a ≠ b) : clt b a = true := by
  have : ¬ (a.1 = b.1 ∧ a.2 = b.2) := fun ⟨h, h'⟩ => h2 (Prod.ext h h')
  simp only [clt, Bool.or_eq_false_iff, decide_eq_false_iff_not, Bool.and_eq_false_iff, beq_eq_false_iff_ne,
    Bool.or_eq_true, decide_eq_true_eq, Bool.and_eq_true, beq_iff_eq] at *
  omega

theorem clt_ne {a b : Coord} (h : clt a b = true) : a ≠ b := by
  intro e; subst e; simp [clt_irrefl] at h

theorem mem_sadd (p q : Coord) (l : List Coord) : q ∈ sadd p l ↔ q = p ∨ q ∈ l := by
  induction l with
  | nil => simp [sadd]
  | cons x xs ih =>
    simp only [sadd]
    split
    · simp
    · split
      · rename_i h; subst h; simp
      · simp [ih]; constructor
        · rintro (h | h | h) <;> simp [h]
        · rintro (h | h | h) <;> simp [h]

theorem sorted_sadd (p : Coord) (l : List Coord) (h : SortedSet l) : SortedSet (sadd p l) := by
  unfold SortedSet at *
  induction l with
  | nil => simp [sadd]
  | cons x xs ih =>
    simp only [sadd]
    rw [List.pairwise_cons] at h
    split
    · rename_i hpx
      refine List.pairwise_cons.mpr ⟨?_, List.pairwise_cons.mpr h⟩
      intro a ha
      rcases List.mem_cons.mp ha with rfl | ha
      · exact hpx
      · exact clt_trans hpx (h.1 a ha)
    · split
      · exact List.pairwise_cons.mpr h
      · rename_i hpx hne
        refine List.pairwise_cons.mpr ⟨?_, ih h.2⟩
        intro a ha
        rcases (mem_sadd p a xs).mp ha with rfl | ha
        · exact clt_total (by simpa using hpx) hne
        · exact h.1 a ha

theorem mem_sdiscard (p q : Coord) (l : List Coord) : q ∈ sdiscard p l ↔ q ∈ l ∧ q ≠ p := by
  simp [sdiscard]

theorem sorted_sdiscard (p : Coord) (l : List Coord) (h : SortedSet l) : SortedSet (sdiscard p l) :=
  List.Pairwise.filter _ h

theorem SortedSet.nodup {l : List Coord} (h : SortedSet l) : l.Nodup :=
  List.Pairwise.imp (fun hab => clt_ne hab) h

/-- two strictly sorted lists with the same members are the same list: the sorted list *is* the set -/
theorem SortedSet.ext {l l' : List Coord} (h : SortedSet l) (h' : SortedSet l') (hm : ∀ c, c ∈ l ↔ c ∈ l') : l = l' := by
  induction l generalizing l' with
  | nil =>
    cases l' with
    | nil => rfl
    | cons y ys => exact absurd ((hm y).mpr (by simp)) (by simp)
  | cons x xs ih =>
    cases l' with
    | nil => exact absurd ((hm x).mp (by simp)) (by simp)
    | cons y ys =>
      unfold SortedSet at h h'
      rw [List.pairwise_cons] at h h'
      have hxy : x = y := by
        rcases List.mem_cons.mp ((hm x).mp (by simp)) with e | hx
        · exact e
        · rcases List.mem_cons.mp ((hm y).mpr (by simp)) with e | hy
          · exact e.symm
          · have h1 := h'.1 x hx
            have h2 := h.1 y hy
            have := clt_trans h1 h2
            simp [clt_irrefl] at this
      subst hxy
      congr 1
      apply ih h.2 h'.2
      intro c
      constructor
      · intro hc
        rcases List.mem_cons.mp ((hm c).mp (List.mem_cons_of_mem _ hc)) with e | hc'
        · subst e; exact absurd (h.1 c hc) (by simp [clt_irrefl])
        · exact hc'
      · intro hc
        rcases List.mem_cons.mp ((hm c).mpr (List.mem_cons_of_mem _ hc)) with e | hc'
        · subst e; exact absurd (h'.1 c hc) (by simp [clt_irrefl])
        · exact hc'

end Mesa.Legacy
