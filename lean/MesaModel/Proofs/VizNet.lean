import MesaModel.Model.VizNet
import MesaModel.Proofs.VizSize
/-!
Helper lemmas for `draw_network` with a caller-supplied layout (`Model/VizNet.lean`).
-/
namespace Mesa.Viz

/-- the marker of an entry under a layout: at the position registered under the label of its node -/
def placeBy (ly : Layout) (e : Entry) : Option Entry := (ly.lookup e.loc.x).map fun pos => { e with loc := pos }

theorem relocate_ok_iff (ly : Layout) : ∀ (es es' : List Entry),
    relocate ly es = .ok es' ↔ es.map (placeBy ly) = es'.map some
  | [], es' => by
    cases es' <;> simp [relocate]
  | e :: es, es' => by
    unfold relocate
    cases hl : ly.lookup e.loc.x with
    | none =>
      simp only [List.map_cons, placeBy, hl, Option.map_none]
      constructor
      · intro h; cases h
      · intro h; cases es' <;> simp at h
    | some pos =>
      simp only
      cases hr : relocate ly es with
      | error err =>
        simp only [List.map_cons, placeBy, hl, Option.map_some]
        constructor
        · intro h; cases h
        · intro h
          cases es' with
          | nil => simp at h
          | cons x xs =>
            simp only [List.map_cons, List.cons.injEq] at h
            have := (relocate_ok_iff ly es xs).mpr h.2
            rw [hr] at this; cases this
      | ok es1 =>
        have ih := relocate_ok_iff ly es
        simp only [List.map_cons, placeBy, hl, Option.map_some]
        constructor
        · intro h
          injection h with h; subst h
          simp only [List.map_cons, List.cons.injEq, true_and]
          exact (ih es1).mp hr
        · intro h
          cases es' with
          | nil => simp at h
          | cons x xs =>
            simp only [List.map_cons, List.cons.injEq, Option.some.injEq] at h
            have h2 := (ih xs).mpr h.2
            rw [hr] at h2
            injection h2 with h2
            rw [h.1, h2]

/-- the first entry whose node the layout does not know decides the error -/
theorem relocate_error_iff (ly : Layout) : ∀ (es : List Entry) (n : Int),
    relocate ly es = .error (.key n) ↔
      ∃ before e after, es = before ++ e :: after ∧ e.loc.x = n ∧ ly.lookup n = none ∧
        ∀ b ∈ before, (ly.lookup b.loc.x).isSome
  | [], n => by simp [relocate]
  | e :: es, n => by
    unfold relocate
    cases hl : ly.lookup e.loc.x with
    | none =>
      simp only
      constructor
      · intro h
        injection h with h; injection h with h
        exact ⟨[], e, es, rfl, h, by rw [← h]; exact hl, by simp⟩
      · rintro ⟨before, e', after, hsplit, hx, hnone, hb⟩
        cases before with
        | nil =>
          simp only [List.nil_append, List.cons.injEq] at hsplit
          rw [hsplit.1, hx]
        | cons b bs =>
          simp only [List.cons_append, List.cons.injEq] at hsplit
          have := hb b List.mem_cons_self
          rw [← hsplit.1, hl] at this
          cases this
    | some pos =>
      simp only
      have ih := relocate_error_iff ly es n
      cases hr : relocate ly es with
      | ok es1 =>
        rw [hr] at ih
        simp only
        constructor
        · intro h; cases h
        · rintro ⟨before, e', after, hsplit, hx, hnone, hb⟩
          cases before with
          | nil =>
            simp only [List.nil_append, List.cons.injEq] at hsplit
            rw [hsplit.1, hx, hnone] at hl
            cases hl
          | cons b bs =>
            simp only [List.cons_append, List.cons.injEq] at hsplit
            have := ih.mpr ⟨bs, e', after, hsplit.2, hx, hnone, fun x hx => hb x (List.mem_cons_of_mem _ hx)⟩
            cases this
      | error err =>
        rw [hr] at ih
        simp only
        constructor
        · intro h
          injection h with h
          subst h
          obtain ⟨before, e', after, hsplit, hx, hnone, hb⟩ := ih.mp rfl
          refine ⟨e :: before, e', after, by rw [hsplit]; rfl, hx, hnone, fun b hbm => ?_⟩
          rcases List.mem_cons.mp hbm with rfl | hbm
          · rw [hl]; rfl
          · exact hb b hbm
        · rintro ⟨before, e', after, hsplit, hx, hnone, hb⟩
          cases before with
          | nil =>
            simp only [List.nil_append, List.cons.injEq] at hsplit
            rw [hsplit.1, hx, hnone] at hl
            cases hl
          | cons b bs =>
            simp only [List.cons_append, List.cons.injEq] at hsplit
            have := ih.mpr ⟨bs, e', after, hsplit.2, hx, hnone, fun x hx => hb x (List.mem_cons_of_mem _ hx)⟩
            rw [this]

theorem relocate_not_other (ly : Layout) : ∀ (es : List Entry), relocate ly es ≠ .error .value ∧ relocate ly es ≠ .error .noPosition
  | [] => by simp [relocate]
  | e :: es => by
    have ih := relocate_not_other ly es
    unfold relocate
    cases ly.lookup e.loc.x with
    | none => simp
    | some pos =>
      simp only
      cases hr : relocate ly es with
      | ok es1 => simp
      | error err =>
        rw [hr] at ih
        simp only
        exact ⟨fun h => ih.1 (by injection h with h; rw [h]), fun h => ih.2 (by injection h with h; rw [h])⟩

end Mesa.Viz
