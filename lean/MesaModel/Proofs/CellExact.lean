import MesaModel.Proofs.CellSpace
/-!
Helper lemmas for the exact-outcome theorems of `Props/C06.lean` (`C06_assignment_exact`, `C06_unplace_and_fixed_exact`,
`C06_select_random_empty_exact`): when `add_agent` refuses, and the rejection-sampling loop as "first drawn cell that is empty".
-/
namespace Mesa.Cells

/-- on a state satisfying the invariant `add_agent` refuses exactly when the cell has a capacity `n ≥ 1` and holds
    exactly `n` agents (`n >= capacity` is `n == capacity`; capacity `None` and the falsy capacity 0 never refuse) -/
theorem fullFor_iff {sp : Space} {s : State} (hi : Inv sp s) (c : Cid) :
    fullFor sp s c = true ↔ ∃ n, sp.cap c = some n ∧ 1 ≤ n ∧ (s.occ c).length = n := by
  unfold fullFor
  cases hcap : sp.cap c with
  | none => simp
  | some n =>
    by_cases hn : n = 0
    · subst hn; simp
    · have := hi.cap c n hcap hn
      simp [hn]
      omega

/-- the cells a draw script names, in order (`random.choice(cells)` for each draw) -/
def drawn (cells : List Cid) (draws : List Nat) : List Cid := draws.filterMap (draw cells)

theorem tryRandomLoop_eq (s : State) (cells : List Cid) (hne : cells ≠ []) (draws : List Nat) :
    tryRandomLoop s cells draws =
      match (drawn cells draws).find? (isEmpty s) with
      | some c => .okCell c
      | none => .err .script := by
  have hdraw : ∀ d, ∃ c, draw cells d = some c := by
    intro d
    have hpos : 0 < cells.length := List.length_pos_iff.mpr hne
    exact ⟨cells[d % cells.length]'(Nat.mod_lt _ hpos), by simp [draw, Nat.mod_lt _ hpos]⟩
  induction draws with
  | nil => simp [tryRandomLoop, drawn]
  | cons d ds ih =>
    obtain ⟨c, hc⟩ := hdraw d
    simp only [tryRandomLoop, hc, drawn, List.filterMap_cons, List.find?_cons]
    by_cases he : isEmpty s c = true
    · simp [he]
    · have he' : isEmpty s c = false := by simpa using he
      simp only [he', Bool.false_eq_true, if_false]
      exact ih

end Mesa.Cells
