import MesaModel.Proofs.CellSpace
/-!
Helper lemmas for the exact-outcome theorems of `Props/C06.lean` (`C06_assignment_exact`, `C06_unplace_and_fixed_exact`,
`C06_select_random_empty_exact`): when `add_agent` refuses, and the rejection-sampling loop as "first drawn cell that is empty".
-/
namespace Mesa.Cells

/-- `add_agent` refuses exactly when the cell has a capacity `n` (0 included, repair SC3) and holds `n` agents or more (more:
    only after the program lowered `cell.capacity` under the occupancy); capacity `None` never refuses.  At any state. -/
theorem fullFor_iff (sp : Space) (s : State) (c : Cid) :
    fullFor sp s c = true ↔ ∃ n, sp.cap c = some n ∧ n ≤ (s.occ c).length := by
  unfold fullFor
  cases hcap : sp.cap c with
  | none => simp
  | some n => simp

/-- the cells a draw script names, in order (`random.choice(cells)` for each draw) -/
def drawn (cells : List Cid) (draws : List Nat) : List Cid := draws.filterMap (draw cells)

theorem tryRandomLoop_eq (s : State) (cells : List Cid) (hne : cells ≠ []) (draws : List Nat) :
    tryRandomLoop s cells draws =
      match (drawn cells draws).find? (isEmpty s) with
      | some c => .okCell c
      | none => .err .script := by
  have hdraw : ∀ d, ∃ c, draw cells d = some c := by
    intro d
    have hpos : 0 < cells.length := List.length_pos_iff.mpr hne
    exact ⟨cells[d % cells.length]'(Nat.mod_lt _ hpos), by simp [draw, Nat.mod_lt _ hpos]⟩
  induction draws with
  | nil => simp [tryRandomLoop, drawn]
  | cons d ds ih =>
    obtain ⟨c, hc⟩ := hdraw d
    simp only [tryRandomLoop, hc, drawn, List.filterMap_cons, List.find?_cons]
    by_cases he : isEmpty s c = true
    · simp [he]
    · have he' : isEmpty s c = false := by simpa using he
      simp only [he', Bool.false_eq_true, if_false]
      exact ih

/-- `remove()` of an agent that some cell lists, after any history: it returns, every cell's list is the old one without
    the agent, the registry is the old one without the agent -/
theorem remove_listed {sp : Space} {s : State} (hi : Inv sp s) {a : Aid} {c : Cid} (hm : a ∈ s.occ c) :
    (step sp s (.remove a)).2 = .ok ∧ (∀ c', (step sp s (.remove a)).1.occ c' = (s.occ c').erase a) ∧
    (step sp s (.remove a)).1.registry = s.registry.erase a := by
  have hc := hi.mem_cell a c hm
  have hlt := hi.known a c hc
  obtain ⟨k, hk⟩ : ∃ k, s.kinds[a]? = some k := ⟨s.kinds[a], by simp [hlt]⟩
  have hother : ∀ c', c' ≠ c → (s.occ c').erase a = s.occ c' := by
    intro c' hne
    apply List.erase_of_not_mem
    intro hmem
    have := hi.mem_cell a c' hmem
    rw [hc] at this
    exact hne (by simpa using this.symm)
  by_cases hfix : k = .fixed
  · subst hfix
    have hm' : a ∈ ({ s with registry := s.registry.erase a } : State).occ c := hm
    simp only [step, hk, hc, removeAgent_mem hm']
    refine ⟨by trivial, fun c' => ?_, by trivial⟩
    by_cases hcc : c' = c
    · subst hcc; simp [upd_same]
    · simp only [upd_other _ _ _ hcc]; exact (hother c' hcc).symm
  · have hd := inv_deregister hi a
    have hmob : ∀ o, ({ s with registry := s.registry.erase a } : State).cellOf a = some o →
        a ∈ ({ s with registry := s.registry.erase a } : State).occ o := by
      intro o ho
      have : o = c := by
        have h1 : s.cellOf a = some o := ho
        rw [hc] at h1; simpa using h1.symm
      subst this; exact hm
    have hstep : step sp s (.remove a) = setCellMobile sp { s with registry := s.registry.erase a } a none := by
      simp only [step, hk] <;> (cases k <;> first | rfl | simp_all)
    rw [hstep, setCellMobile_eq hd hmob]
    have hc' : ({ s with registry := s.registry.erase a } : State).cellOf a = some c := hc
    simp only [hc]
    refine ⟨by trivial, fun c' => ?_, by trivial⟩
    by_cases hcc : c' = c
    · subst hcc; simp [unplace, upd_same]
    · simp only [unplace, upd_other _ _ _ hcc]; exact (hother c' hcc).symm

end Mesa.Cells
