import MesaModel.Gen.FnCellOcc
import MesaModel.Proofs.CellSpace
/-!
Equivalence of the definitions GENERATED from mesa/discrete_space/cell.py (`Gen/FnCellOcc.lean`, rewritten by
`harness/py2lean.py` on every check) with the per-cell operations of the hand-written occupancy model
`Model/CellSpace.lean` (C06, C18-cells; C19 builds on the same model).

The generated functions work on a record standing for ONE cell (`_agents`, `capacity`, `empty`); `cellRec sp s c e` is the
record of cell `c` in the model state: its agent list, its capacity (the model's `Option Nat` read as Python's `None` / int)
and the value last stored into `cell.empty` (`e` stands for whatever the attribute holds where the model says "never written":
`add_agent` / `remove_agent` do not read it).  A generated mutator returns (`.ok ()` / `.error …`, `_agents` afterwards,
`empty` afterwards).

Proof style: every proof unfolds the generated definition and finishes with case splits + `simp` / `omega`, never `rfl` on
the generated term, so that harmless rewrites of the source (inlined locals, reordered independent statements, `not … <`
for `>=`, …) keep checking while a semantic change does not.
-/
namespace Mesa.Cells

open GenOcc

/-- the record of cell `c` in the model state `s` of the space `sp` -/
def cellRec (sp : Space) (s : State) (c : Cid) (e : Bool) : CellRec :=
  { coordinate := c, _agents := s.occ c, capacity := (sp.cap c).map Int.ofNat, empty := (s.flag c).getD e }

/-- what a generated mutator's result means in the model: the state with cell `c`'s list and flag replaced -/
def putCell (s : State) (c : Cid) (ag : List Aid) (em : Bool) : State :=
  { s with occ := upd s.occ c ag, flag := upd s.flag c (some em) }

/-- `Cell.agents` as generated: (a copy of) the cell's list -/
theorem C06_gen_agents_eq_model (sp : Space) (s : State) (c : Cid) (e : Bool) :
    agents (cellRec sp s c e) = nbhdAgents s [c] := by
  simp [agents, cellRec, nbhdAgents]

/-- `Cell.is_empty` as generated = the model's `isEmpty` -/
theorem C06_gen_is_empty_eq_model (sp : Space) (s : State) (c : Cid) (e : Bool) :
    is_empty (cellRec sp s c e) = isEmpty s c := by
  simp only [is_empty, agents, cellRec, isEmpty]
  cases s.occ c <;> simp <;> omega

/-- `Cell.is_full` as generated = the model's `isFull` (capacity None: never full; 0 included) -/
theorem C06_gen_is_full_eq_model (sp : Space) (s : State) (c : Cid) (e : Bool) :
    is_full (cellRec sp s c e) = isFull sp s c := by
  simp only [is_full, agents, cellRec, isFull]
  have hc : sp.cap c = none ∨ ∃ k, sp.cap c = some k := by cases sp.cap c <;> simp
  rcases hc with hc | ⟨k, hc⟩
  · simp [hc]
  · simp only [hc]
    rw [Bool.eq_iff_iff]
    simp
    omega

/-- the test of `add_agent` on a record: `self.capacity is not None and len(self._agents) >= self.capacity` -/
def recFull (r : CellRec) : Bool :=
  match r.capacity with
  | some k => decide ((r._agents.length : Int) ≥ k)
  | none => false

/-- the generated `add_agent`, flattened: refuse under `recFull`, else append and store `empty = False` -/
theorem gen_add_agent_spec (r : CellRec) (a : Aid) :
    add_agent r a =
      if recFull r then (.error Py.Err.Exception, r._agents, r.empty) else (.ok (), r._agents ++ [a], false) := by
  simp only [add_agent, recFull]
  have hc : r.capacity = none ∨ ∃ k, r.capacity = some k := by cases r.capacity <;> simp
  rcases hc with hc | ⟨k, hc⟩
  · simp [hc]
  · by_cases h : (r._agents.length : Int) ≥ k
    · first
        | (simp [hc, h]; done)
        | (simp [hc, h] <;> omega)
    · first
        | (simp [hc, h]; done)
        | (simp [hc, h] <;> omega)

/-- the record's test is the model's `fullFor` -/
theorem recFull_cellRec (sp : Space) (s : State) (c : Cid) (e : Bool) : recFull (cellRec sp s c e) = fullFor sp s c := by
  simp only [recFull, cellRec, fullFor]
  have hc : sp.cap c = none ∨ ∃ k, sp.cap c = some k := by cases sp.cap c <;> simp
  rcases hc with hc | ⟨k, hc⟩
  · simp [hc]
  · simp only [hc]
    rw [Bool.eq_iff_iff]
    simp

/-- `Cell.add_agent` as generated = the model's `addAgent` on the cell's record: it raises exactly when the model refuses
    (`fullFor`: a capacity k, 0 included, and k agents or more), otherwise appends at the end and stores `empty = False`;
    list and flag afterwards are the model's. -/
theorem C06_gen_add_agent_eq_model (sp : Space) (s : State) (c : Cid) (a : Aid) (e : Bool) :
    add_agent (cellRec sp s c e) a =
      ((if (addAgent sp s c a).2 then .ok () else .error Py.Err.Exception),
       (addAgent sp s c a).1.occ c, ((addAgent sp s c a).1.flag c).getD e) := by
  rw [gen_add_agent_spec, recFull_cellRec]
  simp only [addAgent]
  by_cases h : fullFor sp s c = true <;> simp [h, cellRec, upd]

/-- the generated `remove_agent`, flattened -/
theorem gen_remove_agent_spec (r : CellRec) (a : Aid) :
    remove_agent r a =
      if a ∈ r._agents then (.ok (), r._agents.erase a, (r._agents.erase a).isEmpty)
      else (.error Py.Err.Value, r._agents, r.empty) := by
  simp only [remove_agent, is_empty, agents]
  by_cases h : a ∈ r._agents
  · cases hl : r._agents.erase a <;> simp [h] <;> omega
  · simp [h]

/-- `Cell.remove_agent` as generated = the model's `removeAgent`: `ValueError` exactly when the agent is not listed (the model's
    `none`), otherwise the first occurrence goes and `empty` is recomputed from the list; list and flag afterwards are the model's. -/
theorem C06_gen_remove_agent_eq_model (sp : Space) (s : State) (c : Cid) (a : Aid) (e : Bool) :
    remove_agent (cellRec sp s c e) a =
      match removeAgent s c a with
      | some s' => (.ok (), s'.occ c, (s'.flag c).getD e)
      | none => (.error Py.Err.Value, s.occ c, (s.flag c).getD e) := by
  rw [gen_remove_agent_spec]
  simp only [cellRec, removeAgent]
  by_cases h : a ∈ s.occ c
  · simp [h, upd]
  · simp [h]

/-- The model's per-cell mutators ARE the generated text: `addAgent` / `removeAgent` change cell `c`'s list and flag to what the
    generated `add_agent` / `remove_agent` return on the cell's record and nothing else (no other cell, no agent's `cell`, not the
    registry), and refuse exactly when the generated text raises. -/
theorem C06_model_mutators_are_generated (sp : Space) (s : State) (c : Cid) (a : Aid) (e : Bool) :
    addAgent sp s c a = (match add_agent (cellRec sp s c e) a with
      | (.ok _, ag, em) => (putCell s c ag em, true)
      | (.error _, _, _) => (s, false)) ∧
    removeAgent s c a = (match remove_agent (cellRec sp s c e) a with
      | (.ok _, ag, em) => some (putCell s c ag em)
      | (.error _, _, _) => none) := by
  constructor
  · rw [gen_add_agent_spec, recFull_cellRec]
    simp only [addAgent]
    by_cases h : fullFor sp s c = true <;> simp [h, cellRec, putCell]
  · rw [gen_remove_agent_spec]
    simp only [cellRec, removeAgent, putCell]
    by_cases h : a ∈ s.occ c <;> simp [h]

/-- C06 capacity clause over the generated text (as `C06_capacity` (1) states it for the model): whatever `add_agent` answers, a
    cell with capacity k (0 included) ends up with at most k agents or with at most as many as it held; a cell that holds
    capacity-many or more never gains one; a cell within its capacity never goes above it; and an accepted add on a cell with
    capacity k found fewer than k agents there. -/
theorem C06_capacity_generated (r : CellRec) (a : Aid) (k : Nat) (hk : r.capacity = some (k : Int)) :
    (((add_agent r a).2.1.length ≤ k ∨ (add_agent r a).2.1.length ≤ r._agents.length) ∧
     (k ≤ r._agents.length → (add_agent r a).2.1.length ≤ r._agents.length) ∧
     (r._agents.length ≤ k → (add_agent r a).2.1.length ≤ k)) ∧
    ((add_agent r a).1 = .ok () → r._agents.length < k ∧ (add_agent r a).2.1 = r._agents ++ [a]) := by
  rw [gen_add_agent_spec]
  have hf : recFull r = decide ((r._agents.length : Int) ≥ (k : Int)) := by simp only [recFull, hk]
  by_cases h : (r._agents.length : Int) ≥ (k : Int)
  · have hk' : k ≤ r._agents.length := by omega
    simp [hf, h, hk']
  · have : r._agents.length < k := by omega
    simp [hf, h]
    omega

/-- The same for ANY integer capacity the record may hold (the model has capacities ≥ 0 only; the generated text does not care):
    an accepted add found strictly fewer agents than the capacity — so a negative capacity, like 0, takes nobody — and a record
    without a capacity accepts always. -/
theorem C06_capacity_generated_any_int (r : CellRec) (a : Aid) :
    (∀ cap : Int, r.capacity = some cap → ((add_agent r a).1 = .ok () ↔ (r._agents.length : Int) < cap)) ∧
    (r.capacity = none → (add_agent r a).1 = .ok ()) := by
  rw [gen_add_agent_spec]
  constructor
  · intro cap hc
    have hf : recFull r = decide ((r._agents.length : Int) ≥ cap) := by simp only [recFull, hc]
    by_cases h : (r._agents.length : Int) ≥ cap
    · have : ¬ (r._agents.length : Int) < cap := by omega
      simp [hf, h, this]
    · have h1 : (r._agents.length : Int) < cap := by omega
      have h2 : ¬ cap ≤ (r._agents.length : Int) := by omega
      simp [hf, h1, h2]
  · intro hc
    have hf : recFull r = false := by simp only [recFull, hc]
    simp [hf]

/-- `empty` agrees with "no agents" after every accepted add / remove, over the generated text. -/
theorem C06_empty_flag_generated (r : CellRec) (a : Aid) :
    ((add_agent r a).1 = .ok () → ((add_agent r a).2.2 = true ↔ (add_agent r a).2.1 = [])) ∧
    ((remove_agent r a).1 = .ok () → ((remove_agent r a).2.2 = true ↔ (remove_agent r a).2.1 = [])) := by
  constructor
  · rw [gen_add_agent_spec]
    by_cases h : recFull r = true <;> simp [h]
  · rw [gen_remove_agent_spec]
    by_cases h : a ∈ r._agents <;> simp [h, List.isEmpty_iff]

/-- C18 over the generated text: a rejected `add_agent` (full cell) / `remove_agent` (agent not listed) leaves the cell's record
    unchanged — list and `empty` are what they were. -/
theorem C18_cells_rejected_mutator_generated (r : CellRec) (a : Aid) (err : Py.Err) :
    ((add_agent r a).1 = .error err → (add_agent r a).2 = (r._agents, r.empty) ∧ err = Py.Err.Exception) ∧
    ((remove_agent r a).1 = .error err → (remove_agent r a).2 = (r._agents, r.empty) ∧ err = Py.Err.Value ∧ a ∉ r._agents) := by
  constructor
  · rw [gen_add_agent_spec]
    by_cases h : recFull r = true <;> simp [h]
    intro h'; exact h'.symm
  · rw [gen_remove_agent_spec]
    by_cases h : a ∈ r._agents <;> simp [h]
    intro h'; exact h'.symm

/-- what the effect list of the generated `move_to` means in the model: every entry is one run of the `cell` setter of agent
    `a` (of class `k`) with that cell; a setter that raised ends the list -/
def interpSetCell (sp : Space) (k : AKind) (a : Aid) (s : State) (es : List Cid) : State × Res :=
  es.foldl (fun acc c => if acc.2 = .ok then setCell sp acc.1 k a (some c) else acc) (s, .ok)

/-- `BasicMovement.move_to` as generated = the model's `moveTo` step: exactly one run of the agent's `cell` setter, with exactly
    the given cell.  Guards of the call site, not of the code: the agent exists and its class has the mixin (`CellAgent`,
    `Grid2DMovingAgent`; a `FixedAgent` has no `move_to`: AttributeError in the model and in Python), and `space[c]` was a cell. -/
theorem C06_gen_move_to_eq_model (sp : Space) (s : State) (a : Aid) (c : Cid) (k : AKind) (r : MoverRec)
    (hk : s.kinds[a]? = some k) (hm : k ≠ .fixed) (hc : c ∈ sp.cells) :
    interpSetCell sp k a s (move_to r c) = step sp s (.moveTo a c) := by
  have h : move_to r c = [c] := by simp [move_to]
  rw [h]
  cases k <;> simp_all [interpSetCell, step]

/-- the exceptions of the `FixedCell.cell` setter in the small error enum of the translation -/
def fixedRes : Res → Except Py.Err Unit
  | .err .fixed => .error Py.Err.Value          -- ValueError("Cannot move agent in FixedCell")
  | .err .full => .error Py.Err.Exception       -- Exception("ERROR: Cell is full"), passed on from `add_agent`
  | _ => .ok ()

/-- `FixedCell.cell` (getter) as generated: the agent's `_mesa_cell` -/
theorem C06_gen_fixed_cell_eq_model (s : State) (a : Aid) : fixed_cell ⟨a, s.cellOf a⟩ = s.cellOf a := by
  simp [fixed_cell]

/-- `FixedCell.cell` (setter, S12-repaired order) as generated = the model's `setCellFixed` with a cell as target, on the
    agent's record and the record of the target cell: ValueError for an agent that has a cell (nothing touched), otherwise
    `add_agent` on the target — its refusal is passed on, the agent stays unplaced and the cell's record is unchanged —, then
    `_mesa_cell` names the target.  Result, the target cell's record afterwards and the agent's `_mesa_cell` afterwards are the
    model's.  (The model's third case, `agent.cell = None` on an unplaced fixed agent — `None.add_agent`: AttributeError — has no
    cell record to run on and stays with the correspondence check.) -/
theorem C06_gen_fixed_set_cell_eq_model (sp : Space) (s : State) (a : Aid) (c : Cid) (e : Bool) :
    fixed_set_cell ⟨a, s.cellOf a⟩ (cellRec sp s c e) =
      (fixedRes (setCellFixed sp s a (some c)).2, cellRec sp (setCellFixed sp s a (some c)).1 c e,
       (setCellFixed sp s a (some c)).1.cellOf a) := by
  simp only [fixed_set_cell, fixed_cell, setCellFixed]
  have hc : s.cellOf a = none ∨ ∃ o, s.cellOf a = some o := by cases s.cellOf a <;> simp
  rcases hc with hc | ⟨o, hc⟩
  · rw [gen_add_agent_spec, recFull_cellRec]
    simp only [addAgent]
    by_cases h : fullFor sp s c = true <;> simp [hc, h, fixedRes, cellRec, upd]
  · simp [hc, fixedRes]

/-- C18 over the generated text of the `FixedCell.cell` setter: whenever it raises — the agent has a cell already, or the
    target is full — the target cell's record and the agent's `_mesa_cell` are returned unchanged. -/
theorem C18_cells_fixed_set_cell_reject_generated (r : FixedRec) (cell : CellRec) (err : Py.Err)
    (h : (fixed_set_cell r cell).1 = .error err) : (fixed_set_cell r cell).2 = (cell, r._mesa_cell) := by
  revert h
  simp only [fixed_set_cell, fixed_cell]
  rw [gen_add_agent_spec]
  have hc : r._mesa_cell = none ∨ ∃ o, r._mesa_cell = some o := by cases r._mesa_cell <;> simp
  rcases hc with hc | ⟨o, hc⟩ <;> by_cases h2 : recFull cell = true <;> simp [hc, h2]

end Mesa.Cells
