import MesaModel.Model.LegacyPlaceRaw
import MesaModel.Proofs.LegacyIndex
/-! `place_agent` with arbitrary integer coordinates: rejected beyond the grid with nothing changed, identical to the modelled
call inside it, and histories that contain such rejected calls (C18-legacy / C08, round 3). -/
namespace Mesa.Legacy

open Grid

/-- the coordinates lie beyond what Python indexing accepts for a `w × h` nested list -/
def Grid.beyond (g : Grid) (p : Coord) : Prop := p.1 < -g.w ∨ g.w ≤ p.1 ∨ p.2 < -g.h ∨ g.h ≤ p.2

instance (g : Grid) (p : Coord) : Decidable (g.beyond p) := by unfold Grid.beyond; infer_instance

theorem placeAt_self (g : Grid) (a : Aid) (p : Coord) : g.placeAt a p p = g.place a p := rfl

theorem pyIndex_error_index (n i : Int) (e : Err) (h : pyIndex n i = .error e) : e = .index := by
  unfold pyIndex at h
  split at h
  · cases h
  · split at h
    · cases h
    · cases h; rfl

theorem rawCell_error_index (g : Grid) (p : Coord) (e : Err) (h : g.rawCell p = .error e) : e = .index := by
  unfold rawCell at h
  cases hx : pyIndex g.w p.1 with
  | error e' => rw [hx] at h; simp only [] at h; cases h; exact pyIndex_error_index _ _ _ hx
  | ok x =>
    rw [hx] at h; simp only [] at h
    cases hy : pyIndex g.h p.2 with
    | error e' => rw [hy] at h; simp only [] at h; cases h; exact pyIndex_error_index _ _ _ hy
    | ok y => rw [hy] at h; cases h

theorem rawCell_beyond (g : Grid) (hw : 0 < g.w) (hh : 0 < g.h) (p : Coord) : g.rawCell p = .error .index ↔ g.beyond p := by
  unfold Grid.beyond
  rw [← rawCell_error g hw hh p]
  constructor
  · intro h; exact ⟨_, h⟩
  · rintro ⟨e, he⟩
    have := rawCell_error_index g p e he
    subst this; exact he

theorem placeRaw_inGrid (g : Grid) (a : Aid) (p : Coord) (hp : g.inGrid p) : g.placeRaw a p = g.place a p := by
  simp only [placeRaw, rawCell_inGrid g p hp]; rfl

theorem placeRaw_beyond (g : Grid) (hw : 0 < g.w) (hh : 0 < g.h) (a : Aid) (p : Coord) (hp : g.beyond p) :
    g.placeRaw a p = (g, .err .index) := by
  simp only [placeRaw, (rawCell_beyond g hw hh p).mpr hp]

theorem placeAt_err (g : Grid) (a : Aid) (p c : Coord) (e : Err) (h : (g.placeAt a p c).2 = .err e) : (g.placeAt a p c).1 = g := by
  unfold placeAt at h ⊢
  repeat (first | split at h | cases h | rfl)
  all_goals simp_all

theorem placeRaw_err (g : Grid) (a : Aid) (p : Coord) (e : Err) (h : (g.placeRaw a p).2 = .err e) : (g.placeRaw a p).1 = g := by
  unfold placeRaw at h ⊢
  cases hr : g.rawCell p with
  | error e' => rfl
  | ok c => rw [hr] at h; exact placeAt_err g a p c e h

/-- when exactly `place_agent` raises, for arbitrary integers: IndexError iff the coordinates are beyond the grid's index range,
    `Cell not empty` iff they index an occupied SingleGrid cell -/
theorem placeRaw_res (g : Grid) (hw : 0 < g.w) (hh : 0 < g.h) (a : Aid) (p : Coord) :
    ((g.placeRaw a p).2 = .err .index ↔ g.beyond p) ∧
    ((g.placeRaw a p).2 = .err .full ↔ ∃ c, g.rawCell p = .ok c ∧ g.multi = false ∧ g.content c ≠ []) ∧
    ((g.placeRaw a p).2 = .ok ↔ ∃ c, g.rawCell p = .ok c ∧ (g.multi = true ∨ g.content c = [])) := by
  have hb := rawCell_beyond g hw hh p
  unfold placeRaw
  cases hr : g.rawCell p with
  | error e =>
    have he := rawCell_error_index g p e hr
    subst he
    rw [hr] at hb
    simp only [true_iff] at hb
    simp [hb]
  | ok c =>
    rw [hr] at hb
    have hnb : ¬ g.beyond p := fun h => by have := hb.mpr h; cases this
    simp only [Except.ok.injEq, exists_eq_left']
    unfold placeAt
    by_cases hm : g.multi = true
    · simp only [hm, if_true]
      refine ⟨⟨fun h => ?_, fun h => absurd h hnb⟩, ⟨fun h => ?_, fun h => by simp at h⟩, ⟨fun _ => Or.inl trivial, fun _ => ?_⟩⟩
      · split at h <;> cases h
      · split at h <;> cases h
      · split <;> rfl
    · have hmf : g.multi = false := by cases hx : g.multi <;> simp_all
      simp only [hmf, Bool.false_eq_true, if_false, isCellEmpty, false_or, true_and]
      by_cases hc : g.content c = []
      · simp [hc, hnb]
      · simp [hc, hnb]

/-- **the hazard inside `-size .. -1`** (outside the quantifier): the call succeeds when the aliased cell accepts the agent, the
    agent is stored in that cell of the grid, but its `pos` is the coordinate pair as given — not a cell of the grid — so the
    views disagree from then on -/
theorem placeRaw_alias_breaks (g : Grid) (hi : Inv g) (a : Aid) (p c : Coord) (hpos : g.pos a = none)
    (hc : g.rawCell p = .ok c) (hne : c ≠ p) (hok : (g.placeRaw a p).2 = .ok) :
    a ∈ (g.placeRaw a p).1.content c ∧ (g.placeRaw a p).1.pos a = some p ∧ ¬ Inv (g.placeRaw a p).1 := by
  have hnotin : a ∉ g.content c := fun h => by
    have := (hi.pos_content a c).mpr h; rw [hpos] at this; cases this
  have key : a ∈ (g.placeRaw a p).1.content c ∧ (g.placeRaw a p).1.pos a = some p := by
    unfold placeRaw at hok ⊢
    rw [hc] at hok ⊢
    simp only [] at hok ⊢
    unfold placeAt at hok ⊢
    by_cases hm : g.multi = true
    · simp only [hm, if_true, hpos, true_or] at hok ⊢
      simp [upd, updA]
    · have hmf : g.multi = false := by cases hx : g.multi <;> simp_all
      simp only [hmf, Bool.false_eq_true, if_false] at hok ⊢
      split at hok
      · rename_i he; simp only [he, if_true]; simp [upd, updA]
      · cases hok
  refine ⟨key.1, key.2, fun hinv => ?_⟩
  have := (hinv.pos_content a c).mpr key.1
  rw [key.2] at this
  exact hne (Option.some.inj this).symm

/-! ### histories that contain placements beyond the grid -/

/-- the quantifier's precondition, widened: `place_agent` of an unplaced agent at in-grid coordinates *or* at coordinates beyond
    the grid's index range (rejected); the aliasing band `-size .. -1` stays outside -/
def OpOkR (g : Grid) : Op → Prop
  | .place a p => g.pos a = none ∧ (g.inGrid p ∨ g.beyond p)
  | _ => True

def HistOkR (g : Grid) : List Op → Prop
  | [] => True
  | op :: ops => OpOkR g op ∧ HistOkR (stepR g op).1 ops

/-- the calls other than placements beyond a `w × h` grid -/
def keepOp (w h : Int) : Op → Bool
  | .place _ p => decide (0 ≤ p.1 ∧ p.1 < w ∧ 0 ≤ p.2 ∧ p.2 < h)
  | _ => true

/-- **a history with placements beyond the grid is the history without them**: every such call is rejected with nothing
    changed, the remaining history is within the original quantifier, and both end in the same state — so every C08 / C18
    theorem about `run` holds for these histories too -/
theorem runR_eq_run (ops : List Op) : ∀ (g : Grid), 0 < g.w → 0 < g.h → Inv g → HistOkR g ops →
    runR g ops = run g (ops.filter (keepOp g.w g.h)) ∧ HistOk g (ops.filter (keepOp g.w g.h)) := by
  induction ops with
  | nil => intro g _ _ _ _; exact ⟨rfl, trivial⟩
  | cons op ops ih =>
    intro g hw hh hi hok
    obtain ⟨hok1, hok2⟩ := hok
    -- a call that is not a placement beyond the grid: `stepR` is `step`, the call is kept, and it is within the quantifier
    have same : stepR g op = step g op → OpOk g op → keepOp g.w g.h op = true →
        runR g (op :: ops) = run g ((op :: ops).filter (keepOp g.w g.h)) ∧ HistOk g ((op :: ops).filter (keepOp g.w g.h)) := by
      intro hst hopok hkeep
      obtain ⟨i1, c1⟩ := step_inv_cfg g op hw hh hi hopok
      have hw1 : 0 < (step g op).1.w := by rw [c1.1]; exact hw
      have hh1 : 0 < (step g op).1.h := by rw [c1.2.1]; exact hh
      rw [hst] at hok2
      obtain ⟨h1, h2⟩ := ih (step g op).1 hw1 hh1 i1 hok2
      rw [c1.1, c1.2.1] at h1 h2
      simp only [runR, List.filter_cons, hkeep, if_true, run, hst, HistOk]
      exact ⟨h1, hopok, h2⟩
    cases op with
    | place a p =>
      obtain ⟨hpos, hin | hbey⟩ := hok1
      · exact same (by simp only [stepR, step, placeRaw_inGrid g a p hin]) ⟨hpos, hin⟩
          (by simp only [keepOp, decide_eq_true_eq]; exact hin)
      · have hst : stepR g (.place a p) = (g, .err .index) := by simp only [stepR, placeRaw_beyond g hw hh a p hbey]
        rw [hst] at hok2
        have hkeep : keepOp g.w g.h (.place a p) = false := by
          simp only [keepOp, decide_eq_false_iff_not]
          unfold Grid.beyond at hbey; omega
        obtain ⟨h1, h2⟩ := ih g hw hh hi hok2
        simp only [runR, hst, List.filter_cons, hkeep]
        exact ⟨h1, h2⟩
    | remove a => exact same rfl trivial rfl
    | move a p => exact same rfl trivial rfl
    | swap a b => exact same rfl trivial rfl
    | moveToEmpty a s => exact same rfl trivial rfl
    | moveToOneOf a ps sel he s => exact same rfl trivial rfl
    | readEmpties => exact same rfl trivial rfl

end Mesa.Legacy
