import MesaModel.Model.LegacySelect
import MesaModel.Proofs.LegacyC08
import MesaModel.Proofs.LegacyOrth
/-! Helper lemmas for the C08 theorems about `coord_iter` and `select_cells` (Model/LegacySelect.lean). -/
namespace Mesa.Legacy

open Grid

/-! ### coord_iter -/

theorem coordIter_coords (g : Grid) : g.coordIter.map (·.2) = g.allCells := by
  simp [coordIter, List.map_map, Function.comp_def]

theorem mem_coordIter (g : Grid) (l : List Aid) (c : Coord) : (l, c) ∈ g.coordIter ↔ g.inGrid c ∧ l = g.content c := by
  simp only [coordIter, List.mem_map, Prod.mk.injEq]
  constructor
  · rintro ⟨c', hc', h1, rfl⟩; exact ⟨(mem_allCells g _).mp hc', h1.symm⟩
  · rintro ⟨hc, rfl⟩; exact ⟨c, (mem_allCells g c).mpr hc, rfl, rfl⟩

theorem coordIter_pos (g : Grid) (hi : Inv g) (a : Aid) (p : Coord) :
    g.pos a = some p ↔ ∃ l, (l, p) ∈ g.coordIter ∧ a ∈ l := by
  constructor
  · intro hp
    have hm := (hi.pos_content a p).mp hp
    exact ⟨g.content p, (mem_coordIter g _ _).mpr ⟨hi.in_grid p (List.ne_nil_of_mem hm), rfl⟩, hm⟩
  · rintro ⟨l, hl, ha⟩
    obtain ⟨_, rfl⟩ := (mem_coordIter g _ _).mp hl
    exact (hi.pos_content a p).mpr ha

/-! ### conditions -/

theorem applyConds_ok (ls : Layers) (conds : List Cond) (m : CMask) (hv : ∀ c ∈ conds, c.layer < ls.n) :
    ∃ m', applyConds ls conds m = .ok m' ∧
      ∀ p, m' p = (m p && conds.all (fun c => c.cmp.holds (ls.data c.layer p) c.k)) := by
  induction conds generalizing m with
  | nil => exact ⟨m, rfl, fun p => by simp⟩
  | cons c cs ih =>
    have hc : c.layer < ls.n := hv c (by simp)
    obtain ⟨m', h1, h2⟩ := ih (fun p => m p && c.cmp.holds (ls.data c.layer p) c.k) (fun c' hc' => hv c' (by simp [hc']))
    refine ⟨m', by simp only [applyConds, hc, if_true]; exact h1, fun p => ?_⟩
    rw [h2 p]; simp [Bool.and_assoc]

theorem applyConds_error (ls : Layers) (conds : List Cond) (m : CMask) :
    (∃ e, applyConds ls conds m = .error e) ↔ ∃ c ∈ conds, ¬ c.layer < ls.n := by
  induction conds generalizing m with
  | nil => simp [applyConds]
  | cons c cs ih =>
    by_cases hc : c.layer < ls.n
    · simp only [applyConds, hc, if_true, ih, List.mem_cons, exists_eq_or_imp, not_true_eq_false, false_or]
    · simp only [applyConds, hc, if_false, List.mem_cons, exists_eq_or_imp, not_false_eq_true, true_or, iff_true]
      exact ⟨_, rfl⟩

/-! ### the highest / lowest value of a list -/

theorem foldl_max_spec (xs : List Int) (x : Int) :
    (xs.foldl (fun a b => if a < b then b else a) x = x ∨ xs.foldl (fun a b => if a < b then b else a) x ∈ xs) ∧
    x ≤ xs.foldl (fun a b => if a < b then b else a) x ∧ ∀ v ∈ xs, v ≤ xs.foldl (fun a b => if a < b then b else a) x := by
  induction xs generalizing x with
  | nil => simp
  | cons y ys ih =>
    simp only [List.foldl_cons]
    obtain ⟨h1, h2, h3⟩ := ih (if x < y then y else x)
    by_cases hxy : x < y
    · simp only [hxy, if_true] at h1 h2 h3 ⊢
      refine ⟨?_, by omega, fun v hv => ?_⟩
      · rcases h1 with h1 | h1
        · right; rw [h1]; simp
        · right; exact List.mem_cons_of_mem _ h1
      · rcases List.mem_cons.mp hv with rfl | hv
        · exact h2
        · exact h3 v hv
    · simp only [hxy, if_false] at h1 h2 h3 ⊢
      refine ⟨?_, h2, fun v hv => ?_⟩
      · rcases h1 with h1 | h1
        · left; exact h1
        · right; exact List.mem_cons_of_mem _ h1
      · rcases List.mem_cons.mp hv with rfl | hv
        · omega
        · exact h3 v hv

theorem foldl_min_spec (xs : List Int) (x : Int) :
    (xs.foldl (fun a b => if b < a then b else a) x = x ∨ xs.foldl (fun a b => if b < a then b else a) x ∈ xs) ∧
    xs.foldl (fun a b => if b < a then b else a) x ≤ x ∧ ∀ v ∈ xs, xs.foldl (fun a b => if b < a then b else a) x ≤ v := by
  induction xs generalizing x with
  | nil => simp
  | cons y ys ih =>
    simp only [List.foldl_cons]
    obtain ⟨h1, h2, h3⟩ := ih (if y < x then y else x)
    by_cases hxy : y < x
    · simp only [hxy, if_true] at h1 h2 h3 ⊢
      refine ⟨?_, by omega, fun v hv => ?_⟩
      · rcases h1 with h1 | h1
        · right; rw [h1]; simp
        · right; exact List.mem_cons_of_mem _ h1
      · rcases List.mem_cons.mp hv with rfl | hv
        · exact h2
        · exact h3 v hv
    · simp only [hxy, if_false] at h1 h2 h3 ⊢
      refine ⟨?_, h2, fun v hv => ?_⟩
      · rcases h1 with h1 | h1
        · left; exact h1
        · right; exact List.mem_cons_of_mem _ h1
      · rcases List.mem_cons.mp hv with rfl | hv
        · omega
        · exact h3 v hv

theorem extremeOf_none (hi : Bool) (vals : List Int) : extremeOf hi vals = none ↔ vals = [] := by
  cases vals <;> simp [extremeOf]

theorem extremeOf_hi (vals : List Int) (t : Int) (h : extremeOf true vals = some t) : t ∈ vals ∧ ∀ v ∈ vals, v ≤ t := by
  cases vals with
  | nil => simp [extremeOf] at h
  | cons x xs =>
    simp only [extremeOf, if_true, Option.some.injEq] at h
    obtain ⟨h1, h2, h3⟩ := foldl_max_spec xs x
    rw [h] at h1 h2 h3
    refine ⟨?_, fun v hv => ?_⟩
    · rcases h1 with h1 | h1
      · simp [h1]
      · exact List.mem_cons_of_mem _ h1
    · rcases List.mem_cons.mp hv with rfl | hv
      · exact h2
      · exact h3 v hv

theorem extremeOf_lo (vals : List Int) (t : Int) (h : extremeOf false vals = some t) : t ∈ vals ∧ ∀ v ∈ vals, t ≤ v := by
  cases vals with
  | nil => simp [extremeOf] at h
  | cons x xs =>
    simp only [extremeOf, Bool.false_eq_true, if_false, Option.some.injEq] at h
    obtain ⟨h1, h2, h3⟩ := foldl_min_spec xs x
    rw [h] at h1 h2 h3
    refine ⟨?_, fun v hv => ?_⟩
    · rcases h1 with h1 | h1
      · simp [h1]
      · exact List.mem_cons_of_mem _ h1
    · rcases List.mem_cons.mp hv with rfl | hv
      · exact h2
      · exact h3 v hv

/-! ### extreme values -/

/-- one extreme value on a layer that exists: exactly the selected cells of the grid whose value no selected cell of the
    grid beats -/
theorem applyExtremes_one (g : Grid) (ls : Layers) (i : Nat) (hi : i < ls.n) (high : Bool) (m : CMask) :
    ∃ m', g.applyExtremes ls [⟨i, if high then .highest else .lowest⟩] m = .ok m' ∧
      ∀ p, g.inGrid p → (m' p = true ↔ m p = true ∧ ∀ q, g.inGrid q → m q = true →
        if high then ls.data i q ≤ ls.data i p else ls.data i p ≤ ls.data i q) := by
  cases high with
  | true =>
    simp only [if_true, applyExtremes, hi]
    cases hx : extremeOf true (List.map (ls.data i) (List.filter m g.allCells)) with
    | none =>
      refine ⟨_, rfl, fun p hp => ?_⟩
      have hnil := (extremeOf_none _ _).mp hx
      simp only [List.map_eq_nil_iff, List.filter_eq_nil_iff] at hnil
      simp only [Bool.false_eq_true, false_iff, not_and]
      intro hm; exact absurd hm (hnil p ((mem_allCells g p).mpr hp))
    | some t =>
      refine ⟨_, rfl, fun p hp => ?_⟩
      obtain ⟨h1, h2⟩ := extremeOf_hi _ _ hx
      simp only [List.mem_map, List.mem_filter, mem_allCells] at h1 h2
      simp only [Bool.and_eq_true, decide_eq_true_eq]
      constructor
      · rintro ⟨hm, rfl⟩
        exact ⟨hm, fun q hq hmq => h2 _ ⟨q, ⟨hq, hmq⟩, rfl⟩⟩
      · rintro ⟨hm, hall⟩
        obtain ⟨q, ⟨hq, hmq⟩, rfl⟩ := h1
        have := hall q hq hmq
        have := h2 _ ⟨p, ⟨hp, hm⟩, rfl⟩
        exact ⟨hm, by omega⟩
  | false =>
    simp only [Bool.false_eq_true, if_false, applyExtremes, hi, if_true]
    cases hx : extremeOf false (List.map (ls.data i) (List.filter m g.allCells)) with
    | none =>
      refine ⟨_, rfl, fun p hp => ?_⟩
      have hnil := (extremeOf_none _ _).mp hx
      simp only [List.map_eq_nil_iff, List.filter_eq_nil_iff] at hnil
      simp only [Bool.false_eq_true, false_iff, not_and]
      intro hm; exact absurd hm (hnil p ((mem_allCells g p).mpr hp))
    | some t =>
      refine ⟨_, rfl, fun p hp => ?_⟩
      obtain ⟨h1, h2⟩ := extremeOf_lo _ _ hx
      simp only [List.mem_map, List.mem_filter, mem_allCells] at h1 h2
      simp only [Bool.and_eq_true, decide_eq_true_eq]
      constructor
      · rintro ⟨hm, rfl⟩
        exact ⟨hm, fun q hq hmq => h2 _ ⟨q, ⟨hq, hmq⟩, rfl⟩⟩
      · rintro ⟨hm, hall⟩
        obtain ⟨q, ⟨hq, hmq⟩, rfl⟩ := h1
        have := hall q hq hmq
        have := h2 _ ⟨p, ⟨hp, hm⟩, rfl⟩
        exact ⟨hm, by omega⟩

def Extreme.valid (ls : Layers) (e : Extreme) : Prop := e.layer < ls.n ∧ e.mode ≠ .other

/-- any chain of extreme values only narrows the selection, and never narrows a non-empty selection to nothing -/
theorem applyExtremes_ok (g : Grid) (ls : Layers) (exts : List Extreme) (m : CMask) (hv : ∀ e ∈ exts, e.valid ls) :
    ∃ m', g.applyExtremes ls exts m = .ok m' ∧ (∀ p, m' p = true → m p = true) ∧
      ((∃ p, g.inGrid p ∧ m p = true) → ∃ p, g.inGrid p ∧ m' p = true) := by
  induction exts generalizing m with
  | nil => exact ⟨m, rfl, fun _ h => h, fun h => h⟩
  | cons e es ih =>
    obtain ⟨hl, hmode⟩ := hv e (by simp)
    have hes : ∀ e' ∈ es, e'.valid ls := fun e' he' => hv e' (by simp [he'])
    obtain ⟨i, mode⟩ := e
    simp only at hl hmode
    -- both modes go on with a mask that narrows `m` and keeps a selected cell of the grid if there was one
    have key : ∀ (m1 : CMask), (∀ p, m1 p = true → m p = true) →
        ((∃ p, g.inGrid p ∧ m p = true) → ∃ p, g.inGrid p ∧ m1 p = true) →
        ∃ m', g.applyExtremes ls es m1 = .ok m' ∧
          (∀ p, m' p = true → m p = true) ∧ ((∃ p, g.inGrid p ∧ m p = true) → ∃ p, g.inGrid p ∧ m' p = true) := by
      intro m1 hsub hne
      obtain ⟨m', h1, h2, h3⟩ := ih m1 hes
      exact ⟨m', h1, fun p hp => hsub p (h2 p hp), fun h => h3 (hne h)⟩
    have stepNone : (∀ p, g.inGrid p → m p = false) →
        ∃ m', g.applyExtremes ls es (fun _ => false) = Except.ok m' ∧
          (∀ p, m' p = true → m p = true) ∧ ((∃ p, g.inGrid p ∧ m p = true) → ∃ p, g.inGrid p ∧ m' p = true) := by
      intro hnone
      refine key (fun _ => false) (fun p hp => by cases hp) ?_
      rintro ⟨p, hp, hmp⟩
      rw [hnone p hp] at hmp; cases hmp
    have stepSome : ∀ t, (∃ q, g.inGrid q ∧ m q = true ∧ ls.data i q = t) →
        ∃ m', g.applyExtremes ls es (fun p => m p && decide (ls.data i p = t)) = Except.ok m' ∧
          (∀ p, m' p = true → m p = true) ∧ ((∃ p, g.inGrid p ∧ m p = true) → ∃ p, g.inGrid p ∧ m' p = true) := by
      intro t hsome
      refine key (fun p => m p && decide (ls.data i p = t)) (fun p hp => ?_) (fun _ => ?_)
      · simp only [Bool.and_eq_true] at hp; exact hp.1
      · obtain ⟨q, hq, hmq, hd⟩ := hsome
        exact ⟨q, hq, by simp [hmq, hd]⟩
    have hvals : ∀ hi' : Bool, (∀ t, extremeOf hi' (List.map (ls.data i) (List.filter m g.allCells)) = some t →
          ∃ q, g.inGrid q ∧ m q = true ∧ ls.data i q = t) ∧
        (extremeOf hi' (List.map (ls.data i) (List.filter m g.allCells)) = none → ∀ p, g.inGrid p → m p = false) := by
      intro hi'
      refine ⟨fun t ht => ?_, fun hn p hp => ?_⟩
      · have hmem : t ∈ List.map (ls.data i) (List.filter m g.allCells) := by
          cases hi' with
          | true => exact (extremeOf_hi _ _ ht).1
          | false => exact (extremeOf_lo _ _ ht).1
        simp only [List.mem_map, List.mem_filter, mem_allCells] at hmem
        obtain ⟨q, ⟨hq, hmq⟩, rfl⟩ := hmem
        exact ⟨q, hq, hmq, rfl⟩
      · have hnil := (extremeOf_none _ _).mp hn
        simp only [List.map_eq_nil_iff, List.filter_eq_nil_iff] at hnil
        have := hnil p ((mem_allCells g p).mpr hp)
        simpa using this
    cases mode with
    | other => exact absurd rfl hmode
    | highest =>
      simp only [applyExtremes, hl, if_true]
      split
      · next hx => exact stepNone ((hvals true).2 hx)
      · next t hx => exact stepSome t ((hvals true).1 t hx)
    | lowest =>
      simp only [applyExtremes, hl, if_true]
      split
      · next hx => exact stepNone ((hvals false).2 hx)
      · next t hx => exact stepSome t ((hvals false).1 t hx)

theorem applyExtremes_error (g : Grid) (ls : Layers) (exts : List Extreme) (m : CMask) :
    (∃ e, g.applyExtremes ls exts m = .error e) ↔ ∃ x ∈ exts, ¬ x.valid ls := by
  induction exts generalizing m with
  | nil => simp [applyExtremes]
  | cons x xs ih =>
    obtain ⟨i, mode⟩ := x
    by_cases hl : i < ls.n
    · cases mode with
      | other =>
        simp only [applyExtremes, hl, if_true, List.mem_cons, exists_eq_or_imp, Extreme.valid, ne_eq, not_true_eq_false,
          and_false, not_false_eq_true, true_or, iff_true]
        exact ⟨_, rfl⟩
      | highest =>
        simp only [applyExtremes, hl, if_true, List.mem_cons, exists_eq_or_imp, Extreme.valid, ne_eq, reduceCtorEq,
          not_false_eq_true, and_self, not_true_eq_false, false_or]
        split <;> exact ih _
      | lowest =>
        simp only [applyExtremes, hl, if_true, List.mem_cons, exists_eq_or_imp, Extreme.valid, ne_eq, reduceCtorEq,
          not_false_eq_true, and_self, not_true_eq_false, false_or]
        split <;> exact ih _
    · simp only [applyExtremes, hl, if_false, List.mem_cons, exists_eq_or_imp, Extreme.valid, false_and, not_false_eq_true,
        true_or, iff_true]
      exact ⟨_, rfl⟩

/-! ### select_cells -/

/-- the cells selected before any extreme value is applied -/
def Grid.Candidate (g : Grid) (ls : Layers) (masks : List CMask) (onlyEmpty : Bool) (conds : List Cond) (p : Coord) : Prop :=
  g.inGrid p ∧ (∀ m ∈ masks, m p = true) ∧ (onlyEmpty = true → g.content p = []) ∧
    ∀ c ∈ conds, c.cmp.holds (ls.data c.layer p) c.k = true

/-- with conditions on layers that exist, the conditions stage yields a mask that is exactly `Candidate` on the cells of the
    grid, and `select_cells` is the chain of extreme values applied to it -/
theorem selectMask_conds (g : Grid) (hinv : Inv g) (ls : Layers) (masks : List CMask) (oe : Bool) (conds : List Cond)
    (hv : ∀ c ∈ conds, c.layer < ls.n) :
    ∃ m, (∀ p, g.inGrid p → (m p = true ↔ g.Candidate ls masks oe conds p)) ∧
      ∀ exts, g.selectMask ls masks oe conds exts = g.applyExtremes ls exts m := by
  obtain ⟨m', h1, h2⟩ := applyConds_ok ls conds
    (if oe then (fun p => (masks.all fun m => m p) && g.mask p) else fun p => masks.all fun m => m p) hv
  refine ⟨m', fun p hp => ?_, fun exts => by simp only [selectMask, h1]⟩
  rw [h2 p]
  simp only [Candidate, hp, true_and]
  cases oe with
  | true =>
    simp only [if_true, Bool.and_eq_true, List.all_eq_true, hinv.mask p hp, List.isEmpty_iff, forall_const, and_assoc]
  | false =>
    simp only [Bool.false_eq_true, if_false, Bool.and_eq_true, List.all_eq_true, false_imp_iff, true_and]

theorem sorted_filter_allCells (g : Grid) (m : CMask) : SortedSet (g.allCells.filter m) :=
  List.Pairwise.filter _ (sorted_allCells g)

theorem selectCells_of_mask (g : Grid) (ls : Layers) (masks : List CMask) (oe : Bool) (conds : List Cond) (exts : List Extreme)
    (m : CMask) (h : g.selectMask ls masks oe conds exts = .ok m) :
    g.selectCells ls masks oe conds exts = .ok (g.allCells.filter m) := by
  simp only [selectCells, h]

/-- `select_cells` without extreme values: exactly the candidate cells, in row-major order -/
theorem selectCells_exact (g : Grid) (hinv : Inv g) (ls : Layers) (masks : List CMask) (oe : Bool) (conds : List Cond)
    (hv : ∀ c ∈ conds, c.layer < ls.n) :
    ∃ l, g.selectCells ls masks oe conds [] = .ok l ∧ SortedSet l ∧ ∀ p, p ∈ l ↔ g.Candidate ls masks oe conds p := by
  obtain ⟨m, h1, h2⟩ := selectMask_conds g hinv ls masks oe conds hv
  refine ⟨_, selectCells_of_mask g ls masks oe conds [] m (by rw [h2]; rfl), sorted_filter_allCells g m, fun p => ?_⟩
  simp only [List.mem_filter, mem_allCells]
  constructor
  · rintro ⟨hp, hm⟩; exact (h1 p hp).mp hm
  · intro hc; exact ⟨hc.1, (h1 p hc.1).mpr hc⟩

/-- one extreme value: exactly the candidates whose value no candidate beats -/
theorem selectCells_extreme (g : Grid) (hinv : Inv g) (ls : Layers) (masks : List CMask) (oe : Bool) (conds : List Cond)
    (hv : ∀ c ∈ conds, c.layer < ls.n) (i : Nat) (hi : i < ls.n) (high : Bool) :
    ∃ l, g.selectCells ls masks oe conds [⟨i, if high then .highest else .lowest⟩] = .ok l ∧ SortedSet l ∧
      ∀ p, p ∈ l ↔ g.Candidate ls masks oe conds p ∧ ∀ q, g.Candidate ls masks oe conds q →
        if high then ls.data i q ≤ ls.data i p else ls.data i p ≤ ls.data i q := by
  obtain ⟨m, h1, h2⟩ := selectMask_conds g hinv ls masks oe conds hv
  obtain ⟨m', h3, h4⟩ := applyExtremes_one g ls i hi high m
  refine ⟨_, selectCells_of_mask g ls masks oe conds _ m' (by rw [h2]; exact h3), sorted_filter_allCells g m', fun p => ?_⟩
  simp only [List.mem_filter, mem_allCells]
  constructor
  · rintro ⟨hp, hm⟩
    obtain ⟨hmp, hall⟩ := (h4 p hp).mp hm
    exact ⟨(h1 p hp).mp hmp, fun q hq => hall q hq.1 ((h1 q hq.1).mpr hq)⟩
  · rintro ⟨hc, hall⟩
    exact ⟨hc.1, (h4 p hc.1).mpr ⟨(h1 p hc.1).mpr hc, fun q hq hmq => hall q ((h1 q hq).mp hmq)⟩⟩

/-- any chain of valid extreme values selects a sub-list of the candidates and, if there are candidates, at least one -/
theorem selectCells_narrow (g : Grid) (hinv : Inv g) (ls : Layers) (masks : List CMask) (oe : Bool) (conds : List Cond)
    (hv : ∀ c ∈ conds, c.layer < ls.n) (exts : List Extreme) (hx : ∀ e ∈ exts, e.valid ls) :
    ∃ l0 l, g.selectCells ls masks oe conds [] = .ok l0 ∧ g.selectCells ls masks oe conds exts = .ok l ∧
      l.Sublist l0 ∧ (l0 ≠ [] → l ≠ []) := by
  obtain ⟨m, h1, h2⟩ := selectMask_conds g hinv ls masks oe conds hv
  obtain ⟨m', h3, h4, h5⟩ := applyExtremes_ok g ls exts m hx
  refine ⟨_, _, selectCells_of_mask g ls masks oe conds [] m (by rw [h2]; rfl),
    selectCells_of_mask g ls masks oe conds exts m' (by rw [h2]; exact h3), ?_, ?_⟩
  · have : g.allCells.filter m' = (g.allCells.filter m).filter m' := by
      rw [List.filter_filter]
      exact List.filter_congr fun p _ => by
        cases hm' : m' p with
        | false => simp
        | true => simp [h4 p hm']
    rw [this]; exact List.filter_sublist
  · intro hne
    obtain ⟨p, hp⟩ := List.exists_mem_of_ne_nil _ hne
    simp only [List.mem_filter, mem_allCells] at hp
    obtain ⟨q, hq, hmq⟩ := h5 ⟨p, hp.1, hp.2⟩
    exact List.ne_nil_of_mem (List.mem_filter.mpr ⟨(mem_allCells g q).mpr hq, hmq⟩)

theorem selectCells_error (g : Grid) (ls : Layers) (masks : List CMask) (oe : Bool) (conds : List Cond) (exts : List Extreme) :
    (∃ e, g.selectCells ls masks oe conds exts = .error e) ↔
      (∃ c ∈ conds, ¬ c.layer < ls.n) ∨ ∃ x ∈ exts, ¬ x.valid ls := by
  simp only [selectCells, selectMask]
  cases hc : applyConds ls conds (if oe then (fun p => (masks.all fun m => m p) && g.mask p) else fun p => masks.all fun m => m p) with
  | error e =>
    have := (applyConds_error ls conds _).mp ⟨e, hc⟩
    simp only [this, true_or, iff_true]; exact ⟨e, rfl⟩
  | ok m2 =>
    have hno : ¬ ∃ c ∈ conds, ¬ c.layer < ls.n := fun h => by
      obtain ⟨e, he⟩ := (applyConds_error ls conds _).mpr h
      rw [hc] at he; cases he
    simp only [hno, false_or]
    rw [← applyExtremes_error g ls exts m2]
    cases g.applyExtremes ls exts m2 with
    | error e => simp
    | ok m3 => simp

/-- `select_cells(only_empty=True)` with nothing else is the list a fresh `build_empties` produces -/
theorem selectCells_only_empty (g : Grid) (hinv : Inv g) (ls : Layers) :
    g.selectCells ls [] true [] [] = .ok g.buildEmpties := by
  simp only [selectCells, selectMask, applyConds, applyExtremes, List.all_nil, Bool.true_and, if_true, buildEmpties]
  congr 1
  exact List.filter_congr fun p hp => by
    rw [hinv.mask p ((mem_allCells g p).mp hp)]; rfl

end Mesa.Legacy
