import MesaModel.Proofs.Devs
/-!
Shared callables: many events may be scheduled with the SAME callable object (`Ev.fn`).  Once the program has dropped its
last strong reference to the callable `c` (`dropFn`), `Collected c` holds and keeps holding through every further history:
the program cannot schedule `c` again, no fresh callable gets the identity `c`, and every pending event that was scheduled
with `c` has a dead weak reference — so none of them ever executes.
-/
namespace Mesa.Devs

structure Collected (c : Nat) (s : Sim) : Prop where
  unheld : s.fns.lookup c = none
  old : c < s.nextTag
  dead : ∀ e ∈ s.pending, e.isStep = false → e.fn = c → e.dead = true

theorem lookup_filter_ne_none {l : List (Nat × Nat)} {c : Nat} (k : Nat) (h : l.lookup c = none) :
    (l.filter fun x => x.1 != k).lookup c = none := by
  induction l with
  | nil => rfl
  | cons x xs ih =>
    obtain ⟨x1, x2⟩ := x
    simp only [List.lookup_cons] at h
    split at h
    · simp at h
    · rename_i hne
      simp only [List.filter_cons]
      split
      · simp only [List.lookup_cons, hne]; exact ih h
      · exact ih h

theorem lookup_filter_self (l : List (Nat × Nat)) (c : Nat) : (l.filter fun x => x.1 != c).lookup c = none := by
  induction l with
  | nil => rfl
  | cons x xs ih =>
    obtain ⟨x1, x2⟩ := x
    simp only [List.filter_cons]
    split
    · rename_i hne
      have : (c == x1) = false := by
        simp only [bne_iff_ne, ne_eq] at hne
        simp only [beq_eq_false_iff_ne, ne_eq]
        exact fun h => hne h.symm
      simp only [List.lookup_cons, this]; exact ih
    · exact ih

/-- dropping the callable establishes `Collected` -/
theorem dropFn_collects (s : Sim) {c : Nat} (hc : c < s.nextTag) : Collected c (dropFn s c) := by
  refine ⟨lookup_filter_self _ _, hc, ?_⟩
  intro e he hu hf
  obtain ⟨e₀, _, rfl⟩ := List.mem_map.mp he
  by_cases hcond : (!e₀.isStep && e₀.fn == c) = true
  · simp only [hcond, if_true]
  · simp only [hcond] at hu hf
    simp at hu hf
    simp [hu, hf] at hcond

theorem collected_sub {c : Nat} {s s' : Sim} (h : Collected c s) (hf : s'.fns = s.fns) (hn : s'.nextTag = s.nextTag)
    (hp : ∀ e ∈ s'.pending, e ∈ s.pending) : Collected c s' :=
  ⟨by rw [hf]; exact h.unheld, by rw [hn]; exact h.old, fun e he => h.dead e (hp e he)⟩

/-- one more event, with a callable other than `c` (a fresh one, or a held one) -/
theorem pushUser_collected {c : Nat} {s : Sim} (h : Collected c s) (t : Int) (p a : Nat) (c' : Option Nat)
    (hc' : c' ≠ some c) : Collected c (pushUser s t p a c') := by
  have hlt := h.old
  refine ⟨?_, by simp only [pushUser]; omega, ?_⟩
  · cases c' with
    | none =>
      have : (c == s.nextTag) = false := by simp only [beq_eq_false_iff_ne, ne_eq]; omega
      simp only [pushUser, List.lookup_cons, this]; exact h.unheld
    | some k => exact h.unheld
  · intro e he hu hf
    rcases mem_insert.mp he with rfl | he
    · exfalso
      cases c' with
      | none => simp only [Option.getD_none] at hf; omega
      | some k => simp only [Option.getD_some] at hf; exact hc' (by rw [hf])
    · exact h.dead e he hu hf

theorem pushStep_collected {c : Nat} {s : Sim} (h : Collected c s) : Collected c (pushStep s) := by
  refine ⟨h.unheld, h.old, ?_⟩
  intro e he hu hf
  rcases mem_insert.mp he with rfl | he
  · simp at hu
  · exact h.dead e he hu hf

theorem mapFlags_collected {c : Nat} {s s' : Sim} (h : Collected c s) (g : Ev → Ev)
    (hg : ∀ e, (g e).isStep = e.isStep ∧ (g e).fn = e.fn ∧ (e.dead = true → (g e).dead = true))
    (hp : s'.pending = s.pending.map g) (hf : s'.fns.lookup c = none) (hn : s'.nextTag = s.nextTag) : Collected c s' := by
  refine ⟨hf, by rw [hn]; exact h.old, ?_⟩
  intro e he hu hfn
  rw [hp] at he
  obtain ⟨e₀, he₀, rfl⟩ := List.mem_map.mp he
  exact (hg e₀).2.2 (h.dead e₀ he₀ (by rw [← (hg e₀).1]; exact hu) (by rw [← (hg e₀).2.1]; exact hfn))

theorem doCmd1_collected {c : Nat} {s : Sim} (h : Collected c s) (cm : Cmd) : Collected c (doCmd1 s cm) := by
  cases cm with
  | schedAbs t p a =>
    simp only [doCmd1, schedAbs]
    split
    · rename_i s' hs
      split at hs
      · simp at hs
      · split at hs
        · simp at hs
        · simp only [Except.ok.injEq] at hs; subst hs; exact pushUser_collected h _ _ _ none (by simp)
    · exact h
  | schedRel d p a =>
    simp only [doCmd1, schedRel]
    split
    · rename_i s' hs
      split at hs
      · simp at hs
      · split at hs
        · simp at hs
        · simp only [Except.ok.injEq] at hs; subst hs; exact pushUser_collected h _ _ _ none (by simp)
    · exact h
  | again k d p =>
    rcases doCmd1_again_cases s k d p with he | ⟨a, hl, _, he⟩ <;> rw [he]
    · exact h
    · refine pushUser_collected h _ _ _ (some k) ?_
      intro hk
      simp only [Option.some.injEq] at hk
      rw [hk, h.unheld] at hl
      simp at hl
  | cancel k =>
    exact mapFlags_collected h _ (fun e => by split <;> simp) rfl h.unheld rfl
  | drop k =>
    exact mapFlags_collected h _ (fun e => by split <;> simp) rfl (lookup_filter_ne_none k h.unheld) rfl
  | halt => exact h
  | raise x => exact ⟨h.unheld, h.old, h.dead⟩

theorem doCmd_collected {c : Nat} {s : Sim} (h : Collected c s) (cm : Cmd) : Collected c (doCmd s cm) := by
  unfold doCmd; split
  · exact h
  · exact doCmd1_collected h cm

theorem foldl_doCmd_collected {c : Nat} {s : Sim} (h : Collected c s) (cs : List Cmd) : Collected c (cs.foldl doCmd s) := by
  induction cs generalizing s with
  | nil => exact h
  | cons cm cs ih => exact ih (doCmd_collected h cm)

theorem rearm_collected {c : Nat} {s : Sim} (h : Collected c s) : Collected c (rearm s) := by
  unfold rearm; split
  · exact pushStep_collected h
  · exact h

theorem exec_collected {c : Nat} {s : Sim} (h : Collected c s) (e : Ev) : Collected c (exec s e) := by
  unfold exec
  split
  · exact collected_sub h rfl rfl (fun _ he => he)
  · split
    · apply foldl_doCmd_collected
      have h1 := rearm_collected h
      exact ⟨h1.unheld, h1.old, h1.dead⟩
    · apply foldl_doCmd_collected
      exact ⟨h.unheld, h.old, h.dead⟩

theorem popped_collected {c : Nat} {s : Sim} (h : Collected c s) {e : Ev} {rest : List Ev}
    (hp : popLive s.pending = some (e, rest)) : Collected c (popped s e rest) :=
  collected_sub h rfl rfl (fun y hy => (popLive_mem hp).2 y hy)

theorem runUntil_collected {c : Nat} {f : Nat} {s s' : Sim} {T : Int} (h : Collected c s)
    (hr : runUntil f s T = some s') : Collected c s' := by
  induction f generalizing s with
  | zero => simp [runUntil] at hr
  | succ f ih =>
    simp only [runUntil] at hr
    split at hr
    · simp only [Option.some.injEq] at hr; subst hr
      exact ⟨h.unheld, h.old, by simp⟩
    · rename_i e rest hp
      split at hr
      · split at hr
        · simp only [Option.some.injEq] at hr; subst hr; exact exec_collected (popped_collected h hp) e
        · exact ih (exec_collected (popped_collected h hp) e) hr
      · simp only [Option.some.injEq] at hr; subst hr
        refine ⟨h.unheld, h.old, ?_⟩
        intro y hy
        rcases mem_insert.mp hy with rfl | hy
        · exact h.dead _ (popLive_mem hp).1
        · exact h.dead y ((popLive_mem hp).2 y hy)

theorem runNext_collected {c : Nat} {s : Sim} (h : Collected c s) : Collected c (runNext s) := by
  unfold runNext
  split
  · exact ⟨h.unheld, h.old, by simp⟩
  · rename_i e rest hp
    exact exec_collected (popped_collected h hp) e

theorem collected_stays {c : Nat} {s s' : Sim} (h : Collected c s) (hr : ReachableFrom s s') : Collected c s' := by
  induction hr with
  | refl => exact h
  | cmd cm _ ih => exact doCmd_collected ih cm
  | «until» _ _ hrun ih => exact runUntil_collected ih hrun
  | next _ ih => exact runNext_collected ih
  | caught _ ih => exact ⟨ih.unheld, ih.old, ih.dead⟩

/-! ### the weak reference of an event is dead exactly when the program no longer holds its callable -/

/-- `dead` (what `event.fn()` finds) is tied to the table of held callables: for every pending user event, the weak reference
    is dead iff its callable object is not held any more; callable ids are tags that have been handed out -/
structure FnInv (s : Sim) : Prop where
  keys : ∀ x ∈ s.fns, x.1 < s.nextTag
  evs : ∀ e ∈ s.pending, e.isStep = false → e.fn < s.nextTag ∧ (e.dead = true ↔ s.fns.lookup e.fn = none)

theorem mem_of_lookup {l : List (Nat × Nat)} {k a : Nat} (h : l.lookup k = some a) : (k, a) ∈ l := by
  induction l with
  | nil => simp at h
  | cons x xs ih =>
    obtain ⟨x1, x2⟩ := x
    simp only [List.lookup_cons] at h
    split at h
    · rename_i heq
      simp only [Option.some.injEq] at h
      simp only [beq_iff_eq] at heq
      subst h; subst heq
      exact List.mem_cons_self
    · exact List.mem_cons_of_mem _ (ih h)

theorem lookup_filter_ne {l : List (Nat × Nat)} {c k : Nat} (h : c ≠ k) :
    (l.filter fun x => x.1 != k).lookup c = l.lookup c := by
  induction l with
  | nil => rfl
  | cons x xs ih =>
    obtain ⟨x1, x2⟩ := x
    simp only [List.filter_cons]
    split
    · simp only [List.lookup_cons, ih]
    · rename_i hx
      have hx1 : x1 = k := by simpa using hx
      have : (c == x1) = false := by simp [hx1, h]
      simp only [List.lookup_cons, this, ih]

theorem init_fnInv (k : Kind) (p : Nat → List Cmd) (sp : List Cmd) : FnInv (init k p sp) :=
  ⟨by simp [init], by simp [init]⟩

theorem fnInv_sub {s s' : Sim} (h : FnInv s) (hf : s'.fns = s.fns) (hn : s'.nextTag = s.nextTag)
    (hp : ∀ e ∈ s'.pending, e ∈ s.pending) : FnInv s' :=
  ⟨by rw [hf, hn]; exact h.keys, fun e he hu => by rw [hf, hn]; exact h.evs e (hp e he) hu⟩

theorem pushUser_fnInv {s : Sim} (h : FnInv s) (t : Int) (p a : Nat) (c : Option Nat)
    (hc : ∀ k, c = some k → ∃ a', s.fns.lookup k = some a') : FnInv (pushUser s t p a c) := by
  have hlk : ∀ k : Nat, k < s.nextTag →
      (pushUser s t p a c).fns.lookup k = s.fns.lookup k := by
    intro k hk
    cases c with
    | none =>
      have : (k == s.nextTag) = false := by simp only [beq_eq_false_iff_ne, ne_eq]; omega
      simp only [pushUser, List.lookup_cons, this]
    | some _ => rfl
  refine ⟨?_, ?_⟩
  · intro x hx
    have hx' : x ∈ s.fns ∨ x = (s.nextTag, a) := by
      cases c with
      | none => simp only [pushUser, List.mem_cons] at hx; exact hx.symm.imp id id
      | some _ => exact Or.inl hx
    rcases hx' with hx' | rfl
    · have := h.keys x hx'; simp only [pushUser]; omega
    · simp [pushUser]
  · intro e he hu
    rcases mem_insert.mp he with rfl | he
    · cases c with
      | none => simp [pushUser]
      | some k =>
        obtain ⟨a', ha'⟩ := hc k rfl
        have hk := h.keys _ (mem_of_lookup ha')
        refine ⟨by simp only [pushUser, Option.getD_some]; omega, ?_⟩
        simp only [Option.getD_some, Bool.false_eq_true, false_iff]
        show ¬ (s.fns.lookup k = none)
        rw [ha']; simp
    · obtain ⟨h1, h2⟩ := h.evs e he hu
      refine ⟨by simp only [pushUser]; omega, ?_⟩
      rw [hlk e.fn h1]; exact h2

theorem pushStep_fnInv {s : Sim} (h : FnInv s) : FnInv (pushStep s) := by
  refine ⟨h.keys, ?_⟩
  intro e he hu
  rcases mem_insert.mp he with rfl | he
  · simp at hu
  · exact h.evs e he hu

theorem cancelTag_fnInv {s : Sim} (h : FnInv s) (k : Nat) : FnInv (cancelTag s k) := by
  refine ⟨h.keys, ?_⟩
  intro e he hu
  obtain ⟨e₀, he₀, rfl⟩ := List.mem_map.mp he
  have hg : ∀ x : Ev, (if (!x.isStep && x.tag == k) = true then { x with cancelled := true } else x).isStep = x.isStep ∧
      (if (!x.isStep && x.tag == k) = true then { x with cancelled := true } else x).fn = x.fn ∧
      (if (!x.isStep && x.tag == k) = true then { x with cancelled := true } else x).dead = x.dead := by
    intro x; split <;> simp
  rw [(hg e₀).1] at hu
  rw [(hg e₀).2.1, (hg e₀).2.2]
  exact h.evs e₀ he₀ hu

theorem dropFn_fnInv {s : Sim} (h : FnInv s) (k : Nat) : FnInv (dropFn s k) := by
  refine ⟨fun x hx => h.keys x (List.mem_filter.mp hx).1, ?_⟩
  intro e he hu
  obtain ⟨e₀, he₀, rfl⟩ := List.mem_map.mp he
  by_cases hcond : (!e₀.isStep && e₀.fn == k) = true
  · simp only [hcond, if_true] at hu ⊢
    have hk : e₀.fn = k := by simp at hcond; exact hcond.2
    refine ⟨(h.evs e₀ he₀ hu).1, ?_⟩
    simp only [true_iff]
    show (s.fns.filter fun x => x.1 != k).lookup e₀.fn = none
    rw [hk]; exact lookup_filter_self _ _
  · simp only [hcond] at hu ⊢
    simp only [Bool.false_eq_true, if_false] at hu ⊢
    have hne : e₀.fn ≠ k := by
      intro hk; simp [hu, hk] at hcond
    obtain ⟨h1, h2⟩ := h.evs e₀ he₀ hu
    refine ⟨h1, ?_⟩
    show e₀.dead = true ↔ (s.fns.filter fun x => x.1 != k).lookup e₀.fn = none
    rw [lookup_filter_ne hne]; exact h2

theorem doCmd1_fnInv {s : Sim} (h : FnInv s) (cm : Cmd) : FnInv (doCmd1 s cm) := by
  cases cm with
  | schedAbs t p a =>
    simp only [doCmd1, schedAbs]
    split
    · rename_i s' hs
      split at hs
      · simp at hs
      · split at hs
        · simp at hs
        · simp only [Except.ok.injEq] at hs; subst hs; exact pushUser_fnInv h _ _ _ none (by simp)
    · exact h
  | schedRel d p a =>
    simp only [doCmd1, schedRel]
    split
    · rename_i s' hs
      split at hs
      · simp at hs
      · split at hs
        · simp at hs
        · simp only [Except.ok.injEq] at hs; subst hs; exact pushUser_fnInv h _ _ _ none (by simp)
    · exact h
  | again k d p =>
    rcases doCmd1_again_cases s k d p with he | ⟨a, hl, _, he⟩ <;> rw [he]
    · exact h
    · exact pushUser_fnInv h _ _ _ (some k) (fun k' hk' => by simp only [Option.some.injEq] at hk'; subst hk'; exact ⟨a, hl⟩)
  | cancel k => exact cancelTag_fnInv h k
  | drop k => exact dropFn_fnInv h k
  | halt => exact h
  | raise x => exact ⟨h.keys, h.evs⟩

theorem doCmd_fnInv {s : Sim} (h : FnInv s) (cm : Cmd) : FnInv (doCmd s cm) := by
  unfold doCmd; split
  · exact h
  · exact doCmd1_fnInv h cm

theorem foldl_doCmd_fnInv {s : Sim} (h : FnInv s) (cs : List Cmd) : FnInv (cs.foldl doCmd s) := by
  induction cs generalizing s with
  | nil => exact h
  | cons cm cs ih => exact ih (doCmd_fnInv h cm)

theorem rearm_fnInv {s : Sim} (h : FnInv s) : FnInv (rearm s) := by
  unfold rearm; split
  · exact pushStep_fnInv h
  · exact h

theorem exec_fnInv {s : Sim} (h : FnInv s) (e : Ev) : FnInv (exec s e) := by
  unfold exec
  split
  · exact fnInv_sub h rfl rfl (fun _ he => he)
  · split
    · apply foldl_doCmd_fnInv
      have h1 := rearm_fnInv h
      exact ⟨h1.keys, h1.evs⟩
    · apply foldl_doCmd_fnInv
      exact ⟨h.keys, h.evs⟩

theorem popped_fnInv {s : Sim} (h : FnInv s) {e : Ev} {rest : List Ev}
    (hp : popLive s.pending = some (e, rest)) : FnInv (popped s e rest) :=
  fnInv_sub h rfl rfl (fun y hy => (popLive_mem hp).2 y hy)

theorem runUntil_fnInv {f : Nat} {s s' : Sim} {T : Int} (h : FnInv s) (hr : runUntil f s T = some s') : FnInv s' := by
  induction f generalizing s with
  | zero => simp [runUntil] at hr
  | succ f ih =>
    simp only [runUntil] at hr
    split at hr
    · simp only [Option.some.injEq] at hr; subst hr
      exact ⟨h.keys, by simp⟩
    · rename_i e rest hp
      split at hr
      · split at hr
        · simp only [Option.some.injEq] at hr; subst hr; exact exec_fnInv (popped_fnInv h hp) e
        · exact ih (exec_fnInv (popped_fnInv h hp) e) hr
      · simp only [Option.some.injEq] at hr; subst hr
        refine ⟨h.keys, ?_⟩
        intro y hy
        rcases mem_insert.mp hy with rfl | hy
        · exact h.evs _ (popLive_mem hp).1
        · exact h.evs y ((popLive_mem hp).2 y hy)

theorem runNext_fnInv {s : Sim} (h : FnInv s) : FnInv (runNext s) := by
  unfold runNext
  split
  · exact ⟨h.keys, by simp⟩
  · rename_i e rest hp
    exact exec_fnInv (popped_fnInv h hp) e

theorem reachable_fnInv {s : Sim} (h : Reachable s) : FnInv s := by
  induction h with
  | init k p sp => exact init_fnInv k p sp
  | cmd c _ ih => exact doCmd_fnInv ih c
  | setup _ ih => exact rearm_fnInv ih
  | «until» _ _ hr ih => exact runUntil_fnInv ih hr
  | next _ ih => exact runNext_fnInv ih
  | caught _ ih => exact ⟨ih.keys, ih.evs⟩

end Mesa.Devs
