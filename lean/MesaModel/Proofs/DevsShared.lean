import MesaModel.Proofs.Devs
/-!
Shared callables: many events may be scheduled with the SAME callable object (`Ev.fn`).  Once the program has dropped its
last strong reference to the callable `c` (`dropFn`), `Collected c` holds and keeps holding through every further history:
the program cannot schedule `c` again, no fresh callable gets the identity `c`, and every pending event that was scheduled
with `c` has a dead weak reference — so none of them ever executes.
-/
namespace Mesa.Devs

structure Collected (c : Nat) (s : Sim) : Prop where
  unheld : s.fns.lookup c = none
  old : c < s.nextTag
  dead : ∀ e ∈ s.pending, e.isStep = false → e.fn = c → e.dead = true

theorem lookup_filter_ne_none {l : List (Nat × Nat)} {c : Nat} (k : Nat) (h : l.lookup c = none) :
    (l.filter fun x => x.1 != k).lookup c = none := by
  induction l with
  | nil => rfl
  | cons x xs ih =>
    obtain ⟨x1, x2⟩ := x
    simp only [List.lookup_cons] at h
    split at h
    · simp at h
    · rename_i hne
      simp only [List.filter_cons]
      split
      · simp only [List.lookup_cons, hne]; exact ih h
      · exact ih h

theorem lookup_filter_self (l : List (Nat × Nat)) (c : Nat) : (l.filter fun x => x.1 != c).lookup c = none := by
  induction l with
  | nil => rfl
  | cons x xs ih =>
    obtain ⟨x1, x2⟩ := x
    simp only [List.filter_cons]
    split
    · rename_i hne
      have : (c == x1) = false := by
        simp only [bne_iff_ne, ne_eq] at hne
        simp only [beq_eq_false_iff_ne, ne_eq]
        exact fun h => hne h.symm
      simp only [List.lookup_cons, this]; exact ih
    · exact ih

/-- dropping the callable establishes `Collected` -/
theorem dropFn_collects (s : Sim) {c : Nat} (hc : c < s.nextTag) : Collected c (dropFn s c) := by
  refine ⟨lookup_filter_self _ _, hc, ?_⟩
  intro e he hu hf
  obtain ⟨e₀, _, rfl⟩ := List.mem_map.mp he
  by_cases hcond : (!e₀.isStep && e₀.fn == c) = true
  · simp only [hcond, if_true]
  · simp only [hcond] at hu hf
    simp at hu hf
    simp [hu, hf] at hcond

theorem collected_sub {c : Nat} {s s' : Sim} (h : Collected c s) (hf : s'.fns = s.fns) (hn : s'.nextTag = s.nextTag)
    (hp : ∀ e ∈ s'.pending, e ∈ s.pending) : Collected c s' :=
  ⟨by rw [hf]; exact h.unheld, by rw [hn]; exact h.old, fun e he => h.dead e (hp e he)⟩

/-- one more event, with a callable other than `c` (a fresh one, or a held one) -/
theorem pushUser_collected {c : Nat} {s : Sim} (h : Collected c s) (t : Int) (p a : Nat) (c' : Option Nat)
    (hc' : c' ≠ some c) : Collected c (pushUser s t p a c') := by
  have hlt := h.old
  refine ⟨?_, by simp only [pushUser]; omega, ?_⟩
  · cases c' with
    | none =>
      have : (c == s.nextTag) = false := by simp only [beq_eq_false_iff_ne, ne_eq]; omega
      simp only [pushUser, List.lookup_cons, this]; exact h.unheld
    | some k => exact h.unheld
  · intro e he hu hf
    rcases mem_insert.mp he with rfl | he
    · exfalso
      cases c' with
      | none => simp only [Option.getD_none] at hf; omega
      | some k => simp only [Option.getD_some] at hf; exact hc' (by rw [hf])
    · exact h.dead e he hu hf

theorem pushStep_collected {c : Nat} {s : Sim} (h : Collected c s) : Collected c (pushStep s) := by
  refine ⟨h.unheld, h.old, ?_⟩
  intro e he hu hf
  rcases mem_insert.mp he with rfl | he
  · simp at hu
  · exact h.dead e he hu hf

theorem mapFlags_collected {c : Nat} {s s' : Sim} (h : Collected c s) (g : Ev → Ev)
    (hg : ∀ e, (g e).isStep = e.isStep ∧ (g e).fn = e.fn ∧ (e.dead = true → (g e).dead = true))
    (hp : s'.pending = s.pending.map g) (hf : s'.fns.lookup c = none) (hn : s'.nextTag = s.nextTag) : Collected c s' := by
  refine ⟨hf, by rw [hn]; exact h.old, ?_⟩
  intro e he hu hfn
  rw [hp] at he
  obtain ⟨e₀, he₀, rfl⟩ := List.mem_map.mp he
  exact (hg e₀).2.2 (h.dead e₀ he₀ (by rw [← (hg e₀).1]; exact hu) (by rw [← (hg e₀).2.1]; exact hfn))

theorem doCmd_collected {c : Nat} {s : Sim} (h : Collected c s) (cm : Cmd) : Collected c (doCmd s cm) := by
  cases cm with
  | schedAbs t p a =>
    simp only [doCmd, schedAbs]
    split
    · rename_i s' hs
      split at hs
      · simp at hs
      · split at hs
        · simp at hs
        · simp only [Except.ok.injEq] at hs; subst hs; exact pushUser_collected h _ _ _ none (by simp)
    · exact h
  | schedRel d p a =>
    simp only [doCmd, schedRel]
    split
    · rename_i s' hs
      split at hs
      · simp at hs
      · split at hs
        · simp at hs
        · simp only [Except.ok.injEq] at hs; subst hs; exact pushUser_collected h _ _ _ none (by simp)
    · exact h
  | again k d p =>
    rcases doCmd_again_cases s k d p with he | ⟨a, hl, _, he⟩ <;> rw [he]
    · exact h
    · refine pushUser_collected h _ _ _ (some k) ?_
      intro hk
      simp only [Option.some.injEq] at hk
      rw [hk, h.unheld] at hl
      simp at hl
  | cancel k =>
    exact mapFlags_collected h _ (fun e => by split <;> simp) rfl h.unheld rfl
  | drop k =>
    exact mapFlags_collected h _ (fun e => by split <;> simp) rfl (lookup_filter_ne_none k h.unheld) rfl
  | halt => exact h

theorem foldl_doCmd_collected {c : Nat} {s : Sim} (h : Collected c s) (cs : List Cmd) : Collected c (cs.foldl doCmd s) := by
  induction cs generalizing s with
  | nil => exact h
  | cons cm cs ih => exact ih (doCmd_collected h cm)

theorem rearm_collected {c : Nat} {s : Sim} (h : Collected c s) : Collected c (rearm s) := by
  unfold rearm; split
  · exact pushStep_collected h
  · exact h

theorem exec_collected {c : Nat} {s : Sim} (h : Collected c s) (e : Ev) : Collected c (exec s e) := by
  unfold exec
  split
  · exact collected_sub h rfl rfl (fun _ he => he)
  · split
    · apply foldl_doCmd_collected
      have h1 := rearm_collected h
      exact ⟨h1.unheld, h1.old, h1.dead⟩
    · apply foldl_doCmd_collected
      exact ⟨h.unheld, h.old, h.dead⟩

theorem popped_collected {c : Nat} {s : Sim} (h : Collected c s) {e : Ev} {rest : List Ev}
    (hp : popLive s.pending = some (e, rest)) : Collected c (popped s e rest) :=
  collected_sub h rfl rfl (fun y hy => (popLive_mem hp).2 y hy)

theorem runUntil_collected {c : Nat} {f : Nat} {s s' : Sim} {T : Int} (h : Collected c s)
    (hr : runUntil f s T = some s') : Collected c s' := by
  induction f generalizing s with
  | zero => simp [runUntil] at hr
  | succ f ih =>
    simp only [runUntil] at hr
    split at hr
    · simp only [Option.some.injEq] at hr; subst hr
      exact ⟨h.unheld, h.old, by simp⟩
    · rename_i e rest hp
      split at hr
      · exact ih (exec_collected (popped_collected h hp) e) hr
      · simp only [Option.some.injEq] at hr; subst hr
        refine ⟨h.unheld, h.old, ?_⟩
        intro y hy
        rcases mem_insert.mp hy with rfl | hy
        · exact h.dead _ (popLive_mem hp).1
        · exact h.dead y ((popLive_mem hp).2 y hy)

theorem runNext_collected {c : Nat} {s : Sim} (h : Collected c s) : Collected c (runNext s) := by
  unfold runNext
  split
  · exact ⟨h.unheld, h.old, by simp⟩
  · rename_i e rest hp
    exact exec_collected (popped_collected h hp) e

theorem collected_stays {c : Nat} {s s' : Sim} (h : Collected c s) (hr : ReachableFrom s s') : Collected c s' := by
  induction hr with
  | refl => exact h
  | cmd cm _ ih => exact doCmd_collected ih cm
  | «until» _ _ hrun ih => exact runUntil_collected ih hrun
  | next _ ih => exact runNext_collected ih

end Mesa.Devs
