import MesaModel.Model.VizFrame
import MesaModel.Proofs.VizSize
/-!
Helper lemmas for the axis limits (`Model/VizFrame.lean`).
-/
namespace Mesa.Viz

theorem mem_gridCells_bounds {w h : Nat} {l : Loc} (hl : l ∈ gridCells w h) :
    0 ≤ l.x ∧ l.x < w ∧ 0 ≤ l.y ∧ l.y < h := by
  unfold gridCells at hl
  rw [List.mem_flatMap] at hl
  obtain ⟨x, hx, hl⟩ := hl
  rw [List.mem_map] at hl
  obtain ⟨y, hy, rfl⟩ := hl
  rw [List.mem_range] at hx hy
  exact ⟨Int.natCast_nonneg x, Int.ofNat_lt.mpr hx, Int.natCast_nonneg y, Int.ofNat_lt.mpr hy⟩

/-- where an agent of a reachable space can be: in a cell of the grid, or inside the bounds of the continuous space -/
theorem located_in_bounds {sp : Space} (h : Reachable sp) {a : Agent} (ha : a ∈ sp.placed)
    (hf : sp.fam.isOrthogonal = true ∨ sp.fam.isHex = true ∨ sp.fam.cellular = false) :
    ∃ l, a.location = some l ∧ 0 ≤ l.x ∧ l.x < sp.w ∧ 0 ≤ l.y ∧ l.y < sp.h := by
  have hw := reachable_wf h
  have hs := reachable_sized h
  by_cases hcell : sp.fam.cellular = true
  · obtain ⟨l, hloc, hl⟩ := hw.located a ha
    have hl := hl hcell
    obtain ⟨extra, hc⟩ := hs.cells
    have hgrid : initCells sp.fam sp.w sp.h extra = gridCells sp.w sp.h := by
      rcases hf with hf | hf | hf
      · cases hfam : sp.fam <;> simp [hfam, Family.isOrthogonal] at hf <;> rfl
      · cases hfam : sp.fam <;> simp [hfam, Family.isHex] at hf <;> rfl
      · rw [hf] at hcell; cases hcell
    rw [hc, hgrid] at hl
    exact ⟨l, hloc, mem_gridCells_bounds hl⟩
  · have hcell' : sp.fam.cellular = false := by simpa using hcell
    obtain ⟨l, hloc, h1, h2, h3, h4⟩ := hs.inside hcell' a ha
    exact ⟨l, hloc, h1, h2, h3, h4⟩

end Mesa.Viz
