import MesaModel.Model.CellSpace
/-!
Helper lemmas for C06 / C18-cells: the invariant of the occupancy model and its preservation by
every operation, via three atomic transitions (`unplace`, `place`, `detachFixed`) to which the
code's setters reduce on states satisfying the invariant.
-/
namespace Mesa.Cells

theorem upd_same {α β : Type} [DecidableEq α] (f : α → β) (a : α) (b : β) : upd f a b a = b := by
  simp [upd]

theorem upd_other {α β : Type} [DecidableEq α] (f : α → β) (a : α) (b : β) {x : α} (h : x ≠ a) :
    upd f a b x = f x := by
  simp [upd, h]

theorem upd_self {α β : Type} [DecidableEq α] (f : α → β) (a : α) : upd f a (f a) = f := by
  funext x; unfold upd; split
  · rename_i h; rw [h]
  · rfl

theorem upd_upd {α β : Type} [DecidableEq α] (f : α → β) (a : α) (b b' : β) :
    upd (upd f a b) a b' = upd f a b' := by
  funext x; unfold upd; split <;> rfl

theorem upd_comm {α β : Type} [DecidableEq α] (f : α → β) {a a' : α} (b b' : β) (h : a ≠ a') :
    upd (upd f a b) a' b' = upd (upd f a' b') a b := by
  funext x; unfold upd
  by_cases h1 : x = a'
  · subst h1
    have : ¬ x = a := fun e => h e.symm
    simp [this]
  · simp [h1]

/-- the invariant of the occupancy model, with a bound `B` on what a cell may hold beyond its capacity: a cell holds at
    most capacity-many agents *or* at most `B c` (the program may lower `cell.capacity` under the occupancy: the occupants
    stay).  `B = 0`: the plain capacity bound; `B c` = the occupancy at some earlier state: "no growth beyond the capacity" -/
structure InvB (sp : Space) (B : Cid → Nat) (s : State) : Prop where
  /-- a listed agent reports the cell that lists it -/
  mem_cell : ∀ a c, a ∈ s.occ c → s.cellOf a = some c
  /-- an agent that reports a cell is listed there — except a FixedAgent that was removed from the model
      (`FixedAgent.remove` keeps `_mesa_cell`) -/
  cell_mem : ∀ a c, s.cellOf a = some c → a ∈ s.occ c ∨ (s.kinds[a]? = some .fixed ∧ a ∉ s.registry)
  nodup : ∀ c, (s.occ c).Nodup
  cap : ∀ c k, sp.cap c = some k → (s.occ c).length ≤ k ∨ (s.occ c).length ≤ B c
  /-- the `empty` flag is the truth (non-grid cells have no flag before their first agent) -/
  flag : ∀ c, s.flag c = some (s.occ c).isEmpty ∨ (sp.isGrid = false ∧ s.flag c = none ∧ s.occ c = [])
  known : ∀ a c, s.cellOf a = some c → a < s.kinds.length
  reg_lt : ∀ a, a ∈ s.registry → a < s.kinds.length
  reg_nodup : s.registry.Nodup
  occ_cells : ∀ a c, a ∈ s.occ c → c ∈ sp.cells

/-- the invariant proper (every state reachable by agent operations, connection edits and capacity writes has it): the
    bound is the occupancy itself, i.e. nothing is claimed about capacities -/
abbrev Inv (sp : Space) (s : State) : Prop := InvB sp (fun c => (s.occ c).length) s

theorem InvB.toInv {sp : Space} {B : Cid → Nat} {s : State} (h : InvB sp B s) : Inv sp s :=
  ⟨h.mem_cell, h.cell_mem, h.nodup, fun _ _ _ => Or.inr (Nat.le_refl _), h.flag, h.known, h.reg_lt, h.reg_nodup, h.occ_cells⟩

/-- any bound will do where only the bookkeeping fields are used -/
theorem InvB.rebound {sp : Space} {B : Cid → Nat} {s : State} (h : InvB sp B s) (B' : Cid → Nat)
    (hb : ∀ c k, sp.cap c = some k → (s.occ c).length ≤ k ∨ (s.occ c).length ≤ B' c) : InvB sp B' s :=
  ⟨h.mem_cell, h.cell_mem, h.nodup, hb, h.flag, h.known, h.reg_lt, h.reg_nodup, h.occ_cells⟩

theorem inv_init (sp : Space) {B : Cid → Nat} : InvB sp B (init sp) := by
  refine ⟨?_, ?_, ?_, ?_, ?_, ?_, ?_, ?_, ?_⟩ <;> simp [init]

/-- a mobile agent that reports a cell is listed there -/
theorem InvB.mobile_mem {sp : Space} {B : Cid → Nat} {s : State} (h : InvB sp B s) {a : Aid} {k : AKind} {o : Cid}
    (hk : s.kinds[a]? = some k) (hm : k ≠ .fixed) (ho : s.cellOf a = some o) : a ∈ s.occ o := by
  rcases h.cell_mem a o ho with h1 | ⟨h1, _⟩
  · exact h1
  · rw [hk] at h1; simp at h1; exact absurd h1 hm

/-- an agent listed nowhere -/
theorem InvB.not_mem_of_none {sp : Space} {B : Cid → Nat} {s : State} (h : InvB sp B s) {a : Aid} (hn : s.cellOf a = none)
    (c : Cid) : a ∉ s.occ c := by
  intro hm; rw [h.mem_cell a c hm] at hn; simp at hn

/-! ### atomic transitions -/

/-- leave cell `o` and report no cell -/
def unplace (s : State) (a : Aid) (o : Cid) : State :=
  { s with occ := upd s.occ o ((s.occ o).erase a),
           flag := upd s.flag o (some ((s.occ o).erase a).isEmpty),
           cellOf := upd s.cellOf a none }

/-- enter cell `c` (at the end of its list) and report it -/
def place (s : State) (a : Aid) (c : Cid) : State :=
  { s with occ := upd s.occ c (s.occ c ++ [a]),
           flag := upd s.flag c (some false),
           cellOf := upd s.cellOf a (some c) }

/-- `FixedAgent.remove` on a placed agent: leave the list, keep reporting the cell, leave the registry -/
def detachFixed (s : State) (a : Aid) (c : Cid) : State :=
  { s with occ := upd s.occ c ((s.occ c).erase a),
           flag := upd s.flag c (some ((s.occ c).erase a).isEmpty),
           registry := s.registry.erase a }

theorem inv_unplace {sp : Space} {B : Cid → Nat} {s : State} (h : InvB sp B s) {a : Aid} {o : Cid}
    (ho : s.cellOf a = some o) (hm : a ∈ s.occ o) : InvB sp B (unplace s a o) := by
  have hne : ∀ b x, b ∈ s.occ x → x ≠ o → b ≠ a := by
    intro b x hb hx hba
    subst hba
    rw [h.mem_cell _ _ hb] at ho
    simp at ho; exact hx ho
  refine ⟨?_, ?_, ?_, ?_, ?_, ?_, h.reg_lt, h.reg_nodup, ?_⟩
  · intro b x hb
    simp only [unplace] at hb ⊢
    by_cases hx : x = o
    · subst hx
      rw [upd_same, (h.nodup x).mem_erase_iff] at hb
      rw [upd_other _ _ _ hb.1]
      exact h.mem_cell _ _ hb.2
    · rw [upd_other _ _ _ hx] at hb
      rw [upd_other _ _ _ (hne b x hb hx)]
      exact h.mem_cell _ _ hb
  · intro b x hb
    simp only [unplace] at hb ⊢
    have hba : b ≠ a := by
      intro hba; subst hba; rw [upd_same] at hb; simp at hb
    rw [upd_other _ _ _ hba] at hb
    rcases h.cell_mem b x hb with h1 | h1
    · left
      by_cases hx : x = o
      · subst hx; rw [upd_same, (h.nodup x).mem_erase_iff]; exact ⟨hba, h1⟩
      · rw [upd_other _ _ _ hx]; exact h1
    · exact Or.inr h1
  · intro x
    simp only [unplace]
    by_cases hx : x = o
    · subst hx; rw [upd_same]; exact (h.nodup x).erase _
    · rw [upd_other _ _ _ hx]; exact h.nodup x
  · intro x k hk
    simp only [unplace]
    by_cases hx : x = o
    · subst hx; rw [upd_same]
      have := h.cap x k hk
      have := List.length_erase_of_mem hm
      omega
    · rw [upd_other _ _ _ hx]; exact h.cap x k hk
  · intro x
    simp only [unplace]
    by_cases hx : x = o
    · subst hx; rw [upd_same, upd_same]; exact Or.inl rfl
    · rw [upd_other _ _ _ hx, upd_other _ _ _ hx]; exact h.flag x
  · intro b x hb
    simp only [unplace] at hb ⊢
    have hba : b ≠ a := by
      intro hba; subst hba; rw [upd_same] at hb; simp at hb
    rw [upd_other _ _ _ hba] at hb
    exact h.known b x hb
  · intro b x hb
    simp only [unplace] at hb
    by_cases hx : x = o
    · subst hx; exact h.occ_cells a x hm
    · rw [upd_other _ _ _ hx] at hb; exact h.occ_cells b x hb

theorem unplace_cellOf (s : State) (a : Aid) (o : Cid) : (unplace s a o).cellOf a = none := by
  simp [unplace, upd_same]

theorem inv_place {sp : Space} {B : Cid → Nat} {s : State} (h : InvB sp B s) {a : Aid} {c : Cid}
    (ha : a < s.kinds.length) (hn : s.cellOf a = none) (hc : c ∈ sp.cells)
    (hroom : ∀ k, sp.cap c = some k → (s.occ c).length + 1 ≤ k ∨ (s.occ c).length + 1 ≤ B c) : InvB sp B (place s a c) := by
  have hnot := h.not_mem_of_none hn
  have hne : ∀ b x, b ∈ s.occ x → b ≠ a := by
    intro b x hb hba; subst hba; exact hnot x hb
  refine ⟨?_, ?_, ?_, ?_, ?_, ?_, h.reg_lt, h.reg_nodup, ?_⟩
  · intro b x hb
    simp only [place] at hb ⊢
    by_cases hx : x = c
    · subst hx
      rw [upd_same, List.mem_append, List.mem_singleton] at hb
      rcases hb with hb | hb
      · rw [upd_other _ _ _ (hne b x hb)]; exact h.mem_cell _ _ hb
      · subst hb; rw [upd_same]
    · rw [upd_other _ _ _ hx] at hb
      rw [upd_other _ _ _ (hne b x hb)]
      exact h.mem_cell _ _ hb
  · intro b x hb
    simp only [place] at hb ⊢
    by_cases hba : b = a
    · subst hba
      rw [upd_same] at hb
      simp at hb; subst hb
      left; rw [upd_same]; simp
    · rw [upd_other _ _ _ hba] at hb
      rcases h.cell_mem b x hb with h1 | h1
      · left
        by_cases hx : x = c
        · subst hx; rw [upd_same]; simp [h1]
        · rw [upd_other _ _ _ hx]; exact h1
      · exact Or.inr h1
  · intro x
    simp only [place]
    by_cases hx : x = c
    · subst hx; rw [upd_same, List.nodup_append]
      refine ⟨h.nodup x, by simp, ?_⟩
      intro y hy z hz
      simp at hz; subst hz
      exact hne y x hy
    · rw [upd_other _ _ _ hx]; exact h.nodup x
  · intro x k hk
    simp only [place]
    by_cases hx : x = c
    · subst hx; rw [upd_same]
      have := hroom k hk
      simp only [List.length_append, List.length_cons, List.length_nil]
      omega
    · rw [upd_other _ _ _ hx]; exact h.cap x k hk
  · intro x
    simp only [place]
    by_cases hx : x = c
    · subst hx; rw [upd_same, upd_same]; left; simp
    · rw [upd_other _ _ _ hx, upd_other _ _ _ hx]; exact h.flag x
  · intro b x hb
    simp only [place] at hb ⊢
    by_cases hba : b = a
    · subst hba; exact ha
    · rw [upd_other _ _ _ hba] at hb; exact h.known b x hb
  · intro b x hb
    simp only [place] at hb
    by_cases hx : x = c
    · subst hx; exact hc
    · rw [upd_other _ _ _ hx] at hb; exact h.occ_cells b x hb

theorem inv_deregister {sp : Space} {B : Cid → Nat} {s : State} (h : InvB sp B s) (a : Aid) :
    InvB sp B { s with registry := s.registry.erase a } := by
  refine ⟨h.mem_cell, ?_, h.nodup, h.cap, h.flag, h.known, ?_, h.reg_nodup.erase _, h.occ_cells⟩
  · intro b x hb
    rcases h.cell_mem b x hb with h1 | ⟨h1, h2⟩
    · exact Or.inl h1
    · exact Or.inr ⟨h1, fun hm => h2 (List.mem_of_mem_erase hm)⟩
  · intro b hb
    exact h.reg_lt b (List.mem_of_mem_erase hb)

theorem inv_detachFixed {sp : Space} {B : Cid → Nat} {s : State} (h : InvB sp B s) {a : Aid} {c : Cid}
    (hk : s.kinds[a]? = some .fixed) (hc : s.cellOf a = some c) (hm : a ∈ s.occ c) :
    InvB sp B (detachFixed s a c) := by
  refine ⟨?_, ?_, ?_, ?_, ?_, h.known, ?_, h.reg_nodup.erase _, ?_⟩
  · intro b x hb
    simp only [detachFixed] at hb ⊢
    by_cases hx : x = c
    · subst hx
      rw [upd_same, (h.nodup x).mem_erase_iff] at hb
      exact h.mem_cell _ _ hb.2
    · rw [upd_other _ _ _ hx] at hb; exact h.mem_cell _ _ hb
  · intro b x hb
    simp only [detachFixed] at hb ⊢
    by_cases hba : b = a
    · subst hba
      right
      exact ⟨hk, fun hmm => (h.reg_nodup.mem_erase_iff.mp hmm).1 rfl⟩
    · rcases h.cell_mem b x hb with h1 | ⟨h1, h2⟩
      · left
        by_cases hx : x = c
        · subst hx; rw [upd_same, (h.nodup x).mem_erase_iff]; exact ⟨hba, h1⟩
        · rw [upd_other _ _ _ hx]; exact h1
      · exact Or.inr ⟨h1, fun hmm => h2 (List.mem_of_mem_erase hmm)⟩
  · intro x
    simp only [detachFixed]
    by_cases hx : x = c
    · subst hx; rw [upd_same]; exact (h.nodup x).erase _
    · rw [upd_other _ _ _ hx]; exact h.nodup x
  · intro x k hk'
    simp only [detachFixed]
    by_cases hx : x = c
    · subst hx; rw [upd_same]
      have := h.cap x k hk'
      have := List.length_erase_of_mem hm
      omega
    · rw [upd_other _ _ _ hx]; exact h.cap x k hk'
  · intro x
    simp only [detachFixed]
    by_cases hx : x = c
    · subst hx; rw [upd_same, upd_same]; exact Or.inl rfl
    · rw [upd_other _ _ _ hx, upd_other _ _ _ hx]; exact h.flag x
  · intro b hb
    exact h.reg_lt b (List.mem_of_mem_erase hb)
  · intro b x hb
    simp only [detachFixed] at hb
    by_cases hx : x = c
    · subst hx; exact h.occ_cells a x hm
    · rw [upd_other _ _ _ hx] at hb; exact h.occ_cells b x hb

/-! ### the code's setters, on states satisfying the invariant -/

/-- a rejected `add_agent` changes nothing (repair SC3: the capacity is checked before anything is written) -/
theorem addAgent_full {sp : Space} {B : Cid → Nat} {s : State} (_h : InvB sp B s) {c : Cid} (a : Aid)
    (hf : fullFor sp s c = true) : addAgent sp s c a = (s, false) := by
  unfold addAgent
  simp only [hf, if_true]

theorem addAgent_ok {sp : Space} {s : State} {c : Cid} (a : Aid) (hf : fullFor sp s c = false) :
    addAgent sp s c a =
      ({ s with flag := upd s.flag c (some false), occ := upd s.occ c (s.occ c ++ [a]) }, true) := by
  unfold addAgent
  simp [hf]

theorem removeAgent_mem {s : State} {o : Cid} {a : Aid} (hm : a ∈ s.occ o) :
    removeAgent s o a = some { s with occ := upd s.occ o ((s.occ o).erase a),
                                      flag := upd s.flag o (some ((s.occ o).erase a).isEmpty) } := by
  unfold removeAgent
  simp [hm]

/-- a cell that does not refuse has room for one more under its capacity -/
theorem room_of_notFull {sp : Space} {s : State} {c : Cid} (B : Cid → Nat) (hf : fullFor sp s c = false) :
    ∀ k, sp.cap c = some k → (s.occ c).length + 1 ≤ k ∨ (s.occ c).length + 1 ≤ B c := by
  intro k hk
  simp only [fullFor, hk] at hf
  simp at hf
  omega

/-- after leaving its cell the agent can come back: the cell then holds what it held before -/
theorem room_unplace_same {sp : Space} {B : Cid → Nat} {s : State} (h : InvB sp B s) {a : Aid} {o : Cid} (hm : a ∈ s.occ o) :
    ∀ k, sp.cap o = some k → ((unplace s a o).occ o).length + 1 ≤ k ∨ ((unplace s a o).occ o).length + 1 ≤ B o := by
  intro k hk
  have := h.cap o k hk
  have hl := List.length_erase_of_mem hm
  have hpos : 0 < (s.occ o).length := List.length_pos_of_mem hm
  simp only [unplace, upd_same]
  omega

theorem fullFor_unplace_other {sp : Space} {s : State} {a : Aid} {o c : Cid} (hc : c ≠ o) :
    fullFor sp (unplace s a o) c = fullFor sp s c := by
  unfold fullFor
  simp only [unplace, upd_other _ _ _ hc]

/-- what the (S11-repaired) `HasCell.cell` setter does on a state satisfying the invariant, for an agent
    that is listed where it reports to be -/
theorem setCellMobile_eq {sp : Space} {B : Cid → Nat} {s : State} (h : InvB sp B s) {a : Aid}
    (hmob : ∀ o, s.cellOf a = some o → a ∈ s.occ o) (tgt : Option Cid) :
    setCellMobile sp s a tgt =
      match tgt, s.cellOf a with
      | none, none => (s, .ok)
      | none, some o => (unplace s a o, .ok)
      | some c, none => if fullFor sp s c then (s, .err .full) else (place s a c, .ok)
      | some c, some o =>
        if c = o then (place (unplace s a o) a o, .ok)
        else if fullFor sp s c then (s, .err .full) else (place (unplace s a o) a c, .ok) := by
  cases tgt with
  | none =>
    cases ho : s.cellOf a with
    | none =>
      simp only [setCellMobile, ho]
      have : upd s.cellOf a none = s.cellOf := by rw [← ho]; exact upd_self _ _
      rw [this]
    | some o =>
      simp only [setCellMobile, ho, removeAgent_mem (hmob o ho)]
      rfl
  | some c =>
    cases ho : s.cellOf a with
    | none =>
      simp only [setCellMobile, ho]
      by_cases hf : fullFor sp s c = true
      · simp [addAgent_full h a hf, hf]
      · have hf' : fullFor sp s c = false := by simpa using hf
        simp [addAgent_ok a hf', hf', place]
    | some o =>
      by_cases hco : c = o
      · subst hco
        have hm := hmob c ho
        simp only [setCellMobile, ho, ne_eq, not_true_eq_false, if_false, removeAgent_mem hm, if_true]
        simp [place, unplace, upd_upd]
      · have hne : (some c : Option Cid) ≠ some o := by simpa using hco
        have hm := hmob o ho
        simp only [setCellMobile, ho, ne_eq, hne, not_false_eq_true, if_true, if_false, hco]
        by_cases hf : fullFor sp s c = true
        · simp [addAgent_full h a hf, hf]
        · have hf' : fullFor sp s c = false := by simpa using hf
          have hoc : o ≠ c := fun e => hco e.symm
          have hm' : a ∈ (upd s.occ c (s.occ c ++ [a])) o := by rw [upd_other _ _ _ hoc]; exact hm
          rw [addAgent_ok a hf']
          simp only [hf', Bool.false_eq_true, if_false]
          rw [removeAgent_mem (s := { s with flag := upd s.flag c (some false), occ := upd s.occ c (s.occ c ++ [a]) }) hm']
          simp only [place, unplace, upd_other _ _ _ hoc, upd_other _ _ _ hco, upd_upd]
          rw [upd_comm s.occ _ _ hco, upd_comm s.flag _ _ hco]

/-- what the (S12-repaired) `FixedCell.cell` setter does on a state satisfying the invariant -/
theorem setCellFixed_eq {sp : Space} {B : Cid → Nat} {s : State} (h : InvB sp B s) (a : Aid) (tgt : Option Cid) :
    setCellFixed sp s a tgt =
      match s.cellOf a, tgt with
      | some _, _ => (s, .err .fixed)
      | none, none => (s, .err .attr)
      | none, some c => if fullFor sp s c then (s, .err .full) else (place s a c, .ok) := by
  cases ho : s.cellOf a with
  | some o => simp [setCellFixed, ho]
  | none =>
    cases tgt with
    | none => simp [setCellFixed, ho]
    | some c =>
      simp only [setCellFixed, ho]
      by_cases hf : fullFor sp s c = true
      · simp [addAgent_full h a hf, hf]
      · have hf' : fullFor sp s c = false := by simpa using hf
        simp [addAgent_ok a hf', hf', place]

theorem lt_of_kind {s : State} {a : Aid} {k : AKind} (hk : s.kinds[a]? = some k) : a < s.kinds.length := by
  obtain ⟨h, _⟩ := List.getElem?_eq_some_iff.mp hk
  exact h

/-- every outcome of `a.cell = …` keeps the invariant -/
theorem setCell_inv {sp : Space} {B : Cid → Nat} {s : State} (h : InvB sp B s) {a : Aid} {k : AKind}
    (hk : s.kinds[a]? = some k) (tgt : Option Cid) (htgt : ∀ c, tgt = some c → c ∈ sp.cells) :
    InvB sp B (setCell sp s k a tgt).1 := by
  have ha := lt_of_kind hk
  by_cases hfix : k = .fixed
  · subst hfix
    simp only [setCell]
    rw [setCellFixed_eq h]
    cases ho : s.cellOf a with
    | some o => exact h
    | none =>
      cases tgt with
      | none => exact h
      | some c =>
        simp only
        split
        · exact h
        · rename_i hf
          exact inv_place h ha ho (htgt c rfl) (room_of_notFull B (by simpa using hf))
  · have hset : setCell sp s k a tgt = setCellMobile sp s a tgt := by
      cases k <;> simp_all [setCell]
    rw [hset, setCellMobile_eq h (fun o ho => h.mobile_mem hk hfix ho)]
    cases tgt with
    | none =>
      cases ho : s.cellOf a with
      | none => exact h
      | some o => exact inv_unplace h ho (h.mobile_mem hk hfix ho)
    | some c =>
      have hc := htgt c rfl
      cases ho : s.cellOf a with
      | none =>
        simp only
        split
        · exact h
        · rename_i hf
          exact inv_place h ha ho hc (room_of_notFull B (by simpa using hf))
      | some o =>
        have hm := h.mobile_mem hk hfix ho
        have hu := inv_unplace h ho hm
        simp only
        split
        · rename_i hco
          subst hco
          exact inv_place hu ha (unplace_cellOf s a c) hc (room_unplace_same h hm)
        · rename_i hco
          split
          · exact h
          · rename_i hf
            refine inv_place hu ha (unplace_cellOf s a o) hc (room_of_notFull B ?_)
            rw [fullFor_unplace_other hco]
            simpa using hf

/-- connections of cells of the space lead to cells of the space -/
def ConnClosed (sp : Space) : Prop := ∀ c ∈ sp.cells, ∀ k c', (k, c') ∈ sp.conn c → c' ∈ sp.cells

theorem assocGet_mem {α β : Type} [DecidableEq α] {m : List (α × β)} {k : α} {v : β}
    (h : assocGet m k = some v) : (k, v) ∈ m := by
  induction m with
  | nil => simp [assocGet] at h
  | cons p m ih =>
    obtain ⟨k', v'⟩ := p
    simp only [assocGet] at h
    split at h
    · rename_i hk
      simp at h
      subst hk; subst h
      simp
    · exact List.mem_cons_of_mem _ (ih h)

theorem connGet_cells {sp : Space} (hsp : ConnClosed sp) {c c' : Cid} {d : Key} (hc : c ∈ sp.cells)
    (h : connGet sp c d = some c') : c' ∈ sp.cells :=
  hsp c hc d c' (assocGet_mem h)

theorem walk_cells {sp : Space} (hsp : ConnClosed sp) {d : Key} (n : Nat) {c c' : Cid} (hc : c ∈ sp.cells)
    (h : walk sp d n c = some c') : c' ∈ sp.cells := by
  induction n generalizing c with
  | zero => simp [walk] at h; subst h; exact hc
  | succ n ih =>
    simp only [walk] at h
    split at h
    · simp at h
    · rename_i c1 hc1
      exact ih (connGet_cells hsp hc hc1) h

/-- the cell an agent reports is a cell of the space, if it is listed there -/
theorem InvB.cell_in_space {sp : Space} {B : Cid → Nat} {s : State} (h : InvB sp B s) {a : Aid} {c : Cid} (hm : a ∈ s.occ c) :
    c ∈ sp.cells := h.occ_cells a c hm

theorem step_invB {sp : Space} {B : Cid → Nat} (hsp : ConnClosed sp) {s : State} (h : InvB sp B s) (op : Op) :
    InvB sp B (step sp s op).1 := by
  cases op with
  | new k =>
    have hst : (step sp s (.new k)).1 =
        { s with kinds := s.kinds ++ [k], registry := s.registry ++ [s.kinds.length] } := rfl
    rw [hst]
    have hlen : (s.kinds ++ [k]).length = s.kinds.length + 1 := by simp
    refine ⟨h.mem_cell, ?_, h.nodup, h.cap, h.flag, ?_, ?_, ?_, h.occ_cells⟩
    · intro (b : Nat) x hb
      have hlt : b < s.kinds.length := h.known b x hb
      rcases h.cell_mem b x hb with h1 | ⟨h1, h2⟩
      · exact Or.inl h1
      · right
        show (s.kinds ++ [k])[b]? = some AKind.fixed ∧ b ∉ s.registry ++ [s.kinds.length]
        refine ⟨?_, ?_⟩
        · rw [List.getElem?_append_left hlt]; exact h1
        · intro hm
          rw [List.mem_append, List.mem_singleton] at hm
          rcases hm with hm | hm
          · exact h2 hm
          · omega
    · intro (b : Nat) x hb
      have hlt : b < s.kinds.length := h.known b x hb
      show b < (s.kinds ++ [k]).length
      omega
    · intro (b : Nat) hb
      show b < (s.kinds ++ [k]).length
      have hb' : b ∈ s.registry ++ [s.kinds.length] := hb
      rw [List.mem_append, List.mem_singleton] at hb'
      rcases hb' with hb' | hb'
      · have : b < s.kinds.length := h.reg_lt b hb'
        omega
      · omega
    · show (s.registry ++ [s.kinds.length]).Nodup
      rw [List.nodup_append]
      refine ⟨h.reg_nodup, by simp, ?_⟩
      intro (x : Nat) hx (y : Nat) hy
      rw [List.mem_singleton] at hy
      subst hy
      have : x < s.kinds.length := h.reg_lt x hx
      exact Nat.ne_of_lt this
  | setCell a tgt =>
    simp only [step]
    cases hk : s.kinds[a]? with
    | none => exact h
    | some k =>
      cases tgt with
      | none => exact setCell_inv h hk none (by simp)
      | some c =>
        simp only
        split
        · rename_i hc
          exact setCell_inv h hk (some c) (by intro c' e; simp at e; subst e; exact hc)
        · exact h
  | moveTo a c =>
    simp only [step]
    cases hk : s.kinds[a]? with
    | none => exact h
    | some k =>
      cases k with
      | fixed => exact h
      | cell =>
        simp only
        split
        · rename_i hc
          exact setCell_inv h hk (some c) (by intro c' e; simp at e; subst e; exact hc)
        · exact h
      | grid2d =>
        simp only
        split
        · rename_i hc
          exact setCell_inv h hk (some c) (by intro c' e; simp at e; subst e; exact hc)
        · exact h
  | moveRel a d =>
    simp only [step]
    cases hk : s.kinds[a]? with
    | none => exact h
    | some k =>
      have key : ∀ k', k' ≠ AKind.fixed → s.kinds[a]? = some k' →
          InvB sp B (match s.cellOf a with
            | none => (s, Res.err Err.attr)
            | some c => match connGet sp c d with
              | none => (s, Res.err Err.noCell)
              | some c' => setCell sp s k' a (some c')).1 := by
        intro k' hk' hkk
        cases ho : s.cellOf a with
        | none => exact h
        | some o =>
          simp only
          cases hg : connGet sp o d with
          | none => exact h
          | some c' =>
            have hoc := h.cell_in_space (h.mobile_mem hkk hk' ho)
            exact setCell_inv h hkk (some c')
              (by intro c'' e; simp at e; subst e; exact connGet_cells hsp hoc hg)
      cases k with
      | fixed => exact h
      | cell => exact key .cell (by simp) hk
      | grid2d => exact key .grid2d (by simp) hk
  | gridMove a dir n =>
    simp only [step]
    cases hk : s.kinds[a]? with
    | none => exact h
    | some k =>
      cases k with
      | fixed => exact h
      | cell => exact h
      | grid2d =>
        simp only
        cases dirVec dir with
        | none => exact h
        | some d =>
          simp only
          split
          · exact h
          · cases ho : s.cellOf a with
            | none => exact h
            | some o =>
              simp only
              cases hw : walk sp d n.toNat o with
              | none => exact h
              | some c' =>
                have hoc := h.cell_in_space (h.mobile_mem hk (by simp) ho)
                exact setCell_inv h hk (some c')
                  (by intro c'' e; simp at e; subst e; exact walk_cells hsp _ hoc hw)
  | remove a =>
    simp only [step]
    cases hk : s.kinds[a]? with
    | none => exact h
    | some k =>
      have hd := inv_deregister h a
      have mobile : ∀ k', k' ≠ AKind.fixed → s.kinds[a]? = some k' →
          InvB sp B (setCellMobile sp { s with registry := s.registry.erase a } a none).1 := by
        intro k' hk' hkk
        have := setCell_inv (s := { s with registry := s.registry.erase a }) hd (k := k') hkk none (by simp)
        cases k' <;> simp_all [setCell]
      cases k with
      | cell => exact mobile .cell (by simp) hk
      | grid2d => exact mobile .grid2d (by simp) hk
      | fixed =>
        simp only
        cases ho : s.cellOf a with
        | none => exact hd
        | some c =>
          simp only
          by_cases hm : a ∈ s.occ c
          · rw [removeAgent_mem (s := { s with registry := s.registry.erase a }) hm]
            exact inv_detachFixed h hk ho hm
          · have : removeAgent { s with registry := s.registry.erase a } c a = none := by
              simp [removeAgent, hm]
            rw [this]
            exact hd
  | setTryRandom b =>
    simp only [step]
    exact ⟨h.mem_cell, h.cell_mem, h.nodup, h.cap, h.flag, h.known, h.reg_lt, h.reg_nodup, h.occ_cells⟩
  | randEmpty draws =>
    simp only [step]
    split <;> exact h
  | randCell draws => exact h

theorem run_invB {sp : Space} {B : Cid → Nat} (hsp : ConnClosed sp) {s : State} (h : InvB sp B s) (ops : List Op) :
    InvB sp B (run sp s ops) := by
  induction ops generalizing s with
  | nil => exact h
  | cons op ops ih => exact ih (step_invB hsp h op)

theorem step_inv {sp : Space} (hsp : ConnClosed sp) {s : State} (h : Inv sp s) (op : Op) :
    Inv sp (step sp s op).1 := (step_invB hsp h op).toInv

theorem run_inv {sp : Space} (hsp : ConnClosed sp) {s : State} (h : Inv sp s) (ops : List Op) :
    Inv sp (run sp s ops) := by
  induction ops generalizing s with
  | nil => exact h
  | cons op ops ih => exact ih (step_inv hsp h op)

/-- no growth beyond the capacity: after one operation a cell with capacity `k` holds at most `k` agents or at most what
    it held before — a cell holding capacity-many or more never gains an agent -/
theorem step_no_growth {sp : Space} (hsp : ConnClosed sp) {s : State} (h : Inv sp s) (op : Op) (c : Cid) (k : Nat)
    (hk : sp.cap c = some k) :
    ((step sp s op).1.occ c).length ≤ k ∨ ((step sp s op).1.occ c).length ≤ (s.occ c).length :=
  (step_invB hsp h op).cap c k hk

/-! ### rejected calls (C18) -/

/-- if `a.cell = …` raises, the state is what it was -/
theorem setCell_reject {sp : Space} {B : Cid → Nat} {s : State} (h : InvB sp B s) {a : Aid} {k : AKind}
    (hk : s.kinds[a]? = some k) (tgt : Option Cid) {e : Err}
    (he : (setCell sp s k a tgt).2 = .err e) : (setCell sp s k a tgt).1 = s := by
  by_cases hfix : k = .fixed
  · subst hfix
    simp only [setCell] at he ⊢
    rw [setCellFixed_eq h] at he ⊢
    cases ho : s.cellOf a with
    | some o => rfl
    | none =>
      cases tgt with
      | none => rfl
      | some c =>
        rw [ho] at he
        simp only at he ⊢
        split
        · rfl
        · rename_i hf
          rw [if_neg hf] at he
          simp at he
  · have hset : setCell sp s k a tgt = setCellMobile sp s a tgt := by
      cases k <;> simp_all [setCell]
    rw [hset] at he ⊢
    rw [setCellMobile_eq h (fun o ho => h.mobile_mem hk hfix ho)] at he ⊢
    cases tgt with
    | none =>
      cases ho : s.cellOf a with
      | none => rfl
      | some o => rw [ho] at he; simp at he
    | some c =>
      cases ho : s.cellOf a with
      | none =>
        rw [ho] at he
        simp only at he ⊢
        split
        · rfl
        · rename_i hf
          rw [if_neg hf] at he
          simp at he
      | some o =>
        rw [ho] at he
        simp only at he ⊢
        by_cases hco : c = o
        · rw [if_pos hco] at he; simp at he
        · rw [if_neg hco] at he ⊢
          split
          · rfl
          · rename_i hf
            rw [if_neg hf] at he
            simp at he

/-- the calls of the property's list: placing / moving an agent -/
def Op.placing : Op → Bool
  | .setCell _ _ | .moveTo _ _ | .moveRel _ _ | .gridMove _ _ _ => true
  | _ => false

/-- a placing call that raises leaves the whole state as it was -/
theorem step_reject_unchanged {sp : Space} {B : Cid → Nat} {s : State} (h : InvB sp B s) (op : Op) (hp : op.placing = true)
    {e : Err} (he : (step sp s op).2 = .err e) : (step sp s op).1 = s := by
  cases op with
  | new k => simp [Op.placing] at hp
  | remove a => simp [Op.placing] at hp
  | setTryRandom b => simp [Op.placing] at hp
  | randEmpty d => simp [Op.placing] at hp
  | randCell d => simp [Op.placing] at hp
  | setCell a tgt =>
    simp only [step] at he ⊢
    cases hk : s.kinds[a]? with
    | none => rfl
    | some k =>
      rw [hk] at he
      cases tgt with
      | none => exact setCell_reject h hk none he
      | some c =>
        simp only at he ⊢
        split
        · rename_i hc
          rw [if_pos hc] at he
          exact setCell_reject h hk (some c) he
        · rfl
  | moveTo a c =>
    simp only [step] at he ⊢
    cases hk : s.kinds[a]? with
    | none => rfl
    | some k =>
      rw [hk] at he
      cases k with
      | fixed => rfl
      | cell =>
        simp only at he ⊢
        split
        · rename_i hc
          rw [if_pos hc] at he
          exact setCell_reject h hk (some c) he
        · rfl
      | grid2d =>
        simp only at he ⊢
        split
        · rename_i hc
          rw [if_pos hc] at he
          exact setCell_reject h hk (some c) he
        · rfl
  | moveRel a d =>
    simp only [step] at he ⊢
    cases hk : s.kinds[a]? with
    | none => rfl
    | some k =>
      rw [hk] at he
      cases k with
      | fixed => rfl
      | cell =>
        simp only at he ⊢
        cases ho : s.cellOf a with
        | none => rfl
        | some o =>
          rw [ho] at he
          simp only at he ⊢
          cases hg : connGet sp o d with
          | none => rfl
          | some c' =>
            rw [hg] at he
            exact setCell_reject h hk (some c') he
      | grid2d =>
        simp only at he ⊢
        cases ho : s.cellOf a with
        | none => rfl
        | some o =>
          rw [ho] at he
          simp only at he ⊢
          cases hg : connGet sp o d with
          | none => rfl
          | some c' =>
            rw [hg] at he
            exact setCell_reject h hk (some c') he
  | gridMove a dir n =>
    simp only [step] at he ⊢
    cases hk : s.kinds[a]? with
    | none => rfl
    | some k =>
      rw [hk] at he
      cases k with
      | fixed => rfl
      | cell => rfl
      | grid2d =>
        simp only at he ⊢
        cases hd : dirVec dir with
        | none => rfl
        | some d =>
          rw [hd] at he
          simp only at he ⊢
          split
          · rfl
          · rename_i hn
            rw [if_neg hn] at he
            cases ho : s.cellOf a with
            | none => rfl
            | some o =>
              rw [ho] at he
              simp only at he ⊢
              cases hw : walk sp d n.toNat o with
              | none => rfl
              | some c' =>
                rw [hw] at he
                exact setCell_reject h hk (some c') he

end Mesa.Cells
