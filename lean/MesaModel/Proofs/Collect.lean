import MesaModel.Model.Collect
/-! Helper definitions and lemmas for the DataCollector model (C12, C13, C18-collect). -/
namespace Mesa.Collect

theorem snoc_induction {P : List α → Prop} (nil : P []) (snoc : ∀ l x, P l → P (l ++ [x])) : ∀ l, P l := by
  intro l
  have : ∀ r : List α, P r.reverse := by
    intro r
    induction r with
    | nil => exact nil
    | cons x xs ih => rw [List.reverse_cons]; exact snoc _ _ ih
  simpa using this l.reverse

/-! ### insertion-ordered dicts -/

theorem lookup_cons' (k k' : Nat) (v : α) (l : List (Nat × α)) :
    ((k', v) :: l).lookup k = if k = k' then some v else l.lookup k := by
  by_cases h : k = k'
  · subst h; simp [List.lookup]
  · have : (k == k') = false := by simp [h]
    simp [List.lookup, this, h]

theorem lookup_setKey_self (k : Nat) (v : α) (l : List (Nat × α)) : (setKey k v l).lookup k = some v := by
  induction l with
  | nil => simp [setKey]
  | cons x xs ih =>
    obtain ⟨k', v'⟩ := x
    simp only [setKey]
    split
    · subst_vars; simp
    · rename_i h
      simp [lookup_cons', ih, Ne.symm h]

theorem lookup_setKey_ne {k k' : Nat} (h : k' ≠ k) (v : α) (l : List (Nat × α)) :
    (setKey k v l).lookup k' = l.lookup k' := by
  induction l with
  | nil => simp [setKey, lookup_cons', h]
  | cons x xs ih =>
    obtain ⟨k'', v'⟩ := x
    simp only [setKey]
    split
    · subst_vars; simp [lookup_cons', h]
    · simp [lookup_cons', ih]

theorem lookup_setKey (k k' : Nat) (v : α) (l : List (Nat × α)) :
    (setKey k v l).lookup k' = if k' = k then some v else l.lookup k' := by
  by_cases h : k' = k
  · subst h; simp [lookup_setKey_self]
  · simp [h, lookup_setKey_ne h]

theorem keys_setKey (k : Nat) (v : α) (l : List (Nat × α)) :
    (setKey k v l).map (·.1) = if k ∈ l.map (·.1) then l.map (·.1) else l.map (·.1) ++ [k] := by
  induction l with
  | nil => simp [setKey]
  | cons x xs ih =>
    obtain ⟨k', v'⟩ := x
    simp only [setKey]
    split
    · subst_vars; simp
    · rename_i h
      simp only [List.map_cons, ih, List.mem_cons]
      have : ¬ k = k' := fun e => h e.symm
      simp only [this, false_or]
      split <;> simp

/-- the last element of a list satisfying `p` -/
def lastWith (p : α → Bool) (l : List α) : Option α := (l.filter p).getLast?

theorem lastWith_nil (p : α → Bool) : lastWith p [] = none := rfl

theorem lastWith_append_singleton (p : α → Bool) (l : List α) (x : α) :
    lastWith p (l ++ [x]) = if p x then some x else lastWith p l := by
  unfold lastWith
  by_cases h : p x <;> simp [List.filter_append, h]

/-- a dict built by successive assignments `d[key x] = val x` -/
def assign (key : α → Nat) (val : α → β) (l : List α) : List (Nat × β) :=
  l.foldl (fun acc x => setKey (key x) (val x) acc) []

theorem assign_snoc (key : α → Nat) (val : α → β) (l : List α) (x : α) :
    assign key val (l ++ [x]) = setKey (key x) (val x) (assign key val l) := by
  simp [assign, List.foldl_append]

/-- reading a dict built by assignments: the last assignment to that key -/
theorem lookup_assign (key : α → Nat) (val : α → β) (l : List α) (k : Nat) :
    (assign key val l).lookup k = (lastWith (fun x => key x == k) l).map val := by
  induction l using snoc_induction with
  | nil => simp [assign, lastWith]
  | snoc l x ih =>
    rw [assign_snoc, lookup_setKey, lastWith_append_singleton, ih]
    by_cases h : k = key x
    · subst h; simp
    · have : ¬ key x = k := fun e => h e.symm
      simp [h, this]

theorem keys_assign_subset (key : α → Nat) (val : α → β) (l : List α) :
    ∀ k ∈ (assign key val l).map (·.1), k ∈ l.map key := by
  induction l using snoc_induction with
  | nil => simp [assign]
  | snoc l x ih =>
    intro k hk
    rw [assign_snoc, keys_setKey] at hk
    split at hk
    · have := ih k hk; simp only [List.map_append, List.mem_append]; exact Or.inl this
    · simp only [List.mem_append, List.mem_singleton] at hk
      rcases hk with hk | hk
      · have := ih k hk; simp only [List.map_append, List.mem_append]; exact Or.inl this
      · simp [hk]

/-- every entry of the dict was written for some element: its key and value are that element's -/
theorem mem_assign (key : α → Nat) (val : α → β) (l : List α) :
    ∀ e ∈ assign key val l, ∃ x ∈ l, e = (key x, val x) := by
  induction l using snoc_induction with
  | nil => simp [assign]
  | snoc l x ih =>
    rw [assign_snoc]
    intro e he
    have hcases : e = (key x, val x) ∨ e ∈ assign key val l := by
      generalize assign key val l = d at he ⊢
      induction d with
      | nil => simp [setKey] at he; exact Or.inl he
      | cons y ys ihd =>
        simp only [setKey] at he
        split at he
        · rename_i hk
          rcases List.mem_cons.mp he with rfl | he
          · left; rw [hk]
          · right; simp [he]
        · rcases List.mem_cons.mp he with rfl | he
          · right; simp
          · rcases ihd he with h | h
            · exact Or.inl h
            · right; simp [h]
    rcases hcases with rfl | he
    · exact ⟨x, by simp, rfl⟩
    · obtain ⟨y, hy, rfl⟩ := ih e he
      exact ⟨y, by simp [hy], rfl⟩

/-- if assignments come with non-decreasing keys, the dict's keys are strictly increasing -/
theorem keys_assign_sorted (key : α → Nat) (val : α → β) (l : List α)
    (h : (l.map key).Pairwise (· ≤ ·)) : ((assign key val l).map (·.1)).Pairwise (· < ·) := by
  induction l using snoc_induction with
  | nil => simp [assign]
  | snoc l x ih =>
    rw [List.map_append, List.pairwise_append] at h
    obtain ⟨h1, _, h3⟩ := h
    rw [assign_snoc, keys_setKey]
    split
    · exact ih h1
    · rename_i hn
      rw [List.pairwise_append]
      refine ⟨ih h1, by simp, ?_⟩
      intro a ha b hb
      simp only [List.mem_singleton] at hb; subst hb
      have hle := h3 a (keys_assign_subset key val l a ha) (key x) (by simp)
      have : a ≠ key x := fun e => hn (e ▸ ha)
      omega


/-! ### what the collects of a history saw -/

/-- a collect gets past the validation of the model reporters (what it then stores depends on whether
    a reporter raises, see `HoldsG`) -/
def stores (cfg : Cfg) (s : State) : Bool := (guardErr cfg s).isNone

def snapOf (cfg : Cfg) (s : State) : Op → List Snap
  | .collect => if stores cfg s then [s.snap] else []
  | _ => []

/-- the snapshots of the model at the `collect` calls of a history that got past validation, oldest first -/
def storedSnaps (cfg : Cfg) : State → List Op → List Snap
  | _, [] => []
  | s, op :: rest => snapOf cfg s op ++ storedSnaps cfg (apply cfg s op).1 rest

/-- one row per registered agent: `(steps, unique_id, reporter values)` -/
def agentRows (cfg : Cfg) (sn : Snap) : List Row := sn.agents.map (mkRow cfg.areps sn)

/-- the agents an agent-type reporter keyed by `T` looks at, as a function of the snapshot alone -/
def classAgents (cfg : Cfg) (sn : Snap) (T : Nat) : Option (List AgentS) :=
  if sn.agents.any (fun a => a.ty == T) then some (byCreation (sn.agents.filter fun a => a.ty == T))
  else if cfg.isAgentClass T then some (sn.agents.filter fun a => cfg.isSub a.ty T)
  else none

def typeLoopS (cfg : Cfg) (sn : Snap) :
    List (Nat × List ARep) → List (Nat × List Row) → List (Nat × List Row) × Option Err
  | [], acc => (acc, none)
  | (T, reps) :: rest, acc =>
    match classAgents cfg sn T with
    | none => (acc, some .value)
    | some ags =>
      match rowsExc reps sn ags with
      | some e => (acc, some e)
      | none => typeLoopS cfg sn rest (setKey T (ags.map (mkRow reps sn)) acc)

/-- `_agenttype_records[steps]` as written by one collect -/
def typeDict (cfg : Cfg) (sn : Snap) : List (Nat × List Row) := (typeLoopS cfg sn cfg.treps []).1

/-- every registered agent's class is in `agent_types` -/
def TypesInv (s : State) : Prop := ∀ a ∈ s.agents, a.ty ∈ s.types

theorem typeAgents_eq {cfg : Cfg} {s : State} (h : TypesInv s) (T : Nat) :
    typeAgents cfg s T = classAgents cfg s.snap T := by
  unfold typeAgents classAgents
  simp only [State.snap]
  by_cases ha : s.agents.any (fun a => a.ty == T) = true
  · have : T ∈ s.types := by
      obtain ⟨a, hm, ht⟩ := List.any_eq_true.mp ha
      have := h a hm
      simp only [beq_iff_eq] at ht
      simpa [ht] using this
    simp [ha, this]
  · simp [ha]

theorem typeLoop_eq {cfg : Cfg} {s : State} (h : TypesInv s) (l : List (Nat × List ARep)) (acc : List (Nat × List Row)) :
    typeLoop cfg s l acc = typeLoopS cfg s.snap l acc := by
  induction l generalizing acc with
  | nil => rfl
  | cons x xs ih =>
    obtain ⟨T, reps⟩ := x
    rw [typeLoop, typeLoopS, typeAgents_eq h]
    cases classAgents cfg s.snap T with
    | none => rfl
    | some ags =>
      simp only []
      cases rowsExc reps s.snap ags with
      | some e => rfl
      | none => exact ih _

/-! #### reporters that raise: how far a collect gets is a function of the snapshot -/

/-- the reporter returns (does not raise) on this snapshot -/
def MRep.passes (r : MRep) (sn : Snap) : Bool := (r.exc sn).isNone

/-- the exception that ends the loop over the model reporters, if any -/
def firstExc (l : List MRep) (sn : Snap) : Option Err := l.findSome? fun r => r.exc sn

/-- every model reporter returns: the model phase of the collect completes -/
def mOk (cfg : Cfg) (sn : Snap) : Bool := (firstExc cfg.mreps sn).isNone

/-- every agent reporter returns on every registered agent -/
def aOk (cfg : Cfg) (sn : Snap) : Bool := (rowsExc cfg.areps sn sn.agents).isNone

/-- the collect gets as far as writing the agent records (and starting the agent-type dict) -/
def complete (cfg : Cfg) (sn : Snap) : Bool := mOk cfg sn && aOk cfg sn

/-- `model_vars` as a function of the snapshots: the column of a reporter holds its value at exactly those
    collects at which it and every reporter before it returned -/
def colsOf : List MRep → List Snap → List (List Val)
  | [], _ => []
  | r :: rs, snaps => (snaps.filter r.passes).map r.eval :: colsOf rs (snaps.filter r.passes)

theorem firstExc_cons (r : MRep) (rs : List MRep) (sn : Snap) :
    firstExc (r :: rs) sn = match r.exc sn with
      | some e => some e
      | none => firstExc rs sn := by
  simp only [firstExc, List.findSome?_cons]
  cases r.exc sn <;> rfl

theorem mLoop_colsOf (sn : Snap) (l : List MRep) (snaps : List Snap) :
    mLoop sn l (colsOf l snaps) = (colsOf l (snaps ++ [sn]), firstExc l sn) := by
  induction l generalizing snaps with
  | nil => rfl
  | cons r rs ih =>
    rw [firstExc_cons]
    simp only [colsOf, mLoop, List.filter_append]
    cases hr : r.run sn with
    | error e =>
      have hp : r.passes sn = false := by simp [MRep.passes, MRep.exc, hr, excOf]
      have he : r.exc sn = some e := by simp [MRep.exc, hr, excOf]
      simp [hp, he]
    | ok v =>
      have hp : r.passes sn = true := by simp [MRep.passes, MRep.exc, hr, excOf]
      have he : r.exc sn = none := by simp [MRep.exc, hr, excOf]
      have hv : r.eval sn = v := by simp [MRep.eval, hr, valOf]
      simp [hp, he, hv, ih]

theorem colsOf_length (l : List MRep) (snaps : List Snap) : (colsOf l snaps).length = l.length := by
  induction l generalizing snaps with
  | nil => rfl
  | cons r rs ih => simp [colsOf, ih]

/-- what the DataCollector holds is a function of the snapshots at its collects — for reporters that may raise -/
structure HoldsG (cfg : Cfg) (snaps : List Snap) (s : State) : Prop where
  types : TypesInv s
  modelVars : s.modelVars = colsOf cfg.mreps snaps
  collSteps : s.collSteps = (snaps.filter (mOk cfg)).map (·.steps)
  records : s.records = if cfg.areps.isEmpty then [] else assign (·.steps) (agentRows cfg) (snaps.filter (complete cfg))
  typeRecords : s.typeRecords =
    if cfg.treps.isEmpty then [] else assign (·.steps) (typeDict cfg) (snaps.filter (complete cfg))
  stepsLe : ∀ sn ∈ snaps, sn.steps ≤ s.steps
  sorted : (snaps.map (·.steps)).Pairwise (· ≤ ·)

theorem apply_frame (cfg : Cfg) (s : State) (op : Op) (h : op ≠ .collect) :
    (apply cfg s op).1.modelVars = s.modelVars ∧ (apply cfg s op).1.collSteps = s.collSteps ∧
    (apply cfg s op).1.records = s.records ∧ (apply cfg s op).1.typeRecords = s.typeRecords ∧
    (apply cfg s op).1.validated = s.validated := by
  cases op <;> simp only [apply] <;> try simp
  · split <;> simp
  · split <;> simp
  · exact absurd rfl h
  · unfold addTableRow; split
    · simp
    · split <;> simp

/-- `collect` touches only what the DataCollector holds -/
theorem collect_frame (cfg : Cfg) (s : State) :
    (collect cfg s).1.agents = s.agents ∧ (collect cfg s).1.types = s.types ∧ (collect cfg s).1.steps = s.steps ∧
    (collect cfg s).1.attrs = s.attrs ∧ (collect cfg s).1.tables = s.tables ∧
    (collect cfg s).1.running = s.running ∧ (collect cfg s).1.nextId = s.nextId := by
  unfold collect
  split
  · simp
  · simp only []
    split
    · simp
    · split
      · simp
      · split <;> split <;> simp

theorem collect_agents (cfg : Cfg) (s : State) :
    (collect cfg s).1.agents = s.agents ∧ (collect cfg s).1.types = s.types ∧ (collect cfg s).1.steps = s.steps :=
  ⟨(collect_frame cfg s).1, (collect_frame cfg s).2.1, (collect_frame cfg s).2.2.1⟩

theorem apply_steps_le (cfg : Cfg) (s : State) (op : Op) : s.steps ≤ (apply cfg s op).1.steps := by
  cases op <;> simp only [apply] <;> try simp
  · split <;> simp
  · split <;> simp
  · rw [(collect_frame cfg s).2.2.1]; exact Nat.le_refl _
  · unfold addTableRow; split
    · simp
    · split <;> simp

theorem insertBy_perm (le : α → α → Bool) (x : α) (l : List α) : (insertBy le x l).Perm (x :: l) := by
  induction l with
  | nil => exact List.Perm.refl _
  | cons y ys ih =>
    simp only [insertBy]
    split
    · exact List.Perm.refl _
    · exact (List.Perm.cons y ih).trans (List.Perm.swap x y ys)

theorem sortStable_perm (le : α → α → Bool) (l : List α) : (sortStable le l).Perm l := by
  induction l with
  | nil => exact List.Perm.refl _
  | cons x xs ih => exact (insertBy_perm le x _).trans (List.Perm.cons x ih)

theorem insertBy_pairwise {le : α → α → Bool} (htr : ∀ a b c, le a b = true → le b c = true → le a c = true)
    (htot : ∀ a b, le a b = true ∨ le b a = true) (x : α) {l : List α} (h : l.Pairwise fun a b => le a b = true) :
    (insertBy le x l).Pairwise fun a b => le a b = true := by
  induction l with
  | nil => simp [insertBy]
  | cons y ys ih =>
    simp only [insertBy]
    have hy := List.pairwise_cons.mp h
    split
    · rename_i hxy
      refine List.pairwise_cons.mpr ⟨?_, h⟩
      intro b hb
      rcases List.mem_cons.mp hb with rfl | hb
      · exact hxy
      · exact htr _ _ _ hxy (hy.1 b hb)
    · rename_i hxy
      refine List.pairwise_cons.mpr ⟨?_, ih hy.2⟩
      intro b hb
      rcases List.mem_cons.mp ((insertBy_perm le x ys).mem_iff.mp hb) with rfl | hb
      · rcases htot b y with h1 | h1
        · exact absurd h1 hxy
        · exact h1
      · exact hy.1 b hb

theorem sortStable_pairwise {le : α → α → Bool} (htr : ∀ a b c, le a b = true → le b c = true → le a c = true)
    (htot : ∀ a b, le a b = true ∨ le b a = true) (l : List α) :
    (sortStable le l).Pairwise fun a b => le a b = true := by
  induction l with
  | nil => simp [sortStable]
  | cons x xs ih => exact insertBy_pairwise htr htot x ih

/-- a list that is already in order is left as it is (in particular equal keys keep their order) -/
theorem sortStable_of_pairwise {le : α → α → Bool} {l : List α} (h : l.Pairwise fun a b => le a b = true) :
    sortStable le l = l := by
  induction l with
  | nil => rfl
  | cons x xs ih =>
    have hx := List.pairwise_cons.mp h
    simp only [sortStable, ih hx.2]
    cases xs with
    | nil => rfl
    | cons y ys => simp [insertBy, hx.1 y (by simp)]

theorem sortBy_perm (key : AgentS → Int) (asc : Bool) (l : List AgentS) : (sortBy key asc l).Perm l := by
  unfold sortBy; split <;> exact sortStable_perm _ _

theorem filterMap_getElem?_range (l : List α) : (List.range l.length).filterMap (l[·]?) = l := by
  induction l with
  | nil => rfl
  | cons x l ih =>
    rw [List.length_cons, List.range_succ_eq_map, List.filterMap_cons]
    simp only [List.getElem?_cons_zero, List.filterMap_map]
    congr 1

/-- picking existing positions: the `j`-th item picked is the one at the `j`-th position named -/
theorem filterMap_getElem?_pick (l : List α) : ∀ (p : List Nat), (∀ i ∈ p, i < l.length) →
    (p.filterMap (fun i => l[i]?)).length = p.length ∧
    ∀ j : Nat, (p.filterMap (fun i => l[i]?))[j]? = (p[j]?).bind (fun i => l[i]?) := by
  intro p
  induction p with
  | nil => intro _; exact ⟨rfl, fun j => by simp⟩
  | cons i p ih =>
    intro h
    have hi : i < l.length := h i (by simp)
    obtain ⟨h1, h2⟩ := ih (fun k hk => h k (by simp [hk]))
    have e : (i :: p).filterMap (fun i => l[i]?) = l[i] :: p.filterMap (fun i => l[i]?) := by
      simp [List.getElem?_eq_getElem hi]
    rw [e]
    refine ⟨by simp [h1], fun j => ?_⟩
    cases j with
    | zero => simp [List.getElem?_eq_getElem hi]
    | succ j => simpa using h2 j

/-- a drawn permutation of the positions rearranges the list -/
theorem perm_filterMap_getElem? {p : List Nat} {l : List α} (h : isPermOfRange p l.length = true) :
    (p.filterMap (l[·]?)).Perm l := by
  have hp : p.Perm (List.range l.length) := List.isPerm_iff.mp h
  have := hp.filterMap (l[·]?)
  rwa [filterMap_getElem?_range] at this

/-- an in-place reordering rearranges `model.agents` and does nothing else to it -/
theorem reorderList_perm (k : ReKind) (l : List AgentS) : (reorderList k l).Perm l := by
  cases k with
  | perm p =>
    simp only [reorderList]
    split
    · rename_i h; exact perm_filterMap_getElem? h
    · exact .refl _
  | rev => exact List.reverse_perm l
  | rot =>
    simp only [reorderList]
    exact List.perm_append_comm.trans (List.Perm.of_eq (List.take_append_drop 1 l))
  | byId asc => exact sortBy_perm _ _ _
  | byAttr a asc => exact sortBy_perm _ _ _

theorem byCreation_perm (l : List AgentS) : (byCreation l).Perm l := sortStable_perm _ _

theorem apply_agents_types (cfg : Cfg) (s : State) (op : Op) (h : TypesInv s) : TypesInv (apply cfg s op).1 := by
  unfold TypesInv at *
  cases op <;> simp only [apply]
  case create ty attrs =>
    intro a ha
    simp only [List.mem_append, List.mem_singleton] at ha
    rcases ha with ha | ha
    · have := h a ha
      split <;> simp [this]
    · subst ha
      simp only [List.contains_iff_mem]
      split
      · assumption
      · simp
  case remove id =>
    intro a ha
    exact h a (List.mem_filter.mp ha).1
  case step => exact h
  case mset => exact h
  case mapp => split <;> exact h
  case mdel => split <;> exact h
  case aset id a v =>
    intro x hx
    simp only [updAgent, List.mem_map] at hx
    obtain ⟨y, hy, rfl⟩ := hx
    have := h y hy
    split <;> simpa using this
  case adel id a =>
    intro x hx
    simp only [updAgent, List.mem_map] at hx
    obtain ⟨y, hy, rfl⟩ := hx
    have := h y hy
    split <;> simpa using this
  case collect =>
    rw [(collect_frame cfg s).1, (collect_frame cfg s).2.1]; exact h
  case row =>
    unfold addTableRow
    split
    · exact h
    · split <;> exact h
  case stopAt => exact h
  case reorder k =>
    intro a ha
    exact h a ((reorderList_perm k s.agents).mem_iff.mp ha)

theorem collect_fails {cfg : Cfg} {s : State} (hs : stores cfg s = false) :
    ∃ e, collect cfg s = ({ s with validated := true }, some e) := by
  unfold stores at hs
  unfold collect
  cases hg : guardErr cfg s with
  | none => simp [hg] at hs
  | some e => exact ⟨e, rfl⟩

@[simp] theorem snap_agents (s : State) : s.snap.agents = s.agents := rfl
@[simp] theorem snap_steps (s : State) : s.snap.steps = s.steps := rfl
@[simp] theorem snap_attrs (s : State) : s.snap.attrs = s.attrs := rfl

/-- what a collect that gets past validation does, on a state whose `model_vars` are as `HoldsG` says -/
theorem collect_stores {cfg : Cfg} {s : State} {snaps : List Snap} (hs : stores cfg s = true)
    (hm : s.modelVars = colsOf cfg.mreps snaps) :
    (collect cfg s).1.modelVars = colsOf cfg.mreps (snaps ++ [s.snap]) ∧
    (collect cfg s).1.collSteps = (if mOk cfg s.snap then s.collSteps ++ [s.steps] else s.collSteps) ∧
    (collect cfg s).1.records =
      (if complete cfg s.snap && !cfg.areps.isEmpty then setKey s.steps (agentRows cfg s.snap) s.records
       else s.records) ∧
    (collect cfg s).1.typeRecords =
      (if complete cfg s.snap && !cfg.treps.isEmpty then setKey s.steps (typeLoop cfg s cfg.treps []).1 s.typeRecords
       else s.typeRecords) := by
  unfold stores at hs
  unfold collect
  cases hg : guardErr cfg s with
  | some e => simp [hg] at hs
  | none =>
    simp only [hm, mLoop_colsOf]
    cases hf : firstExc cfg.mreps s.snap with
    | some e => simp [mOk, complete, hf]
    | none =>
      simp only []
      have hmo : mOk cfg s.snap = true := by simp [mOk, hf]
      cases ha : rowsExc cfg.areps s.snap s.agents with
      | some e =>
        have hao : aOk cfg s.snap = false := by simp [aOk, ha]
        simp [hmo, complete, hao]
      | none =>
        have hao : aOk cfg s.snap = true := by simp [aOk, ha]
        simp only []
        by_cases hae : cfg.areps.isEmpty = true <;> by_cases hte : cfg.treps.isEmpty = true <;>
          simp [hmo, hao, complete, hae, hte, agentRows]

theorem holdsG_collect {cfg : Cfg} {snaps : List Snap} {s : State} (h : HoldsG cfg snaps s) :
    HoldsG cfg (snaps ++ snapOf cfg s .collect) (collect cfg s).1 := by
  have hty : TypesInv (collect cfg s).1 := apply_agents_types cfg s .collect h.types
  have hst := (collect_agents cfg s).2.2
  by_cases hs : stores cfg s = true
  · obtain ⟨f1, f2, f3, f4⟩ := collect_stores hs h.modelVars
    simp only [snapOf, hs, if_true]
    refine ⟨hty, f1, ?_, ?_, ?_, ?_, ?_⟩
    · rw [f2, h.collSteps, List.filter_append]
      by_cases hm : mOk cfg s.snap = true <;> simp [hm]
    · rw [f3, h.records, List.filter_append]
      by_cases ha : cfg.areps.isEmpty = true
      · simp [ha]
      · by_cases hc : complete cfg s.snap = true
        · simp only [ha, hc, Bool.false_eq_true, if_false, Bool.not_false, Bool.and_self, if_true,
            List.filter_cons, List.filter_nil, assign_snoc]; rfl
        · simp [ha, hc]
    · rw [f4, h.typeRecords, List.filter_append]
      by_cases ht : cfg.treps.isEmpty = true
      · simp [ht]
      · by_cases hc : complete cfg s.snap = true
        · simp only [ht, hc, Bool.false_eq_true, if_false, Bool.not_false, Bool.and_self, if_true,
            List.filter_cons, List.filter_nil, assign_snoc, typeLoop_eq h.types]; rfl
        · simp [ht, hc]
    · intro sn hsn
      simp only [List.mem_append, List.mem_singleton] at hsn
      rw [hst]
      rcases hsn with hsn | hsn
      · exact h.stepsLe sn hsn
      · subst hsn; simp
    · rw [List.map_append, List.pairwise_append]
      refine ⟨h.sorted, by simp, ?_⟩
      intro a ha b hb
      obtain ⟨sn, hsn, rfl⟩ := List.mem_map.mp ha
      simp only [List.map_cons, List.map_nil, List.mem_singleton] at hb
      subst hb
      exact h.stepsLe sn hsn
  · have hs' : stores cfg s = false := by simpa using hs
    simp only [snapOf, hs', Bool.false_eq_true, if_false, List.append_nil]
    obtain ⟨e, he⟩ := collect_fails hs'
    rw [he]
    exact ⟨h.types, h.modelVars, h.collSteps, h.records, h.typeRecords, h.stepsLe, h.sorted⟩

theorem holdsG_apply {cfg : Cfg} {snaps : List Snap} {s : State} (h : HoldsG cfg snaps s) (op : Op) :
    HoldsG cfg (snaps ++ snapOf cfg s op) (apply cfg s op).1 := by
  by_cases hc : op = .collect
  · subst hc; exact holdsG_collect h
  · have hsn : snapOf cfg s op = [] := by cases op <;> simp_all [snapOf]
    obtain ⟨h1, h2, h3, h4, _⟩ := apply_frame cfg s op hc
    rw [hsn, List.append_nil]
    exact ⟨apply_agents_types cfg s op h.types, h1 ▸ h.modelVars, h2 ▸ h.collSteps, h3 ▸ h.records,
      h4 ▸ h.typeRecords, fun sn hsn => Nat.le_trans (h.stepsLe sn hsn) (apply_steps_le cfg s op), h.sorted⟩

theorem holdsG_run {cfg : Cfg} {snaps : List Snap} {s : State} (h : HoldsG cfg snaps s) (ops : List Op) :
    HoldsG cfg (snaps ++ storedSnaps cfg s ops) (run cfg s ops) := by
  induction ops generalizing snaps s with
  | nil => simpa [storedSnaps, run] using h
  | cons op rest ih =>
    have := ih (holdsG_apply h op)
    simpa [storedSnaps, run, List.append_assoc] using this

theorem colsOf_nil (l : List MRep) : colsOf l [] = l.map fun _ => [] := by
  induction l with
  | nil => rfl
  | cons r rs ih => simp [colsOf, ih]

theorem holdsG_init (cfg : Cfg) (tables : List (Nat × List Nat)) : HoldsG cfg [] (init cfg tables) := by
  refine ⟨?_, ?_, ?_, ?_, ?_, ?_, ?_⟩ <;> simp [init, TypesInv, assign, colsOf_nil]

/-- the whole history from a fresh DataCollector -/
theorem holdsG_history (cfg : Cfg) (tables : List (Nat × List Nat)) (ops : List Op) :
    HoldsG cfg (storedSnaps cfg (init cfg tables) ops) (run cfg (init cfg tables) ops) := by
  have h := holdsG_run (holdsG_init cfg tables) ops
  simpa using h

/-! #### reporters that never raise -/

/-- no reporter of the dictionaries ever raises (the domain of C12's quantifier) -/
structure Total (cfg : Cfg) : Prop where
  m : ∀ r ∈ cfg.mreps, ∀ sn, r.exc sn = none
  a : ∀ r ∈ cfg.areps, ∀ sn ag, r.exc sn ag = none
  t : ∀ x ∈ cfg.treps, ∀ r ∈ x.2, ∀ sn ag, r.exc sn ag = none

theorem rowsExc_none_of_total (reps : List ARep) (h : ∀ r ∈ reps, ∀ sn ag, r.exc sn ag = none) (sn : Snap)
    (ags : List AgentS) : rowsExc reps sn ags = none := by
  simp only [rowsExc, rowExc, List.findSome?_eq_none_iff]
  intro ag _ r hr
  exact h r hr sn ag

theorem firstExc_none_of_total (l : List MRep) (h : ∀ r ∈ l, ∀ sn, r.exc sn = none) (sn : Snap) :
    firstExc l sn = none := by
  simp only [firstExc, List.findSome?_eq_none_iff]
  intro r hr
  exact h r hr sn

theorem complete_of_total {cfg : Cfg} (hT : Total cfg) (sn : Snap) : mOk cfg sn = true ∧ complete cfg sn = true := by
  have h1 : mOk cfg sn = true := by simp [mOk, firstExc_none_of_total _ hT.m]
  have h2 : aOk cfg sn = true := by simp [aOk, rowsExc_none_of_total _ hT.a]
  exact ⟨h1, by simp [complete, h1, h2]⟩

theorem colsOf_total (l : List MRep) (h : ∀ r ∈ l, ∀ sn, r.exc sn = none) (snaps : List Snap) :
    colsOf l snaps = l.map fun r => snaps.map r.eval := by
  induction l generalizing snaps with
  | nil => rfl
  | cons r rs ih =>
    have hp : snaps.filter r.passes = snaps := by
      rw [List.filter_eq_self]
      intro sn _
      simp [MRep.passes, h r (by simp) sn]
    simp only [colsOf, hp, List.map_cons]
    rw [ih (fun r' hr' => h r' (by simp [hr']))]

/-- what the DataCollector holds is a function of the stored snapshots (reporters that never raise) -/
structure Holds (cfg : Cfg) (snaps : List Snap) (s : State) : Prop where
  types : TypesInv s
  modelVars : s.modelVars = cfg.mreps.map fun r => snaps.map r.eval
  collSteps : s.collSteps = snaps.map (·.steps)
  records : s.records = if cfg.areps.isEmpty then [] else assign (·.steps) (agentRows cfg) snaps
  typeRecords : s.typeRecords = if cfg.treps.isEmpty then [] else assign (·.steps) (typeDict cfg) snaps
  stepsLe : ∀ sn ∈ snaps, sn.steps ≤ s.steps
  sorted : (snaps.map (·.steps)).Pairwise (· ≤ ·)

theorem holds_of_holdsG {cfg : Cfg} (hT : Total cfg) {snaps : List Snap} {s : State} (h : HoldsG cfg snaps s) :
    Holds cfg snaps s := by
  have hf1 : snaps.filter (mOk cfg) = snaps := by
    rw [List.filter_eq_self]; intro sn _; exact (complete_of_total hT sn).1
  have hf2 : snaps.filter (complete cfg) = snaps := by
    rw [List.filter_eq_self]; intro sn _; exact (complete_of_total hT sn).2
  refine ⟨h.types, ?_, ?_, ?_, ?_, h.stepsLe, h.sorted⟩
  · rw [h.modelVars, colsOf_total _ hT.m]
  · rw [h.collSteps, hf1]
  · rw [h.records, hf2]
  · rw [h.typeRecords, hf2]

/-- the whole history from a fresh DataCollector, reporters that never raise -/
theorem holds_history {cfg : Cfg} (hT : Total cfg) (tables : List (Nat × List Nat)) (ops : List Op) :
    Holds cfg (storedSnaps cfg (init cfg tables) ops) (run cfg (init cfg tables) ops) :=
  holds_of_holdsG hT (holdsG_history cfg tables ops)


/-! ### frames -/

theorem rect_of_lengths (cols : List (List Val)) (n : Nat) (h : ∀ c ∈ cols, c.length = n) (hne : cols ≠ []) :
    rect cols = some n := by
  cases cols with
  | nil => exact absurd rfl hne
  | cons c rest =>
    have hc := h c (by simp)
    have : rest.all (fun x => x.length == c.length) = true := by
      rw [List.all_eq_true]
      intro x hx
      have := h x (by simp [hx])
      simp [this, hc]
    rw [hc] at this
    simp only [rect, hc, this, if_true]

theorem modelFrame_of_holds {cfg : Cfg} {snaps : List Snap} {s : State} (h : Holds cfg snaps s)
    (hne : cfg.mreps ≠ []) :
    modelFrame cfg s = .ok (snaps.length, cfg.mreps.map fun r => snaps.map r.eval) := by
  unfold modelFrame
  have : cfg.mreps.isEmpty = false := by simpa using hne
  simp only [this, Bool.false_eq_true, if_false, h.modelVars]
  rw [rect_of_lengths _ snaps.length]
  · intro c hc
    obtain ⟨r, _, rfl⟩ := List.mem_map.mp hc
    simp
  · simpa using hne

/-! ### tables -/

theorem mem_setKey {k : Nat} {v : α} {l : List (Nat × α)} {x : Nat × α} (h : x ∈ setKey k v l) :
    x = (k, v) ∨ x ∈ l := by
  induction l with
  | nil => simpa [setKey] using h
  | cons y ys ih =>
    obtain ⟨k', v'⟩ := y
    simp only [setKey] at h
    split at h
    · subst_vars
      rcases List.mem_cons.mp h with h | h
      · exact Or.inl h
      · exact Or.inr (List.mem_cons_of_mem _ h)
    · rcases List.mem_cons.mp h with h | h
      · exact Or.inr (h ▸ List.mem_cons_self)
      · rcases ih h with h | h
        · exact Or.inl h
        · exact Or.inr (List.mem_cons_of_mem _ h)

theorem mem_of_lookup {k : Nat} {v : α} {l : List (Nat × α)} (h : l.lookup k = some v) : (k, v) ∈ l := by
  induction l with
  | nil => simp at h
  | cons y ys ih =>
    obtain ⟨k', v'⟩ := y
    rw [lookup_cons'] at h
    split at h
    · subst_vars; simp at h; subst h; exact List.mem_cons_self
    · exact List.mem_cons_of_mem _ (ih h)

/-- the value a row dict puts into column `c` (`None` when the key is missing) -/
def cell (c : Nat) (r : List (Nat × Val)) : Val := (r.lookup c).getD .none

/-- the rows of a history that `add_table_row` accepted into table `t` -/
def rowOf (s : State) (t : Nat) : Op → List (List (Nat × Val))
  | .row t' r ign => if t' = t ∧ (addTableRow s t' r ign).2 = none then [r] else []
  | _ => []

def acceptedRows (cfg : Cfg) (t : Nat) : State → List Op → List (List (Nat × Val))
  | _, [] => []
  | s, op :: rest => rowOf s t op ++ acceptedRows cfg t (apply cfg s op).1 rest

/-- every column of every table holds exactly the cells of the accepted rows, in order -/
def TabHolds (rows : Nat → List (List (Nat × Val))) (s : State) : Prop :=
  ∀ t tab, s.tables.lookup t = some tab → ∀ cv ∈ tab, cv.2 = (rows t).map (cell cv.1)

theorem apply_tables_frame (cfg : Cfg) (s : State) (op : Op) (h : ∀ t r ign, op ≠ .row t r ign) :
    (apply cfg s op).1.tables = s.tables := by
  cases op <;> simp only [apply] <;> try simp
  · split <;> simp
  · split <;> simp
  · exact (collect_frame cfg s).2.2.2.2.1
  · exact absurd rfl (h _ _ _)

theorem tabHolds_apply {cfg : Cfg} {rows : Nat → List (List (Nat × Val))} {s : State} (h : TabHolds rows s) (op : Op) :
    TabHolds (fun t => rows t ++ rowOf s t op) (apply cfg s op).1 := by
  by_cases hr : ∀ t r ign, op ≠ .row t r ign
  · have hro : ∀ t, rowOf s t op = [] := by
      intro t; cases op <;> simp [rowOf]
      exact absurd rfl (hr _ _ _)
    simp only [hro, List.append_nil]
    rw [TabHolds, apply_tables_frame cfg s op hr]
    exact h
  · have : ∃ t r ign, op = .row t r ign := by
      cases op <;> simp_all
    obtain ⟨t, r, ign, rfl⟩ := this
    simp only [apply]
    intro t' tab' hl cv hcv
    show cv.2 = (rows t' ++ rowOf s t' (.row t r ign)).map (cell cv.1)
    simp only [rowOf]
    unfold addTableRow at hl ⊢
    cases hlt : s.tables.lookup t with
    | none =>
      simp only [hlt] at hl ⊢
      simp only [reduceCtorEq, and_false, if_false, List.append_nil]
      exact h t' tab' hl cv hcv
    | some tab =>
      simp only [hlt] at hl ⊢
      split at hl
      · rename_i hmiss
        simp only [hmiss, if_true, reduceCtorEq, and_false, if_false, List.append_nil]
        exact h t' tab' hl cv hcv
      · rename_i hmiss
        simp only [hmiss, Bool.false_eq_true, if_false, and_true]
        simp only [] at hl
        rw [lookup_setKey] at hl
        by_cases htt : t' = t
        · subst htt
          simp only [if_true, Option.some.injEq] at hl
          subst hl
          obtain ⟨⟨c, vs⟩, hm, rfl⟩ := List.mem_map.mp hcv
          have := h t' tab hlt (c, vs) hm
          simp only at this
          simp [this, cell]
        · simp only [htt, if_false] at hl
          have hne : ¬ t = t' := fun e => htt e.symm
          simp only [hne, if_false, List.append_nil]
          exact h t' tab' hl cv hcv

theorem tabHolds_run {cfg : Cfg} {rows : Nat → List (List (Nat × Val))} {s : State} (h : TabHolds rows s)
    (ops : List Op) : TabHolds (fun t => rows t ++ acceptedRows cfg t s ops) (run cfg s ops) := by
  induction ops generalizing rows s with
  | nil => simpa [acceptedRows, run] using h
  | cons op rest ih =>
    have := ih (tabHolds_apply (cfg := cfg) h op)
    simpa [acceptedRows, run, List.append_assoc] using this

theorem initCols_empty (cols : List Nat) (acc : Table) (h : ∀ cv ∈ acc, cv.2 = []) :
    ∀ cv ∈ cols.foldl (fun c k => setKey k [] c) acc, cv.2 = [] := by
  induction cols generalizing acc with
  | nil => simpa using h
  | cons c cs ih =>
    apply ih
    intro cv hcv
    rcases mem_setKey hcv with rfl | hcv
    · rfl
    · exact h cv hcv

theorem initTables_empty (tables : List (Nat × List Nat)) (acc : List (Nat × Table))
    (h : ∀ e ∈ acc, ∀ cv ∈ e.2, cv.2 = []) :
    ∀ e ∈ tables.foldl (fun acc (t, cols) => setKey t (cols.foldl (fun c k => setKey k [] c) []) acc) acc,
      ∀ cv ∈ e.2, cv.2 = [] := by
  induction tables generalizing acc with
  | nil => simpa using h
  | cons x xs ih =>
    obtain ⟨t, cols⟩ := x
    apply ih
    intro e he
    rcases mem_setKey he with rfl | he
    · exact initCols_empty cols [] (by simp)
    · exact h e he

theorem tabHolds_init (cfg : Cfg) (tables : List (Nat × List Nat)) : TabHolds (fun _ => []) (init cfg tables) := by
  intro t tab hl cv hcv
  have := initTables_empty tables [] (by simp) (t, tab) (mem_of_lookup (by simpa [init] using hl)) cv hcv
  simpa using this

theorem tableFrame_of_tabHolds {rows : Nat → List (List (Nat × Val))} {s : State} (h : TabHolds rows s) (t : Nat) :
    tableFrame s t = .error .unknown ∨ ∃ tab, s.tables.lookup t = some tab ∧
      tableFrame s t = .ok ((if tab = [] then 0 else (rows t).length), tab) := by
  unfold tableFrame
  cases hl : s.tables.lookup t with
  | none => exact Or.inl rfl
  | some tab =>
    refine Or.inr ⟨tab, rfl, ?_⟩
    simp only []
    by_cases he : tab = []
    · subst he; simp [rect]
    · rw [rect_of_lengths _ (rows t).length]
      · simp [he]
      · intro c hc
        obtain ⟨cv, hm, rfl⟩ := List.mem_map.mp hc
        rw [h t tab hl cv hm]; simp
      · simpa using he

/-! ### the declared tables are the known tables, for ever -/

theorem initTables_lookup (tables : List (Nat × List Nat)) (acc : List (Nat × Table)) (t : Nat) :
    ((tables.foldl (fun acc (x : Nat × List Nat) => setKey x.1 (x.2.foldl (fun c k => setKey k [] c) []) acc) acc).lookup t).isSome =
      ((acc.lookup t).isSome || tables.any (·.1 == t)) := by
  induction tables generalizing acc with
  | nil => simp
  | cons x xs ih =>
    simp only [List.foldl_cons, ih, lookup_setKey, List.any_cons]
    by_cases h : t = x.1
    · subst h; simp
    · have : (x.1 == t) = false := by simp; exact fun e => h e.symm
      simp [h, this]

theorem apply_tables_known (cfg : Cfg) (s : State) (op : Op) (t : Nat) :
    ((apply cfg s op).1.tables.lookup t).isSome = (s.tables.lookup t).isSome := by
  by_cases h : ∀ t r ign, op ≠ .row t r ign
  · rw [apply_tables_frame cfg s op h]
  · have : ∃ t' r ign, op = .row t' r ign := by
      cases op <;> simp at h ⊢
    obtain ⟨t', r, ign, rfl⟩ := this
    simp only [apply, addTableRow]
    cases hl : s.tables.lookup t' with
    | none => rfl
    | some tab =>
      simp only []
      split
      · rfl
      · simp only [lookup_setKey]
        by_cases ht : t = t'
        · subst ht; simp [hl]
        · simp [ht]

theorem run_tables_known (cfg : Cfg) (s : State) (ops : List Op) (t : Nat) :
    ((run cfg s ops).tables.lookup t).isSome = (s.tables.lookup t).isSome := by
  induction ops generalizing s with
  | nil => rfl
  | cons op ops ih =>
    have := ih (apply cfg s op).1
    simp only [run, List.foldl_cons] at this ⊢
    rw [this, apply_tables_known]

theorem tableFrame_unknown_iff (s : State) (t : Nat) : tableFrame s t = .error .unknown ↔ s.tables.lookup t = none := by
  unfold tableFrame
  cases hl : s.tables.lookup t with
  | none => simp
  | some tab =>
    simp only []
    cases rect (tab.map (·.2)) <;> simp

/-! ### rejected table rows (C18) -/

theorem addTableRow_reject_unchanged (s : State) (t : Nat) (r : List (Nat × Val)) (ign : Bool) (e : Err)
    (h : (addTableRow s t r ign).2 = some e) : (addTableRow s t r ign).1 = s := by
  unfold addTableRow at h ⊢
  split
  · rfl
  · split
    · rfl
    · rename_i hl hm
      simp [hl, hm] at h

def rejectedRow (cfg : Cfg) (s : State) : Op → Bool
  | .row t r ign => ((apply cfg s (.row t r ign)).2).isSome
  | _ => false

/-- the history with the rejected `add_table_row` calls deleted -/
def dropRejectedRows (cfg : Cfg) : State → List Op → List Op
  | _, [] => []
  | s, op :: rest => (if rejectedRow cfg s op then [] else [op]) ++ dropRejectedRows cfg (apply cfg s op).1 rest

theorem run_dropRejectedRows (cfg : Cfg) (s : State) (ops : List Op) :
    run cfg s (dropRejectedRows cfg s ops) = run cfg s ops := by
  induction ops generalizing s with
  | nil => rfl
  | cons op rest ih =>
    simp only [dropRejectedRows]
    by_cases hr : rejectedRow cfg s op = true
    · have : (apply cfg s op).1 = s := by
        cases op <;> simp [rejectedRow] at hr
        rename_i t r ign
        obtain ⟨e, he⟩ := Option.isSome_iff_exists.mp hr
        exact addTableRow_reject_unchanged s t r ign e he
      simp only [hr, if_true, List.nil_append]
      rw [this, ih s]
      simp [run, this]
    · simp only [hr, Bool.false_eq_true, if_false, List.singleton_append]
      simp only [run, List.foldl_cons]
      exact ih _


/-! ### agent-type dictionaries -/

theorem typeLoopS_lookup_notin (cfg : Cfg) (sn : Snap) (l : List (Nat × List ARep)) (acc : List (Nat × List Row))
    (T : Nat) (h : T ∉ l.map (·.1)) : (typeLoopS cfg sn l acc).1.lookup T = acc.lookup T := by
  induction l generalizing acc with
  | nil => rfl
  | cons x xs ih =>
    obtain ⟨T', reps'⟩ := x
    simp only [List.map_cons, List.mem_cons, not_or] at h
    rw [typeLoopS]
    cases classAgents cfg sn T' with
    | none => rfl
    | some ags =>
      simp only []
      cases rowsExc reps' sn ags with
      | some e => rfl
      | none =>
        simp only []
        rw [ih _ h.2, lookup_setKey_ne h.1]

/-- the key is usable (`_record_agenttype` finds agents for it) and none of its reporters raises on them -/
def KeyOk (cfg : Cfg) (sn : Snap) (x : Nat × List ARep) : Prop :=
  ∃ ags, classAgents cfg sn x.1 = some ags ∧ rowsExc x.2 sn ags = none

theorem typeLoopS_ok (cfg : Cfg) (sn : Snap) (l : List (Nat × List ARep)) (acc : List (Nat × List Row))
    (hk : ∀ x ∈ l, KeyOk cfg sn x) : (typeLoopS cfg sn l acc).2 = none := by
  induction l generalizing acc with
  | nil => rfl
  | cons x xs ih =>
    obtain ⟨T', reps'⟩ := x
    obtain ⟨ags, hc, hr⟩ := hk (T', reps') List.mem_cons_self
    rw [typeLoopS]
    simp only [hc, hr]
    exact ih _ (fun y hy => hk y (by simp [hy]))

theorem typeLoopS_lookup (cfg : Cfg) (sn : Snap) (l : List (Nat × List ARep)) (acc : List (Nat × List Row))
    (hk : ∀ x ∈ l, KeyOk cfg sn x) (hnd : (l.map (·.1)).Nodup) (T : Nat) (reps : List ARep)
    (h : l.lookup T = some reps) :
    (typeLoopS cfg sn l acc).1.lookup T = (classAgents cfg sn T).map (·.map (mkRow reps sn)) := by
  induction l generalizing acc with
  | nil => simp at h
  | cons x xs ih =>
    obtain ⟨T', reps'⟩ := x
    rw [lookup_cons'] at h
    simp only [List.map_cons, List.nodup_cons] at hnd
    obtain ⟨ags, hc, hr⟩ := hk (T', reps') List.mem_cons_self
    rw [typeLoopS]
    simp only at hc hr
    simp only [hc, hr]
    by_cases hT : T = T'
    · subst hT
      simp only [if_true, Option.some.injEq] at h
      subst h
      rw [typeLoopS_lookup_notin _ _ _ _ _ hnd.1, lookup_setKey_self, hc]; rfl
    · simp only [hT, if_false] at h
      exact ih _ (fun y hy => hk y (by simp [hy])) hnd.2 h

/-- for the keys C12 quantifies over, `_record_agenttype` looks at exactly the agents of that class: in creation
    order when the class has direct instances (`agents_by_type[T]`), in the current order of `model.agents` when it
    has none (a base class: `isinstance` filter over `model.agents`) -/
theorem classAgents_members (cfg : Cfg) (sn : Snap) (T : Nat) (hA : cfg.isAgentClass T = true)
    (hrefl : ∀ c, cfg.isSub c c = true)
    (hq : (∀ a ∈ sn.agents, cfg.isSub a.ty T = true → a.ty = T) ∨ (∀ a ∈ sn.agents, a.ty ≠ T)) :
    classAgents cfg sn T = some (if sn.agents.any (fun a => a.ty == T)
      then byCreation (sn.agents.filter fun a => cfg.isSub a.ty T) else sn.agents.filter fun a => cfg.isSub a.ty T) := by
  unfold classAgents
  by_cases ha : sn.agents.any (fun a => a.ty == T) = true
  · rcases hq with hq | hq
    · simp only [ha, if_true, Option.some.injEq]
      congr 1
      apply List.filter_congr
      intro a hm
      by_cases hs : cfg.isSub a.ty T = true
      · simp [hq a hm hs, hrefl]
      · have : a.ty ≠ T := fun e => hs (e ▸ hrefl _)
        simp [hs, this]
    · obtain ⟨a, hm, ht⟩ := List.any_eq_true.mp ha
      exact absurd (by simpa using ht) (hq a hm)
  · simp [ha, hA]

/-! ### the order of `model.agents`: creation order until it is reordered in place -/

/-- ids strictly ascending = creation order -/
def IdSorted (l : List AgentS) : Prop := l.Pairwise fun a b => a.id < b.id

theorem byCreation_of_idSorted {l : List AgentS} (h : IdSorted l) : byCreation l = l := by
  unfold byCreation
  apply sortStable_of_pairwise
  exact h.imp (fun hab => by simp; omega)

theorem byCreation_sorted (l : List AgentS) : (byCreation l).Pairwise fun a b => a.id ≤ b.id := by
  unfold byCreation
  have := sortStable_pairwise (le := fun (x y : AgentS) => decide (x.id ≤ y.id))
    (fun a b c hab hbc => by simp at *; omega) (fun a b => by simp; omega) l
  exact this.imp (fun h => by simpa using h)

def noReorder : Op → Bool
  | .reorder _ => false
  | _ => true

/-- every registered agent has an id below `nextId`, no two share one -/
def IdsInv (s : State) : Prop := (s.agents.map (·.id)).Nodup ∧ ∀ a ∈ s.agents, a.id < s.nextId

theorem updAgent_ids (id : Nat) (f : AgentS → AgentS) (hf : ∀ a, (f a).id = a.id) (l : List AgentS) :
    (updAgent id f l).map (·.id) = l.map (·.id) := by
  induction l with
  | nil => rfl
  | cons x xs ih =>
    simp only [updAgent, List.map_cons] at *
    rw [ih]
    split <;> simp [hf]

theorem apply_idsInv (cfg : Cfg) (s : State) (op : Op) (h : IdsInv s) : IdsInv (apply cfg s op).1 := by
  obtain ⟨hnd, hlt⟩ := h
  have hlt' : ∀ i ∈ s.agents.map (·.id), i < s.nextId := by
    intro i hi; obtain ⟨a, ha, rfl⟩ := List.mem_map.mp hi; exact hlt a ha
  have key : ∀ (l : List AgentS) (n : Nat), (l.map (·.id)).Nodup → (∀ i ∈ l.map (·.id), i < n) →
      (l.map (·.id)).Nodup ∧ ∀ a ∈ l, a.id < n :=
    fun l n h1 h2 => ⟨h1, fun a ha => h2 _ (List.mem_map.mpr ⟨a, ha, rfl⟩)⟩
  unfold IdsInv
  cases op <;> simp only [apply]
  case create ty attrs =>
    refine ⟨?_, ?_⟩
    · simp only [List.map_append, List.map_cons, List.map_nil]
      rw [List.nodup_append]
      refine ⟨hnd, by simp, ?_⟩
      intro a ha b hb
      simp only [List.mem_singleton] at hb
      subst hb
      have := hlt' a ha
      omega
    · intro a ha
      simp only [List.mem_append, List.mem_singleton] at ha
      rcases ha with ha | ha
      · have := hlt a ha; omega
      · subst ha; simp
  case remove id =>
    refine ⟨?_, fun a ha => hlt a (List.mem_filter.mp ha).1⟩
    exact (List.filter_sublist.map _).nodup hnd
  case step => exact ⟨hnd, hlt⟩
  case mset => exact ⟨hnd, hlt⟩
  case mapp => split <;> exact ⟨hnd, hlt⟩
  case mdel => split <;> exact ⟨hnd, hlt⟩
  case aset id a v =>
    have e := updAgent_ids id (fun ag : AgentS => { ag with attrs := setKey a v ag.attrs }) (fun _ => rfl) s.agents
    apply key
    · rw [e]; exact hnd
    · rw [e]; exact hlt'
  case adel id a =>
    have e := updAgent_ids id (fun ag : AgentS => { ag with attrs := delKey a ag.attrs }) (fun _ => rfl) s.agents
    apply key
    · rw [e]; exact hnd
    · rw [e]; exact hlt'
  case collect =>
    rw [(collect_frame cfg s).1, (collect_frame cfg s).2.2.2.2.2.2]; exact ⟨hnd, hlt⟩
  case row =>
    unfold addTableRow
    split
    · exact ⟨hnd, hlt⟩
    · split <;> exact ⟨hnd, hlt⟩
  case stopAt => exact ⟨hnd, hlt⟩
  case reorder k =>
    have hp := reorderList_perm k s.agents
    exact ⟨(hp.map _).nodup_iff.mpr hnd, fun a ha => hlt a (hp.mem_iff.mp ha)⟩

theorem run_idsInv (cfg : Cfg) (s : State) (ops : List Op) (h : IdsInv s) : IdsInv (run cfg s ops) := by
  induction ops generalizing s with
  | nil => exact h
  | cons op ops ih => exact ih _ (apply_idsInv cfg s op h)

/-- without an in-place reordering `model.agents` stays in creation order -/
theorem apply_idSorted (cfg : Cfg) (s : State) (op : Op) (hop : noReorder op = true)
    (h : IdSorted s.agents ∧ ∀ a ∈ s.agents, a.id < s.nextId) :
    IdSorted (apply cfg s op).1.agents ∧ ∀ a ∈ (apply cfg s op).1.agents, a.id < (apply cfg s op).1.nextId := by
  obtain ⟨hs, hlt⟩ := h
  have upd : ∀ (id : Nat) (f : AgentS → AgentS), (∀ a, (f a).id = a.id) →
      IdSorted (updAgent id f s.agents) ∧ ∀ a ∈ updAgent id f s.agents, a.id < s.nextId := by
    intro id f hf
    have hid : ∀ a : AgentS, (if a.id = id then f a else a).id = a.id := by
      intro a; split <;> simp [hf]
    refine ⟨?_, ?_⟩
    · unfold IdSorted updAgent
      rw [List.pairwise_map]
      exact hs.imp (fun hab => by rw [hid, hid]; exact hab)
    · intro a ha
      obtain ⟨b, hb, rfl⟩ := List.mem_map.mp ha
      rw [hid]; exact hlt b hb
  cases op <;> simp only [apply]
  case create ty attrs =>
    refine ⟨?_, ?_⟩
    · unfold IdSorted
      rw [List.pairwise_append]
      refine ⟨hs, by simp, ?_⟩
      intro a ha b hb
      simp only [List.mem_singleton] at hb
      subst hb
      exact hlt a ha
    · intro a ha
      simp only [List.mem_append, List.mem_singleton] at ha
      rcases ha with ha | ha
      · have := hlt a ha; omega
      · subst ha; simp
  case remove id => exact ⟨hs.filter _, fun a ha => hlt a (List.mem_filter.mp ha).1⟩
  case step => exact ⟨hs, hlt⟩
  case mset => exact ⟨hs, hlt⟩
  case mapp => split <;> exact ⟨hs, hlt⟩
  case mdel => split <;> exact ⟨hs, hlt⟩
  case aset id a v => exact upd _ _ (fun _ => rfl)
  case adel id a => exact upd _ _ (fun _ => rfl)
  case collect =>
    rw [(collect_frame cfg s).1, (collect_frame cfg s).2.2.2.2.2.2]; exact ⟨hs, hlt⟩
  case row =>
    unfold addTableRow
    split
    · exact ⟨hs, hlt⟩
    · split <;> exact ⟨hs, hlt⟩
  case stopAt => exact ⟨hs, hlt⟩
  case reorder k => simp [noReorder] at hop

theorem run_idSorted (cfg : Cfg) (s : State) (ops : List Op) (hops : ∀ op ∈ ops, noReorder op = true)
    (h : IdSorted s.agents ∧ ∀ a ∈ s.agents, a.id < s.nextId) :
    IdSorted (run cfg s ops).agents := by
  induction ops generalizing s with
  | nil => exact h.1
  | cons op ops ih =>
    exact ih _ (fun o ho => hops o (by simp [ho])) (apply_idSorted cfg s op (hops op (by simp)) h)

/-! ### raising reporters: what one collect leaves, and the shapes `model_vars` can take -/

theorem passes_iff (r : MRep) (sn : Snap) : r.passes sn = true ↔ r.exc sn = none := by
  simp [MRep.passes]

theorem firstExc_none_iff (l : List MRep) (sn : Snap) : firstExc l sn = none ↔ ∀ r ∈ l, r.passes sn = true := by
  simp [firstExc, List.findSome?_eq_none_iff, passes_iff]

theorem mOk_iff (cfg : Cfg) (sn : Snap) : mOk cfg sn = true ↔ ∀ r ∈ cfg.mreps, r.passes sn = true := by
  simp [mOk, firstExc_none_iff]

/-- the reporters that return before the first one that raises -/
def passCount (l : List MRep) (sn : Snap) : Nat := (l.takeWhile (·.passes sn)).length

/-- the loop over the model reporters on any columns of the right number: the columns of the reporters before
    the first raising one get that reporter's value appended, the others are untouched -/
theorem mLoop_spec (sn : Snap) (l : List MRep) (cols : List (List Val)) (hl : cols.length = l.length) :
    (mLoop sn l cols).1 =
      List.zipWith (fun col r => col ++ [r.eval sn]) (cols.take (passCount l sn)) (l.take (passCount l sn)) ++
        cols.drop (passCount l sn) ∧
    (mLoop sn l cols).2 = firstExc l sn := by
  induction l generalizing cols with
  | nil => cases cols <;> simp [mLoop, passCount, firstExc]
  | cons r rs ih =>
    cases cols with
    | nil => simp at hl
    | cons c cs =>
      simp only [List.length_cons, Nat.add_right_cancel_iff] at hl
      rw [firstExc_cons]
      simp only [mLoop, passCount, List.takeWhile_cons]
      cases hr : r.run sn with
      | error e =>
        have hp : r.passes sn = false := by simp [MRep.passes, MRep.exc, hr, excOf]
        have he : r.exc sn = some e := by simp [MRep.exc, hr, excOf]
        simp [hp, he]
      | ok v =>
        have hp : r.passes sn = true := by simp [MRep.passes, MRep.exc, hr, excOf]
        have he : r.exc sn = none := by simp [MRep.exc, hr, excOf]
        have hv : r.eval sn = v := by simp [MRep.eval, hr, valOf]
        obtain ⟨i1, i2⟩ := ih cs hl
        simp only [passCount] at i1
        simp [hp, he, hv, i1, i2]

/-- the column of the `k`-th reporter: its value at the collects at which reporters `0..k` all returned -/
theorem colsOf_getElem (l : List MRep) (snaps : List Snap) (k : Nat) :
    (colsOf l snaps)[k]? =
      l[k]?.map fun r => (snaps.filter fun sn => (l.take (k + 1)).all (·.passes sn)).map r.eval := by
  induction l generalizing snaps k with
  | nil => simp [colsOf]
  | cons r rs ih =>
    cases k with
    | zero => simp [colsOf]
    | succ k =>
      simp only [colsOf, List.getElem?_cons_succ, ih, List.filter_filter, List.take_succ_cons, List.all_cons]
      congr 1
      funext r'
      congr 1
      apply List.filter_congr
      intro sn _
      exact Bool.and_comm _ _

/-- where every reporter returns at every collect, the columns are plain maps -/
theorem colsOf_all_pass (l : List MRep) (snaps : List Snap) (h : ∀ sn ∈ snaps, ∀ r ∈ l, r.passes sn = true) :
    colsOf l snaps = l.map fun r => snaps.map r.eval := by
  induction l generalizing snaps with
  | nil => rfl
  | cons r rs ih =>
    have hp : snaps.filter r.passes = snaps := by
      rw [List.filter_eq_self]
      intro sn hsn
      exact h sn hsn r (by simp)
    simp only [colsOf, hp, List.map_cons]
    rw [ih snaps (fun sn hsn r' hr' => h sn hsn r' (by simp [hr']))]

/-- a collect at which some reporter raised leaves a column shorter than the number of collects -/
theorem colsOf_short (l : List MRep) (snaps : List Snap) (h : ∃ sn ∈ snaps, ∃ r ∈ l, r.passes sn = false) :
    ∃ col ∈ colsOf l snaps, col.length < snaps.length := by
  induction l generalizing snaps with
  | nil => obtain ⟨_, _, _, hr, _⟩ := h; simp at hr
  | cons r rs ih =>
    obtain ⟨sn, hsn, r', hr', hp⟩ := h
    by_cases hr0 : r.passes sn = true
    · have hr'' : r' ∈ rs := by
        rcases List.mem_cons.mp hr' with rfl | h
        · rw [hr0] at hp; cases hp
        · exact h
      obtain ⟨col, hc, hlt⟩ := ih (snaps.filter r.passes) ⟨sn, List.mem_filter.mpr ⟨hsn, hr0⟩, r', hr'', hp⟩
      refine ⟨col, by simp [colsOf, hc], Nat.lt_of_lt_of_le hlt (List.length_filter_le _ _)⟩
    · refine ⟨(snaps.filter r.passes).map r.eval, by simp [colsOf], ?_⟩
      rw [List.length_map]
      exact List.length_filter_lt_length_iff_exists.mpr ⟨sn, hsn, hr0⟩

theorem rect_ragged (c : List Val) (rest : List (List Val)) (h : ∃ col ∈ rest, col.length < c.length) :
    rect (c :: rest) = none := by
  obtain ⟨col, hc, hlt⟩ := h
  have : rest.all (fun x => x.length == c.length) = false := by
    rw [List.all_eq_false]
    exact ⟨col, hc, by simp; omega⟩
  simp [rect, this]

theorem mLoop_snd_none (sn : Snap) (l : List MRep) (cols : List (List Val)) (h : ∀ r ∈ l, r.exc sn = none) :
    (mLoop sn l cols).2 = none := by
  induction l generalizing cols with
  | nil => cases cols <;> rfl
  | cons r rs ih =>
    cases cols with
    | nil => rfl
    | cons c cs =>
      have he := h r (by simp)
      simp only [mLoop]
      cases hr : r.run sn with
      | error e => simp [MRep.exc, hr, excOf] at he
      | ok v => exact ih cs (fun r' hr' => h r' (by simp [hr']))

theorem storedSnaps_append (cfg : Cfg) (s : State) (ops₁ ops₂ : List Op) :
    storedSnaps cfg s (ops₁ ++ ops₂) = storedSnaps cfg s ops₁ ++ storedSnaps cfg (run cfg s ops₁) ops₂ := by
  induction ops₁ generalizing s with
  | nil => rfl
  | cons op rest ih => simp [storedSnaps, run, ih, List.append_assoc]

end Mesa.Collect
